#!/usr/bin/env python3
"""tools/integrate.py <sandbox name> <property id>... : bring a builder sandbox (/tmp/ag/<name>) into /verif
and /repo: cherry-pick its fix commits, copy its new files, register driver handlers / imports / claims /
findings.  Prints what it did; review before committing."""
import filecmp, os, re, shutil, subprocess, sys
from pathlib import Path

name, ids = sys.argv[1], sys.argv[2:]
SB = Path(f"/tmp/ag/{name}/verif")
WT = f"/tmp/ag/{name}/repo"
V = Path("/verif")


def sh(cmd, **kw):
    p = subprocess.run(cmd, capture_output=True, text=True, **kw)
    return p.returncode, (p.stdout + p.stderr).strip()


# 1. cherry-pick
rc, out = sh(["git", "-C", WT, "log", "--reverse", "--format=%H %s", f"main..ag-{name}"])
commits = [l.split(" ", 1) for l in out.splitlines() if l.strip()]
mapping = {}
for h, subj in commits:
    rc, o = sh(["git", "-C", "/repo", "log", "--format=%s", "-n", "60"])
    if subj in o.splitlines():
        print("already on main:", subj[:80])
        rc, nh = sh(["git", "-C", "/repo", "log", "--format=%h", "--grep", re.escape(subj[:60]), "-n", "1"])
        mapping[h[:7]] = nh.strip()
        continue
    rc, o = sh(["git", "-C", "/repo", "cherry-pick", h])
    if rc != 0:
        print("CHERRY-PICK FAILED for", h[:7], subj[:80], "\n", o[-600:])
        sys.exit(1)
    rc, nh = sh(["git", "-C", "/repo", "rev-parse", "--short", "HEAD"])
    mapping[h[:7]] = nh.strip()
    print("picked", h[:7], "->", nh.strip(), subj[:90])

# 2. copy files
new_driver, new_mods = [], []
for sub in ("lean/VecModel/Model", "lean/VecModel/Lemmas", "lean/VecModel/Props", "lean/Driver", "harness", "corpus", "tools"):
    src = SB / sub
    if not src.exists():
        continue
    for f in sorted(src.rglob("*")):
        if f.is_dir() or "__pycache__" in f.parts:
            continue
        rel = f.relative_to(SB)
        dst = V / rel
        if dst.exists():
            if not filecmp.cmp(f, dst, shallow=False):
                base = rel.name
                if sub in ("harness", "tools") and not re.match(r"c\d+\.py", base):
                    print("  differs (shared, not copied):", rel)
                elif sub == "lean/Driver" and base in ("Main.lean", "Util.lean"):
                    print("  differs (shared, not copied):", rel)
                elif re.match(r"(C09|c09)", base) or base in ("BPE.lean", "Basic.lean", "Sparse.lean", "Heap.lean", "PyInterp.lean", "Twin.lean"):
                    pass
                else:
                    print("  differs (EXISTING, overwritten from sandbox):", rel)
                    shutil.copy2(f, dst)
            continue
        dst.parent.mkdir(parents=True, exist_ok=True)
        shutil.copy2(f, dst)
        print("  new:", rel)
        if sub == "lean/Driver":
            new_driver.append(rel.stem)
        if sub.startswith("lean/VecModel"):
            new_mods.append(".".join(rel.with_suffix("").parts[1:]))

# 3. driver handlers: every Driver/<X>.lean (except Main/Util) must be imported and listed
main = (V / "lean/Driver/Main.lean").read_text()
for f in sorted((V / "lean/Driver").glob("*.lean")):
    d = f.stem
    if d in ("Main", "Util"):
        continue
    src = f.read_text()
    m = re.search(r"namespace\s+(Driver\.\S+)", src)
    ns = m.group(1) if m else f"Driver.{d}"
    if f"import Driver.{d}\n" not in main:
        main = main.replace("import Driver.BPE\n", f"import Driver.BPE\nimport Driver.{d}\n")
        main = main.replace("  Driver.BPE.handle,\n", f"  Driver.BPE.handle,\n  {ns}.handle,\n")
        print("  registered handler", ns)
(V / "lean/Driver/Main.lean").write_text(main)

# 4. root imports: every module under lean/VecModel
root = (V / "lean/VecModel.lean").read_text()
for sub in ("Model", "Lemmas", "Props"):
    for f in sorted((V / "lean/VecModel" / sub).glob("*.lean")):
        m = f"VecModel.{sub}.{f.stem}"
        if f"import {m}\n" not in root:
            root += f"import {m}\n"
            print("  root import", m)
(V / "lean/VecModel.lean").write_text(root)

# 5. claims
if ids:
    rc, o = sh([sys.executable, str(V / "tools/export_claim.py"), str(SB)] + ids)
    print(o)

# 6. findings
mine = (V / "KNOWN_FINDINGS.txt").read_text()
theirs = (SB / "KNOWN_FINDINGS.txt").read_text().splitlines()
base = (Path("/tmp/ag") / name / "verif" / "KNOWN_FINDINGS.txt")
add = []
for line in theirs:
    if not line.startswith(("fixed:", "known:")):
        continue
    for old, new in mapping.items():
        line = line.replace(old, new)
    key = line.split(" ", 3)[:3]
    m1 = re.match(r"(fixed|known): property=(\S+) (\S+)", line)
    sig = m1.group(0) if m1 else line[:60]
    if sig in mine or line in mine:
        continue
    # entries of the common base (C09 etc.) are already there under (possibly) other hashes
    if m1 and m1.group(2) in ("C09",) and "bpe" in line.lower():
        continue
    add.append(line)
if add:
    with open(V / "KNOWN_FINDINGS.txt", "a") as fh:
        for l in add:
            fh.write(l + "\n")
            print("  finding:", l[:140])
print("hash mapping:", mapping)
