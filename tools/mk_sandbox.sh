#!/bin/sh
# tools/mk_sandbox.sh <name>: private copy of /verif (with its Lean build) + a scratch git
# worktree of /repo under /tmp/ag/<name>, for building one property without disturbing others.
set -e
n="$1"; d="/tmp/ag/$n"
mkdir -p "$d"
git -C /repo worktree add -q "$d/repo" -b "ag-$n" HEAD
rsync -a --exclude .git --exclude replays --exclude evidence /verif/ "$d/verif/"
mkdir -p "$d/verif/evidence"
echo "$d/repo" > "$d/verif/.repo_path"
echo "$d"
