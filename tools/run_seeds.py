#!/usr/bin/env python3
"""tools/run_seeds.py <id> <test selector args...>: for every delivered mutation /tmp/seed/<id>_out/m*:
copy to /verif/seeded/<id>-m<i>/, confirm it independently in the seed worktree (tools/confirm_seed.py),
apply it to /repo, run ./check <id> (quick; also listed extra checks via SEED_ALSO=C01,C02), undo, record."""
import glob, json, os, shutil, subprocess, sys
pid, tests = sys.argv[1], sys.argv[2:]
V = os.environ.get("VERIF_ROOT", "/verif")
R = os.environ.get("SEED_REPO", "/repo")
also = [x for x in os.environ.get("SEED_ALSO", "").split(",") if x]
wt = f"/tmp/seed/{pid}"
for d in sorted(glob.glob(f"/tmp/seed/{pid}_out/m*")):
    i = os.path.basename(d)
    dst = f"{V}/seeded/{pid}-{i}"
    os.makedirs(dst, exist_ok=True)
    for f in ("patch.diff", "demo.py", "notes.md"):
        if os.path.exists(os.path.join(d, f)):
            shutil.copy2(os.path.join(d, f), dst)
    subprocess.run([sys.executable, f"{V}/tools/confirm_seed.py", dst, wt, pid] + tests)
    meta = json.load(open(f"{dst}/meta.json"))
    if not meta.get("confirmed"):
        print(dst, "not confirmed; skipped")
        continue
    rc = subprocess.run(["git", "-C", R, "apply", f"{dst}/patch.diff"]).returncode
    if rc != 0:
        meta["check_result"] = "patch does not apply to /repo"
        json.dump(meta, open(f"{dst}/meta.json", "w"), indent=1)
        print(dst, "patch does not apply")
        continue
    results = {}
    # evidence files must describe clean-tree runs only: keep them aside while a seeded change is applied
    saved = {c: open(f"{V}/evidence/{c}.json").read() for c in [pid] + also if os.path.exists(f"{V}/evidence/{c}.json")}
    try:
        for c in [pid] + also:
            p = subprocess.run([f"{V}/check", c], capture_output=True, text=True, cwd=V)
            lines = [l for l in p.stdout.splitlines() if l.startswith("VIOLATION") or l.startswith(c + " quick")]
            keys = []
            for l in lines:
                if l.startswith("VIOLATION") and "replay=" in l:
                    rp = l.split("replay=")[1].split()[0]
                    try:
                        keys.append(json.load(open(rp)).get("key") or "no-failing-input-found")
                    except Exception:
                        pass
            results[c] = {"exit": p.returncode, "violation_lines": len([l for l in lines if l.startswith("VIOLATION")]),
                          "keys": keys[:8], "summary": lines[-1][:300] if lines else p.stdout[-300:] + p.stderr[-300:]}
    finally:
        subprocess.run(["git", "-C", R, "checkout", "--", "."])
        for c, txt in saved.items():
            open(f"{V}/evidence/{c}.json", "w").write(txt)
        subprocess.run([sys.executable, f"{V}/tools/py2lean.py", R, f"{V}/lean/Gen/Kernels.lean"], capture_output=True)
    meta["check_runs"] = results
    meta["check_result"] = "caught" if any(r["exit"] == 1 for r in results.values()) else "MISSED"
    meta["check_cmd"] = f"git -C /repo apply seeded/{pid}-{i}/patch.diff && ./check {pid}; git -C /repo checkout -- ."
    json.dump(meta, open(f"{dst}/meta.json", "w"), indent=1)
    print(dst, meta["check_result"], {c: (r["exit"], r["keys"][:3]) for c, r in results.items()})
