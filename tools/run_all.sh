#!/bin/sh
# tools/run_all.sh [tier] : every claimed check on the current tree, sequentially; summary lines to stdout
cd /verif || exit 2
tier="${1:-quick}"
for p in $(python3 -c "import json;print(' '.join(c['property_id'] for c in json.load(open('MANIFEST.json'))['checks']))"); do
  out=$(./check "$p" --tier "$tier" 2>&1); rc=$?
  echo "$p rc=$rc $(echo "$out" | grep -E "^$p (quick|thorough)" | tail -1)"
  echo "$out" | grep -E "^VIOLATION|^TOOL" | head -5
done
