#!/usr/bin/env python3
"""tools/design_tables.py: refresh the generated tables of DESIGN.md §11 (between <!-- X-begin --> / <!-- X-end -->
markers; the first run inserts the markers around the existing tables)."""
import glob, json, os, re, sys
sys.path.insert(0, "/verif")
from harness import core

def seeded():
    rows = ["| seeded change | what it needs to manifest (abridged) | result | caught by |", "|---|---|---|---|"]
    for d in sorted(glob.glob("/verif/seeded/*/meta.json")):
        m = json.load(open(d)); k = os.path.basename(os.path.dirname(d))
        npath = os.path.join(os.path.dirname(d), "notes.md")
        notes = open(npath).read() if os.path.exists(npath) else ""
        first = re.sub(r"\s+", " ", notes.strip().split("\n\n")[0])[:140].replace("|", "/")
        keys = ", ".join(sorted({kk for r in m.get("check_runs", {}).values() for kk in r["keys"][:2]}))[:110]
        cb = re.sub(r"\s+", " ", (m.get("caught_by") or keys))[:230].replace("|", "/")
        rows.append(f"| {k} | {first} | {m.get('check_result')} | {cb} |")
    return "\n".join(rows)

def props():
    modelmap = {"C01": "Sparse (+ Ngram, Skipgram, EdgeList, LZ, BPE)", "C02": "Sparse (assignRows), BPE, LZ", "C03": "Window, Cooc", "C04": "Coo",
                "C05": "Vocab", "C06": "CountsBase, Ngram, Skipgram, EdgeList", "C07": "OT", "C08": "OT", "C09": "BPE",
                "C10": "EM, BPE, Coo, Distances, Sliding (+ twins)", "C11": "EM", "C12": "Sparse (+ Ngram, LZ, BPE)", "C13": "Heap",
                "C14": "Preprocess, Window, Cooc", "C15": "Tree (+ Cooc: path link)", "C16": "LZ", "C17": "Analytic, InfoWeight",
                "C18": "Analytic, Distances", "C19": "Sliding", "C20": "Histogram"}
    out = ["| id | theorems (Props/Cxx.lean) | model files | harness | evidence |", "|---|---|---|---|---|"]
    tot = 0
    for i in range(1, 21):
        pid = f"C{i:02d}"
        n = len(core.theorems_of(f"/verif/lean/VecModel/Props/{pid}.lean")); tot += n
        out.append(f"| {pid} | {n} | {modelmap[pid]} | harness/{pid.lower()}.py | evidence/{pid}.json |")
    out.append(f"| total | {tot} | | | |")
    return "\n".join(out)

def fixes():
    rows = ["| commit | property | what failed (abridged) |", "|---|---|---|"]
    seen = set()
    for l in open("/verif/KNOWN_FINDINGS.txt"):
        m = re.match(r"fixed: property=(\S+) (\S+) (.*)", l.strip())
        if not m or m.group(2) in seen:
            continue
        seen.add(m.group(2))
        rows.append(f"| {m.group(2)} | {m.group(1)} | {m.group(3)[:200].replace('|', '/')} |")
    return "\n".join(rows)

s = open("/verif/DESIGN.md").read()
for name, gen, header in (("props", props, "| id | theorems (Props/Cxx.lean)"), ("fixes", fixes, "| commit | property |"), ("seeded", seeded, "| seeded change |")):
    b, e = f"<!-- {name}-begin -->", f"<!-- {name}-end -->"
    if b not in s:
        i = s.index(header)
        j = i
        while True:
            nl = s.find("\n", j)
            if nl < 0 or not s[nl + 1:nl + 2] == "|":
                j = nl if nl >= 0 else len(s)
                break
            j = nl + 1
        s = s[:i] + b + "\n" + s[i:j] + "\n" + e + s[j:]
    i, j = s.index(b) + len(b), s.index(e)
    s = s[:i] + "\n" + gen() + "\n" + s[j:]
open("/verif/DESIGN.md", "w").write(s)
print("tables refreshed")
