#!/usr/bin/env python3
"""tools/export_claim.py <sandbox verif dir> <id>... : write harness/claims/<id>.json from a sandbox's registry.py"""
import importlib.util, json, sys
sb, ids = sys.argv[1], sys.argv[2:]
spec = importlib.util.spec_from_file_location("reg", sb + "/harness/registry.py")
m = importlib.util.module_from_spec(spec); spec.loader.exec_module(m)
for i in ids:
    json.dump(m.CLAIMED[i], open(f"/verif/harness/claims/{i}.json", "w"), indent=1)
    print("exported", i)
