#!/usr/bin/env python3
"""tools/seed_prompt.py <id> <n> : prompt text for a seeding sub-agent (property text only, nothing from /verif)"""
import json, sys
pid, n = sys.argv[1], int(sys.argv[2])
ROUND2 = len(sys.argv) > 3 and sys.argv[3] == "round2"
d = next(json.loads(l) for l in open("/verif/properties.jsonl") if json.loads(l)["id"] == pid)
files = ", ".join(d["anchors"]["files"])
tests = {"C05": "vectorizers/tests/test_common.py -k \"token or ngram or prune or dictionary\"",
         "C06": "vectorizers/tests/test_common.py vectorizers/tests/test_edge_list_vectorizer.py -k \"ngram or skip or edge\"",
         "C07": "vectorizers/tests/test_common.py -k \"wasserstein_vectorizer_basic or lot\"",
         "C08": "vectorizers/tests/test_common.py -k \"wasserstein_vectorizer_basic or wasserstein_vectorizer_lil or sinkhorn\"",
         "C15": "vectorizers/tests/test_common.py -k \"tree or Tree\"",
         "C17": "vectorizers/tests/test_transformers.py -k \"iw or info or weight\"",
         "C18": "vectorizers/tests/test_distances.py",
         "C20": "vectorizers/tests/test_common.py -k \"histogram or kde or Histogram or KDE\"",
         "C03": "vectorizers/tests/test_common.py -k \"ooccurrence\"",
         "C14": "vectorizers/tests/test_common.py -k \"mask or ooccurrence or ngram\"",
         "C04": "vectorizers/tests/test_common.py -k \"ooccurrence\"",
         "C10": "vectorizers/tests/test_common.py -k \"ooccurrence or bpe\" vectorizers/tests/test_transformers.py vectorizers/tests/test_distances.py",
         "C11": "vectorizers/tests/test_common.py -k \"ooccurrence or em or iter\"",
         "C16": "vectorizers/tests/test_common.py -k \"lz or LZ or compression\"",
         "C19": "vectorizers/tests/test_transformers.py -k \"sliding or Sliding or difference\"",
         "C01": "vectorizers/tests/test_common.py vectorizers/tests/test_edge_list_vectorizer.py vectorizers/tests/test_bpe.py (deselect the slow Wasserstein tests with -k \"not asserstein and not inkhorn\" unless you touch that code)",
         "C02": "vectorizers/tests/test_common.py vectorizers/tests/test_transformers.py vectorizers/tests/test_bpe.py (deselect the slow Wasserstein tests with -k \"not asserstein and not inkhorn\" unless you touch that code)",
         "C12": "vectorizers/tests/test_common.py vectorizers/tests/test_transformers.py vectorizers/tests/test_bpe.py (deselect the slow Wasserstein tests with -k \"not asserstein and not inkhorn\" unless you touch that code)",
         "C13": "vectorizers/tests/test_common.py vectorizers/tests/test_transformers.py (deselect the slow Wasserstein tests with -k \"not asserstein and not inkhorn\" unless you touch that code)",
         }.get(pid, "the test files that exercise the code you change")
print(f"""You are testing how robust a Python library's test suite is. The library is TutteInstitute/vectorizers (scikit-learn-style vectorizers with numba kernels). Your private git worktree of it is /tmp/seed/{pid} (branch seed-{pid}). Work ONLY inside /tmp/seed/{pid} (and scratch/output files under /tmp/seed/{pid}_out/); do not read or touch /verif, /repo or any other directory under /tmp. No network. Python: /venv/bin/python; to make imports resolve to your worktree run everything as `cd /tmp/seed/{pid} && PYTHONPATH=/tmp/seed/{pid} NUMBA_NUM_THREADS=4 /venv/bin/python ...` (check with `python -c "import vectorizers; print(vectorizers.__file__)"`). The machine is shared and loaded: numba compilation takes 20-60 s per process, be patient, and never run the whole test suite — run only the relevant existing tests: `PYTHONPATH=/tmp/seed/{pid} NUMBA_NUM_THREADS=4 /venv/bin/python -m pytest -q -p no:cacheprovider {tests}` (two Wasserstein `bad_params[lil-LOT_exact-*]` tests fail on the unmodified tree; ignore them).

Here is a semantic property the library is supposed to satisfy:

TITLE: {d['title']}
STATEMENT: {d['statement']}
QUANTIFIED OVER: {d['quantifier']['text']}
The code involved lives (mostly) in: {files}

YOUR TASK: produce {n} different, independent source changes (mutations) to the library, each of which BREAKS this property while the library still imports/compiles and the relevant existing tests still pass. Each change should be realistic (the kind of slip a maintainer could make in a refactor or an "optimisation": an off-by-one, a dropped branch or argument, a wrong variable, a changed comparison, a reordering, a missing update of bookkeeping, a narrower dtype, two sites that each look fine alone) and SUBTLE: it must need something specific to manifest — an unusual input, a particular parameter combination, a particular size/threshold, a multi-step sequence of calls, a particular batch composition — not something any ordinary use would expose at once. Make the changes differ in which clause of the property they break and in where in the code they are.

{("This is a SECOND round: an earlier round already produced the obvious single-site slips (off-by-one, dropped argument, changed comparison, dropped copy). Go for different kinds now: two cooperating sites that each look fine alone; state carried from one call to a later call (history-dependent); behaviour that depends on which internal path a size / threshold / dtype selects; error paths and what is left behind after an exception; interaction of two parameters; narrowing of an integer or float type; reuse of a cached / shared object. " if ROUND2 else "")}For each mutation i = {("4..5" if ROUND2 else "1.."+str(n))} deliver, under /tmp/seed/{pid}_out/m<i>/{(" (name the two directories m4 and m5)" if ROUND2 else "")}:
 - patch.diff : `git diff` of the change against the worktree's HEAD (apply-able with `git apply` at the repo root); make each mutation separately from a clean tree (`git checkout -- .` between them);
 - demo.py : a small standalone program (public API or module functions only) that exits 0 and prints PASS on the unmodified tree and exits 1 / prints FAIL with the mutation applied, demonstrating the property violation (say in a comment which clause is violated);
 - notes.md : what the change is, why the existing tests don't notice, and what specific input/sequence/configuration is needed for it to manifest.
Verify all of this yourself: for each mutation, (a) clean tree: demo passes; (b) mutation applied: the relevant existing tests still pass and the demo fails. Leave the worktree clean (`git checkout -- .`) at the end. Finish with a short summary (one paragraph per mutation) including the exact test command you ran and its outcome.""")
