#!/usr/bin/env python3
"""tools/recheck_seed.py <Cxx-mi> [Cyy ...]: apply /verif/seeded/<Cxx-mi>/patch.diff to SEED_REPO (default /repo), run
./check Cxx (and the listed sibling checks) from VERIF_ROOT (default /verif), undo, and record the outcome in the
seed's meta.json (in /verif/seeded, whatever VERIF_ROOT is).  Evidence files are put back afterwards."""
import json, os, subprocess, sys
name, also = sys.argv[1], sys.argv[2:]
pid = name.split("-")[0]
V = os.environ.get("VERIF_ROOT", "/verif")
R = os.environ.get("SEED_REPO", "/repo")
dst = f"/verif/seeded/{name}"
meta = json.load(open(f"{dst}/meta.json"))
first = meta.get("check_result")
if subprocess.run(["git", "-C", R, "apply", f"{dst}/patch.diff"]).returncode != 0:
    sys.exit(f"{name}: patch does not apply")
checks = [pid] + also
saved = {c: open(f"{V}/evidence/{c}.json").read() for c in checks if os.path.exists(f"{V}/evidence/{c}.json")}
results = {}
try:
    for c in checks:
        p = subprocess.run([f"{V}/check", c], capture_output=True, text=True, cwd=V)
        lines = [l for l in p.stdout.splitlines() if l.startswith("VIOLATION") or l.startswith(c + " quick")]
        keys = []
        for l in lines:
            if l.startswith("VIOLATION") and "replay=" in l:
                rp = l.split("replay=")[1].split()[0]
                try:
                    keys.append(json.load(open(rp if os.path.isabs(rp) else os.path.join(V, rp))).get("key") or "no-failing-input-found")
                except Exception:
                    pass
        results[c] = {"exit": p.returncode, "violation_lines": len([l for l in lines if l.startswith("VIOLATION")]),
                      "keys": keys[:8], "summary": lines[-1][:300] if lines else p.stdout[-300:] + p.stderr[-300:]}
finally:
    subprocess.run(["git", "-C", R, "checkout", "--", "."])
    for c, txt in saved.items():
        open(f"{V}/evidence/{c}.json", "w").write(txt)
    subprocess.run([sys.executable, f"{V}/tools/py2lean.py", R, f"{V}/lean/Gen/Kernels.lean"], capture_output=True)
caught = any(r["exit"] == 1 for r in results.values())
was_missed = first == "MISSED" or meta.get("first_run") == "MISSED"
if was_missed:
    meta["first_run"] = "MISSED"
meta["check_runs"] = results
keys = "; ".join(f"{c}: {', '.join(r['keys'][:3])}" for c, r in results.items() if r["exit"] == 1)
if caught:
    meta["check_result"] = "caught after strengthening" if was_missed else "caught"
    note = os.environ.get("SEED_NOTE", "")
    meta["caught_by"] = (f"missed at first ({note}); now " if was_missed else "") + keys
else:
    meta["check_result"] = "MISSED"
meta["check_cmd"] = "git -C /repo apply seeded/%s/patch.diff && %s; git -C /repo checkout -- ." % (name, " ; ".join(f"./check {c}" for c in checks))
json.dump(meta, open(f"{dst}/meta.json", "w"), indent=1)
print(name, meta["check_result"], {c: (r["exit"], r["keys"][:3]) for c, r in results.items()})
