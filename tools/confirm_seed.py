#!/usr/bin/env python3
"""tools/confirm_seed.py <seed-dir> <worktree> <property> <test-selector...>
Confirms a seeded change independently: demo passes on the clean worktree, the existing tests named
still pass with the patch applied, the demo fails with the patch applied.  Writes <seed-dir>/meta.json
(merging `needs` from notes.md's first paragraph)."""
import json, os, subprocess, sys
seed, wt, prop = sys.argv[1], sys.argv[2], sys.argv[3]
tests = sys.argv[4:]
env = dict(os.environ, PYTHONPATH=wt, NUMBA_NUM_THREADS="4", PYTHONWARNINGS="ignore")
def run(cmd, **kw):
    p = subprocess.run(cmd, cwd=wt, env=env, capture_output=True, text=True, **kw)
    return p.returncode, (p.stdout + p.stderr)[-600:]
patch = os.path.abspath(os.path.join(seed, "patch.diff"))
demo = os.path.abspath(os.path.join(seed, "demo.py"))
run(["git", "checkout", "--", "."])
rc_clean, out_clean = run(["/venv/bin/python", demo])
rc_apply, out_apply = run(["git", "apply", patch])
rc_tests, out_tests = run(["/venv/bin/python", "-m", "pytest", "-q", "-p", "no:cacheprovider", "-x"] + tests)
rc_mut, out_mut = run(["/venv/bin/python", demo])
run(["git", "checkout", "--", "."])
ok = rc_clean == 0 and rc_apply == 0 and rc_tests == 0 and rc_mut != 0
meta = {"property": prop, "confirmed": ok,
        "ran": {"demo_clean_rc": rc_clean, "apply_rc": rc_apply, "tests": tests, "tests_rc": rc_tests,
                "tests_tail": out_tests[-200:], "demo_mutated_rc": rc_mut, "demo_mutated_tail": out_mut[-300:]},
        "needs": open(os.path.join(seed, "notes.md")).read()[:1500] if os.path.exists(os.path.join(seed, "notes.md")) else ""}
mp = os.path.join(seed, "meta.json")
if os.path.exists(mp):
    old = json.load(open(mp)); old.update(meta); meta = old
json.dump(meta, open(mp, "w"), indent=1)
print(seed, "CONFIRMED" if ok else "NOT CONFIRMED", meta["ran"]["tests_tail"].strip().splitlines()[-1:] )
