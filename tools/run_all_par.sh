#!/bin/sh
# tools/run_all_par.sh [tier] [jobs] : every claimed check on the current tree, <jobs> at a time (default 3);
# one summary line per check, VIOLATION / TOOL lines underneath
cd /verif || exit 2
tier="${1:-quick}"; jobs="${2:-3}"
python3 -c "import json;print('\n'.join(c['property_id'] for c in json.load(open('MANIFEST.json'))['checks']))" |
xargs -P "$jobs" -I{} sh -c 'out=$(./check {} --tier '"$tier"' 2>&1); rc=$?; echo "{} rc=$rc $(echo "$out" | grep -E "^{} (quick|thorough)" | tail -1)"; echo "$out" | grep -E "^VIOLATION|^TOOL|^KNOWN" | cut -c1-200 | head -5'
