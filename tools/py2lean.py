#!/usr/bin/env python3
"""py2lean: regenerate lean/Gen/Kernels.lean from the *current* source of whitelisted kernels in
/repo.  Each kernel becomes a `VecModel.Py.FnDef` (deep embedding of its Python AST); the Lean
interpreter `VecModel.Py.callFn` gives it Python-level semantics.  A function using syntax outside
the supported subset is reported as "twin unavailable" (listed in `Gen.unavailable`), never as a
violation.  Usage: py2lean.py <repo> <out.lean>"""
import ast, sys, os, json, textwrap
from fractions import Fraction

WHITELIST = {
    "vectorizers/mixed_gram_vectorizer.py": ["contract_pair", "contract_and_count_pairs", "count_pairs",
                                             "lempel_ziv_based_encode", "identity_hash", "murmurhash", "bpe_encode"],
    "vectorizers/ngram_vectorizer.py": ["ngrams_of"],
    "vectorizers/_window_kernels.py": ["window_at_index"],
    "vectorizers/coo_utils.py": ["merge_sum_duplicates", "merge_all_sum_duplicates", "coo_sum_duplicates",
                                 "coo_increase_mem", "coo_append", "em_update_matrix", "sum_coo_entries"],
    "vectorizers/distances.py": ["arr_unique", "arr_union", "arr_intersect", "sparse_sum", "sparse_diff", "sparse_mul"],
}


class Unsupported(Exception):
    pass


def lstr(s):
    return json.dumps(s, ensure_ascii=False)


def llist(items):
    return "[" + ", ".join(items) + "]"


BINOPS = {ast.Add: "add", ast.Sub: "sub", ast.Mult: "mul", ast.Div: "div", ast.FloorDiv: "floordiv", ast.Mod: "mod",
          ast.LShift: "lshift", ast.RShift: "rshift", ast.BitAnd: "bitand", ast.BitOr: "bitor", ast.BitXor: "bitxor"}
CMPOPS = {ast.Eq: "eq", ast.NotEq: "ne", ast.Lt: "lt", ast.LtE: "le", ast.Gt: "gt", ast.GtE: "ge", ast.In: "in_", ast.NotIn: "notin"}
IGNORED_KW = {"dtype"}


class Tr:
    def __init__(self, sigs):
        self.sigs = sigs  # function name -> param list (for keyword arguments)

    def const(self, v):
        if v is True:
            return "(.const (.bool true))"
        if v is False:
            return "(.const (.bool false))"
        if v is None:
            return "(.const .none)"
        if isinstance(v, int):
            return f"(.const (.int ({v})))"
        if isinstance(v, float):
            f = Fraction(v).limit_denominator(10 ** 12) if abs(Fraction(v) - Fraction(str(v))) else Fraction(str(v))
            f = Fraction(str(v))
            return f"(.const (.rat (mkRat ({f.numerator}) {f.denominator})))"
        if isinstance(v, str):
            return f"(.const (.str {lstr(v)}))"
        raise Unsupported(f"constant {v!r}")

    def dotted(self, node):
        if isinstance(node, ast.Name):
            return node.id
        if isinstance(node, ast.Attribute):
            b = self.dotted(node.value)
            return None if b is None else b + "." + node.attr
        return None

    def expr(self, e):
        if isinstance(e, ast.Constant):
            return self.const(e.value)
        if isinstance(e, ast.Name):
            return f"(.name {lstr(e.id)})"
        if isinstance(e, ast.BinOp):
            if type(e.op) not in BINOPS:
                raise Unsupported(f"operator {type(e.op).__name__}")
            return f"(.bin .{BINOPS[type(e.op)]} {self.expr(e.left)} {self.expr(e.right)})"
        if isinstance(e, ast.UnaryOp):
            if isinstance(e.op, ast.USub):
                return f"(.neg {self.expr(e.operand)})"
            if isinstance(e.op, ast.Not):
                return f"(.not_ {self.expr(e.operand)})"
            if isinstance(e.op, ast.UAdd):
                return self.expr(e.operand)
            raise Unsupported("unary op")
        if isinstance(e, ast.BoolOp):
            parts = [self.expr(v) for v in e.values]
            op = ".and_" if isinstance(e.op, ast.And) else ".or_"
            out = parts[-1]
            for p in reversed(parts[:-1]):
                out = f"({op} {p} {out})"
            return out
        if isinstance(e, ast.Compare):
            terms, left = [], e.left
            for op, right in zip(e.ops, e.comparators):
                if type(op) not in CMPOPS:
                    raise Unsupported(f"comparison {type(op).__name__}")
                terms.append(f"(.cmp .{CMPOPS[type(op)]} {self.expr(left)} {self.expr(right)})")
                left = right
            out = terms[-1]
            for t in reversed(terms[:-1]):
                out = f"(.and_ {t} {out})"
            return out
        if isinstance(e, ast.Subscript):
            sl = e.slice
            if isinstance(sl, ast.Slice):
                if sl.step is not None:
                    raise Unsupported("slice step")
                lo = f"(some {self.expr(sl.lower)})" if sl.lower is not None else "none"
                hi = f"(some {self.expr(sl.upper)})" if sl.upper is not None else "none"
                return f"(.slice {self.expr(e.value)} {lo} {hi})"
            if isinstance(sl, ast.Tuple):
                raise Unsupported("multi-dimensional index")
            return f"(.index {self.expr(e.value)} {self.expr(sl)})"
        if isinstance(e, ast.Attribute):
            d = self.dotted(e)
            if d and d.split(".")[0] in ("np", "numba", "numpy"):
                raise Unsupported(f"module attribute {d} used as a value")
            return f"(.attr {self.expr(e.value)} {lstr(e.attr)})"
        if isinstance(e, ast.Tuple):
            return f"(.tuple {llist([self.expr(x) for x in e.elts])})"
        if isinstance(e, ast.List):
            return f"(.listLit {llist([self.expr(x) for x in e.elts])})"
        if isinstance(e, ast.Dict):
            if e.keys:
                raise Unsupported("non-empty dict literal")
            return "(.const (.dict []))"
        if isinstance(e, ast.IfExp):
            return f"(.ifExp {self.expr(e.test)} {self.expr(e.body)} {self.expr(e.orelse)})"
        if isinstance(e, ast.ListComp):
            if len(e.generators) != 1 or e.generators[0].ifs:
                raise Unsupported("comprehension form")
            g = e.generators[0]
            return f"(.listComp {self.expr(e.elt)} {llist([lstr(t) for t in self.targets(g.target)])} {self.expr(g.iter)})"
        if isinstance(e, ast.Call):
            return self.call(e)
        raise Unsupported(type(e).__name__)

    def call(self, e):
        d = self.dotted(e.func)
        kws = [k for k in e.keywords if k.arg not in IGNORED_KW]
        if d is not None and (isinstance(e.func, ast.Name) or d.split(".")[0] in ("np", "numba", "numpy")):
            args = [self.expr(a) for a in e.args]
            if kws:
                if d not in self.sigs:
                    raise Unsupported(f"keyword arguments to {d}")
                params = self.sigs[d]
                slots = args + [None] * (len(params) - len(args))
                for k in kws:
                    if k.arg not in params:
                        raise Unsupported(f"unknown keyword {k.arg}")
                    slots[params.index(k.arg)] = self.expr(k.value)
                while slots and slots[-1] is None:
                    slots.pop()
                if any(s is None for s in slots):
                    raise Unsupported("keyword arguments leave a gap")
                args = slots
            return f"(.call {lstr(d)} {llist(args)})"
        if isinstance(e.func, ast.Attribute):
            if kws:
                raise Unsupported("keyword arguments to a method")
            return f"(.mcall {self.expr(e.func.value)} {lstr(e.func.attr)} {llist([self.expr(a) for a in e.args])})"
        raise Unsupported("call form")

    def targets(self, t):
        if isinstance(t, ast.Name):
            return [t.id]
        if isinstance(t, ast.Tuple) and all(isinstance(x, ast.Name) for x in t.elts):
            return [x.id for x in t.elts]
        raise Unsupported("loop target")

    def block(self, stmts):
        return llist([self.stmt(s) for s in stmts if not self.skip(s)])

    def skip(self, s):
        return isinstance(s, ast.Expr) and isinstance(s.value, ast.Constant) and isinstance(s.value.value, str)

    def stmt(self, s):
        if isinstance(s, ast.Assign):
            if len(s.targets) != 1:
                raise Unsupported("chained assignment")
            return f"(.assign {self.expr(s.targets[0])} {self.expr(s.value)})"
        if isinstance(s, ast.AugAssign):
            if type(s.op) not in BINOPS:
                raise Unsupported("augmented operator")
            return f"(.augAssign {self.expr(s.target)} .{BINOPS[type(s.op)]} {self.expr(s.value)})"
        if isinstance(s, ast.Expr):
            return f"(.exprStmt {self.expr(s.value)})"
        if isinstance(s, ast.If):
            return f"(.if_ {self.expr(s.test)} {self.block(s.body)} {self.block(s.orelse)})"
        if isinstance(s, ast.While):
            if s.orelse:
                raise Unsupported("while-else")
            return f"(.while_ {self.expr(s.test)} {self.block(s.body)})"
        if isinstance(s, ast.For):
            if s.orelse:
                raise Unsupported("for-else")
            it = s.iter
            if isinstance(it, ast.Call) and isinstance(it.func, ast.Name) and it.func.id == "range":
                return f"(.forRange {lstr(self.targets(s.target)[0])} {llist([self.expr(a) for a in it.args])} {self.block(s.body)})"
            if isinstance(it, ast.Call) and isinstance(it.func, ast.Name) and it.func.id == "enumerate":
                t = s.target
                if not (isinstance(t, ast.Tuple) and len(t.elts) == 2 and all(isinstance(x, ast.Name) for x in t.elts)):
                    raise Unsupported("enumerate target")
                return f"(.forIn {llist([lstr(x.id) for x in t.elts])} true {self.expr(it.args[0])} {self.block(s.body)})"
            return f"(.forIn {llist([lstr(x) for x in self.targets(s.target)])} false {self.expr(it)} {self.block(s.body)})"
        if isinstance(s, ast.Return):
            return f"(.ret {('(some ' + self.expr(s.value) + ')') if s.value is not None else 'none'})"
        if isinstance(s, ast.Break):
            return ".break_"
        if isinstance(s, ast.Continue):
            return ".continue_"
        if isinstance(s, ast.Pass):
            return ".pass"
        if isinstance(s, ast.Raise):
            return '(.exprStmt (.call "raise" []))'
        raise Unsupported(type(s).__name__)


def module_info(tree):
    """module-level integer/float constants and namedtuple declarations"""
    consts, records = {}, {}
    for node in tree.body:
        if isinstance(node, ast.Assign) and len(node.targets) == 1 and isinstance(node.targets[0], ast.Name):
            name, v = node.targets[0].id, node.value
            try:
                val = eval(compile(ast.Expression(v), "<const>", "eval"), {"__builtins__": {}}, dict(consts))
                if isinstance(val, (int, float)) and not isinstance(val, bool):
                    consts[name] = val
                    continue
            except Exception:
                pass
            if isinstance(v, ast.Call) and isinstance(v.func, ast.Name) and v.func.id == "namedtuple":
                fields = [c.value for c in v.args[1].elts]
                records[name] = fields
    return consts, records


def main(repo, out):
    fns, unavailable, consts_all, records_all, sigs = [], [], {}, {}, {}
    trees = {}
    for rel, names in WHITELIST.items():
        path = os.path.join(repo, rel)
        if not os.path.exists(path):
            unavailable += [(n, f"{rel} missing") for n in names]
            continue
        tree = ast.parse(open(path).read())
        trees[rel] = tree
        for node in tree.body:
            if isinstance(node, ast.FunctionDef):
                sigs[node.name] = [a.arg for a in node.args.args]
    tr = Tr(sigs)
    for rel, names in WHITELIST.items():
        if rel not in trees:
            continue
        tree = trees[rel]
        consts, records = module_info(tree)
        consts_all.update(consts)
        records_all.update(records)
        defs = {n.name: n for n in tree.body if isinstance(n, ast.FunctionDef)}
        for name in names:
            if name not in defs:
                unavailable.append((name, "no such function"))
                continue
            f = defs[name]
            try:
                params = [a.arg for a in f.args.args]
                dvals = f.args.defaults
                defaults = []
                for p, d in zip(params[len(params) - len(dvals):], dvals):
                    if isinstance(d, ast.Constant):
                        defaults.append(f"({lstr(p)}, {tr.const(d.value)[len('(.const '):-1]})")
                    elif isinstance(d, ast.UnaryOp) and isinstance(d.op, ast.USub) and isinstance(d.operand, ast.Constant):
                        defaults.append(f"({lstr(p)}, (.int ({-d.operand.value})))")
                    elif isinstance(d, ast.Name):
                        defaults.append(f"({lstr(p)}, (.str {lstr('<fn ' + d.id + '>')}))")
                    else:
                        # e.g. 1 << 20
                        val = eval(compile(ast.Expression(d), "<d>", "eval"), {"__builtins__": {}}, {})
                        defaults.append(f"({lstr(p)}, (.int ({int(val)})))")
                body = tr.block(f.body)
                fns.append((name, f"{{ name := {lstr(name)}, params := {llist([lstr(p) for p in params])}, "
                                  f"defaults := {llist(defaults)},\n    body := {body} }}"))
            except Unsupported as e:
                unavailable.append((name, str(e)))
    lines = ["import VecModel.Model.PyInterp",
             "/- GENERATED by tools/py2lean.py from the current source of /repo — do not edit. -/",
             "namespace Gen", "open VecModel.Py", ""]
    for name, body in fns:
        lines.append(f"def fn_{name} : FnDef :=\n  {body}\n")
    g = []
    for k, v in sorted(consts_all.items()):
        if isinstance(v, int):
            g.append(f"({lstr(k)}, (.int ({v})))")
        else:
            fr = Fraction(str(v))
            g.append(f"({lstr(k)}, (.rat (mkRat ({fr.numerator}) {fr.denominator})))")
    recs = [f"({lstr(k)}, {llist([lstr(x) for x in v])})" for k, v in sorted(records_all.items())]
    lines.append(f"def prog : Prog :=\n  {{ fns := {llist(['fn_' + n for n, _ in fns])},\n    records := {llist(recs)},\n    globals := {llist(g)} }}\n")
    lines.append(f"def available : List String := {llist([lstr(n) for n, _ in fns])}")
    lines.append(f"def unavailable : List (String × String) := {llist(['(' + lstr(n) + ', ' + lstr(w) + ')' for n, w in unavailable])}")
    lines.append("\nend Gen")
    text = "\n".join(lines) + "\n"
    old = open(out).read() if os.path.exists(out) else None
    if old != text:
        os.makedirs(os.path.dirname(out), exist_ok=True)
        open(out, "w").write(text)
    print(json.dumps({"available": [n for n, _ in fns], "unavailable": unavailable, "changed": old != text}))


if __name__ == "__main__":
    main(sys.argv[1] if len(sys.argv) > 1 else "/repo",
         sys.argv[2] if len(sys.argv) > 2 else os.path.join(os.path.dirname(os.path.abspath(__file__)), "..", "lean", "Gen", "Kernels.lean"))
