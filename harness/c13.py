"""C13 — calls are free of side effects, repeatable, and leave nothing behind.
Model: lean/VecModel/Model/Heap.lean, theorems: lean/VecModel/Props/C13.lean."""
import os
from . import estimators as E

PROP = "C13"
RULE = ("call histories on every estimator: two fresh estimators per case; (a) deep byte-level snapshots of the data "
        "passed in and of every constructor-parameter object (token_dictionary, base_dictionary, label dictionaries, "
        "vectors, list-of-array distributions, CSC/CSR matrices with unsorted indices or explicit zeros) before and "
        "after fit / fit_transform / transform; (b) history fit -> transform(X1) -> transform(X2) -> transform(X1) "
        "-> transform(X2) compared with single calls on a second estimator fitted the same way; (c) two fits with the "
        "same integer random_state - two estimators, and one estimator fitted twice; (d) listing of a private temp directory before/after every call, including "
        "blocked (memory_size tiny) optimal-transport fits in which the k-th SVD / block computation is made to raise "
        "(fault injected at every block index). Non-trivial = a constructor object or an aliasing-prone input "
        "format is present, or a fault is injected, or the history has >= 4 calls.")
ASSUMPTIONS = [
    "private fitted caches may be re-assigned by transform as long as every later output is unchanged (what the property states)",
    "fault injection replaces vectorizers.linear_optimal_transport.randomized_svd by a wrapper raising at call k (in-process monkeypatch, no source hook)",
    "the heap/FS model covers the listed glue (masking, in-place normalisation, index sorting, blocked temp files); the snapshot monitor covers every estimator",
]
NWORKERS = {"quick": 6, "thorough": 12}
KINDS = E.ALL_VECTORIZERS + E.TRANSFORMERS


def _variant(case, rng):
    """add constructor objects / aliasing-prone formats"""
    k, p = case["kind"], dict(case["params"])
    c = dict(case)
    toks = sorted({t for d in case["X"] for t in d}) if k in ("ngram", "skipgram", "tokencooc", "ngramcooc") else None
    if toks and rng.random() < 0.6:
        c["ctor_dict"] = {"token_dictionary": {t: i for i, t in enumerate(toks)}}
        if k in ("tokencooc",) and rng.random() < 0.7:
            p["mask_string"] = "[MASK]"
        if k == "ngram" and rng.random() < 0.5:
            p["mask_string"] = "[MASK]"
    if k == "timedcooc" and rng.random() < 0.6:
        tk = sorted({t for d in case["X"] for t, _ in d})
        c["ctor_dict"] = {"token_dictionary": {t: i for i, t in enumerate(tk)}}
        if rng.random() < 0.7:
            p["mask_string"] = "[MASK]"
    if k == "multisetcooc" and rng.random() < 0.6:
        tk = sorted({t for d in case["X"] for ms in d for t in ms})
        c["ctor_dict"] = {"token_dictionary": {t: i for i, t in enumerate(tk)}}
        if rng.random() < 0.7:
            p["mask_string"] = "[MASK]"
    if k == "tree" and rng.random() < 0.5:
        c["tree_fmt"] = rng.choice(["lil", "csc", "coo"])
        if rng.random() < 0.7:
            p["ignored_tokens"] = [sorted({l for t in case["X"] for l in t["labels"]})[0]]
    if k == "tree" and rng.random() < 0.6:
        tk = sorted({l for t in case["X"] for l in t["labels"]})
        c["ctor_dict"] = {"token_dictionary": {t: i for i, t in enumerate(tk)}}
        if rng.random() < 0.7:
            p["mask_string"] = "[MASK]"
    if k == "lz" and rng.random() < 0.5 and p.get("max_columns") is None:
        c["ctor_dict"] = {"base_dictionary": {"a": 1, "b": 1}}
    if k == "edgelist" and rng.random() < 0.5:
        rows = sorted({e[0] for e in case["X"]}); cols = sorted({e[1] for e in case["X"]})
        c["ctor_dict"] = {"row_label_dictionary": {r: i for i, r in enumerate(rows)},
                          "column_label_dictionary": {x: i for i, x in enumerate(cols)}}
    if k == "infoweight":
        c["fmt"] = rng.choice(["csr", "csc_unsorted", "csc", "coo", "dense"])
    if k == "rowdenoise":
        c["fmt"] = rng.choice(["csr", "csr_explicit_zero", "csc"])
    if k == "countcompress" and rng.random() < 0.6:
        # many more features than components and one power iteration: the randomised SVD then really depends on
        # its random stream (on a 6 x 5 matrix it converges to the exact SVD whatever the stream)
        nr, nc = rng.randint(25, 40), rng.randint(15, 25)
        c["X"] = [[rng.choice([0, 0, 0, 1, 2, 5, 9]) for _ in range(nc)] for _ in range(nr)]
        for i in range(nr):
            c["X"][i][rng.randrange(nc)] += 1
        c["Xt"] = [[rng.choice([0, 1, 3]) for _ in range(nc)] for _ in range(3)] + [[1] * nc]
        p["n_components"], p["n_iter"] = 4, rng.choice([0, 1])
    if k == "wasserstein":
        c["input_method"] = rng.choice(["spmatrix", "lil", "lil"])
        if rng.random() < 0.6:
            # LOT dimension (reference_size x dim) above n_components and few power iterations: the randomised
            # SVD then really depends on its random stream, so unseeded calls show up in the same-seed comparison
            p["reference_size"] = rng.choice([2, 3])
            p["n_svd_iter"] = rng.choice([1, 2])
            p["n_components"] = 2
        if rng.random() < 0.6:
            p["memory_size"] = rng.choice(["1k", "200", "100"])      # 200/100 bytes: 1-4 rows per block, several blocks
            c["fault_at"] = rng.choice([None, 1, 2, 3])
    c["params"] = p
    return c


def _blocked_ot_case(input_method, fault_at):
    """40 distributions over 10 vectors of dimension 6, reference_size 6 (LOT dimension 36, 288 bytes per row),
    memory_size '4k' -> blocks of 14 rows: the incremental randomised SVD works on matrices larger than its
    oversampled sketch, so it really consumes its random stream"""
    import random
    r = random.Random(4242)
    V = [[round(r.gauss(0, 1), 3) for _ in range(6)] for _ in range(10)]

    def row():
        x = [0] * 10
        for j in r.sample(range(10), r.randint(3, 6)):
            x[j] = r.randint(1, 6)
        return x
    return {"kind": "wasserstein", "input_method": input_method, "fault_at": fault_at,
            "params": {"n_components": 5, "random_state": 7, "metric": "euclidean", "memory_size": "4k",
                       "reference_size": 6, "n_svd_iter": 2},
            "vectors": V, "X": [row() for _ in range(40)], "Xt": [row() for _ in range(3)]}


def corpus():
    return [_blocked_ot_case("lil", None), _blocked_ot_case("spmatrix", 2),
        {"kind": "tokencooc", "params": {"window_radii": 1, "mask_string": "[MASK]"}, "X": [["a", "b", "a", "c"]], "Xt": [["a", "zz", "b"]],
         "ctor_dict": {"token_dictionary": {"a": 0, "b": 1}}},
        {"kind": "tree", "params": {"window_radius": 2, "ignored_tokens": ["x"]}, "tree_fmt": "lil",
         "X": [{"parents": [None, 0, 1, 2], "labels": ["a", "x", "b", "c"]}, {"parents": [None, 0, 0], "labels": ["a", "b", "c"]}],
         "Xt": [{"parents": [None, 0, 1], "labels": ["c", "x", "a"]}]},
        # blocked list-input optimal transport: 1-2 rows per block, randomised SVD that depends on its stream
        {"kind": "wasserstein", "input_method": "lil", "fault_at": None,
         "params": {"n_components": 2, "random_state": 7, "metric": "euclidean", "memory_size": "200", "reference_size": 3, "n_svd_iter": 1},
         "vectors": [[0.3, -1.2, 0.5], [1.1, 0.4, -0.7], [-0.6, 0.9, 1.3], [0.2, 0.1, -1.5], [-1.4, -0.3, 0.8], [0.7, 1.6, 0.2]],
         "X": [[1, 0, 2, 0, 0, 3], [0, 2, 0, 1, 0, 0], [4, 0, 0, 0, 1, 1], [0, 0, 3, 2, 0, 0], [1, 1, 0, 0, 5, 0], [0, 3, 1, 0, 0, 2], [2, 0, 0, 4, 1, 0], [0, 1, 1, 1, 0, 3]],
         "Xt": [[1, 1, 0, 0, 0, 2], [0, 0, 2, 2, 1, 0]]},
        {"kind": "wasserstein", "input_method": "spmatrix", "fault_at": 2,
         "params": {"n_components": 2, "random_state": 7, "metric": "cosine", "memory_size": "200", "reference_size": 3, "n_svd_iter": 1},
         "vectors": [[0.3, -1.2, 0.5], [1.1, 0.4, -0.7], [-0.6, 0.9, 1.3], [0.2, 0.1, -1.5], [-1.4, -0.3, 0.8], [0.7, 1.6, 0.2]],
         "X": [[1, 0, 2, 0, 0, 3], [0, 2, 0, 1, 0, 0], [4, 0, 0, 0, 1, 1], [0, 0, 3, 2, 0, 0], [1, 1, 0, 0, 5, 0], [0, 3, 1, 0, 0, 2], [2, 0, 0, 4, 1, 0], [0, 1, 1, 1, 0, 3]],
         "Xt": [[1, 1, 0, 0, 0, 2], [0, 0, 2, 2, 1, 0]]},
        {"kind": "infoweight", "params": {}, "fmt": "csc_unsorted", "X": [[1, 0, 2], [0, 3, 1], [2, 2, 0], [1, 1, 1]], "Xt": [[1, 1, 1]]},
        {"kind": "rowdenoise", "params": {"em_threshold": 1e-4}, "fmt": "csr_explicit_zero", "X": [[1, 0, 2], [0, 3, 1], [2, 2, 0], [1, 1, 1]], "Xt": [[1, 1, 1]]},
    ]


def generate(rng, tier):
    n = 8 if tier == "quick" else 50
    slow = {"wasserstein": 6, "sinkhorn": 2, "approxwasserstein": 2, "distribution": 2, "kde": 3, "countcompress": 3, "rowdenoise": 4}
    cs = []
    for kind in KINDS:
        m = n if kind not in slow else (slow[kind] if tier == "quick" else slow[kind] * 5)
        for _ in range(m):
            cs.append(_variant(E.gen_case(kind, rng, tier), rng))
    return cs


def search(rng, tier):
    return generate(rng, "thorough")


# ------------------------------------------------------------------ worker side

def _snap(o, depth=0):
    import numpy as np, scipy.sparse as sp
    if depth > 6:
        return "deep"
    if o is None or isinstance(o, (bool, int, float, str)):
        return repr(o)
    if isinstance(o, np.ndarray):
        if o.dtype == object:
            return ("objarr", o.shape, tuple(_snap(x, depth + 1) for x in o.ravel()))
        return ("arr", str(o.dtype), o.shape, o.tobytes())
    if sp.issparse(o):
        parts = [("fmt", o.format), ("shape", tuple(o.shape))]
        for a in ("data", "indices", "indptr", "row", "col", "rows"):
            if hasattr(o, a):
                parts.append((a, _snap(getattr(o, a), depth + 1)))
        return tuple(parts)
    if isinstance(o, dict):
        return ("dict", tuple((repr(k), _snap(v, depth + 1)) for k, v in o.items()))
    if isinstance(o, (list, tuple)):
        return (type(o).__name__, tuple(_snap(x, depth + 1) for x in o))
    if isinstance(o, np.generic):
        return repr(o)
    return ("obj", type(o).__name__)


def _mk_input(case, data):
    import numpy as np, scipy.sparse as sp
    kind = case["kind"]
    fmt = case.get("fmt")
    if fmt:
        A = np.array(data, dtype=np.float64).reshape(len(data), -1)
        if fmt == "dense":
            return A
        if fmt == "csr":
            return sp.csr_matrix(A)
        if fmt == "coo":
            return sp.coo_matrix(A)
        if fmt == "csc":
            return sp.csc_matrix(A)
        if fmt == "csc_unsorted":
            M = sp.csc_matrix(A)
            for j in range(M.shape[1]):                      # reverse every column's entries
                sl = slice(M.indptr[j], M.indptr[j + 1])
                M.indices[sl] = M.indices[sl][::-1].copy()
                M.data[sl] = M.data[sl][::-1].copy()
            M.has_sorted_indices = False
            return M
        if fmt == "csr_explicit_zero":
            M = sp.csr_matrix(A)
            if M.nnz:
                M.data[0] = 0.0
            return M
    if kind == "wasserstein" and case.get("input_method") == "lil":
        rows = [np.array([w for w in r if w != 0], dtype=np.float64) for r in data]
        return rows
    if kind == "tree" and case.get("tree_fmt"):
        return [(getattr(A, "to" + case["tree_fmt"])(), labels) for A, labels in E.to_input(kind, data)]
    return E.to_input(kind, data)


def _kwargs(case, data):
    import numpy as np
    kind = case["kind"]
    if kind == "wasserstein" and case.get("input_method") == "lil":
        V = np.array(case["vectors"], dtype=np.float64)
        return {"vectors": [np.ascontiguousarray(V[[j for j, w in enumerate(r) if w != 0]]) for r in data]}
    return E.call_kwargs(kind, case)


def _make(case, ctor_objs):
    p = dict(case["params"])
    p.update(ctor_objs)
    if case["kind"] == "wasserstein" and case.get("input_method") == "lil":
        p["input_method"] = "lil"
    return E.make(case["kind"], p)


def run_impl(case):
    import copy, tempfile, shutil
    import numpy as np
    kind, out = case["kind"], {"mutations": [], "leftovers": [], "events": []}
    priv = tempfile.mkdtemp(prefix="verif-c13-")
    old_tmp = tempfile.tempdir
    tempfile.tempdir = priv
    os.environ["TMPDIR"] = priv
    try:
        _run(case, out, priv)
    finally:
        tempfile.tempdir = old_tmp
        os.environ.pop("TMPDIR", None)
        shutil.rmtree(priv, ignore_errors=True)
    return out


def _listing(d):
    res = []
    for root, dirs, files in os.walk(d):
        for n in dirs + files:
            res.append(os.path.relpath(os.path.join(root, n), d))
    return sorted(res)


def _call(out, priv, name, objs, f):
    """run f(); record exceptions, mutations of the watched objects and temp leftovers"""
    before = {k: _snap(v) for k, v in objs.items()}
    res, exc = None, None
    try:
        res = f()
    except Exception as e:
        exc = E.exc_name(e)
    for k, v in objs.items():
        if _snap(v) != before[k]:
            out["mutations"].append({"call": name, "object": k})
    left = _listing(priv)
    if left:
        out["leftovers"].append({"call": name, "paths": left[:6], "raised": exc is not None})
        for p in left:
            full = os.path.join(priv, p)
            try:
                if os.path.isdir(full):
                    import shutil
                    shutil.rmtree(full, ignore_errors=True)
                else:
                    os.remove(full)
            except OSError:
                pass
    out["events"].append({"call": name, "exc": exc})
    return res, exc


def _run(case, out, priv):
    import copy
    kind = case["kind"]
    X, Xt = case["X"], case["Xt"]
    ctor = copy.deepcopy(case.get("ctor_dict", {}))
    inX, inXt = _mk_input(case, X), _mk_input(case, Xt)
    kwX, kwXt = _kwargs(case, X), _kwargs(case, Xt)
    watched = {"X": inX, "Xt": inXt}
    for k, v in ctor.items():
        watched["ctor." + k] = v
    for k, v in kwX.items():
        watched["fit_kw." + k] = v
    for k, v in kwXt.items():
        watched["transform_kw." + k] = v
    fault_at = case.get("fault_at")
    if fault_at is not None:
        import vectorizers.linear_optimal_transport as lot
        orig = lot.randomized_svd
        counter = {"n": 0}

        def faulty(*a, **k):
            counter["n"] += 1
            if counter["n"] == fault_at:
                raise RuntimeError("injected fault")
            return orig(*a, **k)
        lot.randomized_svd = faulty
        try:
            est = _make(case, ctor)
            _, exc = _call(out, priv, "fit(faulty)", watched, lambda: est.fit(inX, **kwX))
            out["fault_fired"] = counter["n"] >= fault_at
        finally:
            lot.randomized_svd = orig
    a = _make(case, ctor)
    _, exc = _call(out, priv, "fit", watched, lambda: a.fit(inX, **kwX))
    if exc:
        out["fit_exc"] = exc
        return
    hist = []
    for name, data, kw in (("t1", inXt, kwXt), ("t2", inX, kwX), ("t3", inXt, kwXt), ("t4", inX, kwX)):
        r, exc = _call(out, priv, f"transform#{name}", watched, lambda: a.transform(data, **kw))
        hist.append({"exc": exc} if exc else E.canon(r))
    out["history"] = hist
    b = _make(case, ctor)
    r, exc = _call(out, priv, "fit_transform", watched, lambda: b.fit_transform(inX, **kwX))
    c = _make(case, ctor)
    c.fit(inX, **kwX)
    single_t, e1 = _call(out, priv, "single transform(Xt)", watched, lambda: c.transform(inXt, **kwXt))
    d = _make(case, ctor)
    d.fit(inX, **kwX)
    single_x, e2 = _call(out, priv, "single transform(X)", watched, lambda: d.transform(inX, **kwX))
    out["single_t"] = {"exc": e1} if e1 else E.canon(single_t)
    out["single_x"] = {"exc": e2} if e2 else E.canon(single_x)
    out["has_random_state"] = "random_state" in case["params"]
    if out["has_random_state"]:
        # two fits with the same integer seed on the same data: c and d
        r, e3 = _call(out, priv, "seeded transform(X)", watched, lambda: c.transform(inX, **kwX))
        out["seeded_x"] = {"exc": e3} if e3 else E.canon(r)
        # ... and two fits of one and the same estimator object (d is fitted already)
        params_before = repr(sorted((k, repr(v)) for k, v in d.get_params(deep=False).items() if k != "token_dictionary"))
        _, e4 = _call(out, priv, "second fit of the same estimator", watched, lambda: d.fit(inX, **kwX))
        r, e5 = _call(out, priv, "transform(X) after the second fit", watched, lambda: d.transform(inX, **kwX))
        out["refit_x"] = {"exc": e4 or e5} if (e4 or e5) else E.canon(r)
        out["params_kept"] = params_before == repr(sorted((k, repr(v)) for k, v in d.get_params(deep=False).items() if k != "token_dictionary"))
    # the caller's dictionary as the model sees it (for the correspondence)
    if "token_dictionary" in ctor and case["params"].get("mask_string"):
        out["dict_before"] = sorted(case["ctor_dict"]["token_dictionary"].items(), key=lambda kv: kv[1])
        out["dict_after"] = [(k, int(v)) for k, v in ctor["token_dictionary"].items()]


# ------------------------------------------------------------------ model side

def model_requests(case, outs):
    o = outs["normal"]
    reqs = []
    if isinstance(o, dict) and "dict_before" in o:
        reqs.append({"op": "heap.mask", "dict": [[k, v] for k, v in o["dict_before"]], "mask": case["params"]["mask_string"]})
    if case.get("fault_at") is not None or case["params"].get("memory_size") == "1k":
        n = len(case["X"])
        reqs.append({"op": "heap.fs", "d": "/tmp/x", "nBlocks": n, "fault": case.get("fault_at")})
    return reqs


def compare(case, outs, resps):
    o = outs["normal"]
    d = []
    for r in resps:
        if "bad" in r:
            d.append(f"model rejected: {r['bad']}")
        elif "dict_after_fixed" in r:
            if "dict_after" in o and [list(x) for x in o["dict_after"]] != r["dict_after_fixed"]:
                d.append(f"caller's token_dictionary after the calls: impl {o['dict_after']} model (repaired glue) {r['dict_after_fixed']}")
        elif "paths_fixed" in r:
            impl_left = any(l for l in o.get("leftovers", []))
            if bool(r["paths_fixed"]) != impl_left:
                d.append(f"temp paths after the call: model {r['paths_fixed']} impl leftovers {o.get('leftovers')}")
    return d


# ------------------------------------------------------------------ oracle

def _F(key, msg):
    return {"key": key, "msg": msg}


def _tol(kind):
    return dict(rtol=1e-9, atol=1e-9)


def oracle(case, outs):
    o = outs["normal"]
    kind = case["kind"]
    if "crash" in o:
        return [_F(f"c13.{kind}.crash", f"process terminated: {o['crash']}")]
    fails = []
    for m in o.get("mutations", []):
        what = m["object"].split(".")[0]
        fmt = case.get("fmt") or case.get("input_method") or case.get("tree_fmt") or ""
        fails.append(_F(f"c13.{kind}.mutates.{what}" + (f".{fmt}" if fmt else ""),
                        f"{m['call']} modified caller object {m['object']} (params {case['params']}, fmt {fmt})"))
    for l in o.get("leftovers", []):
        fails.append(_F(f"c13.{kind}.tempfiles" + (".after-exception" if l["raised"] else ""),
                        f"{l['call']} left {l['paths']} in the temp directory"))
    if "history" in o:
        h = o["history"]
        for (i, j, ref) in ((0, 2, "single_t"), (1, 3, "single_x")):
            for idx in (i, j):
                a, b = h[idx], o[ref]
                if ("exc" in a) != ("exc" in b):
                    fails.append(_F(f"c13.{kind}.history-changes-exception", f"call {idx + 1} of the history: {a.get('exc')} vs single call {b.get('exc')}"))
                elif "exc" not in a:
                    df = E.approx_equal(a, b, **_tol(kind))
                    if df:
                        fails.append(_F(f"c13.{kind}.history-changes-output", f"call {idx + 1} of the history differs from a single call: {df}"))
    if "refit_x" in o and "exc" not in o["single_x"]:
        if "exc" in o["refit_x"]:
            fails.append(_F(f"c13.{kind}.refit-raises", f"second fit of the same estimator on the same data: {o['refit_x']['exc']}"))
        else:
            df = E.approx_equal(o["refit_x"], o["single_x"], rtol=1e-9, atol=1e-9)
            if df:
                fails.append(_F(f"c13.{kind}.same-seed-refit-differs", f"one estimator (integer random_state) fitted twice on the same data gives two models: {df}"))
    if "seeded_x" in o and "exc" not in o["seeded_x"] and "exc" not in o["single_x"]:
        df = E.approx_equal(o["seeded_x"], o["single_x"], rtol=1e-9, atol=1e-9)
        if df:
            fails.append(_F(f"c13.{kind}.same-seed-different-model", f"two fits with random_state={case['params'].get('random_state')} differ: {df}"))
    return fails


def nontrivial(case, outs):
    o = outs["normal"]
    return isinstance(o, dict) and "history" in o and (bool(case.get("ctor_dict")) or bool(case.get("fmt")) or case.get("fault_at") is not None or len(o["history"]) >= 4)


def stats(case, outs):
    o = outs["normal"]
    tags = [case["kind"]]
    if case.get("ctor_dict"):
        tags.append("ctor-object")
    if case.get("fmt"):
        tags.append("fmt." + case["fmt"])
    if case.get("tree_fmt"):
        tags.append("tree_fmt." + case["tree_fmt"])
    if case.get("fault_at") is not None:
        tags.append("fault-injected")
        if isinstance(o, dict) and o.get("fault_fired"):
            tags.append("fault-fired")
    if isinstance(o, dict) and "fit_exc" in o:
        tags.append(case["kind"] + ".fit-raises")
    return tags


def shrink_candidates(case):
    X = case["X"]
    for i in range(len(X)):
        if len(X) > 2:
            yield dict(case, X=X[:i] + X[i + 1:])
    Xt = case["Xt"]
    for i in range(len(Xt)):
        if len(Xt) > 1:
            yield dict(case, Xt=Xt[:i] + Xt[i + 1:])
