"""C05 — the learned vocabulary is exactly the tokens meeting every pruning constraint.
Model: lean/VecModel/Model/Vocab.lean, theorems: lean/VecModel/Props/C05.lean, driver: lean/Driver/Vocab.lean.

Case kinds
  grid    all (c, n), lo <= n <= hi, 0 <= c <= n: the division the code performs (numpy float array / Python
          int in the dtype construct_token_dictionary_and_frequency produces; Python int / int for the bound)
          against the model's rounding functions, as exact integer ratios (digest per n, detail on mismatch);
          oracle: "count == bound is kept" for every pair under the comparison the code performs.
  pairs   the same for explicit (c, n) pairs (random, up to and beyond 2^24).
  synth   prune_token_dictionary called directly on a synthetic count table (large totals are cheap);
          "biglist": the frequencies come from construct_token_dictionary_and_frequency on a lazily generated
          token stream of the real length.
  corpus  preprocess_token_sequences and the public estimators on a small random corpus x constraint
          combination, plus the same corpus with documents and tokens shuffled.
"""
import itertools, math, re
from collections import Counter
from fractions import Fraction

PROP = "C05"
RULE = ("random corpora (1-7 documents of 0-12 tokens from a 10-token pool with awkward sort order, str or int "
        "tokens, skewed so that counts tie) x every combination of {none, occurrences, frequency} for the min/max "
        "token bound and the min/max document bound, excluded tokens, excluded regex (fullmatch vs search "
        "differences), max_unique_tokens 0..5, mask string, supplied dictionary; every bound equals an occurring "
        "count (resp. the float quotient count/total, or its float32 rounding / neighbouring double) with "
        "probability 1/2; synthetic count tables with totals around and above 2^24 (2^24+1, 2^25+3, 3*2^24+1, "
        "10^9+7...) with bounds equal to occurring counts; exhaustive (count,total) grids for the rounding "
        "functions. Non-trivial = some token's count (document count) equals a configured bound, or the top-k "
        "step has to cut inside a tie, or a (count,total) grid/pair batch.")
ASSUMPTIONS = [
    "counts and totals are below 2^53 (exact in float64); the model's rounding function has an unbounded exponent range",
    "at most one of occurrences / frequency is configured per bound (the code asserts their equality otherwise)",
    "the mask string is not itself a token of the corpus; at least one document; for a corpus without any token "
    "and masking on, the co-occurrence estimator is not run (its matrix build fails inside numba on empty input)",
    "frequency bounds: a token whose exact frequency is on the wrong side of the bound by less than one float64 "
    "rounding of count/total may be classified either way by the oracle (the model follows the code exactly)",
    "re.fullmatch is a parameter of the model (the harness evaluates it with Python's re)",
    "n-gram second stage is modelled without masking (with masking only the oracle is evaluated)",
]
NWORKERS = {"quick": 4, "thorough": 8}

MOD = (1 << 61) - 1
STR_POOL = ["a", "aa", "ab", "b", "B", "c", "é", "10", "9", "z"]
INT_POOL = [-3, 0, 1, 2, 9, 10, 11, 100, 7, 5]
REGEXES = ["a", "a.*", "[ab]", ".*b", "[0-9]+", "a|b", ".", "..", "[A-Z]", "x", "a?", "(aa|z)"]
MASK = "MASK"
BIG = 1 << 24


# ------------------------------------------------------------------ generators

def _bound_cfg(rng, counts_list, total, lowish):
    """None | ["occ", b] | ["freq", float] with the bound equal to an occurring count w.p. 1/2."""
    r = rng.random()
    if r < 0.4:
        return None
    cs = sorted(counts_list) or [0]
    # lower bounds lean to the small counts, upper bounds to the large ones (so that vocabularies are not always empty)
    pick = cs[rng.randrange(0, (len(cs) + 1) // 2)] if lowish else cs[rng.randrange(len(cs) // 2, len(cs))]
    if rng.random() < 0.15:
        pick = rng.choice(cs)
    if r < 0.75:
        if rng.random() < 0.5:
            return ["occ", pick]
        return ["occ", max(0, pick + rng.choice([-2, -1, 1, 2, 3]))]
    if total == 0:
        return ["freq", rng.choice([0.0, 0.5, 1.0])]
    q = pick / total
    m = rng.random()
    if m < 0.5:
        f = q
    elif m < 0.6:
        f = math.nextafter(q, 2.0)
    elif m < 0.7:
        f = math.nextafter(q, -1.0)
    elif m < 0.8:
        f = _f32(q)
    elif m < 0.9:
        f = round(q, rng.choice([1, 2, 7, 8]))
    else:
        f = rng.random()
    return ["freq", float(f)]


def _f32(x):
    import struct
    return struct.unpack("f", struct.pack("f", x))[0]


def _params(rng, counts, dcounts, total, ndocs, pool, allow_regex):
    P = {"min": _bound_cfg(rng, list(counts.values()), total, True),
         "max": _bound_cfg(rng, list(counts.values()), total, False),
         "dmin": None, "dmax": None, "excl": None, "regex": None, "k": None}
    if rng.random() < 0.45:
        P["dmin"] = _bound_cfg(rng, list(dcounts.values()), ndocs, True)
        P["dmax"] = _bound_cfg(rng, list(dcounts.values()), ndocs, False)
    if rng.random() < 0.3:
        P["excl"] = sorted(rng.sample(pool, rng.randint(0, 3)), key=repr)
    if allow_regex and rng.random() < 0.3:
        P["regex"] = rng.choice(REGEXES)
    if rng.random() < 0.4:
        P["k"] = rng.randint(0, 5)
    return P


def _rand_docs(rng, pool):
    nd = rng.randint(1, 7)
    w = [1.0 / (i + 1) ** rng.choice([0.5, 1.0, 1.5]) for i in range(len(pool))]
    perm = pool[:]
    rng.shuffle(perm)
    docs = []
    for _ in range(nd):
        ln = rng.choice([0, 1, 2, 3, 4, 6, 8, 12])
        docs.append(rng.choices(perm, weights=w, k=ln))
    return docs


def _shuffled(rng, docs):
    d2 = [list(d) for d in docs]
    for d in d2:
        rng.shuffle(d)
    rng.shuffle(d2)
    return d2


def _perm_docs(rng, docs):
    d3 = [list(d) for d in docs]
    rng.shuffle(d3)
    return d3


def _corpus_case(rng):
    ints = rng.random() < 0.3
    pool = INT_POOL if ints else STR_POOL
    docs = _rand_docs(rng, pool)
    flat = [t for d in docs for t in d]
    counts = Counter(flat)
    dcounts = Counter(t for d in docs for t in set(d))
    P = _params(rng, counts, dcounts, len(flat), len(docs), pool, not ints)
    case = {"kind": "corpus", "ints": ints, "docs": docs, "docs2": _shuffled(rng, docs), "docs3": _perm_docs(rng, docs), "P": P,
            "mask": None, "supplied": None, "full_ncv": False}
    r = rng.random()
    if r < 0.2:
        case["mask"] = MASK if not ints else -77
    elif r < 0.35:
        toks = rng.sample(pool, rng.randint(1, 5))
        idx = list(range(len(toks)))
        rng.shuffle(idx)
        case["supplied"] = [[t, i] for t, i in zip(toks, idx)]
        if rng.random() < 0.5:
            case["mask"] = MASK if not ints else -77
    return case


def _synth_case(rng, biglist=False):
    base = rng.choice([BIG + 1, BIG + 1, BIG + 3, 2 * BIG + 3, 3 * BIG + 1, 10 ** 9 + 7, BIG - 1, BIG, 5 * BIG + 5,
                       (1 << 31) + 11, (1 << 40) + 1, 12345, 1000003]) if not biglist else rng.choice([BIG + 1, BIG + 3])
    k = rng.randint(2, 7)
    small = [rng.choice([1, 2, 3, 3, 5, 6, 7, 9, 10, 11, 13, 100, 1000, rng.randint(1, 50000)]) for _ in range(k)]
    if rng.random() < 0.4:
        small.append(small[0])
    if rng.random() < 0.3:
        small.append(rng.randint(1, base // 3))
    rest = base - sum(small)
    if rest <= 0:
        small = [1, 3, 5]
        rest = base - 9
    counts = small + [rest]
    toks = [f"t{i:02d}" for i in range(len(counts))]
    D = rng.choice([1, 3, 10, BIG + 1, 1000])
    dcounts = [min(D, max(1, rng.randint(1, min(D, c)))) for c in counts]
    cm = dict(zip(toks, counts))
    dm = dict(zip(toks, dcounts))
    P = _params(rng, cm, dm, base, D, toks, True)
    # steer: most synthetic cases carry an occurrence bound equal to an occurring count
    if rng.random() < 0.7:
        c = rng.choice(small)
        which = rng.choice(["min", "max", "both"])
        if which in ("min", "both"):
            P["min"] = ["occ", c]
        if which in ("max", "both"):
            P["max"] = ["occ", c if which == "both" else rng.choice([c, max(small)])]
    if biglist:
        P["dmin"] = P["dmax"] = None
    if P["regex"] is not None:
        P["regex"] = rng.choice(["t0[0-2]", "t.*1", "t", "t0."])
    return {"kind": "synth", "tokens": toks, "counts": counts, "dcounts": dcounts, "n": base, "D": D, "P": P,
            "biglist": biglist}


def _grid_cases(nmax, f32max, chunks):
    """split 1..nmax into ranges of roughly equal work (sum of n)"""
    cs = []
    total = nmax * (nmax + 1) / 2
    lo, acc, target = 1, 0.0, total / chunks
    for n in range(1, nmax + 1):
        acc += n
        last = n == nmax
        if acc >= target or last or n == f32max:
            cs.append({"kind": "grid", "lo": lo, "hi": n, "f32": n <= f32max})
            lo, acc = n + 1, 0.0
    return cs


def _pairs_case(rng, m):
    ps = []
    for _ in range(m):
        r = rng.random()
        if r < 0.35:
            n = rng.randint(1, 1 << 26)
        elif r < 0.6:
            n = BIG + rng.randint(-50, 5000)
        elif r < 0.8:
            n = 1 << rng.randint(1, 45)
            n += rng.choice([-1, 0, 1, 3])
            n = max(1, n)
        else:
            n = int(2 ** (rng.random() * 50)) + 1
        c = rng.randint(0, n) if rng.random() < 0.5 else min(n, rng.choice([1, 2, 3, 5, 7, 11, rng.randint(0, 100000)]))
        ps.append([c, n])
    return {"kind": "pairs", "pairs": ps}


def corpus():
    cs = []
    # D13: count equal to the bound at a total >= 2^24 (both through the real frequency computation and synthetic)
    cs.append({"kind": "synth", "tokens": ["a", "b", "c"], "counts": [3, 5, BIG + 1 - 8], "dcounts": [1, 1, 1],
               "n": BIG + 1, "D": 1, "biglist": True,
               "P": {"min": None, "max": ["occ", 3], "dmin": None, "dmax": None, "excl": None, "regex": None, "k": None}})
    for mn, mx in [(None, 3), (5, None), (3, 5), (None, 5), (3, None), (5, 5)]:
        cs.append({"kind": "synth", "tokens": ["a", "b", "c"], "counts": [3, 5, BIG + 1 - 8], "dcounts": [1, 1, 1],
                   "n": BIG + 1, "D": 1, "biglist": False,
                   "P": {"min": ["occ", mn] if mn is not None else None, "max": ["occ", mx] if mx is not None else None,
                         "dmin": None, "dmax": None, "excl": None, "regex": None, "k": None}})
    # frequency bound between the float64 and the float32 rounding of 1/3
    cs.append({"kind": "synth", "tokens": ["a", "b"], "counts": [1, 2], "dcounts": [1, 1], "n": 3, "D": 1, "biglist": False,
               "P": {"min": ["freq", 0.33333334], "max": None, "dmin": None, "dmax": None, "excl": None, "regex": None, "k": None}})
    base = {"kind": "corpus", "ints": False, "mask": None, "supplied": None, "full_ncv": False}
    none = {"min": None, "max": None, "dmin": None, "dmax": None, "excl": None, "regex": None, "k": None}
    docs = [["b", "a", "b", "c"], ["c", "a", "b"], ["z", "b"]]   # a2 b4 c2 z1 ; docs a2 b3 c2 z1
    d2 = [["b", "z"], ["a", "b", "c"], ["c", "b", "b", "a"]]
    for P in [dict(none, min=["occ", 2], max=["occ", 2]), dict(none, min=["occ", 2]), dict(none, max=["occ", 2]),
              dict(none, dmin=["occ", 2], dmax=["occ", 2]), dict(none, min=["freq", 2 / 9], max=["freq", 4 / 9]),
              dict(none, k=2), dict(none, k=1), dict(none, k=0), dict(none, excl=["b"], regex="a|z"),
              dict(none, regex="a"), dict(none, min=["occ", 9]), dict(none, dmin=["freq", 2 / 3])]:
        cs.append(dict(base, docs=docs, docs2=d2, P=P))
    cs.append(dict(base, docs=docs, docs2=d2, P=dict(none, min=["occ", 2]), mask=MASK))
    cs.append(dict(base, docs=docs, docs2=d2, P=dict(none, min=["occ", 2]), full_ncv=True))
    cs.append(dict(base, docs=docs, docs2=d2, P=none, supplied=[["z", 0], ["q", 2], ["b", 1]]))
    cs.append(dict(base, docs=docs, docs2=d2, P=none, supplied=[["z", 0], ["q", 1], ["b", 2]], mask=MASK))
    # second stage without any n-gram (documents shorter than n) / vocabulary emptied by the first stage
    cs.append(dict(base, docs=[["a"], ["a"]], docs2=[["a"], ["a"]], P=dict(none, min=["occ", 2])))
    cs.append(dict(base, docs=[["a", "b"], ["b", "a"]], docs2=[["b", "a"], ["b", "a"]], P=dict(none, min=["occ", 2], k=1)))
    cs.append(dict(base, docs=[[], []], docs2=[[], []], P=dict(none, min=["occ", 1])))
    cs.append(dict(base, ints=True, docs=[[10, 9, 10], [9, -3, 100]], docs2=[[100, -3, 9], [10, 10, 9]], P=dict(none, min=["occ", 2])))
    cs.append({"kind": "pairs", "pairs": [[3, BIG + 1], [5, BIG + 1], [1, 3], [1, 10], [0, 7], [7, 7], [BIG + 1, 2 * BIG + 3]]})
    return cs


def generate(rng, tier):
    cs = []
    if tier == "quick":
        cs += _grid_cases(4000, 1200, 24)
        cs += [_pairs_case(rng, 2500) for _ in range(8)]
        cs += [_synth_case(rng) for _ in range(400)]
        cs += [_synth_case(rng, biglist=True) for _ in range(3)]
        ncorp, nfull = 700, 4
    else:
        cs += _grid_cases(4000, 4000, 64)
        cs += [_pairs_case(rng, 5000) for _ in range(200)]
        cs += [_synth_case(rng) for _ in range(6000)]
        cs += [_synth_case(rng, biglist=True) for _ in range(24)]
        ncorp, nfull = 9000, 60
    cc = [_corpus_case(rng) for _ in range(ncorp)]
    for c in cc[:nfull]:
        if c["supplied"] is None:
            c["full_ncv"] = True
    # interleave so that the expensive cases are spread over the workers
    out = []
    for i in range(max(len(cs), len(cc))):
        if i < len(cs):
            out.append(cs[i])
        if i < len(cc):
            out.append(cc[i])
    return out


def search(rng, tier):
    cs = [_synth_case(rng) for _ in range(1500)] + [_corpus_case(rng) for _ in range(1500)]
    cs += [_synth_case(rng, biglist=True) for _ in range(4)]
    return cs


# ------------------------------------------------------------------ implementation side (worker)

def _digest(h, x):
    num, den = x.as_integer_ratio()
    return ((h * 1000003 + abs(num)) % MOD * 1000003 + den) % MOD


_FD = {}


def _freq_dtype():
    """dtype of the frequencies the code produces (float64 after the fix, float32 before)"""
    if "d" not in _FD:
        from vectorizers.preprocessing import construct_token_dictionary_and_frequency
        _FD["d"] = construct_token_dictionary_and_frequency(("a", "b", "a"))[1].dtype
    return _FD["d"]


def _code_freq(counts, n):
    """`np.bincount(..).astype(dtype) / n_tokens` as in construct_token_dictionary_and_frequency:101-105"""
    import numpy as np
    return np.asarray(counts, dtype=np.int64).astype(_freq_dtype()) / n


def _eq_case_misclassified(freq, n, bs):
    """for the pairs (c=b, n): would `freq < b/n` or `freq > min(1.0, b/n)` (array vs Python float, NEP 50:
    the scalar is cast to the array dtype) prune a token whose count equals the bound?"""
    import numpy as np
    thr = np.array([b / n for b in bs], dtype=np.float64).astype(freq.dtype)
    lo = freq < thr
    hi = freq > np.minimum(thr, freq.dtype.type(1.0))
    return [int(b) for b, x, y in zip(bs, lo, hi) if x or y]


def _run_grid(case):
    import numpy as np
    rows, bad = [], []
    for n in range(case["lo"], case["hi"] + 1):
        cs = np.arange(n + 1, dtype=np.int64)
        f64 = cs.astype(np.float64) / n
        h1 = h2 = 7
        for c, x in enumerate(f64.tolist()):
            h1 = _digest(h1, x)
            h2 = _digest(h2, c / n)
        row = [n, h1, h2]
        if case["f32"]:
            f32 = cs.astype(np.float32) / n
            h3 = h4 = 7
            for c, x in enumerate(f32.tolist()):
                h3 = _digest(h3, x)
                h4 = _digest(h4, float(np.float32(c / n)))
            row += [h3, h4]
        rows.append(row)
        freq = _code_freq(cs, n)
        for b in _eq_case_misclassified(freq, n, range(n + 1)):
            bad.append([b, n])
    return {"rows": rows, "eq_pruned": bad[:20], "dtype": str(_freq_dtype())}


def _run_pairs(case):
    import numpy as np
    ps = case["pairs"]
    h1 = h2 = h3 = h4 = 7
    bad = []
    fd = _freq_dtype()
    c_arr = np.array([p[0] for p in ps], dtype=np.int64)
    for i, (c, n) in enumerate(ps):
        a = c_arr[i:i + 1]
        x64 = float((a.astype(np.float64) / n)[0])
        x32 = float((a.astype(np.float32) / n)[0])
        h1 = _digest(h1, x64)
        h2 = _digest(h2, c / n)
        h3 = _digest(h3, x32)
        h4 = _digest(h4, float(np.float32(c / n)))
        freq = a.astype(fd) / n
        if _eq_case_misclassified(freq, n, [c]):
            bad.append([c, n])
    return {"d64": h1, "dpy": h2, "d32": h3, "t32": h4, "eq_pruned": bad[:20], "dtype": str(fd)}


class _Stream:
    """a token sequence of the real length, generated lazily (len / iteration / set() are all the code needs)"""

    def __init__(self, toks, counts):
        self.toks, self.counts = toks, counts

    def __len__(self):
        return sum(self.counts)

    def __iter__(self):
        # the rare tokens are spread through the stream, the filler in between
        order = sorted(range(len(self.toks)), key=lambda i: self.counts[i])
        big = order[-1]
        half = self.counts[big] // 2
        yield from itertools.repeat(self.toks[big], half)
        for i in order[:-1]:
            yield from itertools.repeat(self.toks[i], self.counts[i])
        yield from itertools.repeat(self.toks[big], self.counts[big] - half)


def _kw(P, ints=False):
    kw = {}
    for name, occ, fr in (("min", "min_occurrences", "min_frequency"), ("max", "max_occurrences", "max_frequency"),
                          ("dmin", "min_document_occurrences", "min_document_frequency"),
                          ("dmax", "max_document_occurrences", "max_document_frequency")):
        kw[occ] = kw[fr] = None
        b = P.get(name)
        if b is not None:
            kw[occ if b[0] == "occ" else fr] = b[1]
    return kw


def _exc(e):
    return {"exc": type(e).__name__, "msg": str(e)[:120]}


def _items(d, ints):
    """dictionary -> sorted [[token, index], ...]; n-gram keys (tuples) become lists"""
    out = []
    for k, v in d.items():
        if isinstance(k, tuple):
            k = [x.item() if hasattr(x, "item") else x for x in k]
        elif hasattr(k, "item"):
            k = k.item()
        out.append([k, int(v)])
    return sorted(out, key=lambda e: (e[1], repr(e[0])))


def _run_synth(case):
    import numpy as np
    from vectorizers.preprocessing import prune_token_dictionary, construct_token_dictionary_and_frequency
    P, toks, counts, n, D = case["P"], case["tokens"], case["counts"], case["n"], case["D"]
    out = {"dtype": str(_freq_dtype())}
    try:
        if case.get("biglist"):
            d, freq, total = construct_token_dictionary_and_frequency(_Stream(toks, counts))
            out["total"] = int(total)
            out["dict0"] = _items(d, False)
        else:
            d = dict(zip(toks, range(len(toks))))
            freq = _code_freq(counts, n)
        if P["dmin"] is None and P["dmax"] is None:
            dfreq = np.array([])
        else:
            # construct_document_frequency: float64 zeros += bincount, / len(docs)
            dfreq = np.asarray(case["dcounts"], dtype=np.int64).astype(np.float64) / D
        kw = _kw(P)
        v, f = prune_token_dictionary(d, freq, token_doc_frequencies=dfreq,
                                      ignored_tokens=set(P["excl"]) if P["excl"] is not None else None,
                                      excluded_token_regex=P["regex"], max_unique_tokens=P["k"],
                                      total_tokens=n, total_documents=D, **kw)
        out["dict"] = _items(v, False)
        out["freqs"] = ["%d/%d" % float(x).as_integer_ratio() for x in f]
    except Exception as e:
        out.update(_exc(e))
    return out


def _fit_all(case, docs, gdocs):
    """first stage on `docs`, the n-gram estimators on `gdocs`"""
    import numpy as np
    from vectorizers import TokenCooccurrenceVectorizer, NgramVectorizer, NgramCooccurrenceVectorizer
    from vectorizers.preprocessing import preprocess_token_sequences
    P, ints = case["P"], case["ints"]
    kw = _kw(P)
    excl = set(P["excl"]) if P["excl"] is not None else None
    mask = case["mask"]
    sup = (lambda: {t: i for t, i in case["supplied"]}) if case["supplied"] is not None else (lambda: None)
    est_kw = dict(kw, max_unique_tokens=P["k"], excluded_tokens=excl, excluded_token_regex=P["regex"])
    out = {}
    only = case.get("only")     # shrinking: restrict the outputs that are computed ("pre" always is)

    def want(name):
        return only is None or name in only
    try:
        seqs, d, inv, fr = preprocess_token_sequences(
            [list(x) for x in docs], token_dictionary=sup(), max_unique_tokens=P["k"], ignored_tokens=excl,
            excluded_token_regex=P["regex"], masking=mask, **kw)
        out["pre"] = _items(d, ints)
        out["pre_seqs"] = [[int(x) for x in s] for s in seqs]
    except Exception as e:
        out["pre"] = _exc(e)
    # the copies of the preprocessing for (token, time) pairs and for sequences of multisets
    from vectorizers.preprocessing import preprocess_timed_token_sequences, preprocess_multi_token_sequences
    # (a document that keeps no token makes preprocess_timed_token_sequences fail after the dictionary is
    # built — a 1-d empty array appended to a typed list of 2-d arrays; not vocabulary learning, skipped)
    keeps_some = isinstance(out.get("pre"), list) and all(
        len(x) > 0 and (mask is not None or any(t in {e[0] for e in out["pre"]} for t in x)) for x in docs)
    if keeps_some and want("timed"):
        try:
            tdocs = [[(t, float(i)) for i, t in enumerate(x)] for x in docs]
            r = preprocess_timed_token_sequences(tdocs, token_dictionary=sup(), max_unique_tokens=P["k"],
                                                 ignored_tokens=excl, excluded_token_regex=P["regex"],
                                                 masking=mask, **kw)
            out["timed"] = _items(r[1], ints)
        except Exception as e:
            out["timed"] = _exc(e)
    if all(len(x) > 0 for x in docs) and want("multi"):
        try:
            mdocs = [[list(x[i:i + 2]) for i in range(0, len(x), 2)] for x in docs]
            r = preprocess_multi_token_sequences(mdocs, token_dictionary=sup(), max_unique_tokens=P["k"],
                                                 ignored_tokens=excl, excluded_token_regex=P["regex"], masking=mask, **kw)
            out["multi"] = _items(r[1], ints)
        except Exception as e:
            out["multi"] = _exc(e)
    # trailing supplied tokens that never occur make the frequency table too short (D30, not this property):
    # the co-occurrence estimators are only run when the highest index occurs
    flat = {t for d_ in docs for t in d_}
    run_tcv = case["supplied"] is None or (max(case["supplied"], key=lambda e: e[1])[0] in flat)
    # a corpus without a single token, with masking on: the dictionary is {mask: 0} and the co-occurrence
    # build then fails inside numba (empty typed lists) — not vocabulary learning; checked through
    # preprocess_token_sequences / NgramVectorizer only
    if not flat and mask is not None:
        run_tcv = False
    if run_tcv and want("tcv"):
        try:
            m = TokenCooccurrenceVectorizer(token_dictionary=sup(), mask_string=mask, window_radii=1, **est_kw)
            m.fit([list(x) for x in docs])
            out["tcv"] = _items(m.token_label_dictionary_, ints)
        except Exception as e:
            out["tcv"] = _exc(e)
    if want("ngram1"):
        try:
            m = NgramVectorizer(ngram_size=1, token_dictionary=sup(), mask_string=mask, **est_kw)
            m.fit([list(x) for x in docs])
            out["ngram1"] = _items(m.column_label_dictionary_, ints)
        except Exception as e:
            out["ngram1"] = _exc(e)
    if case["supplied"] is None and want("ngram2"):
        try:
            m = NgramVectorizer(ngram_size=2, mask_string=mask, **est_kw)
            m.fit([list(x) for x in gdocs])
            out["ngram2"] = _items(m.column_label_dictionary_, ints)
        except Exception as e:
            out["ngram2"] = _exc(e)
    if case["supplied"] is None and want("ncv"):
        try:
            m = NgramCooccurrenceVectorizer(ngram_size=2, mask_string=mask, window_radii=1, **est_kw)
            (seqs, m.token_label_dictionary_, m.token_index_dictionary_, m._token_frequencies_) = m._preprocessing(
                [list(x) for x in gdocs], m.token_dictionary, max_unique_tokens=P["k"], ignored_tokens=excl,
                excluded_token_regex=P["regex"], masking=mask, **kw)
            m._process_n_grams(seqs)
            out["ncv"] = _items(m.ngram_label_dictionary_, ints)
        except Exception as e:
            out["ncv"] = _exc(e)
    if case["supplied"] is None and case.get("full_ncv") and want("ncv_fit"):
        try:
            m = NgramCooccurrenceVectorizer(ngram_size=2, mask_string=mask, window_radii=1, **est_kw)
            m.fit([list(x) for x in gdocs])
            out["ncv_fit"] = {"tokens": _items(m.token_label_dictionary_, ints),
                              "ngrams": _items(m.ngram_label_dictionary_, ints)}
        except Exception as e:
            out["ncv_fit"] = _exc(e)
    return out


def run_impl(case):
    k = case["kind"]
    if k == "grid":
        return _run_grid(case)
    if k == "pairs":
        return _run_pairs(case)
    if k == "synth":
        return _run_synth(case)
    return {"a": _fit_all(case, case["docs"], case["docs"]),
            "b": _fit_all(case, case["docs2"], case.get("docs3", case["docs"]))}


# ------------------------------------------------------------------ model side

def _rat(x):
    n, d = float(x).as_integer_ratio()
    return f"{n}/{d}"


def _mbound(b):
    if b is None:
        return None
    return ["occ", b[1]] if b[0] == "occ" else ["freq", _rat(b[1])]


def _mtok(t, ints):
    return [t] if ints else t


def _mparams(P, uniq, ints):
    req = {"min": _mbound(P["min"]), "max": _mbound(P["max"]), "dmin": _mbound(P["dmin"]), "dmax": _mbound(P["dmax"]),
           "k": P["k"]}
    if P["excl"] is not None:
        req["excl"] = [_mtok(t, ints) for t in P["excl"]]
    if P["regex"] is not None:
        req["regex_matches"] = [_mtok(t, ints) for t in uniq if re.fullmatch(P["regex"], t) is not None]
    return req


def model_requests(case, outs):
    k = case["kind"]
    if k == "grid":
        return [{"op": "vocab.grid", "lo": case["lo"], "hi": case["hi"], "f32": case["f32"]}]
    if k == "pairs":
        return [{"op": "vocab.pairs", "pairs": case["pairs"]}]
    if k == "synth":
        req = {"op": "vocab.prune", "kind": "str", "tokens": case["tokens"], "counts": case["counts"],
               "dcounts": case["dcounts"], "n": case["n"], "D": case["D"]}
        req.update(_mparams(case["P"], case["tokens"], False))
        return [req]
    ints = case["ints"]
    reqs = []
    for docs in (case["docs"], case["docs2"]):
        uniq = sorted({t for d in docs for t in d})
        req = {"op": "vocab.learn", "kind": "ints" if ints else "str",
               "docs": [[_mtok(t, ints) for t in d] for d in docs]}
        req.update(_mparams(case["P"], uniq, ints))
        if case["mask"] is not None:
            req["mask"] = _mtok(case["mask"], ints)
        if case["supplied"] is not None:
            req["supplied"] = [[_mtok(t, ints), i] for t, i in case["supplied"]]
        else:
            req["ngram"] = 2
        reqs.append(req)
    return reqs


def _untok(t, ints):
    return t[0] if ints else t


def _first_pair_mismatch(pairs, stream):
    """locate the first (c, n) on which the model and numpy/Python disagree (detail request to the driver)"""
    import numpy as np
    from . import core
    for i in range(0, len(pairs), 2000):
        chunk = pairs[i:i + 2000]
        if stream in ("d64", "dpy"):
            r = core.run_driver([{"op": "vocab.rn", "p": 53, "pairs": chunk}])[0]["rn"]
            for (c, n), m in zip(chunk, r):
                x = float(np.array([c]).astype(np.float64)[0] / n) if stream == "d64" else c / n
                if _rat(x) != m:
                    return f"(c={c}, n={n}): impl {_rat(x)} model {m}"
        else:
            r = core.run_driver([{"op": "vocab.div32", "pairs": chunk}])[0]["r"]
            for (c, n), m in zip(chunk, r):
                x = float((np.array([c]).astype(np.float32) / n)[0]) if stream == "d32" else float(np.float32(c / n))
                if _rat(x) != m[0 if stream == "d32" else 1]:
                    return f"(c={c}, n={n}): impl {_rat(x)} model {m}"
    return "digest differs but no single pair does (harness problem)"


def compare(case, outs, resps):
    o = outs["normal"]
    if "crash" in o:
        return []
    if not resps:
        return ["no model response"]
    for r in resps:
        if "bad" in r:
            return [f"model rejected request: {r['bad']}"]
    k = case["kind"]
    d = []
    if k == "grid":
        for mi, ii in zip(resps[0]["rows"], o["rows"]):
            n = mi[0]
            names = [("d64", 1, 1), ("dpy", 1, 2)] + ([("d32", 2, 3), ("t32", 3, 4)] if case["f32"] else [])
            for name, a, b in names:
                if mi[a] != ii[b]:
                    d.append(f"n={n} stream {name}: " + _first_pair_mismatch([[c, n] for c in range(n + 1)], name))
            if len(d) > 3:
                break
        return d
    if k == "pairs":
        r = resps[0]
        for name, mk in (("d64", "d53"), ("dpy", "d53"), ("d32", "d32"), ("t32", "t32")):
            if o[name] != r[mk]:
                d.append(f"stream {name}: " + _first_pair_mismatch(case["pairs"], name))
        return d
    if k == "synth":
        r = resps[0]
        if "exc" in o:
            return [f"prune_token_dictionary raised {o['exc']}: {o['msg']}; model {r['dict']}"]
        if o["dict"] != r["dict"]:
            d.append(f"prune_token_dictionary {o['dict']} != model {r['dict']}")
        elif o["freqs"] != r["freqs"] and o["dtype"] == "float64":
            d.append(f"returned frequencies {o['freqs']} != model {r['freqs']}")
        return d
    ints = case["ints"]
    for tag, r in zip(("a", "b"), resps):
        oo = o[tag]
        fitted = [[_untok(t, ints), i] for t, i in r["fitted"]]
        fitted = sorted(fitted, key=lambda e: (e[1], repr(e[0])))
        for name in ("pre", "tcv", "ngram1", "timed", "multi"):
            if name not in oo:
                continue
            got = oo[name]
            if isinstance(got, dict):
                if name == "tcv" and got["exc"] == "ValueError" and not fitted:
                    continue
                d.append(f"{tag}.{name} raised {got['exc']}: {got['msg']}; model {fitted}")
            elif got != fitted:
                d.append(f"{tag}.{name} {got} != model {fitted}")
        if case["supplied"] is None and case["mask"] is None and tag == "a":
            gd = [[[_untok(t, ints) for t in g], i] for g, i in r["gram_dict"]]
            got = oo.get("ngram2")
            if isinstance(got, dict):
                d.append(f"{tag}.ngram2 raised {got['exc']}: {got['msg']}; model {gd}")
            elif got != gd:
                d.append(f"{tag}.ngram2 {got} != model {gd}")
            got = oo.get("ncv")
            gj = [["_".join(str(x) for x in g), i] for g, i in gd]
            if isinstance(got, dict):
                if not (got["exc"] == "ValueError" and not gd):
                    d.append(f"{tag}.ncv raised {got['exc']}: {got['msg']}; model {gj}")
            elif got != gj:
                d.append(f"{tag}.ncv {got} != model {gj}")
    return d


# ------------------------------------------------------------------ oracle (the property, on the impl)

def _F(key, msg):
    return {"key": key, "msg": msg}


def _side(b, c, n, lower):
    """'keep' / 'drop' / 'either' for one bound; c = count, n = total.  Occurrence bounds are exact integers;
    a frequency bound f is the exact value of the Python float, 'either' only inside one float64 rounding."""
    if b is None:
        return "keep"
    if b[0] == "occ":
        ok = (b[1] <= c) if lower else (c <= b[1])
        return "keep" if ok else "drop"
    f = b[1]
    if n == 0:
        return "either"
    exact_ok = (Fraction(c, n) >= Fraction(f)) if lower else (Fraction(c, n) <= Fraction(f))
    if exact_ok:
        return "keep"
    q = c / n   # correctly rounded double
    return "drop" if ((q < f) if lower else (q > f)) else "either"


def _classify(tokens, counts, dcounts, n, D, P):
    """token -> 'keep' | 'drop' | 'either' by the property text (before max_unique_tokens)"""
    res = {}
    excl = set(P["excl"]) if P["excl"] is not None else set()
    for t in tokens:
        c, dc = counts[t], dcounts[t]
        sides = [_side(P["min"], c, n, True), _side(P["max"], c, n, False),
                 _side(P["dmin"], dc, D, True), _side(P["dmax"], dc, D, False)]
        if t in excl:
            sides.append("drop")
        if P["regex"] is not None and isinstance(t, str) and re.fullmatch(P["regex"], t) is not None:
            sides.append("drop")
        res[t] = "drop" if "drop" in sides else ("either" if "either" in sides else "keep")
    return res


def _tags(t, counts, dcounts, n, P):
    eq = any(b is not None and b[0] == "occ" and b[1] == counts[t] for b in (P["min"], P["max"])) or \
         any(b is not None and b[0] == "occ" and b[1] == dcounts[t] for b in (P["dmin"], P["dmax"]))
    s = ".count-eq-bound" if eq else ""
    if n >= BIG:
        s += ".total>=2^24"
    return s


def _check_vocab(name, items, tokens, counts, dcounts, n, D, P, keyfn=None):
    """items: [[token, index], ...] learned dictionary (mask entry already removed)."""
    fails = []
    hk = (lambda t: tuple(t) if isinstance(t, list) else t)
    V = [hk(t) for t, _ in items]
    cls = _classify(tokens, counts, dcounts, n, D, P)
    Vs = set(V)
    if len(Vs) != len(V):
        fails.append(_F("vocab.duplicate-token", f"{name}: {items}"))
    for t in V:
        if t not in cls:
            fails.append(_F("vocab.kept-unknown-token", f"{name}: {t!r} is not a token of the corpus"))
        elif cls[t] == "drop":
            fails.append(_F("vocab.kept-not-satisfying" + _tags(t, counts, dcounts, n, P),
                            f"{name}: {t!r} (count {counts[t]}/{n}, docs {dcounts[t]}/{D}) violates {P} but is kept"))
    hi = [t for t in tokens if cls[t] != "drop"]
    lo = [t for t in tokens if cls[t] == "keep"]
    k = P["k"]
    if k is None or len(hi) <= k:
        for t in lo:
            if t not in Vs:
                fails.append(_F("vocab.dropped-satisfying" + _tags(t, counts, dcounts, n, P),
                                f"{name}: {t!r} (count {counts[t]}/{n}, docs {dcounts[t]}/{D}) meets {P} but is dropped"))
    if k is not None:
        if len(V) > k:
            fails.append(_F("vocab.topk-too-many", f"{name}: {len(V)} tokens kept, max_unique_tokens={k}"))
        kept_known = [t for t in V if t in cls]
        if kept_known:
            mn = min(counts[t] for t in kept_known)
            for t in lo:
                if t not in Vs and counts[t] > mn:
                    fails.append(_F("vocab.topk-dropped-more-frequent",
                                    f"{name}: dropped {t!r} (count {counts[t]}) is more frequent than a kept token (count {mn})"))
    exp = sorted(V)
    if [hk(t) for t, _ in sorted(items, key=lambda e: e[1])] != exp or sorted(i for _, i in items) != list(range(len(V))):
        fails.append(_F("vocab.indices-not-sorted-contiguous", f"{name}: {items}"))
    return fails


def _windows(seq, n):
    return [tuple(seq[i:i + n]) for i in range(len(seq)) if i + n <= len(seq)]


def _oracle_fit(case, tag, docs, oo, gdocs_src):
    fails = []
    P, ints, mask = case["P"], case["ints"], case["mask"]
    flat = [t for d in docs for t in d]
    tokens = sorted(set(flat))
    counts = Counter(flat)
    dcounts = Counter(t for d in docs for t in set(d))
    n, D = len(flat), len(docs)
    pre_vocab = None
    for name in ("pre", "tcv", "ngram1", "timed", "multi"):
        if name not in oo:
            continue
        got = oo[name]
        nm = f"{tag}.{name}"
        if isinstance(got, dict):
            # an exception: only ValueError, only from the co-occurrence estimators, only for an empty dictionary
            if got["exc"] != "ValueError":
                fails.append(_F(f"vocab.raises.{got['exc']}", f"{nm}: {got['exc']}: {got['msg']} on docs={docs} P={P}"))
            elif name != "tcv" or not isinstance(oo.get("pre"), list) or len(oo["pre"]) != 0:
                fails.append(_F("vocab.valueerror-nonempty", f"{nm}: ValueError although the dictionary is {oo.get('pre')}"))
            continue
        items = got
        if mask is not None:
            me = [e for e in items if e[0] == mask]
            items = [e for e in items if e[0] != mask]
            if len(me) != 1 or me[0][1] != len(items):
                fails.append(_F("vocab.mask-entry", f"{nm}: mask entry {me} for a dictionary of {len(items)} tokens"))
        if case["supplied"] is not None:
            sup = [e for e in case["supplied"] if e[0] != mask]
            if sorted(items, key=repr) != sorted([list(e) for e in sup], key=repr):
                fails.append(_F("vocab.supplied-not-verbatim", f"{nm}: {got} for supplied {case['supplied']} mask={mask}"))
            continue
        fails += _check_vocab(nm, items, tokens, counts, dcounts, n, D, P)
        if name == "pre":
            pre_vocab = {t: i for t, i in items}
    # second stage: n-grams of the sequences restricted to the (implementation's, checked above) first-stage vocabulary
    if case["supplied"] is None and pre_vocab is not None:
        if mask is None:
            seqs = [[t for t in d if t in pre_vocab] for d in gdocs_src]
        else:
            seqs = [[t if t in pre_vocab else mask for t in d] for d in gdocs_src]
        gdocs = [_windows(s, 2) for s in seqs]
        gflat = [g for d in gdocs for g in d]
        gtokens = sorted(set(gflat)) if mask is None else list(set(gflat))
        gcounts = Counter(gflat)
        gd = Counter(g for d in gdocs for g in set(d))
        P2 = dict(P, excl=None, regex=None)
        for name in ("ngram2", "ncv", "ncv_fit"):
            if name not in oo:
                continue
            got = oo[name]
            nm = f"{tag}.{name}"
            if name == "ncv_fit" and "exc" not in got:
                if got["tokens"] != oo["pre"]:
                    fails.append(_F("vocab.estimators-disagree", f"{nm}: token dictionary {got['tokens']} != {oo['pre']}"))
                got = got["ngrams"]
            if isinstance(got, dict):
                if got["exc"] != "ValueError":
                    fails.append(_F(f"vocab.raises.{got['exc']}", f"{nm}: {got['exc']}: {got['msg']} on docs={docs} P={P}"))
                elif name == "ngram2":
                    fails.append(_F("vocab.valueerror-nonempty", f"{nm}: ValueError {got['msg']}"))
                else:
                    # ValueError of the co-occurrence estimator: token or n-gram dictionary must be empty
                    ng2 = oo.get("ngram2")
                    if len(pre_vocab) != 0 and not (isinstance(ng2, list) and len(ng2) == 0):
                        fails.append(_F("vocab.valueerror-nonempty", f"{nm}: ValueError although dictionaries are non-empty"))
                continue
            if name == "ngram2":
                items = [[tuple(g), i] for g, i in got]
            else:
                back = {"_".join(str(x) for x in g): g for g in gflat}
                items = [[back.get(g, g), i] for g, i in got]
            if mask is None:
                fails += [dict(f, key=f["key"].replace("vocab.", "vocab.ngram.")) for f in
                          _check_vocab(nm, items, gtokens, gcounts, gd, len(gflat), D, P2)]
            else:
                fs = _check_vocab(nm, items, gtokens, gcounts, gd, len(gflat), D, P2)
                fails += [dict(f, key=f["key"].replace("vocab.", "vocab.ngram.")) for f in fs
                          if "indices-not-sorted" not in f["key"]]
                if sorted(i for _, i in items) != list(range(len(items))):
                    fails.append(_F("vocab.ngram.indices-not-sorted-contiguous", f"{nm}: {got}"))
    return fails


def oracle(case, outs):
    o = outs["normal"]
    if "crash" in o:
        return [_F("vocab.crash", f"process terminated: {o['crash']}")]
    k = case["kind"]
    if k in ("grid", "pairs"):
        fails = []
        for c, n in o["eq_pruned"][:3]:
            fails.append(_F("vocab.count-eq-bound-pruned" + (".total>=2^24" if n >= BIG else ""),
                            f"count {c} of total {n}: frequency ({o['dtype']}) compares unequal to the bound {c}/{n}: "
                            f"a token occurring exactly min/max_occurrences={c} times is pruned"))
        return fails
    if k == "synth":
        P = case["P"]
        toks = case["tokens"]
        counts = dict(zip(toks, case["counts"]))
        dcounts = dict(zip(toks, case["dcounts"]))
        if "exc" in o:
            return [_F(f"vocab.raises.{o['exc']}", f"prune_token_dictionary: {o['exc']}: {o['msg']} on {case}")]
        fails = []
        if case.get("biglist"):
            if o["total"] != case["n"] or o["dict0"] != [[t, i] for i, t in enumerate(sorted(toks))]:
                fails.append(_F("vocab.raw-dictionary", f"construct_token_dictionary_and_frequency: total {o['total']} dict {o['dict0']}"))
        return fails + _check_vocab("prune", o["dict"], sorted(toks), counts, dcounts, case["n"], case["D"], P)
    fails = _oracle_fit(case, "a", case["docs"], o["a"], case["docs"]) + \
        _oracle_fit(case, "b", case["docs2"], o["b"], case.get("docs3", case["docs"]))
    # order independence: the shuffled corpus gives the same dictionaries
    for name in ("pre", "tcv", "ngram1", "timed", "multi", "ngram2", "ncv"):
        if name in o["a"] and o["a"][name] != o["b"].get(name):
            x, y = o["a"][name], o["b"].get(name)
            if isinstance(x, dict) and isinstance(y, dict) and x.get("exc") == y.get("exc"):
                continue
            fails.append(_F("vocab.order-dependent", f"{name}: {x} for docs={case['docs']} but {y} for docs={case['docs2']}"))
    return fails


# ------------------------------------------------------------------ statistics / shrinking

def _eq_hit(case):
    """does some token's (document) count equal a configured occurrence bound / frequency bound?"""
    P = case["P"]
    if case["kind"] == "synth":
        cs, ds, n, D = case["counts"], case["dcounts"], case["n"], case["D"]
    else:
        flat = [t for d in case["docs"] for t in d]
        cs = list(Counter(flat).values())
        ds = list(Counter(t for d in case["docs"] for t in set(d)).values())
        n, D = len(flat), len(case["docs"])
    hit = False
    for b, vals, tot in ((P["min"], cs, n), (P["max"], cs, n), (P["dmin"], ds, D), (P["dmax"], ds, D)):
        if b is None:
            continue
        if b[0] == "occ":
            hit |= b[1] in vals
        elif tot:
            hit |= any(v / tot == b[1] for v in vals)
    return hit


def nontrivial(case, outs):
    if case["kind"] in ("grid", "pairs"):
        return True
    if case["supplied"] is not None if case["kind"] == "corpus" else False:
        return True
    if _eq_hit(case):
        return True
    k = case["P"]["k"]
    if k is not None and case["kind"] == "corpus":
        cnt = sorted(Counter(t for d in case["docs"] for t in d).values(), reverse=True)
        return 0 < k < len(cnt) and cnt[k - 1] == cnt[k]
    return False


def stats(case, outs):
    k = case["kind"]
    o = outs["normal"]
    t = [k]
    if k == "grid":
        t.append("grid.pairs.%dk" % (sum(n + 1 for n in range(case["lo"], case["hi"] + 1)) // 1000))
        return t
    if k == "pairs":
        if any(n >= BIG for c, n in case["pairs"]):
            t.append("pairs.some-total>=2^24")
        return t
    P = case["P"]
    for nm in ("min", "max", "dmin", "dmax"):
        if P[nm] is not None:
            t.append(f"{nm}.{P[nm][0]}")
    for nm in ("excl", "regex", "k"):
        if P[nm] is not None:
            t.append(nm)
    if _eq_hit(case):
        t.append("count-eq-bound")
    if k == "synth":
        if case["n"] >= BIG:
            t.append("total>=2^24")
        if case.get("biglist"):
            t.append("biglist")
        if isinstance(o, dict) and o.get("dict") == []:
            t.append("empty-vocabulary")
        return t
    if case["ints"]:
        t.append("int-tokens")
    if case["mask"] is not None:
        t.append("mask")
    if case["supplied"] is not None:
        t.append("supplied")
    a = o.get("a", {}) if isinstance(o, dict) else {}
    if a.get("pre") == []:
        t.append("empty-vocabulary")
    if isinstance(a.get("tcv"), dict):
        t.append("tcv-raises." + a["tcv"].get("exc", "?"))
    if isinstance(a.get("ngram2"), list):
        t.append("ngram2.size%d" % min(len(a["ngram2"]), 3))
    return t


def shrink_candidates(case):
    k = case["kind"]
    if k == "grid":
        if case["hi"] > case["lo"]:
            mid = (case["lo"] + case["hi"]) // 2
            yield dict(case, hi=mid)
            yield dict(case, lo=mid + 1)
        return
    if k == "pairs":
        ps = case["pairs"]
        if len(ps) > 1:
            yield dict(case, pairs=ps[:len(ps) // 2])
            yield dict(case, pairs=ps[len(ps) // 2:])
        return
    P = case["P"]
    for nm in ("min", "max", "dmin", "dmax", "excl", "regex", "k"):
        if P[nm] is not None:
            yield dict(case, P=dict(P, **{nm: None}))
    if k == "synth":
        if case.get("biglist"):
            yield dict(case, biglist=False)
        for i in range(len(case["tokens"]) - 1):
            yield dict(case, tokens=case["tokens"][:i] + case["tokens"][i + 1:],
                       counts=case["counts"][:i] + case["counts"][i + 1:],
                       dcounts=case["dcounts"][:i] + case["dcounts"][i + 1:],
                       n=case["n"] - case["counts"][i])
        return
    if case.get("only") is None:
        # cheapest first: the failure may already show in preprocess_token_sequences alone (no JIT needed)
        for names in (["pre"], ["pre", "ngram1"], ["pre", "ngram2"], ["pre", "tcv"], ["pre", "ncv"],
                      ["pre", "timed"], ["pre", "multi"], ["pre", "ncv_fit"]):
            yield dict(case, only=names)
    if case["mask"] is not None:
        yield dict(case, mask=None)
    docs = case["docs"]
    for i in range(len(docs)):
        if len(docs) > 1:
            nd = docs[:i] + docs[i + 1:]
            yield dict(case, docs=nd, docs2=[list(reversed(d)) for d in reversed(nd)], docs3=list(reversed(nd)))
    for i, d in enumerate(docs):
        for j in range(len(d)):
            nd = docs[:i] + [d[:j] + d[j + 1:]] + docs[i + 1:]
            yield dict(case, docs=nd, docs2=[list(reversed(x)) for x in reversed(nd)], docs3=list(reversed(nd)))
