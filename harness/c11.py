"""C11 — EM refinement and epsilon thresholding follow the documented procedure.
Model: lean/VecModel/Model/EM.lean, theorems: lean/VecModel/Props/C11.lean."""
import math, sys
sys.set_int_max_str_digits(0)
from fractions import Fraction

PROP = "C11"
# generated twin (DESIGN §11.3): em_update_matrix regenerated from the repository's current source vs EM.emUpdateIdx
# inside Lean: 2 tokens x {1, 2} windows, two-row CSR matrices over every column subset, both targets, every window
# up to length 2 with every kernel over {0, 1, 1/2}; every 5th case also with a truncated prior / posterior / kernel /
# indptr array (both sides must fail together)
TWIN_CHECKS = [{"op": "twin.em_exhaustive"}]
RULE = ("token / timed / multiset / n-gram co-occurrence vectorizers on random corpora over 3-5 letter alphabets "
        "(1-4 sequences of length 0-10, timed: increasing quarter-integer time stamps, multiset: multisets of size "
        "1-3) x n_iter in {0..3} x epsilon in {0, 0.05, 0.13, 0.2, 0.3, 0.5} x n_threads in {1,2,3} x window radii "
        "1-5 (also larger than every sequence) x orientations before/after/directional x kernels "
        "flat/harmonic/geometric (+offset, +power) x fixed/variable radii x normalize_windows.  The starting "
        "(n_iter=0) matrix, the per-iteration priors and the posteriors are observed by wrapping the estimator's own "
        "_build_coo / _em_cooccurrence_iteration methods on the instance.  "
        "Non-trivial = n_iter >= 1, epsilon > 0 and some iteration looks up a cell (own row, context column) that "
        "thresholding removed from the n_iter=0 support.")
ASSUMPTIONS = [
    "values are exact rationals in the model (float32 in the code); outputs compared with rtol 1e-5; cells whose "
    "normalised value is within 1e-4 (relative) of epsilon may legitimately fall on either side of the threshold in "
    "float32 and are accepted either way by the oracle; the end-to-end model comparison is skipped for such cases "
    "(they are still checked stage by stage)",
    "epsilon is compared in float32 (numpy weak-scalar promotion): the model receives float32(epsilon) exactly",
    "the windows and kernel weights of every occurrence are inputs of the model; the harness obtains them by calling "
    "the implementation's own window_at_index / kernel functions with the fitted radius table; the oracle computes "
    "them independently from the documented window/kernel definitions (fixed radii: from the parameter; variable "
    "radii: from the fitted table)",
    "the starting matrix is the implementation's own co-occurrence count matrix of the same run (the per-chunk "
    "_build_coo results summed, duplicates summed, CSR: what n_iter=0, epsilon=0 returns; its correctness is C03's "
    "business)",
    "CSR arrays handed to the kernel are valid (scipy): indptr monotone, last = nnz, sorted unique columns per row",
]
MODES = [("normal", {}), ("boundscheck", {"NUMBA_BOUNDSCHECK": "1"})]
NWORKERS = {"quick": 8, "thorough": 8}
VECS = ["token", "timed", "multiset", "ngram"]
# case i runs in worker i % 8 (both tiers use 8 workers) and has the vectorizer LANES[i % 8]: every worker compiles one
# vectorizer family only.  NgramCooccurrenceVectorizer recompiles its kernels on every fit (a fresh tuple-converter
# closure, ~3 s), so it gets one lane in eight.
LANES = ["token", "timed", "multiset", "ngram", "token", "timed", "multiset", "token"]
EPS_GRID = [0, 0.05, 0.13, 0.2, 0.3, 0.5]
AMBIG = 1e-4


# ------------------------------------------------------------------ case generation

def _mk(vec, X, n_iter, eps, n_threads=1, **kw):
    return {"vec": vec, "X": X, "n_iter": n_iter, "epsilon": eps, "n_threads": n_threads, "kw": kw}


def _as_timed(seqs, rng=None):
    out, t = [], 0.0
    for s in seqs:
        row = []
        for tok in s:
            t += (rng.choice([0.25, 0.5, 1.0, 1.0, 2.0]) if rng else 1.0)
            row.append([tok, t])
        out.append(row)
    return out


def _as_multi(seqs):
    # one document per sequence, singleton multisets
    return [[[tok] for tok in s] for s in seqs]


D17 = [['0', '2', '2', '0', '0', '2', '3', '2', '3']]


def _layout(by_vec):
    """interleave per-vectorizer case lists so that case i has vectorizer LANES[i % 8]; the lists must hold
    3k / 2k / 2k / k cases (token / timed / multiset / ngram)."""
    k = len(by_vec["ngram"])
    assert [len(by_vec[v]) for v in VECS] == [3 * k, 2 * k, 2 * k, k], {v: len(by_vec[v]) for v in VECS}
    it = {v: iter(by_vec[v]) for v in VECS}
    return [next(it[LANES[i % 8]]) for i in range(8 * k)]


def corpus():
    B1, B2, B3 = D17, [['a', 'b', 'a', 'c'], ['b', 'c', 'c'], ['a']], [['a', 'b', 'c', 'a', 'b', 'd', 'a', 'c', 'd', 'd', 'b']]
    # minimised failures of the pre-repair kernel (D17): in compiled mode the n-gram case B4 credited a cell of the
    # neighbouring row (posterior 0.667 instead of 1), the others raise IndexError under bounds checking
    B4, B5 = [['2', '2', '0', '3', '3']], [['0', '2', '3', '2', '3']]
    S = [(1, 0.3), (2, 0.3), (3, 0.05), (1, 0)]
    tok = [_mk("token", X, ni, eps) for X in (B1, B2, B3) for ni, eps in S]
    tok += [_mk("token", B4, 1, 0.3), _mk("token", B5, 1, 0.3), _mk("token", B1, 2, 0.2), _mk("token", B2, 0, 0.3),
            _mk("token", B3, 2, 0.13, 3), _mk("token", B1, 1, 0.5)]
    tim = [_mk("timed", _as_timed(X), ni, eps) for X in (B1, B2, B3) for ni, eps in S[:3]]
    tim += [_mk("timed", _as_timed(B4), 1, 0.3), _mk("timed", _as_timed(B5), 1, 0.3), _mk("timed", _as_timed(B2), 1, 0, 2)]
    mul = [_mk("multiset", _as_multi(X), ni, eps) for X in (B1, B2, B3) for ni, eps in S[:3]]
    mul += [_mk("multiset", _as_multi(B4), 1, 0.3), _mk("multiset", _as_multi(B5), 1, 0.3),
            _mk("multiset", _as_multi(B2), 1, 0, 2)]
    ng = [_mk("ngram", X, ni, eps, ngram_size=2, window_radii=2)
          for X, (ni, eps) in ((B1, S[0]), (B2, S[1]), (B3, S[2]), (B4, S[0]), (B5, S[0]), (B1, S[3]))]
    return _layout({"token": tok, "timed": tim, "multiset": mul, "ngram": ng})


def _rand_seqs(rng, tier):
    k = rng.choice([3, 3, 4, 5])
    alpha = "abcde"[:k]
    nseq = rng.choice([1, 1, 2, 3, 4])
    seqs = []
    for _ in range(nseq):
        n = rng.choice([0, 1, 2, 4, 6, 8, 10] if tier == "quick" else [0, 1, 2, 4, 6, 8, 10, 14, 20])
        # skewed letter distribution so that normalised columns have small entries to prune
        seqs.append([rng.choice(alpha[:2] + alpha) for _ in range(n)])
    if sum(len(s) for s in seqs) < 3:
        seqs.append([rng.choice(alpha) for _ in range(5)])
    return seqs


def _rand_kw(rng, vec):
    kw = {}
    nwin = rng.choice([1, 1, 1, 2])
    radii = [rng.choice([1, 2, 2, 3, 5, 12]) for _ in range(nwin)]
    orient = [rng.choice(["before", "after", "directional", "directional"]) for _ in range(nwin)]
    kw["window_radii"] = radii if nwin > 1 or rng.random() < 0.5 else radii[0]
    kw["window_orientations"] = orient if nwin > 1 or rng.random() < 0.5 else orient[0]
    if vec in ("token", "ngram"):
        ker = rng.choice(["flat", "flat", "harmonic", "geometric"])
    else:
        ker = rng.choice(["flat", "flat", "geometric"])
    kw["kernel_functions"] = [ker] * nwin if nwin > 1 else ker
    ka = {}
    if ker == "geometric" and rng.random() < 0.6:
        ka["power"] = rng.choice([0.5, 0.25, 0.75])
    if vec != "multiset" and rng.random() < 0.25:
        ka["offset"] = rng.choice([1, 2])
    if rng.random() < 0.15:
        ka["normalize"] = True
    if ka:
        # key order must follow the kernel's positional parameters (normalize, offset, power)
        ka = {k: ka[k] for k in ("normalize", "offset", "power") if k in ka}
        kw["kernel_args"] = ka if nwin == 1 or rng.random() < 0.5 else [dict(ka) for _ in range(nwin)]
    wf = "variable" if vec in ("token", "timed", "ngram") and rng.random() < 0.2 else "fixed"
    if nwin > 1:
        kw["window_functions"] = [wf] * nwin
    elif wf == "variable":
        kw["window_functions"] = wf
    if rng.random() < 0.3:
        kw["normalize_windows"] = False
    if nwin > 1 and rng.random() < 0.5:
        kw["mix_weights"] = [rng.choice([1, 2, 0.5]) for _ in range(nwin)]
    if vec == "ngram":
        kw["ngram_size"] = rng.choice([1, 2, 2, 3])
    return kw


def _gen_one(rng, tier, vec):
    seqs = _rand_seqs(rng, tier)
    if vec == "timed":
        # an empty (token, time) sequence makes preprocess_timed_token_sequences fail to compile (numba
        # AssertionError on the shape-(0,) array) — preprocessing's business, kept out of the C11 inputs
        X = _as_timed([s for s in seqs if s] or [["a", "b", "a"]], rng)
    elif vec == "multiset":
        docs = []
        for s in seqs:
            doc, i = [], 0
            while i < len(s):
                m = rng.choice([1, 1, 2, 3])
                doc.append(s[i:i + m]); i += m
            docs.append(doc)
        X = [d for d in docs if d] or [[["a"], ["b"]]]
    else:
        X = seqs
    ni = rng.choice([0, 1, 1, 2, 2, 3])
    eps = rng.choice(EPS_GRID if ni > 0 else EPS_GRID[1:] + [0])
    if ni >= 1 and rng.random() < 0.5:
        eps = rng.choice(EPS_GRID[1:])
    nt = rng.choice([1, 1, 2, 3])
    return _mk(vec, X, ni, eps, nt, **_rand_kw(rng, vec))


def _big_hub(n=40000):
    """hub token 0 followed by each of n other tokens: row 0 of the 'after' matrix stores n cells (> 2^15)"""
    return {"vec": "token", "big": n, "X": None, "n_iter": 1, "epsilon": 0, "n_threads": 1, "kw": {}}


def generate(rng, tier):
    n = 96 if tier == "quick" else 1200
    # corpus() has a multiple of 8 entries, so the lane pattern continues
    cs = [_gen_one(rng, tier, LANES[i % 8]) for i in range(n)]
    for c in cs:
        # history: the same estimator ran (EM included) on a shorter corpus first
        if len(c["X"]) >= 2 and rng.random() < 0.35:
            c["prefit"] = rng.randint(1, len(c["X"]) - 1)
    return cs + [_big_hub(rng.choice([33000, 40000]))]


def search(rng, tier):
    return generate(rng, tier)


# ------------------------------------------------------------------ implementation side (worker)

def _ctor(case):
    from vectorizers import (TokenCooccurrenceVectorizer, TimedTokenCooccurrenceVectorizer,
                             MultiSetCooccurrenceVectorizer, NgramCooccurrenceVectorizer)
    return {"token": TokenCooccurrenceVectorizer, "timed": TimedTokenCooccurrenceVectorizer,
            "multiset": MultiSetCooccurrenceVectorizer, "ngram": NgramCooccurrenceVectorizer}[case["vec"]]


def _mat(M):
    import numpy as np
    M = M.tocsr()
    cols, vals = [], []
    for r in range(M.shape[0]):
        sl = slice(M.indptr[r], M.indptr[r + 1])
        cols.append([int(c) for c in M.indices[sl]])
        vals.append([float(x) for x in M.data[sl]])
    return {"shape": [int(M.shape[0]), int(M.shape[1])], "cols": cols, "vals": vals,
            "sorted": bool(all(all(a < b for a, b in zip(c, c[1:])) for c in cols))}


def _capture(v):
    """observe the estimator's own pipeline: the preprocessed sequences given to
    _build_token_cooccurrence_matrix and every (prior, posterior) of _em_cooccurrence_iteration."""
    import numpy as np
    rec = {"calls": [], "coo": []}
    build, em, bcoo = v._build_token_cooccurrence_matrix, v._em_cooccurrence_iteration, v._build_coo

    def wbuild(token_sequences):
        rec["ts"] = token_sequences
        return build(token_sequences)

    def wcoo(token_sequences):
        k = len(rec["coo"])
        rec["coo"].append(None)                 # slot in submission order
        r = bcoo(token_sequences=token_sequences)
        rec["coo"][k] = r.copy() if hasattr(r, "copy") else r   # an empty multiset chunk yields sum([]) == 0
        return r
    v._build_coo = wcoo

    def wem(token_sequences, cooccurrence_matrix):
        out = em(token_sequences=token_sequences, cooccurrence_matrix=cooccurrence_matrix)
        # snapshot the prior now (its .data is overwritten after the round); keep the object alive so ids stay unique
        rec["calls"].append((id(cooccurrence_matrix), cooccurrence_matrix.copy(), np.array(out, dtype=np.float64).copy(),
                             str(np.asarray(out).dtype), cooccurrence_matrix))
        return out

    v._build_token_cooccurrence_matrix = wbuild
    v._em_cooccurrence_iteration = wem
    return rec


def _occurrences(v, vec, ts):
    """what the per-vectorizer drivers hand to em_update_matrix, computed with the implementation's own
    window_at_index / kernel functions and fitted tables; one list per sequence (document)."""
    import numpy as np
    from vectorizers._window_kernels import window_at_index
    wla, rev, kf, ka, mix = (v._window_len_array, v._window_reversals, v._kernel_functions,
                             v._full_kernel_args, v._mix_weights)
    nw = wla.shape[0]
    per_seq = []
    if vec == "token":
        for seq in ts:
            occ = []
            for w_i, t in enumerate(seq):
                ws = [window_at_index(seq, wla[i, t], w_i, reverse=rev[i]) for i in range(nw)]
                ks = [mix[i] * kf[i](ws[i], *ka[i]) for i in range(nw)]
                occ.append({"t": int(t), "w": [[int(x) for x in w] for w in ws], "k": [[float(x) for x in k] for k in ks]})
            per_seq.append(occ)
    elif vec == "timed":
        for seq in ts:
            occ = []
            for w_i, pair in enumerate(seq):
                t = np.int32(pair[0]); tt = pair[1]
                ws, ks = [], []
                for i in range(nw):
                    win = window_at_index(seq, wla[i, t], w_i, reverse=rev[i])
                    tw = np.array([w[0] for w in win], dtype=np.int32)
                    td = np.array([np.abs(w[1] - tt) for w in win], dtype=np.float64)
                    ws.append(tw); ks.append(mix[i] * kf[i](tw, td, *ka[i]))
                occ.append({"t": int(t), "w": [[int(x) for x in w] for w in ws], "k": [[float(x) for x in k] for k in ks]})
            per_seq.append(occ)
    elif vec == "multiset":
        for doc in ts:
            occ = []
            for d_i, mset in enumerate(doc):
                for w_i, t in enumerate(mset):
                    ws, ks = [], []
                    for i in range(nw):
                        r = int(wla[i, 0])
                        if not rev[i]:
                            mw = doc[d_i: min(len(doc), d_i + r + 1)]
                        else:
                            mw = doc[max(0, d_i - r): d_i + 1]
                            mw.reverse()
                        ks.append(mix[i] * kf[i](mw, w_i, *ka[i]))
                        ws.append([int(x) for m in mw for x in m])
                    occ.append({"t": int(t), "w": ws, "k": [[float(x) for x in k] for k in ks]})
            per_seq.append(occ)
    else:
        n = v.ngram_size
        nd = {tuple(int(a) for a in k): int(val) for k, val in v._raw_ngram_dictionary_.items()}
        for seq in ts:
            occ = []
            for w_i in range(n - 1, len(seq)):
                g = tuple(int(a) for a in seq[w_i - n + 1: w_i + 1])
                if g in nd:
                    t = nd[g]
                    ws = [window_at_index(seq, wla[i][t], w_i - (1 if rev[i] else 0) * (n - 1), reverse=rev[i]) for i in range(nw)]
                    ks = [mix[i] * kf[i](ws[i], *ka[i]) for i in range(nw)]
                    occ.append({"t": int(t), "w": [[int(x) for x in w] for w in ws], "k": [[float(x) for x in k] for k in ks]})
            per_seq.append(occ)
    return per_seq


def _kwargs(case):
    kw = dict(case["kw"])
    return kw


def _run_big(case):
    """summary only: with epsilon = 0 one EM round keeps the support and every non-empty column sums to 1"""
    import numpy as np
    from vectorizers import TokenCooccurrenceVectorizer
    n = case["big"]
    seq = []
    for i in range(1, n + 1):
        seq += [0, i]
    res = {}
    for ni in (0, 1):
        v = TokenCooccurrenceVectorizer(n_iter=ni, epsilon=0, window_radii=1, window_orientations="after",
                                        normalize_windows=False)
        M = v.fit_transform([seq]).tocsc()
        M.eliminate_zeros()
        sums = np.asarray(M.sum(axis=0)).ravel()
        hub = v.token_label_dictionary_[0]
        res[str(ni)] = {"nnz": int(M.nnz), "hub_row_nnz": int(M.tocsr()[hub].nnz),
                        "nonempty_cols": int(np.count_nonzero(np.diff(M.indptr))),
                        "cols_sum_1": int(np.sum(np.abs(sums - 1.0) < 1e-5)),
                        "support": hash(tuple(M.tocoo().row.tolist())) ^ hash(tuple(M.tocoo().col.tolist()))}
    return {"big": res}


def run_impl(case):
    import numpy as np
    cls = _ctor(case)
    kw = _kwargs(case)
    out = {}
    if case.get("big"):
        return _run_big(case)
    v = cls(n_iter=case["n_iter"], epsilon=case["epsilon"], n_threads=case["n_threads"], **kw)
    if case.get("prefit"):
        try:
            v.fit_transform(case["X"][:case["prefit"]])
        except Exception:
            pass
    rec = _capture(v)
    try:
        M = v.fit_transform(case["X"])
    except Exception as e:
        return {"exc": type(e).__name__, "msg": str(e)[:200]}
    out["M"] = _mat(M)
    # group the observed kernel calls per EM round: the rounds are sequential (dask barrier), every round makes
    # one call per chunk
    per = len(v._generate_chunk_boundaries(rec["ts"], case["n_threads"])) if case["n_threads"] > 1 else 1
    calls = rec["calls"]
    out["iters"] = []
    for b in range(0, len(calls), per):
        block = calls[b:b + per]
        post = block[0][2].copy()
        for c in block[1:]:
            if c[2].shape != post.shape:
                return {"exc": "PosteriorShape", "msg": "per-chunk posteriors of one EM round have different lengths"}
            post = post + c[2]
        out["iters"].append({"prior": _mat(block[0][1]), "post": [float(x) for x in post],
                             "ncalls": len(block), "dtype": block[0][3]})
    out["eps32"] = float(np.float32(case["epsilon"]))
    out["n"] = len(v.token_label_dictionary_)
    out["token_labels"] = sorted(([str(k), int(i)] for k, i in v.token_label_dictionary_.items()), key=lambda x: x[1])
    if case["vec"] == "ngram":
        out["row_labels"] = sorted(([str(k), int(i)] for k, i in v.ngram_label_dictionary_.items()), key=lambda x: x[1])
    else:
        out["row_labels"] = out["token_labels"]
    out["radii"] = [[int(x) for x in row] for row in v._window_len_array]
    out["reversals"] = [bool(x) for x in v._window_reversals]
    out["mix"] = [float(x) for x in v._mix_weights]
    if case["vec"] == "timed":
        out["delta_mean"] = float(v.delta_mean_)
    # the starting matrix (what n_iter = 0, epsilon = 0 returns): the per-chunk co-occurrence counts that this very
    # run built, summed, duplicate-free, as CSR — exactly the operations of _build_token_cooccurrence_matrix before
    # the normalisation (base_cooccurrence_vectorizer.py:538-554)
    parts = [p for p in rec["coo"] if p is not None]
    M0 = sum(parts) if case["n_threads"] > 1 else parts[0]
    M0 = M0.tocoo(copy=True)
    M0.sum_duplicates()
    out["M0"] = _mat(M0.tocsr())
    per_seq = _occurrences(v, case["vec"], rec["ts"])
    nt = case["n_threads"]
    if nt > 1:
        bounds = v._generate_chunk_boundaries(rec["ts"], nt)
        out["chunks"] = [[o for s in per_seq[a:b] for o in s] for a, b in bounds]
    else:
        out["chunks"] = [[o for s in per_seq for o in s]]
    return out


# ------------------------------------------------------------------ model side

def _rat(x):
    n, d = float(x).as_integer_ratio()
    return f"{n}/{d}"


def _rats(l):
    return [_rat(x) for x in l]


def _chunks_json(o):
    return [[{"t": oc["t"], "w": oc["w"], "k": [_rats(k) for k in oc["k"]]} for oc in ch] for ch in o["chunks"]]


def _e2e(case, o):
    """exact rationals grow exponentially with the number of iterations: the end-to-end model run is requested
    for n_iter <= 1 and for tiny n_iter = 2 cases; every case is tied stage by stage (em.init / em.stage)."""
    nocc = sum(len(c) for c in o["chunks"])
    nnz = sum(len(c) for c in o["M0"]["cols"])
    return case["n_iter"] <= 1 or (case["n_iter"] == 2 and nocc * nnz <= 400)


def _bad(o):
    return "exc" in o or "crash" in o or "harness_exc" in o


def model_requests(case, outs):
    o = outs["normal"]
    if _bad(o) or case.get("big"):
        return []
    ni = case["n_iter"]
    if ni == 0 and case["epsilon"] == 0:
        return []
    M0 = o["M0"]
    eps = _rat(o["eps32"])
    ch = _chunks_json(o)
    reqs = [{"op": "em.init", "cols": M0["cols"], "vals": [_rats(r) for r in M0["vals"]], "eps": eps}]
    for it in o["iters"]:
        pr = it["prior"]
        reqs.append({"op": "em.stage", "cols": pr["cols"], "vals": [_rats(r) for r in pr["vals"]], "n": o["n"],
                     "eps": eps, "chunks": ch, "post": _rats(it["post"])})
    if _e2e(case, o):
        small = M0["shape"][0] * M0["shape"][1] <= 150 and sum(len(c) for c in o["chunks"]) <= 40
        reqs.append({"op": "em.run", "cols": M0["cols"], "vals": [_rats(r) for r in M0["vals"]], "n": o["n"],
                     "ncols": M0["shape"][1], "eps": eps, "niter": ni, "spec": small, "chunks": ch})
    return reqs


def _frac(s):
    a, b = s.split("/")
    return Fraction(int(a), int(b))


def _cmp_mat(what, impl, model, eps, d):
    """impl: {"cols","vals"} floats; model: {"cols","vals"} rationals.  Cells present on one side only are accepted
    only when their value sits on the threshold (within AMBIG)."""
    for rr, (ic, iv, mc, mv) in enumerate(zip(impl["cols"], impl["vals"], model["cols"], model["vals"])):
        a = dict(zip(ic, iv)); b = {c: float(_frac(x)) for c, x in zip(mc, mv)}
        for c in sorted(set(a) | set(b)):
            if c in a and c in b:
                if not math.isclose(a[c], b[c], rel_tol=1e-5, abs_tol=1e-7):
                    d.append(f"{what}: value differs at ({rr},{c}): impl {a[c]} model {b[c]}"); return
            else:
                v = a.get(c, b.get(c))
                if not (eps > 0 and abs(v - eps) <= AMBIG * eps):
                    d.append(f"{what}: cell ({rr},{c}) = {v} present only in {'impl' if c in a else 'model'} (epsilon {eps})"); return
    if len(impl["cols"]) != len(model["cols"]):
        d.append(f"{what}: row count differs")


def compare(case, outs, resps):
    o = outs["normal"]
    if not resps or _bad(o) or case.get("big"):
        return []
    d = []
    for r in resps:
        if "bad" in r:
            return [f"model rejected request: {r['bad']}"]
    ni, eps = case["n_iter"], o["eps32"]
    its = o["iters"]
    if len(its) != ni:
        return [f"{len(its)} EM rounds observed, n_iter={ni}"]
    _cmp_mat("initial normalise+threshold", its[0]["prior"] if ni > 0 else o["M"], resps[0]["next"], eps, d)
    for k, it in enumerate(its):
        r = resps[1 + k]
        if not r["idxOk"]:
            d.append(f"iteration {k}: model flat index-level kernel disagrees with the row-level posterior ({r['idx'].get('err')})")
        if not r["stepEq"]:
            d.append(f"iteration {k}: driver stage != EM.emStep")
        mp = [float(_frac(x)) for x in r["post"]]
        tol = 1e-5 * max(1.0, math.sqrt(sum(len(c) for c in o["chunks"])))
        for q, (x, y) in enumerate(zip(it["post"], mp)):
            if not math.isclose(x, y, rel_tol=tol, abs_tol=1e-6):
                d.append(f"iteration {k}: posterior[{q}] impl {x} model {y}"); break
        if len(mp) != len(it["post"]):
            d.append(f"iteration {k}: posterior length differs")
        _cmp_mat(f"normalise+threshold after iteration {k}", its[k + 1]["prior"] if k + 1 < ni else o["M"], r["next"], eps, d)
    if len(resps) > 1 + ni:
        r = resps[-1]
        if not r["idxOk"]:
            d.append(f"end-to-end: flat index-level kernel disagrees with the row-level posterior (err={r.get('idxErr')})")
        if not r["loopEq"]:
            d.append("end-to-end: driver loop != EM.em")
        if r["specOk"] is False:
            d.append("end-to-end: EM.em result differs from the dense specification")
        amb = eps > 0 and r.get("margin") is not None and float(_frac(r["margin"])) <= AMBIG * eps
        if not amb:
            _cmp_mat("end-to-end", o["M"], r["mat"], eps, d)
    return d


# ------------------------------------------------------------------ oracle (the property, on the impl)

def _F(key, msg):
    return {"key": key, "msg": msg}


def _kernel_weights(vec, name, kargs, length, extra):
    """documented kernel weights for a window of `length` contexts at distances 1..length
    (timed: |time difference| in extra['dt']; multiset: multiset distance in extra['dist'])."""
    power = kargs.get("power", 0.9)
    if vec == "timed":
        if name == "flat":
            w = [1.0] * length
        else:
            w = [power ** (dt / extra["delta"]) for dt in extra["dt"]]
    elif vec == "multiset":
        w = [1.0 if name == "flat" else power ** dd for dd in extra["dist"]]
    else:
        if name == "flat":
            w = [1.0] * length
        elif name == "harmonic":
            w = [1.0 / dd for dd in range(1, length + 1)]
        else:
            w = [power ** dd for dd in range(1, length + 1)]
    return w


def _finish_kernel(w, kargs, mixw, zero_idx=None):
    off = kargs.get("offset", 0)
    w = [0.0 if i < off else x for i, x in enumerate(w)]
    if zero_idx is not None:
        w[zero_idx] = 0.0
    if kargs.get("normalize", False):
        s = sum(w)
        if s > 0:
            w = [x / s for x in w]
    return [mixw * x for x in w]


def _expand(case, o):
    """per-window (reverse?, kernel name, kernel args, mix weight, radius parameter) from the constructor
    arguments, following the documentation: 'directional' = a 'before' block then an 'after' block."""
    kw = case["kw"]
    radii = kw.get("window_radii", 5)
    radii = radii if isinstance(radii, list) else [radii]
    ori = kw.get("window_orientations", "directional")
    ori = ori if isinstance(ori, list) else [ori] * len(radii)
    ker = kw.get("kernel_functions", "flat")
    ker = ker if isinstance(ker, list) else [ker] * len(radii)
    ka = kw.get("kernel_args", None)
    ka = [dict(ka)] * len(radii) if isinstance(ka, dict) else ([{}] * len(radii) if ka is None else ka)
    mix = kw.get("mix_weights", None) or [1.0] * len(radii)
    wins = []
    for i in range(len(radii)):
        sides = {"directional": [True, False], "before": [True], "after": [False]}[ori[i]]
        for rev in sides:
            wins.append({"rev": rev, "ker": ker[i], "ka": ka[i], "mix": float(mix[i]), "radius": radii[i]})
    return wins


def _indep_occurrences(case, o):
    """(row, [(column, weight)]) for every token occurrence, from the raw input and the fitted label
    dictionaries only — the 'window contexts' and 'kernel weight' of the property statement."""
    vec = case["vec"]
    tok = {k: i for k, i in o["token_labels"]}
    n = o["n"]
    wins = _expand(case, o)
    wf = case["kw"].get("window_functions", "fixed")
    variable = (wf if isinstance(wf, str) else wf[0]) == "variable"

    def radius(wi, row):
        if variable:
            return o["radii"][wi][row]
        return wins[wi]["radius"]

    occs = []
    if vec in ("token", "timed"):
        for s in case["X"]:
            toks = [tok[str(x[0] if vec == "timed" else x)] for x in s]
            times = [float(x[1]) for x in s] if vec == "timed" else None
            for i, t in enumerate(toks):
                ctx = []
                for wi, w in enumerate(wins):
                    r = radius(wi, t)
                    pos = list(range(i - 1, max(i - r, 0) - 1, -1)) if w["rev"] else list(range(i + 1, min(i + r, len(toks) - 1) + 1))
                    extra = {}
                    if vec == "timed":
                        extra = {"dt": [abs(times[j] - times[i]) for j in pos],
                                 "delta": w["ka"].get("delta", o.get("delta_mean"))}
                    kw_ = _finish_kernel(_kernel_weights(vec, w["ker"], w["ka"], len(pos), extra), w["ka"], w["mix"])
                    ctx += [(toks[j] + wi * n, kw_[q]) for q, j in enumerate(pos)]
                occs.append((t, ctx))
    elif vec == "multiset":
        for doc in case["X"]:
            msets = [[tok[str(x)] for x in m] for m in doc]
            for d_i, m in enumerate(msets):
                for w_i, t in enumerate(m):
                    ctx = []
                    for wi, w in enumerate(wins):
                        r = radius(wi, 0)
                        idx = list(range(d_i, max(d_i - r, 0) - 1, -1)) if w["rev"] else list(range(d_i, min(d_i + r, len(msets) - 1) + 1))
                        flat, dist = [], []
                        for dd, j in enumerate(idx):
                            flat += msets[j]; dist += [dd] * len(msets[j])
                        kw_ = _finish_kernel(_kernel_weights(vec, w["ker"], w["ka"], len(flat), {"dist": dist}),
                                             w["ka"], w["mix"], zero_idx=w_i)
                        ctx += [(c + wi * n, kw_[q]) for q, c in enumerate(flat)]
                    occs.append((t, ctx))
    else:
        rows = {k: i for k, i in o["row_labels"]}
        g = case["kw"].get("ngram_size", 2)
        for s in case["X"]:
            toks = [tok[str(x)] for x in s]
            for e in range(g - 1, len(s)):
                lab = "_".join(str(x) for x in s[e - g + 1: e + 1])
                if lab not in rows:
                    continue
                t = rows[lab]
                ctx = []
                for wi, w in enumerate(wins):
                    r = radius(wi, t)
                    a = e - g + 1  # first token of the n-gram
                    pos = list(range(a - 1, max(a - r, 0) - 1, -1)) if w["rev"] else list(range(e + 1, min(e + r, len(toks) - 1) + 1))
                    kw_ = _finish_kernel(_kernel_weights(vec, w["ker"], w["ka"], len(pos), {}), w["ka"], w["mix"])
                    ctx += [(toks[j] + wi * n, kw_[q]) for q, j in enumerate(pos)]
                occs.append((t, ctx))
    return occs


def _dense(m):
    import numpy as np
    D = np.zeros(m["shape"], dtype=np.float64)
    for r, (cs, vs) in enumerate(zip(m["cols"], m["vals"])):
        for c, x in zip(cs, vs):
            D[r, c] += x
    return D


def _norm_cols(D):
    import numpy as np
    s = np.abs(D).sum(axis=0)
    s[s == 0] = 1.0
    return D / s


def _posterior(D, occs):
    """every occurrence distributes one unit of mass over the cells (own row, context column) of its window
    contexts in proportion to kernel weight x current cell value."""
    import numpy as np
    P = np.zeros_like(D)
    for row, ctx in occs:
        w = [kw * D[row, c] for c, kw in ctx]
        T = sum(w)
        if T > 0:
            for (c, _), x in zip(ctx, w):
                P[row, c] += x / T
    return P


def _close(a, b, rtol=1e-5, atol=2e-7):
    return abs(a - b) <= atol + rtol * max(abs(a), abs(b))


def _check_thresholded(key, what, got, expected_pre, eps, fails):
    """got must equal expected_pre with the entries below eps zeroed; entries within AMBIG of eps may go either way."""
    import numpy as np
    for r, c in zip(*np.nonzero((got != 0) | (expected_pre != 0))):
        e, g = expected_pre[r, c], got[r, c]
        near = eps > 0 and abs(e - eps) <= AMBIG * eps
        want = 0.0 if e < eps else e
        if _close(g, want) or (near and (_close(g, e) or g == 0)):
            continue
        fails.append(_F(key, f"{what}: cell ({r},{c}) is {g}, documented procedure gives {want} (pre-threshold {e}, epsilon {eps})"))
        return


def _oracle_mode(case, o, mode, fails):
    import numpy as np
    vec = case["vec"]
    pre = f"em.{vec}"
    if "harness_exc" in o:
        return
    if "crash" in o:
        fails.append(_F(f"{pre}.crash", f"[{mode}] process terminated: {o['crash']}"))
        return
    if "exc" in o:
        if o["exc"] == "ValueError" and "dictionary is empty" in o["msg"]:
            return      # documented rejection of an input without any token / n-gram: outside "all corpora"
        fails.append(_F(f"{pre}.raises.{o['exc']}", f"[{mode}] fit_transform raises {o['exc']}: {o['msg']}"))
        return
    ni, eps = case["n_iter"], o["eps32"]
    M, M0 = _dense(o["M"]), _dense(o["M0"])
    if ni == 0 and case["epsilon"] == 0:
        if not np.allclose(M, M0, rtol=1e-6, atol=0):
            fails.append(_F(f"{pre}.untouched", f"[{mode}] n_iter=0, epsilon=0 but the matrix differs between two fits"))
        return
    # ---- the stated consequences, directly on the output
    if (M < 0).any() or (M > 1 + 1e-6).any():
        fails.append(_F(f"{pre}.range", f"[{mode}] entry outside [0,1]: min {M.min()} max {M.max()}"))
    cs = M.sum(axis=0)
    if (cs > 1 + 1e-5).any():
        fails.append(_F(f"{pre}.colsum-gt-1", f"[{mode}] column sums {cs.tolist()}"))
    if case["epsilon"] == 0:
        bad = [(int(c), float(cs[c])) for c in range(M.shape[1]) if (M[:, c] != 0).any() and abs(cs[c] - 1) > 1e-5]
        if bad:
            fails.append(_F(f"{pre}.colsum-ne-1", f"[{mode}] epsilon=0 but non-empty columns sum to {bad}"))
    grown = np.argwhere((M != 0) & (M0 == 0))
    if len(grown):
        fails.append(_F(f"{pre}.support-grew", f"[{mode}] cells outside the n_iter=0 support: {grown[:5].tolist()}"))
    # ---- the procedure itself, stage by stage on the observed priors / posteriors
    occs = _indep_occurrences(case, o)
    its = o["iters"]
    if len(its) != ni:
        fails.append(_F(f"{pre}.iteration-count", f"[{mode}] {len(its)} EM rounds observed, n_iter={ni}"))
        return
    first = _dense(its[0]["prior"]) if ni > 0 else M
    _check_thresholded(f"{pre}.initial-normalise-threshold", f"[{mode}] matrix before the first iteration", first,
                       _norm_cols(M0), eps, fails)
    count = {}
    for row, _ in occs:
        count[row] = count.get(row, 0) + 1
    for k, it in enumerate(its):
        D = _dense(it["prior"])
        P = _dense({"shape": it["prior"]["shape"], "cols": it["prior"]["cols"], "vals": _split(it["post"], it["prior"]["cols"])})
        E = _posterior(D, occs)
        tol = 1e-5 * max(1.0, math.sqrt(len(occs)))
        if not np.allclose(P, E, rtol=tol, atol=1e-6):
            r, c = np.argwhere(~np.isclose(P, E, rtol=tol, atol=1e-6))[0]
            fails.append(_F(f"{pre}.posterior", f"[{mode}] iteration {k}: posterior cell ({r},{c}) is {P[r, c]}, "
                                                 f"documented procedure gives {E[r, c]}"))
        # each occurrence adds mass 1 or 0, to its own row: row masses are whole numbers bounded by the
        # number of occurrences of the row's token
        rm = P.sum(axis=1)
        for r in range(P.shape[0]):
            if abs(rm[r] - round(rm[r])) > 1e-4 * max(1.0, rm[r]) or rm[r] > count.get(r, 0) + 1e-4:
                fails.append(_F(f"{pre}.row-mass", f"[{mode}] iteration {k}: row {r} received mass {rm[r]} from {count.get(r, 0)} occurrences"))
                break
        nxt = _dense(its[k + 1]["prior"]) if k + 1 < ni else M
        _check_thresholded(f"{pre}.normalise-threshold", f"[{mode}] matrix after iteration {k}", nxt, _norm_cols(P), eps, fails)
    # ---- end to end from the n_iter=0 matrix (skipped when a value sits on the threshold)
    D = _norm_cols(M0)
    amb = eps > 0 and bool(((np.abs(D - eps) <= AMBIG * eps) & (D != 0)).any())
    D = np.where(D < eps, 0.0, D)
    for _ in range(ni):
        N = _norm_cols(_posterior(D, occs))
        amb = amb or (eps > 0 and bool(((np.abs(N - eps) <= AMBIG * eps) & (N != 0)).any()))
        D = np.where(N < eps, 0.0, N)
    if not amb and not np.allclose(M, D, rtol=1e-5 * max(1, ni) * 3, atol=1e-6):
        r, c = np.argwhere(~np.isclose(M, D, rtol=1e-5 * max(1, ni) * 3, atol=1e-6))[0]
        fails.append(_F(f"{pre}.end-to-end", f"[{mode}] cell ({r},{c}) is {M[r, c]}, documented procedure gives {D[r, c]}"))


def _split(flat, cols):
    out, i = [], 0
    for c in cols:
        out.append(flat[i:i + len(c)]); i += len(c)
    return out


def oracle(case, outs):
    fails = []
    if case.get("big"):
        for mode, o in outs.items():
            if "crash" in o or "harness_exc" in o or "exc" in o:
                fails.append(_F("em.big.raises", f"[{mode}] hub corpus of {case['big']} tokens: {o}"))
                continue
            b = o["big"]
            if b["1"]["support"] != b["0"]["support"] or b["1"]["nnz"] != b["0"]["nnz"]:
                fails.append(_F("em.support-changed-at-eps0", f"[{mode}] corpus '0 1 0 2 ... 0 {case['big']}', radius 1 'after', epsilon = 0: "
                                f"{b['0']['nnz']} stored cells before the EM round, {b['1']['nnz']} after (hub row {b['0']['hub_row_nnz']} -> {b['1']['hub_row_nnz']})"))
            elif b["1"]["cols_sum_1"] != b["1"]["nonempty_cols"] or b["1"]["nonempty_cols"] != b["0"]["nonempty_cols"]:
                fails.append(_F("em.column-mass", f"[{mode}] hub corpus of {case['big']} tokens: {b['1']['cols_sum_1']} of {b['0']['nonempty_cols']} columns sum to 1 after one EM round"))
        return fails[:1]
    for mode, o in outs.items():
        _oracle_mode(case, o, mode, fails)
    # one failure per case: the first (most basic) one — later checks of the same case are consequences of it
    return fails[:1]


# ------------------------------------------------------------------ statistics

def _pruned_lookup(o):
    """(some iteration looks up a cell that thresholding removed, some lookup key exceeds every stored column of its row)"""
    hit = past = False
    m0 = [set(c) for c in o["M0"]["cols"]]
    occs = [oc for ch in o["chunks"] for oc in ch]
    for it in o.get("iters", []):
        pc = it["prior"]["cols"]
        for oc in occs:
            row = pc[oc["t"]]
            for wi, (w, k) in enumerate(zip(oc["w"], oc["k"])):
                for c, kv in zip(w, k):
                    key = c + wi * o["n"]
                    if kv > 0 and key in m0[oc["t"]] and key not in row:
                        hit = True
                        if not row or key > row[-1]:
                            past = True
    return hit, past


def nontrivial(case, outs):
    o = outs["normal"]
    if case.get("big"):
        return True
    if _bad(o) or case["n_iter"] < 1 or case["epsilon"] <= 0:
        return False
    return _pruned_lookup(o)[0]


def stats(case, outs):
    o = outs["normal"]
    t = [case["vec"], f"n_iter.{case['n_iter']}", f"eps.{case['epsilon']}", f"threads.{case['n_threads']}"]
    if case.get("big"):
        return t + ["hub-row-over-32767-cells"]
    if case.get("prefit"):
        t.append("refit-after-shorter-corpus")
    if _bad(o):
        return t + (["invalid-input"] if "dictionary is empty" in str(o.get("msg")) else ["raises"])
    hit, past = _pruned_lookup(o)
    if hit:
        t.append("lookup-of-pruned-cell")
    if past:
        t.append("lookup-past-row-end")
    if any(not c for c in o["M"]["cols"]):
        t.append("empty-row")
    if sum(len(c) for c in o["M"]["cols"]) < sum(len(c) for c in o["M0"]["cols"]):
        t.append("support-shrunk")
    if "variable" in str(case["kw"].get("window_functions")):
        t.append("variable-radii")
    return t


def shrink_candidates(case):
    # every shrinking round costs a fresh numba compilation per mode, and the generated cases are small already
    # (<= 4 sequences of <= 10 tokens): only whole sequences are dropped.
    if case.get("big"):
        return
    X = case["X"]
    for i in range(len(X)):
        if len(X) > 1:
            c = dict(case, X=X[:i] + X[i + 1:])
            if c.get("prefit"):
                c["prefit"] = min(c["prefit"], len(c["X"]) - 1) or None
            yield c
