"""C12 — each output row depends only on its own input item and the fitted model.
Theorems: lean/VecModel/Props/C12.lean (transform is a map; append/perm/dup corollaries; block loops
concatenate for every block size; prange writes commute)."""
from . import estimators as E

PROP = "C12"
RULE = ("every row-wise estimator (ngram, skipgram, lz, bpe [matrix and sequences], histogram, kde, distribution, "
        "wasserstein/sinkhorn/approximate-wasserstein, information-weight, row-denoising, count-feature-compression, "
        "sliding-window) is fitted once; then a batch T (training items + new items incl. unseen vocabulary, empty "
        "items, duplicates) is transformed whole, as two sub-batches at a random split point, permuted, with an item "
        "duplicated, one item at a time, and - for the block-wise optimal-transport estimators - again after "
        "shrinking memory_size so that several blocks are used. All must agree row for row (exact for counts, 1e-8 "
        "exact OT, 1e-6 Sinkhorn). Non-trivial = batch of >= 3 items with a split strictly inside. The block "
        "splitting model (blocks / blockwise) is run on the same sizes and compared with Python slicing.")
ASSUMPTIONS = [
    "Sinkhorn batches share one stopping test: independence is checked at tolerance 1e-6 (see DESIGN C12 partial)",
    "thread schedules of prange loops are whatever the machine produces (NUMBA_NUM_THREADS varied in thorough tier)",
]
NWORKERS = {"quick": 6, "thorough": 12}
KINDS = E.ROWWISE + E.TRANSFORMERS
MODES = [("normal", {})]


def _manyrows_ot():
    """300 transform items under a memory_size that puts more than one 256-row chunk into a block"""
    import random
    r = random.Random(1212)
    c = E.gen_case("wasserstein", r)
    base = c["Xt"] + c["X"]
    c["Xt"] = [list(base[i % len(base)]) for i in range(300)]
    c["params"]["memory_size"] = "2G"
    c["split"], c["perm_seed"], c["small_memory"], c["skip_singles"] = 150, 5, "100k", True
    return c


def corpus():
    return [_manyrows_ot(),
        {"kind": "lz", "params": {"max_columns": None}, "X": ["abab", "abc"], "Xt": ["zzab", "", "c", "abababab"], "split": 2, "perm_seed": 1},
        {"kind": "lz", "params": {"max_columns": None, "base_dictionary": {"a": 0, "b": 0, "c": 0}}, "X": ["abab", "abc"], "Xt": ["abab", "zzab", "", "abab", "abababab"], "split": 2, "perm_seed": 3},
        {"kind": "bpe", "params": {"return_type": "sequences"}, "X": ["abab", "abc"], "Xt": ["a", "", "zz", "ababab"], "split": 3, "perm_seed": 2},
    ]


def generate(rng, tier):
    n = 8 if tier == "quick" else 50
    slow = {"wasserstein": 4, "sinkhorn": 3, "approxwasserstein": 3, "distribution": 2, "kde": 3, "countcompress": 4, "rowdenoise": 4}
    cs = []
    for kind in KINDS:
        m = n if kind not in slow else (slow[kind] if tier == "quick" else slow[kind] * 5)
        for _ in range(m):
            c = E.gen_case(kind, rng, tier)
            if kind == "bpe" and rng.random() < 0.5:
                c["params"]["return_type"] = "sequences"
            if kind == "lz" and c["params"].get("max_columns") is None and rng.random() < 0.6:
                c["params"]["base_dictionary"] = {ch: rng.choice([0, 1]) for ch in "ab"}   # LZW-style start
            nT = len(c["X"]) + len(c["Xt"])
            c["split"] = rng.randint(0, nT)
            c["perm_seed"] = rng.randint(0, 10 ** 6)
            if kind in ("wasserstein", "sinkhorn", "approxwasserstein"):
                c["small_memory"] = rng.choice(["1k", "4k"])
            cs.append(c)
    return cs


def search(rng, tier):
    return generate(rng, "thorough")


def _rows(c):
    """split a canon() output into per-row canonical objects"""
    if "shape" in c:
        return [{"w": c["shape"][1], "row": r} for r in c["rows"]]
    if "list" in c:
        return c["list"]
    return None


def run_impl(case):
    import random
    kind, out = case["kind"], {}
    kw = E.call_kwargs(kind, case)
    X = case["X"]
    try:
        est = E.make(kind, case["params"])
        est.fit(E.to_input(kind, X), **kw)
    except Exception as e:
        return {"fit_exc": E.exc_name(e)}
    T = list(X) + list(case["Xt"])
    if kind == "kde":
        T = [t for t in T if len(t) > 0]
    out["n"] = len(T)

    def tr(items):
        if not items:
            return []
        return _rows(E.canon(est.transform(E.to_input(kind, items), **kw)))

    try:
        out["whole"] = tr(T)
    except Exception as e:
        return {"whole_exc": E.exc_name(e)}
    k = min(case["split"], len(T))
    perm = list(range(len(T)))
    random.Random(case["perm_seed"]).shuffle(perm)
    out["perm"] = perm
    for name, f in (("split", lambda: tr(T[:k]) + tr(T[k:])),
                    ("permuted", lambda: tr([T[i] for i in perm])),
                    ("dup", lambda: tr(T + [T[0]]) if T else []),
                    ("singles", lambda: [tr([t])[0] for t in (T[:5] if case.get("skip_singles") else T)])):
        try:
            out[name] = f()
        except Exception as e:
            out[name + "_exc"] = E.exc_name(e)
    if "small_memory" in case:
        try:
            est.memory_size = case["small_memory"]
            out["small_memory"] = tr(T)
        except Exception as e:
            out["small_memory_exc"] = E.exc_name(e)
    return out


def model_requests(case, outs):
    o = outs["normal"]
    if not isinstance(o, dict) or "n" not in o:
        return []
    n = o["n"]
    return [{"op": "sparse.blockwise", "b": b, "l": list(range(n))} for b in (1, 2, 3, max(1, n), n + 1)]


def compare(case, outs, resps):
    o = outs["normal"]
    d = []
    if not resps:
        return d
    n = o["n"]
    for b, r in zip((1, 2, 3, max(1, n), n + 1), resps):
        if "bad" in r:
            d.append(f"model rejected: {r['bad']}")
            continue
        l = list(range(n))
        exp = [l[i * b:(i + 1) * b] for i in range(n // b + 1)]      # the code's `n // b + 1` blocks
        if r["blocks"] != exp or r["flat"] != l:
            d.append(f"blocks(b={b}, n={n}): model {r['blocks']} python {exp}")
    return d


def _F(key, msg):
    return {"key": key, "msg": msg}


def _tol(kind):
    if kind in ("sinkhorn", "approxwasserstein"):
        return 1e-6
    if kind in ("wasserstein", "kde", "distribution", "countcompress", "infoweight", "rowdenoise"):
        return 1e-8
    return 0.0


def _row_eq(a, b, tol):
    if a is None or b is None:
        return a is b
    if "row" in a:
        return E.approx_equal({"shape": [1, a["w"]], "rows": [a["row"]]}, {"shape": [1, b["w"]], "rows": [b["row"]]}, rtol=tol, atol=tol) is None
    return E.approx_equal({"list": [a]}, {"list": [b]}, rtol=tol, atol=tol) is None


def oracle(case, outs):
    o = outs["normal"]
    kind = case["kind"]
    if "crash" in o:
        return [_F(f"c12.{kind}.crash", f"process terminated: {o['crash']}")]
    if "fit_exc" in o:
        return []
    if "whole_exc" in o:
        return [_F(f"c12.{kind}.transform-raises", f"transform(T) raised {o['whole_exc']}")]
    fails, tol, W = [], _tol(kind), o["whole"]
    n = o["n"]
    for name in ("split", "permuted", "dup", "singles", "small_memory"):
        if name + "_exc" in o:
            fails.append(_F(f"c12.{kind}.{name}-raises", f"{name}: {o[name + '_exc']} (whole batch did not raise)"))
    if len(W) != n:
        fails.append(_F(f"c12.{kind}.row-count", f"{len(W)} rows for {n} items"))
        return fails
    if "split" in o and (len(o["split"]) != n or not all(_row_eq(a, b, tol) for a, b in zip(W, o["split"]))):
        fails.append(_F(f"c12.{kind}.split", f"transform(A)+transform(B) != transform(A+B) at split {case['split']}"))
    if "permuted" in o and (len(o["permuted"]) != n or not all(_row_eq(W[i], r, tol) for i, r in zip(o["perm"], o["permuted"]))):
        fails.append(_F(f"c12.{kind}.permutation", f"permuting the inputs does not permute the rows (perm {o['perm']})"))
    if "dup" in o and n and (len(o["dup"]) != n + 1 or not _row_eq(o["dup"][-1], W[0], tol) or not all(_row_eq(a, b, tol) for a, b in zip(W, o["dup"]))):
        fails.append(_F(f"c12.{kind}.duplicate", "a duplicated item does not yield a duplicated row"))
    if "singles" in o and not all(_row_eq(a, b, tol) for a, b in zip(W, o["singles"])):
        bad = [i for i, (a, b) in enumerate(zip(W, o["singles"])) if not _row_eq(a, b, tol)]
        fails.append(_F(f"c12.{kind}.single", f"rows {bad} differ when the item is transformed alone"))
    if "small_memory" in o and (len(o["small_memory"]) != n or not all(_row_eq(a, b, max(tol, 1e-8)) for a, b in zip(W, o["small_memory"]))):
        fails.append(_F(f"c12.{kind}.block-size", f"memory_size={case['small_memory']} changes the rows"))
    return fails


def nontrivial(case, outs):
    o = outs["normal"]
    return isinstance(o, dict) and o.get("n", 0) >= 3 and 0 < case["split"] < o.get("n", 0) and "whole" in o


def stats(case, outs):
    o = outs["normal"]
    tags = [case["kind"]]
    if isinstance(o, dict) and "small_memory" in o:
        tags.append("small-memory-blocks")
    if isinstance(o, dict) and "fit_exc" in o:
        tags.append(case["kind"] + ".fit-raises")
    return tags


def shrink_candidates(case):
    Xt = case["Xt"]
    for i in range(len(Xt)):
        yield dict(case, Xt=Xt[:i] + Xt[i + 1:])
