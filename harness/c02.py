"""C02 — fit_transform(X) equals fit(X).transform(X), and fit returns the estimator.
Theorems: lean/VecModel/Props/C02.lean (on-the-fly dictionary vs final lookup, BPE train vs replay,
SVD projection algebra)."""
from fractions import Fraction
from . import estimators as E

PROP = "C02"
RULE = ("every estimator (all vectorizers and transformers of the package) x parameter settings steered at the "
        "paths where fit and transform use different code: non-cosine metrics and list input for the Wasserstein "
        "family, mask_string with pruning for n-gram / co-occurrence, max_vocab_size 1-3 for BPE, n_iter 0-2 and "
        "epsilon for co-occurrence, column hashing / tiny dictionaries for LZ, every orientation and kernel. For "
        "each case two fresh estimators are used: a.fit_transform(X) vs b.fit(X).transform(X), and `b.fit(X) is b`. "
        "Non-trivial = a non-default parameter that changes the path was set. LZ cases are also replayed through "
        "the Lean model of the on-the-fly column dictionary (assignRows) vs lookup in the final dictionary.")
ASSUMPTIONS = [
    "SVD-compressed outputs are compared with rtol 1e-6 only when n_components >= rank of the uncompressed matrix "
    "(the generator uses small vocabularies so that this holds); accuracy of sklearn's SVD is not verified",
    "estimators get integer random_state",
    "CountFeatureCompression: n_components is either < n_features with n_components <= n_samples, or >= n_features (no-compression branch); n_samples < n_components < n_features is not generated (sklearn's randomized_svd is undefined there)",
]
NWORKERS = {"quick": 6, "thorough": 12}
KINDS = E.ALL_VECTORIZERS + E.TRANSFORMERS


def _variant(case, rng):
    k, p = case["kind"], dict(case["params"])
    nt = False
    if k == "ngram" and rng.random() < 0.5:
        p.update(min_occurrences=2, mask_string="[M]"); nt = True
    if k in ("tokencooc", "timedcooc", "multisetcooc", "ngramcooc"):
        if rng.random() < 0.6:
            p["n_iter"] = rng.choice([1, 2]); nt = True
        if rng.random() < 0.3:
            p["normalize_windows"] = True; nt = True
        if rng.random() < 0.3 and k != "ngramcooc":
            p["n_threads"] = 2; nt = True
        if k == "tokencooc" and rng.random() < 0.4:
            p.update(min_occurrences=3, mask_string="[MASK]", nullify_mask=rng.random() < 0.5); nt = True
    if k == "tree" and rng.random() < 0.4:
        p.update(min_occurrences=3, mask_string="[MASK]"); nt = True
    if k == "bpe":
        p["max_vocab_size"] = rng.choice([1, 2, 3]); p["return_type"] = rng.choice(["matrix", "sequences", "tokens"]); nt = True
    if k == "timedcooc" and rng.random() < 0.6:
        p["kernel_functions"] = "geometric"; nt = True                      # the kernel that uses the fitted time scale
    if k == "wasserstein":
        p["metric"] = rng.choice(["euclidean", "cosine", "manhattan", "callable:cosine", "callable:euclidean"])
        nt = p["metric"] != "cosine"
        if rng.random() < 0.3:
            p["method"] = "LOT_sinkhorn"
    if k == "sinkhorn" and rng.random() < 0.5:
        p["metric"] = "euclidean"; nt = True
    if k == "lz":
        nt = p.get("max_columns") is not None or p.get("max_dict_size", 1 << 16) < 100
    if k == "skipgram" and rng.random() < 0.4:
        p.update(min_occurrences=2); nt = True
    if k == "histogram":
        nt = p.get("append_outlier_bins") or p.get("strategy") == "quantile"
    if k == "countcompress" and rng.random() < 0.7:
        p["rescaling_power"] = rng.choice([0.25, 0.75, 1.0, 0.33]); nt = True
        if rng.random() < 0.5:
            # >= rank, so the premise of the SVD clause holds outright: either the whole feature space (the
            # transformer's "no compression" branch) or min(shape) when that is smaller than n_features
            p["n_components"] = rng.choice([len(case["X"][0]), min(len(case["X"]), len(case["X"][0]))])
    if k == "rowdenoise" and rng.random() < 0.5:
        p["normalize"] = True; nt = True
    if k == "kde" and rng.random() < 0.5:
        p["kernel"] = rng.choice(["tophat", "epanechnikov", "linear"]); nt = True
    if k == "slidingwindow" and rng.random() < 0.5:
        p["pad_width"] = 1; p["pad_value"] = 0; nt = True
    if k == "infoweight" and rng.random() < 0.5:
        p.update(prior_strength=0.5, approx_prior=False); nt = True
    if k == "edgelist" and rng.random() < 0.6:
        # the dictionary branches of fit (Props/C02 edgelist_fit_transform_eq_transform quantifies over all of
        # them): joint space, or a supplied row dictionary that filters the last row label out
        rows = sorted({e[0] for e in case["X"]})
        if rng.random() < 0.5 or len(rows) < 2:
            p["joint_space"] = True
        else:
            p["row_label_dictionary"] = {r: i for i, r in enumerate(rows[:-1])}
        nt = True
    out = dict(case, params=p)
    out["nondefault"] = bool(nt)
    return out


def _callable_metric_cases():
    """the documented callable form of the metric (the object the string resolves to): fit and transform must
    treat it exactly like the string"""
    import random
    out = []
    for i, (name, method) in enumerate([("callable:cosine", "LOT_exact"), ("callable:cosine", "LOT_sinkhorn"), ("callable:euclidean", "LOT_exact")]):
        c = E.gen_case("wasserstein", random.Random(2200 + i))
        c["params"].update(metric=name, method=method, memory_size="2G")
        c["nondefault"] = True
        out.append(c)
    return out


def corpus():
    return _callable_metric_cases() + [
        {"kind": "bpe", "params": {"max_vocab_size": 1, "return_type": "sequences"}, "X": ["abababab abab", "abab"], "Xt": [], "nondefault": True},
        {"kind": "ngram", "params": {"ngram_size": 2, "min_occurrences": 2, "mask_string": "[M]"},
         "X": [["a", "b", "a", "b", "c"], ["a", "b", "d"]], "Xt": [], "nondefault": True},
        {"kind": "distribution", "params": {"n_components": 2, "random_state": 5},
         "X": [[[0.0, 0.1], [1.0, 1.2], [0.2, 0.1], [1.1, 0.9]], [[0.1, 0.0], [0.9, 1.0], [1.0, 1.1]]], "Xt": [], "nondefault": False},
    ]


def generate(rng, tier):
    n = 8 if tier == "quick" else 50
    slow = {"wasserstein": 4, "sinkhorn": 3, "approxwasserstein": 3, "distribution": 2, "kde": 3, "countcompress": 4, "rowdenoise": 4}
    cs = []
    for kind in KINDS:
        m = n if kind not in slow else (slow[kind] if tier == "quick" else slow[kind] * 5)
        for _ in range(m):
            cs.append(_variant(E.gen_case(kind, rng, tier), rng))
    return cs


def search(rng, tier):
    return generate(rng, "thorough")


def run_impl(case):
    kind, out = case["kind"], {}
    kw = E.call_kwargs(kind, case)
    X = case["X"]
    try:
        a = E.make(kind, case["params"])
        out["ft"] = E.canon(a.fit_transform(E.to_input(kind, X), **kw))
    except Exception as e:
        out["ft_exc"] = E.exc_name(e)
    try:
        b = E.make(kind, case["params"])
        ret = b.fit(E.to_input(kind, X), **kw)
        out["fit_returns_self"] = ret is b
        out["fit_return_type"] = type(ret).__name__
    except Exception as e:
        out["fit_exc"] = E.exc_name(e)
        return out
    try:
        out["t"] = E.canon(b.transform(E.to_input(kind, X), **kw))
    except Exception as e:
        out["t_exc"] = E.exc_name(e)
    # a third instance that was fitted (and used) on other data before: a re-fit must behave like a first fit
    Xalt = _alt_training(case)
    if Xalt is not None and "t" in out:
        try:
            r = E.make(kind, case["params"])
            r.fit(E.to_input(kind, Xalt), **kw)
            try:
                r.transform(E.to_input(kind, Xalt), **kw)
            except Exception:
                pass
        except Exception:
            r = None                      # the alternative data is not a valid training set for this estimator
        if r is not None:
            try:
                out["refit_ft"] = E.canon(r.fit_transform(E.to_input(kind, X), **kw))
                out["refit_t"] = E.canon(r.transform(E.to_input(kind, X), **kw))
            except Exception as e:
                out["refit_exc"] = E.exc_name(e)
    if kind == "lz" and "t" in out:
        # features for the Lean model of the on-the-fly dictionary: the reference parse of every string,
        # keyed by what the implementation uses as dictionary key (phrase, or its hash)
        h = b.hash_function_
        cap = case["params"].get("max_dict_size", 1 << 16)
        rows = []
        for s in X:
            d, start = {}, 0
            for end in range(len(s)):
                key = h(s[start:end])
                key = str(key) if not isinstance(key, str) else "s:" + key
                if key in d:
                    d[key] += 1
                elif len(d) >= cap:
                    start = end
                else:
                    d[key] = 1
                    start = end
            rows.append([[k, str(v)] for k, v in d.items()])
        out["lz_rows"] = rows
        out["lz_cols"] = sorted((("s:" + k) if isinstance(k, str) else str(k), int(v)) for k, v in b.column_label_dictionary_.items())
    return out


def _alt_training(case):
    """other training data of the same shape of problem (same vectors / vocabulary universe), different content"""
    k, X = case["kind"], case["X"]
    if k == "timedcooc":
        return [[[tok, t * 40.0 + 3.0] for tok, t in doc] for doc in reversed(X)]      # another time scale
    if k in ("wasserstein", "sinkhorn", "approxwasserstein", "infoweight", "rowdenoise", "countcompress"):
        return [list(reversed(r)) for r in X][::-1] if len(X) > 1 else None
    if k in ("tree", "edgelist", "distribution"):
        return list(reversed(X))[: max(2, len(X) - 1)]
    if len(X) < 2:
        return None
    return list(reversed(X))[: len(X) - 1] + [X[0]]


def model_requests(case, outs):
    o = outs["normal"]
    if isinstance(o, dict) and "lz_rows" in o:
        return [{"op": "sparse.assign", "rows": o["lz_rows"]}]
    return []


def compare(case, outs, resps):
    o = outs["normal"]
    if not resps:
        return []
    r = resps[0]
    if "bad" in r:
        return [f"model rejected request: {r['bad']}"]
    d = []
    if not r["assign_eq_lookup"]:
        d.append("model: on-the-fly rows differ from lookup rows (contradicts theorem assign_eq_lookup)")
    if sorted((k, v) for k, v in r["dict"]) != [(k, v) for k, v in o["lz_cols"]]:
        d.append(f"column dictionary: model {r['dict']} impl {o['lz_cols']}")
    mrows = [sorted((int(c), E._num(float(Fraction(w)))) for c, w in row) for row in r["rows"]]
    for name in ("ft", "t"):
        if name in o and "rows" in o[name]:
            irows = [sorted((int(j), v) for j, v in row) for row in o[name]["rows"]]
            if irows != mrows:
                d.append(f"{name} rows: model {mrows} impl {irows}")
    return d


def _F(key, msg):
    return {"key": key, "msg": msg}


def _tol(kind):
    if kind in ("wasserstein", "sinkhorn", "approxwasserstein", "countcompress"):
        return dict(rtol=1e-6, atol=1e-8)
    if kind in ("kde", "distribution", "infoweight", "rowdenoise", "tokencooc", "timedcooc", "multisetcooc", "ngramcooc", "tree", "skipgram"):
        return dict(rtol=1e-6, atol=1e-9)
    return dict(rtol=0, atol=0)


def oracle(case, outs):
    o = outs["normal"]
    kind = case["kind"]
    if "crash" in o:
        return [_F(f"c02.{kind}.crash", f"process terminated: {o['crash']}")]
    fails = []
    if "fit_exc" in o or "ft_exc" in o:
        if ("fit_exc" in o) != ("ft_exc" in o):
            fails.append(_F(f"c02.{kind}.only-one-path-raises", f"fit: {o.get('fit_exc')} fit_transform: {o.get('ft_exc')}"))
        return fails     # both raise: invalid training input for this estimator, not this property's subject
    if not o.get("fit_returns_self"):
        fails.append(_F(f"c02.{kind}.fit-does-not-return-self", f"fit returned {o.get('fit_return_type')}"))
    if "t_exc" in o:
        fails.append(_F(f"c02.{kind}.transform-raises-on-training-data", f"{o['t_exc']} params={case['params']}"))
        return fails
    df = E.approx_equal(o["ft"], o["t"], **_tol(kind))
    if df:
        fails.append(_F(f"c02.{kind}.fit_transform-ne-transform", f"{df}; params={case['params']} X={case['X']}"))
    if "refit_exc" in o:
        fails.append(_F(f"c02.{kind}.refit-raises", f"fit_transform(X) on an instance fitted before on other data: {o['refit_exc']}"))
    elif "refit_ft" in o:
        for name, ref in (("refit_ft", "ft"), ("refit_t", "t")):
            df = E.approx_equal(o[name], o[ref], **_tol(kind))
            if df:
                fails.append(_F(f"c02.{kind}.refit-differs", f"{name} of an instance fitted (and used) before on other data differs "
                                                             f"from a fresh estimator's {ref}: {df}; params={case['params']}"))
                break
    return fails


def nontrivial(case, outs):
    o = outs["normal"]
    return bool(case.get("nondefault")) and isinstance(o, dict) and "t" in o


def stats(case, outs):
    o = outs["normal"]
    tags = [case["kind"]]
    if case.get("nondefault"):
        tags.append("nondefault-path")
    if isinstance(o, dict) and ("fit_exc" in o and "ft_exc" in o):
        tags.append(f"{case['kind']}.both-paths-raise")
    return tags


def shrink_candidates(case):
    X = case["X"]
    if case["kind"] in ("wasserstein", "sinkhorn", "approxwasserstein", "infoweight", "rowdenoise", "countcompress", "edgelist"):
        for i in range(len(X)):
            if len(X) > 2:
                yield dict(case, X=X[:i] + X[i + 1:])
        return
    for i in range(len(X)):
        if len(X) > 1:
            yield dict(case, X=X[:i] + X[i + 1:])
    if case["kind"] in ("ngram", "skipgram", "tokencooc", "ngramcooc", "lz", "bpe"):
        for i, it in enumerate(X):
            for j in range(len(it)):
                yield dict(case, X=X[:i] + [it[:j] + it[j + 1:]] + X[i + 1:])
