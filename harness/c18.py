"""C18 — distances finite / symmetric / zero on proportional inputs / triangle; sparse = dense;
sparse helpers = dense arithmetic.  Model: lean/VecModel/Model/Distances.lean, theorems:
lean/VecModel/Props/C18.lean."""
import math
from fractions import Fraction

PROP = "C18"
# kernels regenerated from /repo's source (tools/py2lean.py) vs the hand model, exhaustive small scope, inside Lean
TWIN_CHECKS = [{"op": "twin.sparse_exhaustive", "k": 4},
               # arr_union / arr_intersect (-> arr_unique) vs Dist.arrUnion / arrIntersect: every pair of lists (unsorted,
               # duplicates included) over {0,1,2} up to length 4
               {"op": "twin.arr_exhaustive", "n": 4, "k": 3}]
RULE = ("kind 'dist': triples (x, y, z) of non-negative vectors, dimension 1..64, each = integer base vector "
        "(dense / sparse / single-entry) times a scale in [1e-3, 1e3]; >= 30 % of the pairs (x, y) are proportional "
        "(same base, different scale), others have disjoint supports, nested supports or are independent; every "
        "ordered pair goes through the five dense functions (kantorovich p = 1, 2), every unordered pair through the "
        "four sparse functions in four encodings (int64/float64, int32/float32, each with and without explicitly "
        "stored zeros).  kind 'helpers': two sorted-unique index arrays (incl. empty, disjoint, nested, one running "
        "past the other so that the tail loops execute) with small integer data (zeros and cancelling pairs "
        "included) through arr_union, arr_intersect, sparse_sum, sparse_diff, sparse_mul, dense_union.  "
        "Non-trivial = a proportional pair with different scales (Bhattacharyya coefficient subject to rounding), "
        "or a helper call whose tail loop writes an index different from its position.")
ASSUMPTIONS = [
    "vectors have positive total mass (zero vectors give 0/0 in total_variation / kantorovich1d: outside the claim)",
    "sparse encodings have sorted, duplicate-free index arrays (what a canonical CSR row provides); unsorted rows are "
    "outside the merge loops' contract",
    "'non-negative' and 'symmetric' are checked to 1e-12 (rounding of a sum of logs gives e.g. -1e-16 for JS(x, kx))",
    "'same value to float32 precision' = 1e-5 * max(1, |dense value|); for hellinger it is applied to the squared "
    "distance 1 - BC, the quantity that is actually computed in float32 (sqrt amplifies a 1e-7 error to 3e-4 at 0)",
    "scales are limited to [1e-3, 1e3]: the EPS = 1e-11 smoothing of JS / symmetric KL makes f(x, kx) grow like "
    "EPS * dim / mass, so 'any scale' is false of the formula itself; inside the range the symmetric-KL bias can "
    "still reach ~1e-5 (known finding skl.eps-smoothing-bias, keyed by a bound computed from the input)",
    "triangle inequality: 1e-9, except hellinger on triples containing a proportional pair: 1e-6 (sqrt(1 - BC) has an "
    "absolute error of ~sqrt(dim * 2^-53) at zero, and the property itself promises only 1e-6 there)",
    "a float underflow of l1_norm_x * l1_norm_y (masses below 1e-154) gives 0/0 in hellinger: outside the scale range",
    "exact layer of the model is over Rat; float32 result buffers are exact on the integer-valued helper cases",
]
NWORKERS = {"quick": 4, "thorough": 8}
# the helper kernels are run a second time with numba's bounds checking on (index safety of the merge
# loops, feeds C10); the distance cases are skipped in that mode
MODES = [("normal", {}), ("boundscheck", {"NUMBA_BOUNDSCHECK": "1"})]
EPS = 1e-11
PAIRS = [(0, 1), (1, 0), (1, 2), (2, 1), (0, 2), (2, 0)]
UPAIRS = [(0, 1), (1, 2), (0, 2)]
ENCODINGS = ["i64f64", "i32f32", "i64f64z", "i32f32z"]
DENSE = ["hellinger", "tv", "kant1", "kant2", "js", "skl"]
SPARSE = ["hellinger", "tv", "js", "skl"]


# ------------------------------------------------------------------ generation

def _base(rng, d, kind):
    if kind == "single":
        b = [0] * d
        b[rng.randrange(d)] = rng.randint(1, 20)
        return b
    if kind == "dense":
        return [rng.randint(1, 20) for _ in range(d)]
    p = rng.choice([0.15, 0.3, 0.6])
    b = [rng.randint(1, 20) if rng.random() < p else 0 for _ in range(d)]
    if not any(b):
        b[rng.randrange(d)] = rng.randint(1, 20)
    return b


def _scale(rng):
    r = rng.random()
    if r < 0.15:
        return rng.choice([1e-3, 1.0, 1e3])
    if r < 0.3:
        return float(rng.choice([1, 2, 3, 4, 7, 10]))
    return 10.0 ** rng.uniform(-3, 3)


def _scaled(base, s):
    return [float(b) * s for b in base]


def _related(rng, base, d):
    """(base', relation) for the next vector"""
    r = rng.random()
    if r < 0.38:
        return list(base), "proportional"
    if r < 0.5 and d >= 2:
        zero = [i for i, b in enumerate(base) if b == 0]
        if zero:
            nb = [0] * d
            for i in rng.sample(zero, rng.randint(1, len(zero))):
                nb[i] = rng.randint(1, 20)
            return nb, "disjoint"
    if r < 0.6:
        nb = [b if rng.random() < 0.5 else 0 for b in base]
        if any(nb):
            return nb, "nested"
    return _base(rng, d, rng.choice(["single", "dense", "sparse", "sparse"])), "independent"


def _dist_case(rng, d=None):
    d = d or rng.choice([1, 1, 2, 2, 3, 4, 5, 8, 13, 16, 31, 32, 33, 63, 64, rng.randint(1, 64)])
    bx = _base(rng, d, rng.choice(["single", "dense", "sparse", "sparse"]))
    by, rxy = _related(rng, bx, d)
    bz, ryz = _related(rng, by, d)
    vs = [_scaled(bx, _scale(rng)), _scaled(by, _scale(rng)), _scaled(bz, _scale(rng))]
    zmask = [[i for i, v in enumerate(vec) if v == 0 and rng.random() < 0.3] for vec in vs]
    return {"kind": "dist", "v": vs, "zmask": zmask, "rel": [rxy, ryz]}


def _helper_case(rng, maxn=10, univ=24):
    def ind(n):
        return sorted(rng.sample(range(univ), n))
    n1 = rng.choice([0, 1, 1, 2, 3, 4, 6, maxn])
    n2 = rng.choice([0, 1, 1, 2, 3, 4, 6, maxn])
    i1 = ind(n1)
    r = rng.random()
    if r < 0.2 and i1:
        i2 = sorted(rng.sample(i1, rng.randint(1, len(i1))))                      # nested
    elif r < 0.4:
        i2 = sorted(set(ind(n2)) - set(i1))                                      # disjoint
    elif r < 0.6 and i1:
        i2 = sorted(set(rng.sample(i1, rng.randint(1, len(i1))) + ind(min(n2, 3))))  # overlapping
    else:
        i2 = ind(n2)
    if rng.random() < 0.3:   # one list runs past the other: tail loop with index != position
        extra = sorted(rng.sample(range(univ, univ + 12), rng.randint(1, 4)))
        if rng.random() < 0.5:
            i1 = i1 + extra
        else:
            i2 = i2 + extra
    vals = [-3, -2, -1, 0, 1, 1, 2, 2, 3, 5, 7]
    if rng.random() < 0.5:
        vals = [0, 1, 1, 2, 3, 5, 7]    # non-negative data: dense_union has a dense meaning
    d1 = [rng.choice(vals) for _ in i1]
    d2 = [rng.choice(vals) for _ in i2]
    if rng.random() < 0.3:   # force cancellations on common indices
        pos = {j: k for k, j in enumerate(i1)}
        for k, j in enumerate(i2):
            if j in pos and rng.random() < 0.5 and min(vals) < 0:
                d2[k] = -d1[pos[j]]
    return {"kind": "helpers", "ind1": i1, "data1": d1, "ind2": i2, "data2": d2,
            "dtype": rng.choice(["i64f64", "i32f32", "i64f32"])}


def corpus():
    cs = []
    # D24: the tail loop of sparse_sum must write ind[i], not i
    cs.append({"kind": "helpers", "ind1": [0, 5, 9], "data1": [1, 2, 3], "ind2": [1, 5], "data2": [1, 1], "dtype": "i64f64"})
    cs.append({"kind": "helpers", "ind1": [1, 5], "data1": [1, 1], "ind2": [0, 5, 9, 11], "data2": [1, 2, 3, 4], "dtype": "i64f64"})
    cs.append({"kind": "helpers", "ind1": [], "data1": [], "ind2": [3, 4], "data2": [0, 2], "dtype": "i64f64"})
    cs.append({"kind": "helpers", "ind1": [3, 4], "data1": [2, 0], "ind2": [], "data2": [], "dtype": "i64f64"})
    cs.append({"kind": "helpers", "ind1": [2, 4, 6], "data1": [1, -2, 3], "ind2": [2, 4, 7], "data2": [-1, 2, 0], "dtype": "i64f64"})
    cs.append({"kind": "helpers", "ind1": [7], "data1": [2], "ind2": [7], "data2": [3], "dtype": "i32f32"})
    # D23: proportional pairs whose Bhattacharyya coefficient rounds above 1
    for bx, s1, s2 in [([3, 7, 11], 0.1, 0.37), ([1, 2, 3, 4, 5], 1e-3, 1e3), ([1, 1, 1], 0.3, 0.7),
                       ([5, 0, 9, 0, 2, 13, 1], 0.123, 4.56), ([1], 1e-3, 1e3), ([2, 3], 1.0, 1.0)]:
        cs.append({"kind": "dist", "v": [_scaled(bx, s1), _scaled(bx, s2), _scaled(bx[::-1], 1.0)],
                   "zmask": [[], [], []], "rel": ["proportional", "independent"]})
    # disjoint supports, single entries
    cs.append({"kind": "dist", "v": [[1.0, 0.0, 0.0], [0.0, 2.0, 0.0], [0.0, 0.0, 0.5]], "zmask": [[1], [0, 2], []],
               "rel": ["disjoint", "disjoint"]})
    cs.append({"kind": "dist", "v": [[0.5, 0.5], [1.0, 0.0], [0.1, 0.9]], "zmask": [[], [1], []],
               "rel": ["independent", "independent"]})
    # smoothing corner: single entries, 63 common zeros, masses 1e-3 and 1e3
    e = [0.0] * 64
    a, b, c = list(e), list(e), list(e)
    a[0], b[0], c[5] = 1e-3, 1e3, 1.0
    cs.append({"kind": "dist", "v": [a, b, c], "zmask": [[], [], []], "rel": ["proportional", "disjoint"]})
    x = [float(2 ** 24)] + [1.0] * 1000
    cs.append({"kind": "dense32", "x": x, "y": [3 * v for v in x], "rel": "proportional"})
    return cs


def _dense32_case(rng):
    """dense float32 arguments: long vectors, one entry that dwarfs the rest, proportional partner"""
    d = rng.choice([3, 40, 300, 1001, 1500])
    x = [float(rng.choice([0, 1, 1, 2, 3])) for _ in range(d)]
    if rng.random() < 0.6:
        x[rng.randrange(d)] = float(2 ** rng.choice([20, 24, 26]))
    if not any(x):
        x[0] = 1.0
    rel = rng.choice(["proportional", "proportional", "independent"])
    if rel == "proportional":
        k = rng.choice([3.0, 0.5, 7.0, 2.0])
        y = [k * v for v in x]
    else:
        y = [float(rng.choice([0, 1, 2, 5])) for _ in range(d)]
        y[0] = y[0] or 1.0
    return {"kind": "dense32", "x": x, "y": y, "rel": rel}


def generate(rng, tier):
    n_d, n_h = (400, 800) if tier == "quick" else (4000, 8000)
    cs = [_dist_case(rng) for _ in range(n_d)]
    cs += [_dense32_case(rng) for _ in range(n_d // 10)]
    cs += [_helper_case(rng) for _ in range(n_h)]
    if tier == "thorough":
        cs += [_helper_case(rng, maxn=40, univ=80) for _ in range(1000)]
    return cs


def search(rng, tier):
    n = 1500 if tier == "quick" else 8000
    return [_dist_case(rng) for _ in range(n)] + [_helper_case(rng) for _ in range(n)]


# ------------------------------------------------------------------ implementation side (worker)

def _f(v):
    v = float(v)
    if math.isnan(v):
        return "nan"
    if math.isinf(v):
        return "inf" if v > 0 else "-inf"
    return v


def _encode(np, vec, zmask, enc):
    it, ft = (np.int64, np.float64) if enc.startswith("i64f64") else (np.int32, np.float32)
    keep = [i for i, v in enumerate(vec) if v != 0 or (enc.endswith("z") and i in zmask)]
    return np.array(keep, dtype=it), np.array([vec[i] for i in keep], dtype=ft)


def run_impl(case):
    import os
    if case["kind"] != "helpers" and os.environ.get("NUMBA_BOUNDSCHECK") == "1":
        return {"skipped": True}
    import numpy as np
    from vectorizers import distances as D
    if case["kind"] == "helpers":
        it = np.int32 if case["dtype"].startswith("i32") else np.int64
        ft = np.float32 if case["dtype"].endswith("f32") else np.float64

        def args():
            return (np.array(case["ind1"], dtype=it), np.array(case["data1"], dtype=ft),
                    np.array(case["ind2"], dtype=it), np.array(case["data2"], dtype=ft))
        out = {}

        def call(name, f, post):
            try:
                out[name] = post(f())
            except Exception as e:
                out[name] = {"exc": type(e).__name__}
        pair = lambda r: {"ind": [int(i) for i in r[0]], "data": [_f(v) for v in r[1]]}
        a = args()
        call("union", lambda: D.arr_union(a[0].copy(), a[2].copy()), lambda r: [int(i) for i in r])
        call("intersect", lambda: D.arr_intersect(a[0].copy(), a[2].copy()), lambda r: [int(i) for i in r])
        call("sum", lambda: D.sparse_sum(*args()), pair)
        call("diff", lambda: D.sparse_diff(*args()), pair)
        call("mul", lambda: D.sparse_mul(*args()), pair)
        call("du", lambda: D.dense_union(*args()), lambda r: {"d1": [_f(v) for v in r[0]], "d2": [_f(v) for v in r[1]]})
        # both operands are the same arrays (x - x, x + x, x * x), and no helper may write to its arguments
        for which, (ki, kd) in (("1", (0, 1)), ("2", (2, 3))):
            b = args()
            ind, dat = b[ki], b[kd]
            call("diff_self" + which, lambda: D.sparse_diff(ind, dat, ind, dat), pair)
            call("sum_self" + which, lambda: D.sparse_sum(ind, dat, ind, dat), pair)
            call("mul_self" + which, lambda: D.sparse_mul(ind, dat, ind, dat), pair)
            out["self_unchanged" + which] = bool(np.array_equal(ind, a[ki]) and np.array_equal(dat, a[kd]))
        b = args()
        for f in (D.sparse_sum, D.sparse_diff, D.sparse_mul, D.dense_union):
            try:
                f(*b)
            except Exception:
                pass
        out["args_unchanged"] = all(bool(np.array_equal(p, q)) for p, q in zip(a, b))
        return out
    if case["kind"] == "dense32":
        fs = {"hellinger": D.hellinger, "tv": D.total_variation,
              "kant1": lambda x, y: D.kantorovich1d(x, y, 1), "kant2": lambda x, y: D.kantorovich1d(x, y, 2),
              "js": D.jensen_shannon_divergence, "skl": D.symmetric_kl_divergence}
        x32, y32 = np.array(case["x"], dtype=np.float32), np.array(case["y"], dtype=np.float32)
        out = {}
        for name, f in fs.items():
            r = []
            for (p, q) in ((x32, y32), (y32, x32)):
                try:
                    r.append([_f(f(p.copy(), q.copy())), _f(f(p.astype(np.float64), q.astype(np.float64)))])
                except Exception as e:
                    r.append("exc:" + type(e).__name__)
            out[name] = r
        return out
    vs = [np.array(v, dtype=np.float64) for v in case["v"]]
    dense = {
        "hellinger": D.hellinger, "tv": D.total_variation,
        "kant1": lambda x, y: D.kantorovich1d(x, y, 1), "kant2": lambda x, y: D.kantorovich1d(x, y, 2),
        "js": D.jensen_shannon_divergence, "skl": D.symmetric_kl_divergence,
    }
    sparse = {"hellinger": D.sparse_hellinger, "tv": D.sparse_total_variation,
              "js": D.sparse_jensen_shannon_divergence, "skl": D.sparse_symmetric_kl_divergence}
    out = {"dense": {}, "sparse": {}}
    for (i, j) in PAIRS:
        r = {}
        for name, f in dense.items():
            try:
                r[name] = _f(f(vs[i].copy(), vs[j].copy()))
            except Exception as e:
                r[name] = "exc:" + type(e).__name__
        out["dense"][f"{i}{j}"] = r
    for (i, j) in UPAIRS:
        for enc in ENCODINGS:
            r = {}
            for name, f in sparse.items():
                i1, d1 = _encode(np, case["v"][i], case["zmask"][i], enc)
                i2, d2 = _encode(np, case["v"][j], case["zmask"][j], enc)
                try:
                    r[name] = _f(f(i1, d1, i2, d2))
                except Exception as e:
                    r[name] = "exc:" + type(e).__name__
            out["sparse"][f"{i}{j}{enc}"] = r
    return out


# ------------------------------------------------------------------ model side

def _me(f):
    m, e = math.frexp(f)
    return [int(m * (1 << 53)), e - 53]


def _rat(f):
    q = Fraction(f)
    return f"{q.numerator}/{q.denominator}"


def model_requests(case, outs):
    if case["kind"] == "dense32":
        return []
    if case["kind"] == "helpers":
        return [{"op": "dist.helpers", "ind1": case["ind1"], "data1": [str(v) for v in case["data1"]],
                 "ind2": case["ind2"], "data2": [str(v) for v in case["data2"]]}]
    reqs = []
    for (i, j) in UPAIRS:
        x, y = case["v"][i], case["v"][j]
        reqs.append({"op": "dist.exact", "x": [_rat(v) for v in x], "y": [_rat(v) for v in y]})
        reqs.append({"op": "dist.float", "x": [_me(v) for v in x], "y": [_me(v) for v in y], "eps": _me(EPS)})
        for z in (False, True):     # sparse_total_variation on the canonical encoding and on the one with explicit zeros
            k1 = [k for k, v in enumerate(x) if v != 0 or (z and k in case["zmask"][i])]
            k2 = [k for k, v in enumerate(y) if v != 0 or (z and k in case["zmask"][j])]
            reqs.append({"op": "dist.sparse_tv", "ind1": k1, "data1": [_rat(x[k]) for k in k1],
                         "ind2": k2, "data2": [_rat(y[k]) for k in k2]})
    return reqs


def _num(v):
    return isinstance(v, (int, float)) and not isinstance(v, bool)


def _ratval(s):
    n, d = s.split("/")
    return Fraction(int(n), int(d))


def compare(case, outs, resps):
    o = outs["normal"]
    d = []
    if case["kind"] == "dense32":
        return d
    if not resps:
        return ["no model response"]
    if "crash" in o:
        return []
    if case["kind"] == "helpers":
        r = resps[0]
        if "bad" in r:
            return [f"model rejected request: {r['bad']}"]
        if o["union"] != r["union"]:
            d.append(f"arr_union impl {o['union']} != model {r['union']}")
        if o["intersect"] != r["intersect"]:
            d.append(f"arr_intersect impl {o['intersect']} != model {r['intersect']}")
        for k, spec in (("sum", "sumF"), ("diff", None), ("mul", "mulF"), ("du", "duF")):
            m = r[k]
            if "ok" not in m:
                d.append(f"model index-level {k} fails: {m}")
                continue
            mm = {kk: ([float(_ratval(v)) for v in vv] if kk != "ind" else vv) for kk, vv in m["ok"].items()}
            if o[k] != mm:
                d.append(f"{k}: impl {o[k]} != model {mm}")
            if spec and m["ok"] != r[spec]:
                d.append(f"model: index-level {k} != functional merge")
        return d
    for n, (i, j) in enumerate(UPAIRS):
        ex, fl, st, stz = resps[4 * n: 4 * n + 4]
        if "bad" in ex or "bad" in fl or "bad" in st or "bad" in stz:
            return [f"model rejected request: {ex.get('bad')} {fl.get('bad')} {st.get('bad')} {stz.get('bad')}"]
        im = o["dense"][f"{i}{j}"]
        for enc, m in (("i64f64", st), ("i64f64z", stz)):
            sv = o["sparse"][f"{i}{j}{enc}"]["tv"]
            if "ok" not in m["tv"]:
                d.append(f"model sparse tv refuses: {m['tv']}")
            elif not _num(sv) or abs(float(_ratval(m["tv"]["ok"])) - sv) > 1e-5:   # float32 result buffer
                d.append(f"sparse_total_variation({i},{j}) [{enc}] impl {sv} != exact model {float(_ratval(m['tv']['ok']))}")
            elif "ok" in ex["tv"] and m["tv"]["ok"] != ex["tv"]["ok"]:
                d.append(f"model: sparse tv {m['tv']['ok']} != dense tv {ex['tv']['ok']} (theorem sparse_tv_eq_dense)")
        for name, key in (("tv", "tv"), ("kant1", "kant")):
            if "ok" not in ex[key]:
                d.append(f"model {key} refuses: {ex[key]}")
            elif not _num(im[name]) or abs(float(_ratval(ex[key]["ok"])) - im[name]) > 1e-9:
                d.append(f"{name}({i},{j}) impl {im[name]} != exact model {float(_ratval(ex[key]['ok']))}")
        for name in ("hellinger", "js", "skl"):
            m = fl[name]
            if "ok" not in m:
                if _num(im[name]):
                    d.append(f"{name}({i},{j}) impl {im[name]} but Float model refuses {m}")
                continue
            m = {"ok": math.ldexp(m["ok"][0], m["ok"][1])}
            tol = 1e-9 * max(1.0, abs(m["ok"]))
            if not _num(im[name]):
                d.append(f"{name}({i},{j}) impl {im[name]} != Float model {m['ok']}")
            elif name == "hellinger":
                if abs(im[name] ** 2 - m["ok"] ** 2) > 1e-12 and abs(im[name] - m["ok"]) > tol:
                    d.append(f"hellinger({i},{j}) impl {im[name]} != Float model {m['ok']}")
            elif abs(im[name] - m["ok"]) > tol:
                d.append(f"{name}({i},{j}) impl {im[name]} != Float model {m['ok']}")
    return d


# ------------------------------------------------------------------ oracle (the property, on the impl)

def _F(key, msg):
    return {"key": key, "msg": msg}


def _proportional(x, y):
    """exactly decided on the inputs: x_i * y_j == x_j * y_i up to the rounding of the scaling (1e-12 relative)"""
    sx, sy = sum(x), sum(y)
    return all(abs(a * sy - b * sx) <= 1e-12 * sx * sy for a, b in zip(x, y))


def _skl_smoothing_bound(x, y):
    """lower estimate, from the input alone, of what the EPS-smoothed formula itself gives on the coordinates
    that are zero in both vectors: n0 * EPS * |1/Sx - 1/Sy| * |ln(Sy/Sx)|"""
    d = len(x)
    n0 = sum(1 for a, b in zip(x, y) if a == 0 and b == 0)
    sx, sy = sum(x) + EPS * d, sum(y) + EPS * d
    return n0 * EPS * abs(1 / sx - 1 / sy) * abs(math.log(sy / sx))


def _dense_helper(ind, data, n):
    v = [0] * n
    for i, a in zip(ind, data):
        v[i] += a
    return v


def oracle(case, outs):
    o = outs["normal"]
    if "crash" in o:
        return [_F("dist.crash", f"process terminated: {o['crash']}")]
    fails = []
    if case["kind"] == "dense32":
        for name, rs in o.items():
            for k, r in enumerate(rs):
                tag = f"{name}({'y, x' if k else 'x, y'}) on float32 arrays, d={len(case['x'])}, {case['rel']}"
                if isinstance(r, str):
                    fails.append(_F(f"dist.{name}.float32-raises", f"{tag}: {r}"))
                    continue
                a, b = r
                if name == "hellinger" and _num(a) and _num(b):
                    a, b = a * a, b * b
                if _num(b) and not (_num(a) and abs(a - b) <= 1e-6 * max(1.0, abs(b))):
                    fails.append(_F(f"dist.{name}.float32-dense", f"{tag}: {r[0]} but {r[1]} on the same values held in float64; x[:6]={case['x'][:6]}"))
                if case["rel"] == "proportional" and name in ("tv", "kant1", "kant2", "js") and _num(r[0]) and abs(r[0]) > 1e-6:
                    fails.append(_F(f"dist.{name}.proportional-nonzero", f"{tag}: {r[0]}"))
        return fails
    if case["kind"] == "helpers":
        for which, (ii, dd) in (("1", (case["ind1"], case["data1"])), ("2", (case["ind2"], case["data2"]))):
            exp = {"diff_self": [0 for v in dd], "sum_self": [2 * v for v in dd], "mul_self": [v * v for v in dd]}
            for k, vals in exp.items():
                got = o.get(k + which)
                want = {"ind": [i for i, v in zip(ii, vals) if v != 0], "data": [float(v) for v in vals if v != 0]}
                if isinstance(got, dict) and "exc" not in got:
                    gz = {"ind": [i for i, v in zip(got["ind"], got["data"]) if v != 0], "data": [v for v in got["data"] if v != 0]}
                    if gz != want:
                        fails.append(_F(f"dist.helpers.{k}", f"{k.replace('_self', '')}(x, x) with the same arrays as both operands = {got}, dense arithmetic gives {want}; x=({ii}, {dd})"))
            if o.get("self_unchanged" + which) is False:
                fails.append(_F("dist.helpers.argument-modified", f"a helper called with x as both operands changed x=({ii}, {dd})"))
        if o.get("args_unchanged") is False:
            fails.append(_F("dist.helpers.argument-modified", f"a sparse helper wrote to its arguments ({case['ind1']}, {case['data1']}), ({case['ind2']}, {case['data2']})"))
        i1, d1, i2, d2 = case["ind1"], case["data1"], case["ind2"], case["data2"]
        n = max(i1 + i2 + [0]) + 1
        a, b = _dense_helper(i1, d1, n), _dense_helper(i2, d2, n)
        for k, vec in (("sum", [p + q for p, q in zip(a, b)]), ("diff", [p - q for p, q in zip(a, b)]),
                       ("mul", [p * q for p, q in zip(a, b)])):
            exp = {"ind": [i for i, v in enumerate(vec) if v != 0], "data": [float(v) for v in vec if v != 0]}
            if o[k] != exp:
                fails.append(_F(f"helpers.{k}", f"sparse_{k}({i1},{d1},{i2},{d2}) = {o[k]}, dense arithmetic gives {exp}"))
        if o["union"] != sorted(set(i1) | set(i2)):
            fails.append(_F("helpers.union", f"arr_union({i1},{i2}) = {o['union']}"))
        if o["intersect"] != sorted(set(i1) & set(i2)):
            fails.append(_F("helpers.intersect", f"arr_intersect({i1},{i2}) = {o['intersect']}"))
        if all(v >= 0 for v in d1 + d2):
            sup = [i for i in range(n) if a[i] + b[i] != 0]
            exp = {"d1": [float(a[i]) for i in sup], "d2": [float(b[i]) for i in sup]}
            if o["du"] != exp:
                fails.append(_F("helpers.dense_union", f"dense_union({i1},{d1},{i2},{d2}) = {o['du']}, expected {exp}"))
        ob = outs.get("boundscheck")
        if isinstance(ob, dict) and "crash" not in ob:
            for k in ("union", "intersect", "sum", "diff", "mul", "du"):
                if isinstance(ob.get(k), dict) and "exc" in ob[k]:
                    fails.append(_F(f"helpers.out-of-bounds.{k}", f"{k}({i1},{d1},{i2},{d2}) raises {ob[k]['exc']} under NUMBA_BOUNDSCHECK=1"))
        elif isinstance(ob, dict):
            fails.append(_F("dist.crash", f"process terminated under NUMBA_BOUNDSCHECK=1: {ob['crash']}"))
        return fails
    V = case["v"]
    De = o["dense"]
    # finite, non-negative
    for (i, j) in PAIRS:
        for name in DENSE:
            v = De[f"{i}{j}"][name]
            if not _num(v):
                fails.append(_F(f"{name}.not-finite", f"{name}(v{i}, v{j}) = {v} for v{i}={V[i]} v{j}={V[j]}"))
            elif v < -1e-12:
                fails.append(_F(f"{name}.negative", f"{name}(v{i}, v{j}) = {v}"))
            elif name in ("hellinger", "tv") and v > 1 + 1e-12:
                fails.append(_F(f"{name}.above-1", f"{name}(v{i}, v{j}) = {v}"))
    if fails:
        return fails
    # symmetric
    for (i, j) in UPAIRS:
        for name in DENSE:
            a, b = De[f"{i}{j}"][name], De[f"{j}{i}"][name]
            if abs(a - b) > 1e-12 * max(1.0, abs(a)):
                fails.append(_F(f"{name}.asymmetric", f"{name}(v{i},v{j}) = {a} but {name}(v{j},v{i}) = {b}"))
    # zero on proportional arguments
    for (i, j) in PAIRS:
        if _proportional(V[i], V[j]):
            for name in DENSE:
                v = De[f"{i}{j}"][name]
                if v >= 1e-6:
                    key = f"{name}.proportional-not-zero"
                    if name == "skl" and _skl_smoothing_bound(V[i], V[j]) >= 5e-7:
                        key = "skl.eps-smoothing-bias"
                    fails.append(_F(key, f"{name}(x, kx) = {v} for x={V[i]} kx={V[j]}"))
    # triangle inequality
    # (hellinger = sqrt(1 - BC) carries an absolute error of about sqrt(dim * 2^-53) ~ 1e-7 at zero; where the
    # triple contains a proportional pair the property itself only promises "zero to 1e-6")
    degenerate = any(_proportional(V[i], V[j]) for (i, j) in UPAIRS)
    for name in ("hellinger", "tv", "kant1", "kant2"):
        tol = 1e-6 if (name == "hellinger" and degenerate) else 1e-9
        for (a, b, c) in ((0, 1, 2), (1, 2, 0), (2, 0, 1)):
            ac, ab, bc = De[f"{a}{c}"][name], De[f"{a}{b}"][name], De[f"{b}{c}"][name]
            if ac > ab + bc + tol:
                fails.append(_F(f"{name}.triangle", f"{name}: d(v{a},v{c}) = {ac} > {ab} + {bc}; v={V}"))
    # sparse variant = dense counterpart
    for (i, j) in UPAIRS:
        for enc in ENCODINGS:
            s = o["sparse"][f"{i}{j}{enc}"]
            for name in SPARSE:
                dv, sv = De[f"{i}{j}"][name], s[name]
                if not _num(sv):
                    fails.append(_F(f"sparse_{name}.not-finite", f"sparse_{name} [{enc}] = {sv} (dense {dv}) for {V[i]} {V[j]}"))
                    continue
                err = abs(sv * sv - dv * dv) if name == "hellinger" else abs(sv - dv)
                if err > 1e-5 * max(1.0, abs(dv)):
                    key = f"sparse_{name}.ne-dense"
                    if name == "skl" and _skl_smoothing_bound(V[i], V[j]) >= 5e-6:
                        key = "skl.eps-smoothing-bias"
                    fails.append(_F(key, f"sparse_{name} [{enc}] = {sv}, dense = {dv} for {V[i]} {V[j]}"))
    return fails


def nontrivial(case, outs):
    if case["kind"] == "dense32":
        return case["rel"] == "proportional" and len(case["x"]) > 100
    if case["kind"] == "helpers":
        i1, i2 = case["ind1"], case["ind2"]
        # the tail loop of the longer-running list writes an index different from its position
        if i1 and i2:
            if i1[-1] > i2[-1]:
                return any(j > i2[-1] and j != k for k, j in enumerate(i1))
            if i2[-1] > i1[-1]:
                return any(j > i1[-1] and j != k for k, j in enumerate(i2))
        return False
    V = case["v"]
    return any(_proportional(V[i], V[j]) and V[i] != V[j] and len(V[i]) > 1 for (i, j) in UPAIRS)


def stats(case, outs):
    if case["kind"] == "dense32":
        return ["dense32", "dense32." + case["rel"], f"dense32.d{'>1000' if len(case['x']) > 1000 else '<=1000'}"]
    if case["kind"] == "helpers":
        i1, i2 = set(case["ind1"]), set(case["ind2"])
        t = ["helpers", f"helpers.{case['dtype']}"]
        if not i1 or not i2:
            t.append("helpers.empty-arg")
        elif not (i1 & i2):
            t.append("helpers.disjoint")
        elif i1 <= i2 or i2 <= i1:
            t.append("helpers.nested")
        if nontrivial(case, outs):
            t.append("helpers.tail-index-ne-position")
        if any(v == 0 for v in case["data1"] + case["data2"]):
            t.append("helpers.explicit-zero")
        return t
    V = case["v"]
    d = len(V[0])
    t = ["dist", "dim.1" if d == 1 else "dim.2-8" if d <= 8 else "dim.9-32" if d <= 32 else "dim.33-64"]
    for (i, j) in UPAIRS:
        if _proportional(V[i], V[j]):
            t.append("pair.proportional")
        elif not any(a and b for a, b in zip(V[i], V[j])):
            t.append("pair.disjoint")
        else:
            t.append("pair.other")
    if any(sum(1 for a in v if a) == 1 for v in V):
        t.append("single-entry-vector")
    return t


def shrink_candidates(case):
    if case["kind"] == "dense32":
        return
    if case["kind"] == "helpers":
        for side in ("1", "2"):
            ind, data = case["ind" + side], case["data" + side]
            for k in range(len(ind)):
                yield dict(case, **{"ind" + side: ind[:k] + ind[k + 1:], "data" + side: data[:k] + data[k + 1:]})
        return
    V, Z = case["v"], case["zmask"]
    d = len(V[0])
    for k in range(d):
        if d > 1:
            nv = [v[:k] + v[k + 1:] for v in V]
            if all(sum(v) > 0 for v in nv):
                nz = [[i - (i > k) for i in z if i != k] for z in Z]
                yield dict(case, v=nv, zmask=nz)
    if any(Z):
        yield dict(case, zmask=[[], [], []])
