"""C19 — sliding windows contain exactly the documented in-range elements.
Model: lean/VecModel/Model/Sliding.lean, theorems: lean/VecModel/Props/C19.lean."""
from fractions import Fraction

PROP = "C19"
RULE = ("one fitted SlidingWindowTransformer per case, applied to 3-8 integer-valued sequences (exact in float64; float64 "
        "or int64 arrays; 1-d or multivariate with d in {2,3}) whose lengths sweep every L from the smallest admissible "
        "one (L + 2*pad_width >= width) over at least two strides; width 1..8, stride 1..5, window_sample in "
        "{None, integer n, (start, stride) pair, index list/array incl. permutations, repeats and lists as long as or "
        "longer than the window}, pad_width 0..3 with an integer pad_value, kernels None / average / differences(start, "
        "step, stride) / weight / integer matrix and chains of two; SequentialDifferenceTransformer for stride 1..6 on "
        "every length >= stride+1; about a third of the estimators had an earlier fit with another stride / other kernels "
        "before set_params + fit (two kernels of > 1000 entries that agree near their corners included); each case run normally and under NUMBA_BOUNDSCHECK=1; a small malformed stream "
        "(sequence shorter than the window, kernel parameters out of range, wrong weight length) only compares the "
        "model's rejection with the implementation's. Non-trivial = sample other than None, or stride not dividing "
        "L - width + 1, or padding, or a difference stride >= 2.")
ASSUMPTIONS = [
    "windows wider than 200 entries are decided by the definition-based oracle only (the list-based Lean model is quadratic there)",
    "values are exact rationals in the model; inputs are integers (exact in float64); the 'average' kernel and non-dyadic "
    "results are compared within 1e-9 relative, everything else exactly",
    "pad_value is representable in the sequence dtype (np.full(..., dtype=sequence.dtype) would truncate 0.5 for an int array)",
    "a two-element list/tuple window_sample is the documented (start, stride) pair; two-element index lists are passed as ndarray",
    "sample indices lie in [0, width) (documented range); window_sample='random', callable/function kernels, "
    "position_velocity and gaussian_weight kernels are not modelled",
    "the float computation int(np.ceil(x / stride)) is modelled by exact integer ceiling division (magnitudes far below 2^53)",
]
MODES = [("normal", {}), ("boundscheck", {"NUMBA_BOUNDSCHECK": "1"})]
NWORKERS = {"quick": 4, "thorough": 8}


def _sw(seqs, w, s=1, sample=None, kernels=None, p=0, v=0, dtype="float64", malformed=False):
    return {"kind": "sw", "seqs": seqs, "w": w, "s": s, "sample": sample or {"kind": "all"}, "kernels": kernels or [],
            "p": p, "v": v, "dtype": dtype, "malformed": malformed}


def corpus():
    r10 = [list(range(10)), [x * x for x in range(7)], [3, 1, 4, 1, 5, 9, 2, 6, 5, 3, 5, 8]]
    cs = [
        _sw(r10, 4, 1, {"kind": "every", "n": 2}),                      # D25
        _sw(r10, 4, 3, {"kind": "every", "n": 3}),
        _sw(r10, 3, 1, {"kind": "idx", "l": [2, 1, 0]}),                # D27
        _sw(r10, 3, 2, {"kind": "idx", "l": [2, 1, 0, 0]}),
        _sw(r10, 3, 1, {"kind": "idx", "l": [0, 1, 2]}),
        _sw(r10, 4, 1, {"kind": "idx", "l": [0, 2, 1, 3]}),            # identity at both ends only
        _sw(r10, 5, 2, {"kind": "idx", "l": [0, 3, 3, 1, 4]}),
        _sw(r10, 4, 1, {"kind": "idx", "l": [0, 1, 3, 2]}),
        _sw(r10, 4, 2, {"kind": "pair", "a": 1, "m": 2}),
        _sw(r10, 5, 2, None, [{"k": "differences", "start": 0, "step": 1, "stride": 2}]),   # count needs the ceiling
        _sw(r10, 5, 1, None, [{"k": "differences", "start": 1, "step": 2, "stride": 3}]),
        _sw(r10, 4, 1, None, [{"k": "average"}], 1, 7),
        _sw([[[i, i * i] for i in range(6)], [[1, 2], [3, 5], [8, 13]]], 3, 2, {"kind": "idx", "l": [2, 0]},
            [{"k": "differences", "start": 0, "step": 1, "stride": 1}], 1, -1),
        _sw([[1, 2, 3]], 4, 2, malformed=True), _sw([[1]], 4, 2, malformed=True),
    ]
    for st in (1, 2, 3, 5):                                              # D26
        cs.append({"kind": "sd", "seqs": [list(range(st + 1, 2 * st + 6)), [x * x for x in range(st + 1)],
                                          [x * x for x in range(st + 4)]], "stride": st, "dtype": "float64"})
    cs.append({"kind": "sd", "seqs": [[[i * i, -i] for i in range(7)]], "stride": 2, "dtype": "int64"})
    # histories: stride changed between two fits of one estimator
    for a, b in ((1, 3), (3, 1), (2, 5)):
        cs.append({"kind": "sd", "seqs": [list(range(3, 14)), [x * x for x in range(9)]], "stride": b, "dtype": "float64",
                   "prefit": {"stride": a}})
    # two large kernels (more than 1000 entries) that agree near their corners, used one after the other in one process
    W = 34
    K1 = [[(i * 7 + j * 3) % 5 - 2 for j in range(W)] for i in range(W)]
    K2 = [[(K1[i][j] + (1 if 4 <= i < W - 4 and 4 <= j < W - 4 else 0)) for j in range(W)] for i in range(W)]
    seqs = [[(i * i + 3 * i) % 11 - 5 for i in range(W + 7)], [i % 4 for i in range(W)]]
    cs.append(_sw(seqs, W, 3, None, [{"k": "matrix", "m": K2}]))
    cs[-1]["prefit"] = {"s": 1, "kernels": [{"k": "matrix", "m": K1}]}
    W = 1040
    w1 = [(i % 7) - 3 for i in range(W)]
    w2 = [w1[i] + (1 if 8 <= i < W - 8 else 0) for i in range(W)]
    cs.append(_sw([[(i * i) % 13 - 6 for i in range(W + 4)]], W, 2, None, [{"k": "weight", "w": w2}]))
    cs[-1]["prefit"] = {"s": 2, "kernels": [{"k": "weight", "w": w1}]}
    return cs


def _rand_sample(rng, w):
    r = rng.random()
    if r < 0.2:
        return {"kind": "all"}
    if r < 0.4:
        return {"kind": "every", "n": rng.randint(1, w + 1)}
    if r < 0.6:
        return {"kind": "pair", "a": rng.randint(0, w - 1), "m": rng.randint(1, w)}
    q = rng.random()
    if q < 0.15 and w >= 3:
        # almost the identity: the code special-cases "the sample is the whole window in order"; anything that
        # decides it from part of the list (ends, length, sum, sortedness of a prefix) errs on these
        l = list(range(w))
        form = rng.choice(["interior", "swap", "endswap", "dup"])
        if form == "interior" and w >= 4:
            mid = l[1:-1]; rng.shuffle(mid); l = [0] + mid + [w - 1]
            if l == list(range(w)):
                l[1], l[2] = l[2], l[1]
        elif form == "swap":
            i = rng.randrange(w - 1); l[i], l[i + 1] = l[i + 1], l[i]
        elif form == "endswap":
            l[0], l[-1] = l[-1], l[0]
        else:
            l[rng.randrange(1, w)] = l[0]
    elif q < 0.3:
        l = list(range(w)); rng.shuffle(l)                      # permutation: as long as the window
    elif q < 0.45:
        l = [rng.randrange(w) for _ in range(w + rng.randint(0, 2))]   # repeats, length >= width
    elif q < 0.55:
        l = list(range(w))
    else:
        l = [rng.randrange(w) for _ in range(rng.randint(1, w))]
    return {"kind": "idx", "l": l}


def _sample_len(sample, w):
    return len(_positions(sample, w))


def _rand_kernel(rng, k):
    r = rng.random()
    if r < 0.25:
        return {"k": "average"}
    if r < 0.6 and k >= 2:
        step = rng.randint(1, k - 1)
        start = rng.randint(0, k - 1 - step)
        return {"k": "differences", "start": start, "step": step, "stride": rng.randint(1, 3)}
    if r < 0.8:
        return {"k": "weight", "w": [rng.randint(-3, 3) for _ in range(k)]}
    return {"k": "matrix", "m": [[rng.randint(-2, 2) for _ in range(k)] for _ in range(rng.randint(1, 3))]}


def _kernel_rows(spec, k):
    """number of rows a kernel produces on k entries (None for 'average', which must come last)"""
    if spec["k"] == "average":
        return None
    if spec["k"] == "differences":
        return max(0, -(-(k - spec["start"] - spec["step"]) // spec["stride"]))
    if spec["k"] == "weight":
        return k
    return len(spec["m"])


def _rand_seq(rng, L, d):
    if d == 1:
        return [rng.randint(-9, 9) for _ in range(L)]
    return [[rng.randint(-9, 9) for _ in range(d)] for _ in range(L)]


def generate(rng, tier):
    cs = []
    n_sw, n_sd = (150, 12) if tier == "quick" else (1400, 60)
    grid = [(w, s) for w in range(1, 9) for s in range(1, 6)]
    for i in range(n_sw):
        w, s = grid[i % len(grid)] if i < 2 * len(grid) else (rng.randint(1, 8), rng.randint(1, 5))
        p = rng.choice([0, 0, 0, 1, 2, 3])
        d = rng.choice([1, 1, 1, 2, 3])
        sample = _rand_sample(rng, w)
        k = _sample_len(sample, w)
        kernels = []
        if rng.random() < 0.6:
            kernels.append(_rand_kernel(rng, k))
            rows = _kernel_rows(kernels[0], k)
            if rows and rng.random() < 0.35:
                kernels.append(_rand_kernel(rng, rows))
        Lmin = max(w - 2 * p, 1 if d > 1 else 0)
        nseq = rng.randint(3, 8) if tier == "quick" else 2 * s + 3
        lens = [Lmin + j for j in range(nseq)]
        if rng.random() < 0.3:
            lens.append(Lmin + rng.randint(10, 40))
        cs.append(_sw([_rand_seq(rng, L, d) for L in lens], w, s, sample, kernels, p,
                      rng.choice([0, 0, 7, -1]), rng.choice(["float64", "float64", "int64"])))
        if rng.random() < 0.3:
            pk = [_rand_kernel(rng, k)] if rng.random() < 0.7 else []
            cs[-1]["prefit"] = {"s": rng.randint(1, 5), "kernels": pk}
    for i in range(n_sd):
        st = (i % 6) + 1
        d = rng.choice([1, 1, 2])
        lens = [st + 1 + j for j in range(0, 6)] + [st + rng.randint(8, 30)]
        cs.append({"kind": "sd", "seqs": [_rand_seq(rng, L, d) for L in lens], "stride": st,
                   "dtype": rng.choice(["float64", "int64"])})
        if rng.random() < 0.5:
            cs[-1]["prefit"] = {"stride": rng.choice([x for x in range(1, 7) if x != st])}
    # malformed stream: only the rejection is compared
    for _ in range(8 if tier == "quick" else 60):
        w = rng.randint(2, 6)
        r = rng.random()
        if r < 0.4:
            cs.append(_sw([_rand_seq(rng, rng.randint(1, w - 1), 1)], w, rng.randint(1, 3), malformed=True))
        elif r < 0.7:
            cs.append(_sw([_rand_seq(rng, w + 2, 1)], w, 1, None,
                          [{"k": "differences", "start": rng.randint(0, w), "step": w, "stride": 1}], malformed=True))
        else:
            cs.append(_sw([_rand_seq(rng, w + 2, 1)], w, 1, None, [{"k": "weight", "w": [1] * (w + 1)}], malformed=True))
    return cs


def search(rng, tier):
    return generate(rng, "thorough" if tier == "thorough" else "quick")


# ------------------------------------------------------------------ implementation side (worker)

def _num(x):
    x = float(x)
    return int(x) if x.is_integer() else x


def _exc(e):
    return type(e).__name__


def run_impl(case):
    import numpy as np
    from vectorizers.transformers.sliding_windows import SlidingWindowTransformer, SequentialDifferenceTransformer
    dt = np.float64 if case["dtype"] == "float64" else np.int64
    d = 1
    for q in case["seqs"]:
        if q and isinstance(q[0], list):
            d = len(q[0])
    X = [np.asarray(q, dtype=dt).reshape((len(q),) if d == 1 else (len(q), d)) for q in case["seqs"]]
    out = {}

    def kernel_objs(specs):
        ks = []
        for k in specs:
            if k["k"] == "average":
                ks.append("average")
            elif k["k"] == "differences":
                ks.append(("differences", k["start"], k["step"], k["stride"]))
            elif k["k"] == "weight":
                ks.append(("weight", np.asarray(k["w"], dtype=np.float64)))
            else:
                ks.append(np.asarray(k["m"], dtype=np.float64))
        return ks
    try:
        pre = case.get("prefit")
        if case["kind"] == "sd":
            if pre:
                # history: the same estimator was fitted and used with another stride first
                t = SequentialDifferenceTransformer(stride=pre["stride"])
                try:
                    t.fit(X)
                    t.transform(X[-1:])
                except Exception:
                    pass
                t.set_params(stride=case["stride"])
            else:
                t = SequentialDifferenceTransformer(stride=case["stride"])
        else:
            sm = case["sample"]
            if sm["kind"] == "all":
                ws = None
            elif sm["kind"] == "every":
                ws = sm["n"]
            elif sm["kind"] == "pair":
                ws = (sm["a"], sm["m"])
            else:
                ws = np.asarray(sm["l"], dtype=np.int64) if len(sm["l"]) == 2 or len(sm["l"]) % 2 else list(sm["l"])
            ks = []
            for k in case["kernels"]:
                if k["k"] == "average":
                    ks.append("average")
                elif k["k"] == "differences":
                    ks.append(("differences", k["start"], k["step"], k["stride"]))
                elif k["k"] == "weight":
                    ks.append(("weight", np.asarray(k["w"], dtype=np.float64)))
                else:
                    ks.append(np.asarray(k["m"], dtype=np.float64))
            if pre:
                # history: the same estimator (and the same process) worked with other kernels / another stride first
                t = SlidingWindowTransformer(window_width=case["w"], window_stride=pre["s"], window_sample=ws,
                                             kernels=kernel_objs(pre["kernels"]) or None, pad_width=case["p"], pad_value=case["v"])
                try:
                    t.fit(X)
                    t.transform(X[-1:])
                except Exception:
                    pass
                t.set_params(window_stride=case["s"], kernels=ks or None)
            else:
                t = SlidingWindowTransformer(window_width=case["w"], window_stride=case["s"], window_sample=ws,
                                             kernels=ks or None, pad_width=case["p"], pad_value=case["v"])
        t.fit(X)
        if case["kind"] == "sw":
            out["sample_"] = [int(x) for x in t.window_sample_]
            out["ncols"] = int(t.kernel_output_size_)
    except Exception as e:
        return {"fit_exc": _exc(e)}
    res = []
    for x in X:
        try:
            r = t.transform([x])[0]
            res.append({"shape": [int(n) for n in r.shape], "rows": [[_num(v) for v in row] for row in r]})
        except Exception as e:
            res.append({"exc": _exc(e)})
    out["res"] = res
    return out


# ------------------------------------------------------------------ model side

def _cols(q):
    if q and isinstance(q[0], list):
        return [[row[j] for row in q] for j in range(len(q[0]))]
    return [list(q)]


def _d(case):
    for q in case["seqs"]:
        if q and isinstance(q[0], list):
            return len(q[0])
    return 1


def model_requests(case, outs):
    d = _d(case)
    reqs = []
    if case["kind"] == "sw" and case["w"] > 200:
        return reqs          # very wide windows: list-based model is quadratic; the definition-based oracle decides these
    for q in case["seqs"]:
        cols = _cols(q) if q else [[] for _ in range(d)]
        if case["kind"] == "sd":
            reqs.append({"op": "sw.seqdiff", "cols": cols, "L": len(q), "stride": case["stride"]})
        else:
            reqs.append({"op": "sw.transform", "cols": cols, "L": len(q), "w": case["w"], "s": case["s"],
                         "sample": case["sample"], "kernels": case["kernels"], "p": case["p"], "v": case["v"]})
    return reqs


def _frac(s):
    n, dn = s.split("/")
    return Fraction(int(n), int(dn))


def _close(a, b, exact):
    """a: impl number, b: Fraction from the model"""
    if isinstance(a, float) and (a != a or a in (float("inf"), float("-inf"))):
        return False            # NaN / inf (e.g. from an out-of-range read) never matches
    fa = Fraction(a)
    if fa == b:
        return True
    if exact:
        return False
    return abs(fa - b) <= Fraction(1, 10 ** 9) * max(1, abs(b))


def _exact(case):
    return case["kind"] == "sd" or not any(k["k"] == "average" for k in case["kernels"])


def compare(case, outs, resps):
    d = []
    if case["kind"] == "sw" and case["w"] > 200:
        return d
    for r in resps:
        if "bad" in r:
            return [f"model rejected request: {r['bad']}"]
    for mode, o in outs.items():
        if "crash" in o:
            continue
        if "fit_exc" in o:
            if any("ok" in r["out"] for r in resps):
                d.append(f"[{mode}] fit raised {o['fit_exc']} but the model produces output")
            continue
        if case["kind"] == "sw" and resps and "ok" in resps[0]["idx"] and resps[0]["idx"]["ok"] != o["sample_"]:
            d.append(f"[{mode}] window_sample_ {o['sample_']} != model {resps[0]['idx']['ok']}")
        for i, (res, r) in enumerate(zip(o["res"], resps)):
            m = r["out"]
            if "exc" in res:
                if "ok" in m:
                    d.append(f"[{mode}] seq #{i} (L={len(case['seqs'][i])}): transform raised {res['exc']}, model returns {len(m['ok'])} rows")
                continue
            if "ok" not in m:
                d.append(f"[{mode}] seq #{i} (L={len(case['seqs'][i])}): model fails with {m.get('err')}, impl returned shape {res['shape']}")
                continue
            if any(c is None for row in m["ok"] for c in row):
                d.append(f"[{mode}] seq #{i}: the model leaves result cells unwritten")
                continue
            mrows = [[_frac(c) for c in row] for row in m["ok"]]
            if len(mrows) != res["shape"][0] or (mrows and len(mrows[0]) != res["shape"][1]):
                d.append(f"[{mode}] seq #{i}: shape {res['shape']} != model {[len(mrows), len(mrows[0]) if mrows else None]}")
                continue
            ex = _exact(case)
            bad = [(a, b) for ra, rb in zip(res["rows"], mrows) for a, b in zip(ra, rb) if not _close(a, b, ex)]
            if bad:
                d.append(f"[{mode}] seq #{i}: {len(bad)} values differ, e.g. impl {bad[0][0]} model {bad[0][1]}")
    return d


# ------------------------------------------------------------------ oracle (the property, on the impl)

def _F(key, msg):
    return {"key": key, "msg": msg}


def _positions(sample, w):
    """the documented positions of the window a window_sample selects"""
    k = sample["kind"]
    if k == "all":
        return list(range(w))
    if k == "every":                       # 'every n-th entry of the window'
        return [j for j in range(w) if j % sample["n"] == 0]
    if k == "pair":                        # 'every m-th entry starting from the n-th entry'
        return [j for j in range(w) if j >= sample["a"] and (j - sample["a"]) % sample["m"] == 0]
    return list(sample["l"])


def _apply_kernels(kernels, win):
    """win: list of k entries, each a list of d Fractions; the kernels as functions along the window axis"""
    cur = win
    for spec in kernels:
        k = len(cur)
        d = len(cur[0]) if cur else 0
        if spec["k"] == "average":
            cur = [[sum(row[c] for row in cur) / k for c in range(d)]]
        elif spec["k"] == "differences":
            a, st, sd = spec["start"], spec["step"], spec["stride"]
            cur = [[cur[a + i * sd + st][c] - cur[a + i * sd][c] for c in range(d)]
                   for i in range(k) if a + i * sd + st < k]
        elif spec["k"] == "weight":
            cur = [[Fraction(spec["w"][j]) * cur[j][c] for c in range(d)] for j in range(k)]
        else:
            cur = [[sum(Fraction(row[j]) * cur[j][c] for j in range(k)) for c in range(d)] for row in spec["m"]]
    return [x for row in cur for x in row]


def oracle(case, outs):
    import numpy as np
    from numpy.lib.stride_tricks import sliding_window_view
    fails = []
    d = _d(case)
    for mode, o in outs.items():
        if "crash" in o:
            fails.append(_F(f"sw.crash.{mode}", f"process terminated: {o['crash']}"))
            continue
        if case.get("malformed"):
            continue
        tag = f"[{mode}] " + (f"stride={case['stride']}" if case["kind"] == "sd" else
                              f"width={case['w']} stride={case['s']} sample={case['sample']} kernels={str(case['kernels'])[:300]} pad=({case['p']},{case['v']})")
        if case.get("prefit"):
            tag += f" after an earlier fit of the same estimator with {str(case['prefit'])[:200]}"
        kk = "sd" if case["kind"] == "sd" else "sw"
        cls = f"stride-{'1' if case['stride'] == 1 else 'ge2'}" if kk == "sd" else \
            "sample-" + case["sample"]["kind"]
        if "fit_exc" in o:
            fails.append(_F(f"{kk}.fit-raises.{cls}", f"fit raises {o['fit_exc']} {tag}"))
            continue
        for q, res in zip(case["seqs"], o["res"]):
            x = np.asarray(q, dtype=object).reshape((len(q),) if d == 1 else (len(q), d))
            x2 = x.reshape(len(q), d)
            if "exc" in res:
                fails.append(_F(f"{kk}.raises.{cls}", f"transform raises {res['exc']} on a sequence of length {len(q)} {tag}"))
                break
            if kk == "sd":
                st = case["stride"]
                exp = [[Fraction(int(x2[i + st][c])) - Fraction(int(x2[i][c])) for c in range(d)] for i in range(len(q) - st)]
                exact = True
            else:
                w, s, p = case["w"], case["s"], case["p"]
                pad = np.full((p, d), case["v"], dtype=object)
                xp = np.concatenate([pad, x2, pad], axis=0) if p > 0 else x2
                n = -(-(len(xp) - w + 1) // s)
                wins = sliding_window_view(np.arange(len(xp)), w)[::s] if len(xp) >= w else []
                pos = _positions(case["sample"], w)
                exp = []
                for wi in wins:
                    win = [[Fraction(int(xp[wi[j]][c])) for c in range(d)] for j in pos]
                    exp.append(_apply_kernels(case["kernels"], win))
                if len(exp) != n:
                    fails.append(_F("sw.oracle-internal", f"sliding_window_view gives {len(exp)} windows, formula {n} {tag}"))
                    break
                exact = _exact(case)
            if res["shape"][0] != len(exp):
                fails.append(_F(f"{kk}.count.{cls}", f"{res['shape'][0]} windows for a sequence of length {len(q)}, expected {len(exp)} {tag}"))
                break
            width = len(exp[0]) if exp else None
            if exp and res["shape"][1] != width:
                fails.append(_F(f"{kk}.width.{cls}", f"rows have {res['shape'][1]} entries, expected {width} (sequence length {len(q)}) {tag}"))
                break
            bad = [(i, ra, rb) for i, (ra, rb) in enumerate(zip(res["rows"], exp))
                   if len(ra) != len(rb) or any(not _close(a, b, exact) for a, b in zip(ra, rb))]
            if bad:
                i, ra, rb = bad[0]
                fails.append(_F(f"{kk}.content.{cls}", f"window {i} of {q} is {ra}, expected {[str(v) for v in rb]} {tag}"))
                break
    return fails


def nontrivial(case, outs):
    if case.get("malformed"):
        return False
    if case["kind"] == "sd":
        return case["stride"] >= 2
    return (case["sample"]["kind"] != "all" or case["p"] > 0 or
            any((len(q) + 2 * case["p"] - case["w"] + 1) % case["s"] for q in case["seqs"]))


def stats(case, outs):
    o = outs["normal"]
    if case["kind"] == "sd":
        return ["sd", f"sd.stride.{case['stride']}"]
    t = ["sw", f"w.{case['w']}", f"s.{case['s']}", "sample." + case["sample"]["kind"], f"d.{_d(case)}",
         "pad" if case["p"] else "nopad", "dtype." + case["dtype"]]
    t += ["kernel." + k["k"] for k in case["kernels"]] or ["kernel.none"]
    if case.get("malformed"):
        t.append("malformed")
    if case["sample"]["kind"] == "idx" and len(case["sample"]["l"]) >= case["w"]:
        t.append("idx-list-len>=width")
    if "fit_exc" in o:
        t.append("fit.raises")
    elif any("exc" in r for r in o.get("res", [])):
        t.append("transform.raises")
    t.append(f"nseq.{min(len(case['seqs']), 9)}")
    return t


def shrink_candidates(case):
    seqs = case["seqs"]
    for i in range(len(seqs)):
        if len(seqs) > 1:
            yield dict(case, seqs=[seqs[i]])
    if case["kind"] == "sw":
        if case["kernels"]:
            yield dict(case, kernels=[])
        if case["p"]:
            yield dict(case, p=0)
        if case["dtype"] != "float64":
            yield dict(case, dtype="float64")
    if len(seqs) == 1 and len(seqs[0]) > 1:
        yield dict(case, seqs=[seqs[0][:-1]])
