"""Shared catalogue of the library's estimators for the cross-cutting properties (C01, C02, C12,
C13): JSON-able case generation, construction, fit/transform invocation and canonicalisation of
outputs.  Everything that imports the library runs in impl workers only."""
import math

TOKENS = ["a", "b", "c", "d", "e", "f"]
UNSEEN = ["zz", "yy"]

# kinds whose transform output has one row per input item
ROWWISE = ["ngram", "skipgram", "lz", "bpe", "histogram", "kde", "distribution",
           "wasserstein", "sinkhorn", "approxwasserstein"]
# kinds whose output rows are the fitted vocabulary / fitted row labels
VOCABROWS = ["tokencooc", "timedcooc", "multisetcooc", "ngramcooc", "tree", "edgelist"]
TRANSFORMERS = ["infoweight", "rowdenoise", "countcompress", "slidingwindow"]
ALL_VECTORIZERS = ROWWISE + VOCABROWS


# ------------------------------------------------------------------ generation (no library import)

def _seq(rng, alphabet, lo=0, hi=9):
    return [rng.choice(alphabet) for _ in range(rng.randint(lo, hi))]


def _docs(rng, n, alphabet, lo=0, hi=9):
    docs = [_seq(rng, alphabet, lo, hi) for _ in range(n)]
    # make sure every token of the alphabet occurs at least twice overall (so that a default fit keeps it)
    docs.append(list(alphabet) + list(alphabet))
    rng.shuffle(docs)
    return docs


def gen_case(kind, rng, tier="quick"):
    """returns {"kind", "params", "X", "Xt"} with JSON-able data; Xt is steered at what the suite
    never transforms: unseen vocabulary, items missing the last fitted columns, empty items,
    items shorter/longer than anything in training, duplicates."""
    k = rng.randint(2, 5)
    alpha = TOKENS[:k]
    sub = alpha[: max(1, k - 2)]          # strict subset omitting the tokens owning the last columns
    sup = alpha + UNSEEN
    if kind in ("ngram", "skipgram", "tokencooc", "ngramcooc"):
        X = _docs(rng, rng.randint(1, 4), alpha)
        Xt = [_seq(rng, sup, 0, 8), _seq(rng, sub, 0, 4), [], _seq(rng, alpha, 12, 16), [rng.choice(UNSEEN)]]
        Xt.append(list(Xt[0]))
        if rng.random() < 0.5:
            Xt = [x for x in Xt if rng.random() < 0.7] or [[]]
        if kind == "ngram":
            params = {"ngram_size": rng.choice([1, 1, 2, 3]), "ngram_behaviour": rng.choice(["exact", "subgrams"])}
            if rng.random() < 0.3:
                params["min_occurrences"] = 2
        elif kind == "skipgram":
            params = {"window_radius": rng.choice([1, 2, 5]), "kernel_function": rng.choice(["flat", "harmonic"])}
        elif kind == "tokencooc":
            params = {"window_radii": rng.choice([1, 2, 3]), "window_orientations": rng.choice(["before", "after", "directional"]),
                      "kernel_functions": rng.choice(["flat", "harmonic"])}
            if rng.random() < 0.3:
                params.update(min_occurrences=3, mask_string="[MASK]")
        else:
            params = {"ngram_size": rng.choice([1, 2]), "window_radii": rng.choice([1, 2]),
                      "window_orientations": rng.choice(["before", "after", "directional"])}
        return {"kind": kind, "params": params, "X": X, "Xt": Xt}
    if kind == "timedcooc":
        def tdoc(al, lo, hi):
            t, out = 0.0, []
            for tok in _seq(rng, al, lo, hi):
                t += rng.choice([1, 1, 2, 3])
                out.append([tok, t])
            return out
        X = [tdoc(alpha, 0, 9) for _ in range(rng.randint(1, 3))] + [[[a, float(i + 1)] for i, a in enumerate(alpha + alpha)]]
        Xt = [tdoc(sup, 0, 8), tdoc(sub, 0, 4), [], tdoc(alpha, 10, 14)]
        params = {"window_radii": rng.choice([1, 2, 4]), "window_orientations": rng.choice(["before", "after", "directional"])}
        return {"kind": kind, "params": params, "X": X, "Xt": Xt}
    if kind == "multisetcooc":
        def mdoc(al, lo, hi):
            return [_seq(rng, al, 1, 3) for _ in range(rng.randint(lo, hi))]
        X = [mdoc(alpha, 0, 6) for _ in range(rng.randint(1, 3))] + [[[a] for a in alpha + alpha]]
        Xt = [mdoc(sup, 0, 6), mdoc(sub, 0, 3), [], mdoc(alpha, 8, 10)]
        params = {"window_radii": rng.choice([1, 2]), "window_orientations": rng.choice(["before", "after", "directional"])}
        return {"kind": kind, "params": params, "X": X, "Xt": Xt}
    if kind == "tree":
        def forest(al, n):
            out = []
            for _ in range(n):
                m = rng.randint(1, 6)
                parents = [None] + [rng.randrange(i) for i in range(1, m)]
                out.append({"parents": parents, "labels": [rng.choice(al) for _ in range(m)]})
            return out
        X = forest(alpha, rng.randint(1, 3)) + [{"parents": [None] + list(range(2 * k - 1)), "labels": alpha + alpha}]
        Xt = forest(sup, 2) + forest(sub, 1)
        params = {"window_radius": rng.choice([1, 2, 3]), "window_orientation": rng.choice(["before", "after", "symmetric", "directional"])}
        return {"kind": kind, "params": params, "X": X, "Xt": Xt}
    if kind == "edgelist":
        rows, cols = ["r%d" % i for i in range(rng.randint(1, 4))], ["c%d" % i for i in range(rng.randint(1, 4))]
        X = [[r, c, rng.randint(1, 5)] for r in rows for c in cols if rng.random() < 0.7]
        X += [[rows[-1], cols[-1], 1], [rows[0], cols[0], 2], [rows[0], cols[0], 3]]
        Xt = [[rng.choice(rows[:-1] or rows), rng.choice(cols[:-1] or cols), rng.randint(1, 4)] for _ in range(rng.randint(1, 4))]
        if rng.random() < 0.6:
            Xt.append(["r_unseen", cols[0], 7])
            Xt.append([rows[0], "c_unseen", 7])
        return {"kind": kind, "params": {}, "X": X, "Xt": Xt}
    if kind in ("lz", "bpe"):
        def s(al, lo, hi):
            return "".join(rng.choice(al) for _ in range(rng.randint(lo, hi)))
        X = [s("ab", 2, 10) for _ in range(rng.randint(1, 3))] + ["abab"]
        Xt = [s("abz", 0, 8), "", rng.choice("abz"), s("ab", 12, 20), "zzzz", "aé中"]
        if kind == "lz":
            params = {"max_columns": rng.choice([None, None, 16, 65536]), "max_dict_size": rng.choice([4, 1 << 16]), "random_state": 3}
        else:
            params = {"max_vocab_size": rng.choice([1, 2, 10]), "return_type": "matrix"}
        return {"kind": kind, "params": params, "X": X, "Xt": Xt}
    if kind in ("histogram", "kde"):
        def v(lo, hi, n0, n1):
            return [float(rng.randint(lo, hi)) for _ in range(rng.randint(n0, n1))]
        X = [v(0, 20, 3, 12) for _ in range(rng.randint(2, 4))] + [[0.0, 20.0, 7.0]]
        Xt = [v(0, 20, 1, 8), v(-50, 80, 1, 8), [0.0, 20.0], [1000.0, -1000.0, 5.0], v(0, 20, 25, 30)]
        if kind == "histogram":
            Xt.append([])
            params = {"n_components": rng.choice([2, 5, 8]), "append_outlier_bins": rng.random() < 0.5,
                      "strategy": rng.choice(["uniform", "uniform", "quantile"])}
        else:
            params = {"n_components": rng.choice([3, 8]), "bandwidth": rng.choice([0.5, 1.0, None])}
        return {"kind": kind, "params": params, "X": X, "Xt": Xt}
    if kind == "distribution":
        def cloud(n):
            return [[rng.gauss(0, 1), rng.gauss(0, 1)] for _ in range(n)]
        X = [cloud(rng.randint(8, 15)) for _ in range(4)]
        Xt = [cloud(rng.randint(1, 6)) for _ in range(3)] + [[[50.0, 50.0]]]
        return {"kind": kind, "params": {"n_components": 2, "random_state": 5}, "X": X, "Xt": Xt}
    if kind in ("wasserstein", "sinkhorn", "approxwasserstein"):
        nv, dim = rng.randint(5, 8), 3
        vectors = [[round(rng.gauss(0, 1), 3) for _ in range(dim)] for _ in range(nv)]

        def dist():
            row = [0.0] * nv
            for j in rng.sample(range(nv), rng.randint(1, min(4, nv))):
                row[j] = float(rng.randint(1, 6))
            return row
        X = [dist() for _ in range(rng.randint(5, 7))]
        Xt = [dist() for _ in range(rng.randint(1, 4))]
        params = {"n_components": 3, "random_state": 7}
        if kind == "wasserstein":
            params["metric"] = rng.choice(["cosine", "cosine", "euclidean"])
            params["memory_size"] = rng.choice(["2G", "2G", "1k"])
        return {"kind": kind, "params": params, "X": X, "Xt": Xt, "vectors": vectors}
    if kind in ("infoweight", "rowdenoise", "countcompress"):
        nr, nc = rng.randint(4, 7), rng.randint(4, 6)
        def mat(n):
            return [[rng.choice([0, 0, 1, 2, 5]) for _ in range(nc)] for _ in range(n)]
        X = mat(nr)
        for j in range(nc):
            X[rng.randrange(nr)][j] += 1
        for i in range(nr):
            X[i][rng.randrange(nc)] += 1
        Xt = mat(rng.randint(1, 4)) + [[1] * nc]
        params = {}
        if kind == "countcompress":
            params = {"n_components": 3, "random_state": 11}
        if kind == "rowdenoise":
            params = {"em_threshold": 1e-4}
        return {"kind": kind, "params": params, "X": X, "Xt": Xt}
    if kind == "slidingwindow":
        w = rng.randint(1, 4)
        X = [[float(rng.randint(0, 9)) for _ in range(rng.randint(w, w + 6))] for _ in range(rng.randint(1, 3))]
        Xt = [[float(rng.randint(0, 9)) for _ in range(rng.randint(w, w + 8))] for _ in range(rng.randint(1, 3))]
        return {"kind": kind, "params": {"window_width": w, "window_stride": rng.randint(1, 2)}, "X": X, "Xt": Xt}
    raise ValueError(kind)


# ------------------------------------------------------------------ library side (impl workers only)

def make(kind, params):
    import vectorizers as V
    import vectorizers.transformers as T
    p = dict(params)
    if isinstance(p.get("metric"), str) and p["metric"].startswith("callable:"):
        from pynndescent.distances import named_distances        # the documented callable form of the metric
        p["metric"] = named_distances[p["metric"].split(":", 1)[1]]
    cls = {
        "ngram": V.NgramVectorizer, "skipgram": V.SkipgramVectorizer, "lz": V.LZCompressionVectorizer,
        "bpe": V.BytePairEncodingVectorizer, "histogram": V.HistogramVectorizer, "kde": V.KDEVectorizer,
        "distribution": V.DistributionVectorizer, "wasserstein": V.WassersteinVectorizer,
        "sinkhorn": V.SinkhornVectorizer, "approxwasserstein": V.ApproximateWassersteinVectorizer,
        "tokencooc": V.TokenCooccurrenceVectorizer, "timedcooc": V.TimedTokenCooccurrenceVectorizer,
        "multisetcooc": V.MultiSetCooccurrenceVectorizer, "ngramcooc": V.NgramCooccurrenceVectorizer,
        "tree": V.LabelledTreeCooccurrenceVectorizer, "edgelist": V.EdgeListVectorizer,
        "infoweight": T.InformationWeightTransformer, "rowdenoise": T.RowDenoisingTransformer,
        "countcompress": T.CountFeatureCompressionTransformer, "slidingwindow": T.SlidingWindowTransformer,
    }[kind]
    return cls(**p)


def to_input(kind, data):
    """JSON data -> the objects the estimator is called with"""
    import numpy as np, scipy.sparse as sp
    if kind == "tree":
        out = []
        for t in data:
            n = len(t["labels"])
            A = sp.lil_matrix((n, n))
            for child, parent in enumerate(t["parents"]):
                if parent is not None:
                    A[parent, child] = 1
            out.append((A.tocsr(), np.array(t["labels"])))
        return out
    if kind == "edgelist":
        return [tuple(e) for e in data]
    if kind == "timedcooc":
        return [[(tok, t) for tok, t in doc] for doc in data]
    if kind in ("kde",):
        return [np.array(s, dtype=float) for s in data]
    if kind == "histogram":
        return [np.array(s, dtype=float) for s in data]
    if kind == "distribution":
        return [np.array(c, dtype=float) for c in data]
    if kind in ("wasserstein", "sinkhorn", "approxwasserstein"):
        return sp.csr_matrix(np.array(data, dtype=np.float64).reshape(len(data), -1))
    if kind in ("infoweight", "rowdenoise", "countcompress"):
        return sp.csr_matrix(np.array(data, dtype=np.float64).reshape(len(data), -1))
    if kind == "slidingwindow":
        return [np.array(s, dtype=float) for s in data]
    return data


def call_kwargs(kind, case):
    import numpy as np
    if kind in ("wasserstein", "sinkhorn", "approxwasserstein"):
        return {"vectors": np.array(case["vectors"], dtype=np.float64)}
    return {}


def canon(out):
    """canonical JSON-able form of an estimator output"""
    import numpy as np, scipy.sparse as sp
    if out is None:
        return {"none": True}
    if sp.issparse(out):
        M = out.tocsr().copy()
        M.sum_duplicates()
        rows = []
        for i in range(M.shape[0]):
            sl = slice(M.indptr[i], M.indptr[i + 1])
            rows.append(sorted((int(j), _num(v)) for j, v in zip(M.indices[sl], M.data[sl]) if v != 0))
        return {"shape": [int(M.shape[0]), int(M.shape[1])], "rows": rows}
    if isinstance(out, np.ndarray) and out.ndim == 2:
        rows = [[(j, _num(v)) for j, v in enumerate(r) if v != 0] for r in out]
        return {"shape": [int(out.shape[0]), int(out.shape[1])], "rows": rows}
    if isinstance(out, (list, tuple)) or (isinstance(out, np.ndarray)) or hasattr(out, "__iter__"):
        items = []
        for r in out:
            a = np.asarray(r)
            if a.dtype.kind in "USO":
                items.append({"shape": [int(s) for s in a.shape], "flat": [str(v) for v in a.ravel()]})
            else:
                items.append({"shape": [int(s) for s in a.shape], "flat": [_num(v) for v in a.ravel()]})
        return {"list": items}
    return {"repr": repr(out)[:200]}


def _num(v):
    v = float(v)
    if math.isnan(v):
        return "nan"
    if math.isinf(v):
        return "inf" if v > 0 else "-inf"
    return int(v) if v == int(v) and abs(v) < 2 ** 53 else v


def fitted_width(est, kind):
    """the number of columns fixed at fit time, read from the fitted column dictionary / attributes"""
    for attr in ("column_label_dictionary_", "column_index_dictionary_"):
        d = getattr(est, attr, None)
        if d is not None:
            try:
                return len(d)
            except Exception:
                pass
    if kind == "histogram":
        return len(est.bin_intervals_)
    if kind == "kde":
        return int(est.n_components)
    if kind == "distribution":
        return int(est.n_components)
    if kind in ("wasserstein", "sinkhorn", "approxwasserstein"):
        c = getattr(est, "components_", None)
        return int(c.shape[0]) if c is not None else None
    return None


def fitted_rows(est, kind):
    if kind == "edgelist":
        return len(est.row_label_dictionary_)
    if kind in ("tokencooc", "timedcooc", "multisetcooc", "tree"):
        return len(est.token_label_dictionary_)
    if kind == "ngramcooc":
        d = getattr(est, "ngram_label_dictionary_", None) or getattr(est, "token_label_dictionary_")
        return len(d)
    return None


def exc_name(e):
    return f"{type(e).__name__}: {str(e)[:160]}"


def approx_equal(a, b, rtol=1e-6, atol=1e-9):
    """compare two canon() outputs; returns None or a description of the first difference"""
    if set(a) != set(b):
        return f"different kinds of output: {sorted(a)} vs {sorted(b)}"
    if "shape" in a:
        if a["shape"] != b["shape"]:
            return f"shape {a['shape']} vs {b['shape']}"
        for i, (ra, rb) in enumerate(zip(a["rows"], b["rows"])):
            da, db = dict((int(j), v) for j, v in ra), dict((int(j), v) for j, v in rb)
            for j in set(da) | set(db):
                x, y = da.get(j, 0), db.get(j, 0)
                if not _close(x, y, rtol, atol):
                    return f"cell ({i},{j}): {x} vs {y}"
        return None
    if "list" in a:
        if len(a["list"]) != len(b["list"]):
            return f"{len(a['list'])} items vs {len(b['list'])}"
        for i, (x, y) in enumerate(zip(a["list"], b["list"])):
            if x["shape"] != y["shape"]:
                return f"item {i} shape {x['shape']} vs {y['shape']}"
            for u, v in zip(x["flat"], y["flat"]):
                if not _close(u, v, rtol, atol):
                    return f"item {i}: {u} vs {v}"
        return None
    return None if a == b else f"{a} vs {b}"


def _close(x, y, rtol, atol):
    if isinstance(x, str) or isinstance(y, str):
        return x == y
    return abs(x - y) <= atol + rtol * max(abs(x), abs(y))
