"""Impl worker: imports /repo's package in this process and runs harness.<mod>.run_impl on each
case read from stdin (JSON lines).  Results go to stdout prefixed with '@@'."""
import importlib, json, sys, traceback, warnings
warnings.filterwarnings("ignore")


def main():
    modname = sys.argv[1]
    mod = importlib.import_module(f"harness.{modname}")
    for line in sys.stdin:
        d = json.loads(line)
        try:
            out = mod.run_impl(d["case"])
        except BaseException as e:  # the module is expected to catch impl exceptions itself
            out = {"harness_exc": f"{type(e).__name__}: {e}", "tb": traceback.format_exc()[-1500:]}
        sys.stdout.write("@@" + json.dumps({"i": d["i"], "out": out}, default=str) + "\n")
        sys.stdout.flush()


if __name__ == "__main__":
    main()
