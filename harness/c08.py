"""C08 — Wasserstein embeddings depend only on the measure, not on its encoding.
Model: lean/VecModel/Model/OT.lean (normalise, truncate, images, lot, blocks, colMask),
theorems: lean/VecModel/Props/C08.lean."""
from fractions import Fraction

PROP = "C08"
RULE = ("kind=est: one fitted estimator (WassersteinVectorizer LOT_exact / LOT_sinkhorn, SinkhornVectorizer, "
        "ApproximateWassersteinVectorizer; metric cosine / euclidean) and a list of re-encodings of the same test "
        "distributions: scale rows, explicit stored zeros, extra zero-weight support points (new columns with new "
        "vectors), permutation of support points with their vectors, split of a support point into two duplicates "
        "sharing its mass (per-row fractions), a duplicated row, memory_size in {'10','100','200','1k'} (block sizes "
        "0->1, 2, 4, many), sinkhorn chunk sizes, input formats ndarray / list of arrays / generators, "
        "fit_transform vs transform, and with full-rank n_components the pairwise distances of the embedding vs the "
        "raw LOT vectors. Small max_distribution_size (support <= it < padded size) included. "
        "kind=kernel: lot_vectors_sparse_internal / lot_vectors_dense_internal with spherical_vectors=False on a few "
        "rows incl. truncation, re-computed row by row from the kernel's own plan by the Lean model. "
        "Non-trivial = est case with a non-cosine metric or >= 2 blocks or a split/zero-weight variant; every kernel case.")
ASSUMPTIONS = [
    "exact solver: tolerance 1e-8 (absolute, on embeddings of size O(1)); Sinkhorn-based estimators: 1e-6, because the "
    "batch stopping test (err <= 1e-9 every 10 iterations, float32 accumulator) couples the rows of a chunk and depends "
    "on the encoding at the level of the convergence tolerance",
    "input formats are compared on one fitted state: the estimator is fitted from a sparse matrix and its "
    "input_method parameter switched to 'lil' / 'generator' for transform",
    "split: generic (continuous random) vectors, so the optimal plan of the merged problem is unique (theorem "
    "split_merge_unique states exactly this strength); supports stay within max_distribution_size",
    "ApproximateWassersteinVectorizer fixes its vectors at fit: permutation / split / new support points are tested by "
    "refitting on the re-encoded training data with the same integer random_state; normalization_power = 1",
    "distributions have positive total mass and non-negative weights; the reference distribution is positive",
    "the cosine post-processing (tangent space, signed square root), the SVD and Sinkhorn convergence are numerical "
    "code that is only tested here, not modelled",
]
NWORKERS = {"quick": 4, "thorough": 8}

TOL_EXACT = 1e-8
TOL_SINK = 1e-6
TOL_DIST = 1e-6


# ------------------------------------------------------------------ generation

def _rows(rng, n, N, lo=2, hi=5, zero_p=0.0):
    rows = []
    for _ in range(n):
        k = rng.randint(lo, min(hi, N))
        supp = rng.sample(range(N), k)
        r = [0.0] * N
        for j in supp:
            r[j] = round(rng.random() + 0.05, 6)
        rows.append(r)
    return rows


def _est_case(rng, est=None, metric=None, fullrank=False, mds=None):
    est = est or rng.choice(["W", "W", "W", "S", "WS", "A"])
    metric = metric or rng.choice(["cosine", "euclidean"])
    d = rng.choice([2, 3])
    N = rng.randint(7, 10)
    rs = rng.choice([2, 3]) if est in ("W",) else rng.choice([2, 3, 4])
    n_train = rng.randint(8, 11)
    k = rng.randint(3, 5)
    V = [[rng.gauss(0, 1) for _ in range(d)] for _ in range(N)]
    if metric == "cosine":
        V = [[x + (1.5 if i == 0 else 0.0) for i, x in enumerate(v)] for v in V]
    Xtrain = _rows(rng, n_train, N)
    Xtest = _rows(rng, k, N, 2, 3 if mds == 4 else 4)   # a split adds one support point: stay within mds
    D = rs * d
    if fullrank:
        n_train = D + 3
        Xtrain = _rows(rng, n_train, N)
        nc = D
    else:
        nc = min(4, D, n_train)
    if est == "A":
        nc = d
    case = {"kind": "est", "est": est, "metric": metric, "V": V, "Xtrain": Xtrain, "Xtest": Xtest,
            "rs": rs, "nc": nc, "seed": rng.randint(0, 10 ** 6), "mds": mds or 256, "fullrank": bool(fullrank),
            "chunk": rng.choice([2, 3, 32])}
    vs = []
    vs.append({"t": "scale", "f": [rng.choice([0.5, 3.0, 7.25, 1e-3, 1e4]) for _ in range(k)]})
    zpos = [[i, j] for i in range(k) for j in range(N) if Xtest[i][j] == 0 and rng.random() < 0.3]
    vs.append({"t": "zeros", "pos": zpos})
    kk = rng.randint(1, 3)
    vs.append({"t": "newcols", "vec": [[rng.gauss(0, 1) for _ in range(d)] for _ in range(kk)],
               "stored": [[rng.random() < 0.5 for _ in range(kk)] for _ in range(k)]})
    perm = list(range(N)); rng.shuffle(perm)
    vs.append({"t": "perm", "perm": perm})
    col = rng.choice([j for j in range(N) if any(Xtest[i][j] > 0 for i in range(k))])
    vs.append({"t": "split", "col": col, "fr": [rng.choice([0.5, 0.25, 0.9, rng.random() * 0.98 + 0.01]) for _ in range(k)]})
    vs.append({"t": "dup", "row": rng.randrange(k)})
    if est != "A":
        for ms in rng.sample(["10", "100", "200", "1k"], 2):
            vs.append({"t": "memory", "size": ms})
    if est in ("S", "WS"):
        vs.append({"t": "chunk", "size": rng.choice([1, 2, 5])})
    vs.append({"t": "format", "fmt": "ndarray"})
    if est == "W":
        vs.append({"t": "format", "fmt": "lil"})
        vs.append({"t": "format", "fmt": "generator"})
        vs.append({"t": "format", "fmt": "lil", "size": rng.choice(["10", "100"])})
        vs.append({"t": "format", "fmt": "generator", "size": rng.choice(["10", "100"])})
    case["variants"] = vs
    return case


def _kernel_case(rng, path=None, mds=None):
    d = rng.choice([2, 3])
    N = rng.randint(5, 9)
    r = rng.randint(1, 4)
    V = [[rng.gauss(0, 1) for _ in range(d)] for _ in range(N)]
    R = [[rng.gauss(0, 1) for _ in range(d)] for _ in range(r)]
    q = [1.0 / r] * r if rng.random() < 0.5 else None
    if q is None:
        w = [rng.random() + 0.2 for _ in range(r)]
        q = [x / sum(w) for x in w]
    rows = []
    for _ in range(rng.randint(2, 4)):
        k = rng.randint(1, N)
        idx = sorted(rng.sample(range(N), k))
        ws = rng.sample([0.1 * t + 0.013 * rng.random() for t in range(1, 3 * N)], k)  # pairwise distinct
        if k > 2 and rng.random() < 0.3:
            ws[rng.randrange(k)] = 0.0
        rows.append({"idx": idx, "w": ws})
    return {"kind": "kernel", "path": path or rng.choice(["sparse", "dense"]), "V": V, "R": R, "q": q, "rows": rows,
            "mds": mds or rng.choice([256, 256, 3, 2]), "metric": "euclidean"}


def _manyrows_case(rng, metric, n_rows=300):
    """hundreds of transform rows (cyclic copies of a few distributions) under memory sizes that put several
    256-row chunks into one block: chunk/block boundary arithmetic only shows at this size"""
    c = _est_case(rng, "W", metric)
    base = c["Xtest"]
    c["Xtest"] = [list(base[i % len(base)]) for i in range(n_rows)]
    c["variants"] = [{"t": "memory", "size": ms} for ms in ("50k", "20k", "13k", "1k")]
    c["manyrows"] = True
    return c


def corpus():
    import random
    rng = random.Random(808)
    cs = [_manyrows_case(rng, "euclidean"), _manyrows_case(rng, "cosine", 520)] + [
        _est_case(rng, "W", "euclidean"),
        _est_case(rng, "W", "cosine"),
        _est_case(rng, "W", "euclidean", fullrank=True),
        _est_case(rng, "W", "cosine", fullrank=True),
        _est_case(rng, "W", "euclidean", mds=4),
        _est_case(rng, "S", "euclidean"),
        _est_case(rng, "WS", "cosine"),
        _est_case(rng, "A", "cosine"),
        _kernel_case(rng, "sparse", 256), _kernel_case(rng, "dense", 256),
        _kernel_case(rng, "sparse", 2), _kernel_case(rng, "dense", 3),
    ]
    return cs


def generate(rng, tier):
    n_est = 20 if tier == "quick" else 160
    n_k = 16 if tier == "quick" else 200
    cs = []
    for i in range(n_est):
        if i % 5 == 0:
            cs.append(_est_case(rng, "W", fullrank=True))
        else:
            cs.append(_est_case(rng, mds=4 if i % 7 == 3 else None))
    for _ in range(n_k):
        cs.append(_kernel_case(rng))
    return cs


def search(rng, tier):
    return generate(rng, tier)


# ------------------------------------------------------------------ implementation side (worker)

def _fl2(A):
    return [[float(x) for x in r] for r in A]


def _csr(rows, stored=None):
    """CSR matrix of the given dense rows; `stored` = extra (i, j) positions kept as explicit zeros"""
    import numpy as np, scipy.sparse as sp
    n = len(rows); N = len(rows[0]) if rows else 0
    extra = set(map(tuple, stored or []))
    indptr, indices, data = [0], [], []
    for i, r in enumerate(rows):
        for j, x in enumerate(r):
            if x != 0 or (i, j) in extra:
                indices.append(j); data.append(x)
        indptr.append(len(indices))
    return sp.csr_matrix((np.array(data, dtype=np.float64), np.array(indices, dtype=np.int32),
                          np.array(indptr, dtype=np.int32)), shape=(n, N))


def _reencode(rows, V, v):
    """returns (rows', V', stored explicit zeros) for a data re-encoding variant"""
    k, N = len(rows), len(V)
    t = v["t"]
    if t == "scale":
        return [[x * f for x in r] for r, f in zip(rows, v["f"])], V, None
    if t == "zeros":
        return rows, V, v["pos"]
    if t == "newcols":
        kk = len(v["vec"])
        stored = [[i, N + c] for i in range(k) for c in range(kk) if v["stored"][i % len(v["stored"])][c]]
        return [r + [0.0] * kk for r in rows], V + v["vec"], stored
    if t == "perm":
        pm = v["perm"]
        return [[r[j] for j in pm] for r in rows], [V[j] for j in pm], None
    if t == "split":
        c = v["col"]
        out = []
        for i, r in enumerate(rows):
            a = v["fr"][i % len(v["fr"])]
            r2 = list(r) + [r[c] - r[c] * a]
            r2[c] = r[c] * a
            out.append(r2)
        return out, V + [V[c]], None
    if t == "dup":
        return rows + [rows[v["row"]]], V, None
    raise ValueError(t)


def _make(case):
    from vectorizers import WassersteinVectorizer, SinkhornVectorizer, ApproximateWassersteinVectorizer
    e = case["est"]
    if e == "W":
        return WassersteinVectorizer(method="LOT_exact", metric=case["metric"], n_components=case["nc"],
                                     reference_size=case["rs"], random_state=case["seed"],
                                     max_distribution_size=case["mds"])
    if e == "WS":
        return WassersteinVectorizer(method="LOT_sinkhorn", metric=case["metric"], n_components=case["nc"],
                                     reference_size=case["rs"], random_state=case["seed"],
                                     sinkhorn_chunk_size=case["chunk"])
    if e == "S":
        return SinkhornVectorizer(metric=case["metric"], n_components=case["nc"], reference_size=case["rs"],
                                  random_state=case["seed"], chunk_size=case["chunk"])
    return ApproximateWassersteinVectorizer(n_components=case["nc"], random_state=case["seed"])


def _lil(rows, V):
    import numpy as np
    Xs, Vs = [], []
    for r in rows:
        idx = [j for j, x in enumerate(r) if x != 0]
        Xs.append(np.array([r[j] for j in idx], dtype=np.float64))
        Vs.append(np.ascontiguousarray(np.array([V[j] for j in idx], dtype=np.float64)))
    return Xs, Vs


def run_impl(case):
    import numpy as np
    if case["kind"] == "kernel":
        return _run_kernel(case)
    V = np.array(case["V"], dtype=np.float64)
    Xtr = _csr(case["Xtrain"])
    est = _make(case)
    out = {"variants": []}
    is_a = case["est"] == "A"

    def tr(m, X, vecs):
        return m.transform(X) if is_a else m.transform(X, vectors=vecs)
    try:
        emb = est.fit_transform(Xtr, vectors=V)
        out["fit_emb"] = _fl2(emb)
        out["train_tr"] = _fl2(tr(est, Xtr, V))
        base = tr(est, _csr(case["Xtest"]), V)
        out["base"] = _fl2(base)
    except Exception as e:
        out["exc"] = f"{type(e).__name__}: {e}"
        return out
    for v in case["variants"]:
        rec = {"t": v["t"]}
        try:
            if v["t"] == "memory":
                est.set_params(memory_size=v["size"])
                rec["out"] = _fl2(tr(est, _csr(case["Xtest"]), V))
                est.set_params(memory_size="2G")
            elif v["t"] == "chunk":
                key = "chunk_size" if case["est"] == "S" else "sinkhorn_chunk_size"
                est.set_params(**{key: v["size"]})
                rec["out"] = _fl2(tr(est, _csr(case["Xtest"]), V))
                est.set_params(**{key: case["chunk"]})
            elif v["t"] == "format":
                rec["fmt"] = v["fmt"]
                if v["fmt"] == "ndarray":
                    rec["out"] = _fl2(tr(est, np.array(case["Xtest"], dtype=np.float64), V))
                else:
                    Xs, Vs = _lil(case["Xtest"], case["V"])
                    keep = est.get_params()
                    if "size" in v:
                        est.set_params(memory_size=v["size"])
                    if v["fmt"] == "lil":
                        est.set_params(input_method="lil")
                        rec["out"] = _fl2(est.transform(Xs, vectors=Vs))
                    else:
                        est.set_params(input_method="generator", generator_vector_dim=V.shape[1],
                                       generator_n_distributions=len(Xs))
                        rec["out"] = _fl2(est.transform((x for x in Xs), vectors=(x for x in Vs)))
                    est.set_params(input_method=keep["input_method"], memory_size=keep["memory_size"],
                                   generator_vector_dim=keep["generator_vector_dim"],
                                   generator_n_distributions=keep["generator_n_distributions"])
            else:
                rows2, V2, stored = _reencode(case["Xtest"], case["V"], v)
                if is_a and v["t"] in ("newcols", "perm", "split"):
                    # the vectors are fixed at fit: refit on the training data re-encoded the same way
                    trn2, _, _ = _reencode(case["Xtrain"], case["V"], v)
                    m2 = _make(case)
                    m2.fit(_csr(trn2), vectors=np.array(V2, dtype=np.float64))
                    rec["out"] = _fl2(m2.transform(_csr(rows2, stored)))
                else:
                    rec["out"] = _fl2(tr(est, _csr(rows2, stored), np.array(V2, dtype=np.float64)))
        except Exception as e:
            rec["exc"] = f"{type(e).__name__}: {e}"
        out["variants"].append(rec)
    if case.get("fullrank") and case["est"] == "W":
        try:
            out["raw"] = _raw_lot(case, est)
        except Exception as e:
            out["raw_exc"] = f"{type(e).__name__}: {e}"
    return out


def _raw_lot(case, est):
    """uncompressed LOT vectors of the training and test rows (the module's public kernel, same preprocessing)"""
    import numpy as np
    from sklearn.preprocessing import normalize
    from pynndescent.distances import named_distances
    import vectorizers.linear_optimal_transport as lot
    metric = named_distances[case["metric"]]
    V = np.array(case["V"], dtype=np.float64)
    if case["metric"] == "cosine":
        V = normalize(V, norm="l2")
    res = {}
    for name in ("Xtrain", "Xtest"):
        X = normalize(_csr(case[name]), norm="l1")
        res[name] = _fl2(lot.lot_vectors_sparse_internal(X.indptr, X.indices, X.data, V, est.reference_vectors_,
                                                         est.reference_distribution_, metric=metric,
                                                         max_distribution_size=case["mds"], chunk_size=256,
                                                         spherical_vectors=(case["metric"] == "cosine")))
    return res


def _run_kernel(case):
    import numpy as np, numba
    from pynndescent.distances import named_distances
    import vectorizers.linear_optimal_transport as lot
    metric = named_distances[case["metric"]]
    V = np.array(case["V"], dtype=np.float64)
    R = np.array(case["R"], dtype=np.float64)
    q = np.array(case["q"], dtype=np.float64)
    mds = case["mds"]

    def kernel(rows, path=None):
        if (path or case["path"]) == "sparse":
            indptr, indices, data = [0], [], []
            for r in rows:
                indices += r["idx"]; data += r["w"]; indptr.append(len(indices))
            return lot.lot_vectors_sparse_internal(np.array(indptr, dtype=np.int32), np.array(indices, dtype=np.int32),
                                                   np.array(data, dtype=np.float64), V, R, q, metric=metric,
                                                   max_distribution_size=mds, chunk_size=256, spherical_vectors=False)
        vs = numba.typed.List.empty_list(numba.float64[:, :])
        ds = numba.typed.List.empty_list(numba.float64[:])
        for r in rows:
            vs.append(np.ascontiguousarray(V[r["idx"]])); ds.append(np.array(r["w"], dtype=np.float64))
        return lot.lot_vectors_dense_internal(vs, ds, R, q, metric=metric, max_distribution_size=mds,
                                              chunk_size=256, spherical_vectors=False)
    out = {}
    try:
        out["lot"] = _fl2(kernel(case["rows"]))
        out["lot_scaled"] = _fl2(kernel([{"idx": r["idx"], "w": [2.5 * x for x in r["w"]]} for r in case["rows"]]))
        out["lot_reversed"] = _fl2(kernel([{"idx": r["idx"][::-1], "w": r["w"][::-1]} for r in case["rows"]]))
        out["lot_other_format"] = _fl2(kernel(case["rows"], "dense" if case["path"] == "sparse" else "sparse"))
        import scipy.sparse as sp
        N = len(case["V"])
        M = sp.csr_matrix((np.array([x for r in case["rows"] for x in r["w"]], dtype=np.float64),
                           np.array([j for r in case["rows"] for j in r["idx"]], dtype=np.int32),
                           np.cumsum([0] + [len(r["idx"]) for r in case["rows"]]).astype(np.int32)),
                          shape=(len(case["rows"]), N))
        out["csr"] = {"indptr": [int(x) for x in M.indptr], "indices": [int(x) for x in M.indices],
                      "data": [float(x) for x in M.data]}
    except Exception as e:
        out["exc"] = f"{type(e).__name__}: {e}"
        return out
    # row by row, the steps as the model describes them; plan and argsort order come from the real functions
    steps = []
    for r in case["rows"]:
        w = np.array(r["w"], dtype=np.float64)
        idx = list(r["idx"])
        st = {"order": [int(i) for i in np.argsort(-w)]}
        if len(idx) > mds:
            best = st["order"][:mds]
            w = w[best]; idx = [idx[i] for i in best]
        st["idx_t"] = idx
        if w.sum() > 0:
            p = w / w.sum()
            X = V[idx]
            cost = lot.chunked_pairwise_distance(X, R, dist=metric)      # model orientation: (i, j) = d(x_i, r_j)
            st["plan"] = _fl2(lot.transport_plan(p, q, cost))
        steps.append(st)
    out["steps"] = steps
    return out


# ------------------------------------------------------------------ model side

def _rs(x):
    f = Fraction(x)
    return f"{f.numerator}/{f.denominator}"


def _rl(a):
    return [_rs(x) for x in a]


def _rm(A):
    return [_rl(r) for r in A]


def _pr(s):
    a, b = s.split("/")
    return Fraction(int(a), int(b))


def _block_size(case, ms):
    # the quantity the model's `blocks` is applied to: rows per block for a memory_size string (bytes // (8 * LOT dim))
    mult = {"": 1, "k": 1024}
    num = int(ms[:-1]) * 1024 if ms.endswith("k") else int(ms)
    return max(1, num // (case["rs"] * len(case["V"][0]) * 8))


def model_requests(case, outs):
    o = outs["normal"]
    if "crash" in o or "exc" in o:
        return []
    if case["kind"] == "est":
        n = len(case["Xtest"])
        return [{"op": "ot.blocks", "n": n, "b": _block_size(case, v["size"])}
                for v in case["variants"] if v["t"] == "memory"]
    if not (_finite(o["lot"]) and all(_finite(st.get("plan", [])) for st in o["steps"])):
        return []          # non-finite kernel output: reported by the oracle
    reqs = [{"op": "ot.csr", "indptr": o["csr"]["indptr"], "indices": o["csr"]["indices"],
             "data": _rl(o["csr"]["data"]), "n": len(case["rows"])}]
    d = len(case["V"][0])
    for r, st in zip(case["rows"], o["steps"]):
        reqs.append({"op": "ot.truncate", "k": case["mds"], "order": st["order"], "w": _rl(r["w"]), "idx": r["idx"]})
        if "plan" in st:
            wt = [r["w"][r["idx"].index(j)] for j in st["idx_t"]]
            reqs.append({"op": "ot.lot", "w": _rl(wt), "X": _rm([case["V"][j] for j in st["idx_t"]]),
                         "R": _rm(case["R"]), "q": _rl(case["q"]), "P": _rm(st["plan"]), "d": d})
    return reqs


def compare(case, outs, resps):
    o = outs["normal"]
    d = []
    if not resps:
        return d
    for r in resps:
        if "bad" in r:
            return [f"model rejected request: {r['bad']}"]
    if case["kind"] == "est":
        n = len(case["Xtest"])
        mem = [(v, rec) for v, rec in zip(case["variants"], o["variants"]) if v["t"] == "memory"]
        for (v, rec), r in zip(mem, resps):
            flat = [i for b in r["blocks"] for i in b]
            if flat != list(range(n)):
                d.append(f"model blocks {r['blocks']} do not cover range({n})")
            if "out" in rec and len(rec["out"]) != len(flat):
                d.append(f"transform with memory_size={v['size']} returns {len(rec['out'])} rows, model blocks give {len(flat)}")
        return d
    it = iter(resps)
    rc = next(it)
    for i, (r, row) in enumerate(zip(case["rows"], rc["rows"])):
        if "ok" not in row or row["ok"]["idx"] != r["idx"] or [_pr(x) for x in row["ok"]["w"]] != [Fraction(x) for x in r["w"]]:
            d.append(f"row {i}: model csrRow {row} != the list encoding of the row")
    for i, (r, st) in enumerate(zip(case["rows"], o["steps"])):
        rt = next(it)
        if "ok" not in rt["idx"]:
            d.append(f"row {i}: model truncate fails {rt['idx']}")
        elif rt["idx"]["ok"] != st["idx_t"]:
            d.append(f"row {i}: model truncation keeps {rt['idx']['ok']}, numpy keeps {st['idx_t']}")
        if "plan" in st:
            rl = next(it)
            if rl["lot"] is None:
                d.append(f"row {i}: model lot fails")
                continue
            flat = [float(_pr(x)) for row in rl["lot"] for x in row]
            got = o["lot"][i]
            err = max([abs(a - b) for a, b in zip(flat, got)] + [float(abs(len(flat) - len(got)))])
            if err > 1e-9:
                d.append(f"row {i}: kernel row != model post(images - R) given the kernel's plan (max err {err:.3e})")
    return d


# ------------------------------------------------------------------ oracle (the property, on the impl)

def _fail(key, msg):
    return {"key": key, "msg": msg}


def _maxdiff(A, B):
    if len(A) != len(B) or any(len(a) != len(b) for a, b in zip(A, B)):
        return float("inf")
    return max([abs(x - y) for a, b in zip(A, B) for x, y in zip(a, b)] + [0.0])


def _finite(A):
    return all(x == x and abs(x) != float("inf") for r in A for x in r)


def _pdist(A):
    import math
    return [math.sqrt(sum((x - y) ** 2 for x, y in zip(A[i], A[j]))) for i in range(len(A)) for j in range(i)]


def oracle(case, outs):
    o = outs["normal"]
    if "crash" in o:
        return [_fail("lot.crash", f"process terminated: {o['crash']}")]
    if case["kind"] == "kernel":
        if "exc" in o:
            return [_fail(f"lot.kernel.raises.{case['path']}", f"kernel raises {o['exc']}")]
        fails = []
        if not _finite(o["lot"]):
            return [_fail(f"lot.kernel.non-finite.{case['path']}", "kernel returns non-finite values for valid rows")]
        e1 = _maxdiff(o["lot"], o["lot_scaled"])
        if not e1 <= 1e-9:
            fails.append(_fail(f"lot.kernel.scale.{case['path']}", f"LOT rows change by {e1:.3e} when the weights are multiplied by 2.5"))
        e3 = _maxdiff(o["lot"], o["lot_other_format"])
        if not e3 <= 1e-9:
            fails.append(_fail("lot.kernel.format", f"sparse and list kernels differ by {e3:.3e} on the same rows"))
        e2 = _maxdiff(o["lot"], o["lot_reversed"])
        if not e2 <= 1e-9 and case["mds"] >= max(len(r["idx"]) for r in case["rows"]):
            fails.append(_fail(f"lot.kernel.perm.{case['path']}", f"LOT rows change by {e2:.3e} when support points are listed in reverse"))
        return fails
    est, metric = case["est"], case["metric"]
    tag = f"{est}.{metric}"
    if "exc" in o:
        return [_fail(f"lot.fit-or-transform-raises.{tag}", f"fit/transform raises {o['exc']}")]
    tol = TOL_EXACT if est in ("W", "A") else TOL_SINK
    fails = []
    base = o["base"]
    k = len(case["Xtest"])
    if len(base) != k or not _finite(base):
        fails.append(_fail(f"lot.base-shape.{tag}", f"transform returned {len(base)} rows for {k} distributions / non-finite values"))
        return fails
    e = _maxdiff(o["fit_emb"], o["train_tr"])
    if not e <= tol:
        fails.append(_fail(f"lot.fit_transform-vs-transform.{tag}", f"fit_transform(X) and fit(X).transform(X) differ by {e:.3e} (metric {metric})"))
    for v, rec in zip(case["variants"], o["variants"]):
        name = v["t"] + ("." + v["fmt"] if v["t"] == "format" else "")
        if v["t"] == "format" and "size" in v:
            name += ".blocked"
        if "exc" in rec:
            fails.append(_fail(f"lot.{name}.raises.{tag}", f"transform of the {name} re-encoding raises {rec['exc']} ({v.get('size', '')})"))
            continue
        out = rec["out"]
        if v["t"] == "dup":
            if len(out) != k + 1:
                fails.append(_fail(f"lot.dup.rows.{tag}", f"{len(out)} rows for {k + 1} distributions"))
                continue
            e = max(_maxdiff(out[:k], base), _maxdiff([out[k]], [out[v["row"]]]))
        else:
            e = _maxdiff(out, base)
        if not e <= tol:
            fails.append(_fail(f"lot.{name}.{tag}", f"embedding changes by {e:.3e} (> {tol}) under re-encoding {name} "
                                                   f"{ {kk: vv for kk, vv in v.items() if kk in ('size', 'col', 'row')} }"))
    if case.get("fullrank") and est == "W":
        if "raw_exc" in o:
            fails.append(_fail(f"lot.fullrank.raises.{tag}", o["raw_exc"]))
        else:
            for name, emb in (("Xtrain", o["fit_emb"]), ("Xtest", base)):
                a, b = _pdist(o["raw"][name]), _pdist(emb)
                scale = max([1.0] + a)
                e = max([abs(x - y) for x, y in zip(a, b)] + [0.0])
                if not e <= TOL_DIST * scale:
                    fails.append(_fail(f"lot.fullrank.distances.{name}.{tag}",
                                       f"pairwise distances of the embedding differ from those of the raw LOT vectors by {e:.3e}"))
    return fails


def nontrivial(case, outs):
    o = outs["normal"]
    if case["kind"] == "kernel":
        return "lot" in o
    if "base" not in o:
        return False
    return case["metric"] != "cosine" or any(v["t"] in ("memory", "split", "newcols", "zeros") for v in case["variants"])


def stats(case, outs):
    o = outs["normal"]
    if case["kind"] == "kernel":
        t = ["kernel", "kernel." + case["path"]]
        if any(len(r["idx"]) > case["mds"] for r in case["rows"]):
            t.append("kernel.truncated")
        if any(0.0 in r["w"] for r in case["rows"]):
            t.append("kernel.zero-weight")
        return t
    t = ["est", f"est.{case['est']}", f"metric.{case['metric']}"]
    if case.get("fullrank"):
        t.append("fullrank")
    if case["mds"] < 256:
        t.append("small-max_distribution_size")
    for v in case["variants"]:
        t.append("variant." + v["t"] + ("." + v["fmt"] if v["t"] == "format" else ""))
        if v["t"] == "memory":
            nb = len(case["Xtest"]) // _block_size(case, v["size"]) + 1
            t.append(f"blocks.{min(nb, 4)}")
    if "exc" in o:
        t.append("raises")
    return t


def shrink_candidates(case):
    import os
    if os.environ.get("VERIF_NOSHRINK"):   # development aid: report the failing input unshrunk
        return
    if case["kind"] == "kernel":
        rows = case["rows"]
        for i in range(len(rows)):
            if len(rows) > 1:
                yield dict(case, rows=rows[:i] + rows[i + 1:])
        return
    vs = case["variants"]
    for i in range(len(vs)):
        if len(vs) > 1:
            yield dict(case, variants=vs[:i] + vs[i + 1:])
