"""C07 — the exact transport plan is a feasible, optimal coupling.
Model: lean/VecModel/Model/OT.lean (arc map, cost initialisation, orientation, certificate checker),
theorems: lean/VecModel/Props/C07.lean."""
from fractions import Fraction

PROP = "C07"
RULE = ("kind=plan: transport_plan(p, q, C) on generated instances: shapes 1xm, nx1, n<m, n>m, n=m up to 12x12 "
        "(thorough: 20x20); masses uniform / Dirichlet-like / log-uniform over 1e-8..1 / with exact zeros / equal "
        "partial sums (degenerate vertices); costs real-valued, small integers (ties), many zeros, all equal, "
        "float32-valued and Fortran-ordered (what the vectorizer really passes). The same instance is also solved "
        "step by step (allocate / initialize_supply / initialize_cost / network_simplex_core) so that the flow and "
        "cost arrays are visible, and by scipy linprog (HiGHS). kind=lot: one row through lot_vectors_sparse_internal "
        "/ lot_vectors_dense_internal with spherical_vectors=False, sample smaller / equal / larger than the "
        "reference (both orientation branches), the cost handed to transport_plan recorded through the py_func. "
        "Non-trivial = plan case with n,m >= 2 and (a zero mass or a tied/zero cost or n != m), or a lot case.")
ASSUMPTIONS = [
    "the network simplex (pynndescent) is not modelled: its output is validated per input by the proved checker "
    "OT.check (theorem check_sound); dual potentials come from scipy's HiGHS solve or from Bellman-Ford on the "
    "plan's own support and are only a hint - the Lean checker verifies them exactly",
    "floats enter the model as exact rationals; tolerances of the property: marginals 1e-9 absolute, cost 1e-7 "
    "relative (plus an absolute floor 1e-9*max|C| for optima at or near 0)",
    "inputs are probability vectors summing to 1 within float rounding and finite non-negative costs",
    "orientation: the recorded cost is compared with the model for the symmetric named metrics euclidean / cosine",
]
NWORKERS = {"quick": 4, "thorough": 8}

EPS = Fraction(1, 10 ** 9)
REL = Fraction(1, 10 ** 7)


# ------------------------------------------------------------------ generation

def _masses(rng, n, style):
    if style == "uniform":
        w = [1.0] * n
    elif style == "dirichlet":
        w = [rng.random() + 1e-3 for _ in range(n)]
    elif style == "loguniform":
        w = [10 ** rng.uniform(-8, 0) for _ in range(n)]
    elif style == "zeros":
        w = [rng.random() if rng.random() < 0.6 else 0.0 for _ in range(n)]
        if sum(w) == 0:
            w[rng.randrange(n)] = 1.0
    elif style == "dyadic":
        w = [float(rng.choice([1, 1, 2, 4])) for _ in range(n)]
    else:
        raise ValueError(style)
    s = sum(w)
    return [x / s for x in w]


def _costs(rng, n, m, style):
    if style == "real":
        return [[rng.random() for _ in range(m)] for _ in range(n)]
    if style == "int":
        return [[float(rng.randint(0, 3)) for _ in range(m)] for _ in range(n)]
    if style == "zeros":
        return [[0.0 if rng.random() < 0.6 else rng.random() for _ in range(m)] for _ in range(n)]
    if style == "const":
        c = rng.choice([0.0, 1.0, 0.37])
        return [[c] * m for _ in range(n)]
    if style == "metric":  # |a_i - b_j| on a line: heavily tied optimal plans
        a = [rng.randint(0, 5) for _ in range(n)]
        b = [rng.randint(0, 5) for _ in range(m)]
        return [[float(abs(x - y)) for y in b] for x in a]
    if style == "big":
        return [[rng.random() * 1e6 for _ in range(m)] for _ in range(n)]
    raise ValueError(style)


def _renorm(p):
    # the code divides by the sum in float64; do the same so that sum(p) == 1 within rounding
    import math
    s = math.fsum(p)
    return [x / s for x in p]


def _plan_case(rng, n, m, ms=None, cs=None, dtype=None, order=None):
    ms = ms or rng.choice(["uniform", "dirichlet", "loguniform", "zeros", "dyadic"])
    ms2 = rng.choice(["uniform", "dirichlet", "loguniform", "zeros", "dyadic"])
    cs = cs or rng.choice(["real", "real", "int", "zeros", "const", "metric", "big"])
    return {"kind": "plan", "p": _renorm(_masses(rng, n, ms)), "q": _renorm(_masses(rng, m, ms2)),
            "C": _costs(rng, n, m, cs), "cdtype": dtype or rng.choice(["f8", "f8", "f4"]),
            "order": order or rng.choice(["C", "C", "F"]), "styles": [ms, ms2, cs]}


def _lot_case(rng, n, r, path=None, metric=None, d=None):
    d = d or rng.choice([2, 3])
    X = [[rng.gauss(0, 1) for _ in range(d)] for _ in range(n)]
    R = [[rng.gauss(0, 1) for _ in range(d)] for _ in range(r)]
    w = [rng.random() + 0.05 for _ in range(n)]
    if n > 2 and rng.random() < 0.3:
        w[rng.randrange(n)] = 0.0
    q = _renorm([rng.random() + 0.2 for _ in range(r)]) if rng.random() < 0.5 else [1.0 / r] * r
    return {"kind": "lot", "path": path or rng.choice(["sparse", "dense"]), "metric": metric or rng.choice(["euclidean", "euclidean", "cosine"]),
            "X": X, "R": R, "w": w, "q": q, "scale": rng.choice([1.0, 1.0, 3.0])}


def corpus():
    import random
    rng = random.Random(707)
    cs = []
    # steering: every shape class with ties / zero masses / degenerate vertices
    for (n, m) in [(1, 1), (1, 5), (5, 1), (2, 3), (3, 2), (4, 4), (3, 7), (7, 3), (12, 12)]:
        cs.append(_plan_case(rng, n, m, "uniform", "int", "f8", "C"))
        cs.append(_plan_case(rng, n, m, "zeros", "metric", "f8", "C"))
    cs.append({"kind": "plan", "p": [0.5, 0.5], "q": [0.5, 0.5, 0.0], "C": [[1.0, 2.0, 3.0], [1.0, 2.0, 3.0]],
               "cdtype": "f8", "order": "C", "styles": ["tie", "zero-mass", "int"]})
    cs.append({"kind": "plan", "p": [1.0 - 1e-8, 1e-8], "q": [0.25, 0.25, 0.5], "C": [[0.0, 1.0, 2.0], [5.0, 0.0, 0.0]],
               "cdtype": "f8", "order": "C", "styles": ["unbalanced", "uniform", "int"]})
    cs.append(_plan_case(rng, 3, 5, "dirichlet", "real", "f4", "F"))
    cs.append(_plan_case(rng, 5, 3, "dirichlet", "real", "f4", "F"))
    for (n, r) in [(2, 3), (3, 3), (5, 3), (1, 2), (4, 1)]:
        cs.append(_lot_case(rng, n, r, "sparse", "euclidean"))
        cs.append(_lot_case(rng, n, r, "dense", "euclidean"))
    cs.append(_lot_case(rng, 4, 3, "sparse", "cosine"))
    cs.append(_lot_case(rng, 3, 4, "dense", "cosine"))
    return cs


def generate(rng, tier):
    cs = []
    nmax = 12 if tier == "quick" else 20
    n_plan = 220 if tier == "quick" else 4000
    for _ in range(n_plan):
        shape = rng.choice(["1xm", "nx1", "n<m", "n>m", "n=m", "any"])
        a, b = rng.randint(1, nmax), rng.randint(1, nmax)
        if shape == "1xm":
            n, m = 1, a
        elif shape == "nx1":
            n, m = a, 1
        elif shape == "n<m":
            n, m = min(a, b), max(a, b) + (1 if a == b else 0)
        elif shape == "n>m":
            n, m = max(a, b) + (1 if a == b else 0), min(a, b)
        elif shape == "n=m":
            n, m = a, a
        else:
            n, m = a, b
        cs.append(_plan_case(rng, n, m))
    n_lot = 24 if tier == "quick" else 300
    for _ in range(n_lot):
        r = rng.randint(1, 5)
        n = rng.choice([max(1, r - 1), r, r + 1, rng.randint(1, 8)])
        cs.append(_lot_case(rng, n, r))
    cs += _large(rng, tier)
    return cs


def _large(rng, tier):
    # problems with thousands of nodes (a 256-atom row against a reference of 2000+ points is ordinary use):
    # iteration caps, arc-count arithmetic and big-M choices only show at this size
    sizes = [(200, 2600)] if tier == "quick" else [(200, 2600), (1500, 1500), (256, 6000), (3000, 40)]
    return [{"kind": "plan1d", "n": n, "m": m, "seed": rng.randrange(1 << 30)} for n, m in sizes]


def search(rng, tier):
    return generate(rng, "thorough" if tier == "thorough" else "quick")


# ------------------------------------------------------------------ implementation side (worker)

def _fl(a):
    return [float(x) for x in a]


def _fl2(A):
    return [[float(x) for x in r] for r in A]


def _lp(p, q, C):
    """independent LP solve; returns (fun, u, v, unique-optimum flag, plan)"""
    import numpy as np
    from scipy.optimize import linprog
    n, m = C.shape
    A = np.zeros((n + m, n * m))
    for i in range(n):
        A[i, i * m:(i + 1) * m] = 1
    for j in range(m):
        A[n + j, j::m] = 1
    res = linprog(C.reshape(-1), A_eq=A, b_eq=np.concatenate([p, q]), bounds=(0, None), method="highs")
    if res.status != 0:
        return None
    y = res.eqlin.marginals
    x = res.x.reshape(n, m)
    red = res.lower.marginals.reshape(n, m)
    scale = max(1.0, float(np.abs(C).max()))
    nz = int((x > 1e-12).sum())
    unique = bool(nz == n + m - 1 and int((red <= 1e-9 * scale).sum()) == nz)
    return float(res.fun), _fl(y[:n]), _fl(y[n:]), unique, x


def run_impl(case):
    import numpy as np
    import vectorizers.linear_optimal_transport as lot
    if case["kind"] == "plan1d":
        # large instance on a line, cost |x - y|: the optimum has the closed form  ∫ |F_p - F_q|  (independent of any solver)
        rs = np.random.RandomState(case["seed"])
        n, m = case["n"], case["m"]
        x, y = np.sort(rs.uniform(0, 10, size=n)), np.sort(rs.uniform(0, 10, size=m))
        p, q = rs.randint(1, 6, size=n).astype(np.float64), rs.randint(1, 6, size=m).astype(np.float64)
        p, q = p / p.sum(), q / q.sum()
        C = np.abs(x[:, None] - y[None, :])
        try:
            P = lot.transport_plan(p, q, C)
        except Exception as e:
            return {"exc": f"{type(e).__name__}: {e}"}
        pts = np.concatenate([x, y])
        order = np.argsort(pts, kind="stable")
        w = np.concatenate([p, -q])[order]
        cdf = np.cumsum(w)[:-1]
        opt = float(np.sum(np.abs(cdf) * np.diff(pts[order])))
        return {"min": float(P.min()), "row_err": float(np.abs(P.sum(axis=1) - p).max()),
                "col_err": float(np.abs(P.sum(axis=0) - q).max()), "cost": float((P * C).sum()), "opt": opt,
                "finite": bool(np.isfinite(P).all())}
    if case["kind"] == "plan":
        from pynndescent.optimal_transport import (allocate_graph_structures, initialize_supply, initialize_cost,
                                                   initialize_graph_structures, network_simplex_core)
        p = np.array(case["p"], dtype=np.float64)
        q = np.array(case["q"], dtype=np.float64)
        C = np.array(case["C"], dtype=np.float32 if case["cdtype"] == "f4" else np.float64)
        if case["order"] == "F":
            C = np.asfortranarray(C)
        out = {"C": _fl2(C)}
        try:
            P = lot.transport_plan(p, q, C)
        except Exception as e:
            out["exc"] = f"{type(e).__name__}: {e}"
            return out
        out["P"] = _fl2(P)
        # the same solve, step by step, so that the flow / cost arrays the glue maps through are visible
        n, m = p.shape[0], q.shape[0]
        nad, st, g = allocate_graph_structures(n, m, False)
        initialize_supply(p, -q, g, nad.supply)
        initialize_cost(C, g, nad.cost)
        out["cost_array"] = _fl(nad.cost)
        ok = initialize_graph_structures(g, nad, st)
        out["init_ok"] = bool(ok)
        network_simplex_core(nad, st, g, 100000)
        out["flow"] = _fl(nad.flow)
        P2 = lot.get_transport_plan(nad.flow, g)
        out["P_stepwise_equal"] = bool(np.array_equal(P, P2))
        lp = _lp(p, q, C.astype(np.float64))
        if lp is not None:
            out["lp_fun"], out["lp_u"], out["lp_v"], out["lp_unique"] = lp[0], lp[1], lp[2], lp[3]
        return out
    # ---- kind == lot : one distribution through the LOT kernel, plain (non-spherical) post-processing
    from pynndescent.distances import named_distances
    metric = named_distances[case["metric"]]
    X = np.array(case["X"], dtype=np.float64)
    R = np.array(case["R"], dtype=np.float64)
    q = np.array(case["q"], dtype=np.float64)
    w = np.array(case["w"], dtype=np.float64) * case["scale"]
    n, d = X.shape
    out = {}

    def call(fn):
        if case["path"] == "sparse":
            indptr = np.array([0, n], dtype=np.int32)
            return fn(indptr, np.arange(n, dtype=np.int32), w.copy(), X, R, q, metric=metric,
                      max_distribution_size=256, chunk_size=256, spherical_vectors=False)
        import numba
        vs = numba.typed.List.empty_list(numba.float64[:, :])
        ds = numba.typed.List.empty_list(numba.float64[:])
        vs.append(np.ascontiguousarray(X)); ds.append(w.copy())
        return fn(vs, ds, R, q, metric=metric, max_distribution_size=256, chunk_size=256, spherical_vectors=False)

    kern = lot.lot_vectors_sparse_internal if case["path"] == "sparse" else lot.lot_vectors_dense_internal
    try:
        res = call(kern)
    except Exception as e:
        out["exc"] = f"{type(e).__name__}: {e}"
        return out
    out["lot"] = _fl(res[0])
    out["w"] = _fl(w)
    # the same distribution followed, in the same call, by an almost identical one (same support, weights changed
    # by a few parts per million): each row's plan must be the plan of its own marginal, so the second row must
    # come out exactly as when it is passed alone
    try:
        rs = np.random.RandomState(case.get("pseed", 0))
        w2 = w * (1.0 + 3e-6 * rs.choice([-1.0, 1.0], size=n))
        if case["path"] == "sparse":
            both = kern(np.array([0, n, 2 * n], dtype=np.int32), np.tile(np.arange(n, dtype=np.int32), 2),
                        np.concatenate([w, w2]), X, R, q, metric=metric, max_distribution_size=256, chunk_size=256,
                        spherical_vectors=False)
            alone = kern(np.array([0, n], dtype=np.int32), np.arange(n, dtype=np.int32), w2.copy(), X, R, q,
                         metric=metric, max_distribution_size=256, chunk_size=256, spherical_vectors=False)
        else:
            import numba
            vs2 = numba.typed.List.empty_list(numba.float64[:, :]); ds2 = numba.typed.List.empty_list(numba.float64[:])
            vs2.append(np.ascontiguousarray(X)); ds2.append(w.copy()); vs2.append(np.ascontiguousarray(X)); ds2.append(w2.copy())
            both = kern(vs2, ds2, R, q, metric=metric, max_distribution_size=256, chunk_size=256, spherical_vectors=False)
            vs3 = numba.typed.List.empty_list(numba.float64[:, :]); ds3 = numba.typed.List.empty_list(numba.float64[:])
            vs3.append(np.ascontiguousarray(X)); ds3.append(w2.copy())
            alone = kern(vs3, ds3, R, q, metric=metric, max_distribution_size=256, chunk_size=256, spherical_vectors=False)
        out["neighbour_diff"] = float(np.max(np.abs(np.asarray(both[1]) - np.asarray(alone[0])))) if n else 0.0
        out["first_row_diff"] = float(np.max(np.abs(np.asarray(both[0]) - np.asarray(res[0])))) if n else 0.0
    except Exception as e:
        out["neighbour_exc"] = f"{type(e).__name__}: {e}"
    # what the kernel hands to transport_plan, observed through the interpreted twin of the same function
    rec = []
    orig = lot.transport_plan

    def recorder(p_, q_, c_, *a):
        P_ = orig(p_, q_, c_, *a)
        rec.append((_fl(p_), _fl(q_), _fl2(np.array(c_)), list(np.array(c_).shape), _fl2(P_)))
        return P_
    try:
        lot.transport_plan = recorder
        res_py = call(kern.py_func)
        out["lot_py_equal"] = bool(np.allclose(res_py, res, rtol=0, atol=1e-12))
    except Exception as e:
        out["rec_exc"] = f"{type(e).__name__}: {e}"
    finally:
        lot.transport_plan = orig
    if rec:
        out["rec_p"], out["rec_q"], out["rec_cost"], out["rec_shape"], out["rec_plan"] = rec[0]
        out["rec_calls"] = len(rec)
    out["dxr"] = _fl2(lot.chunked_pairwise_distance(X, R, dist=metric))
    out["drx"] = _fl2(lot.chunked_pairwise_distance(R, X, dist=metric))
    # oracle ingredients, independent of the kernel: cost (i,j) = float32(d(x_i, r_j)), LP-optimal plan
    p = w / w.sum()
    Ctrue = np.array([[np.float32(metric(X[i], R[j])) for j in range(R.shape[0])] for i in range(n)], dtype=np.float64)
    out["true_cost"] = _fl2(Ctrue)
    lp = _lp(p, q, Ctrue)
    if lp is not None:
        out["lp_fun"], out["lp_unique"] = lp[0], lp[3]
        out["lp_images"] = _fl2((lp[4] * (1.0 / q)).T @ X)
    return out


# ------------------------------------------------------------------ exact helpers (parent process)

def _F(x):
    return Fraction(x)


def _rs(x):
    f = Fraction(x)
    return f"{f.numerator}/{f.denominator}"


def _rl(a):
    return [_rs(x) for x in a]


def _rm(A):
    return [_rl(r) for r in A]


def _ctransform(C, u, v, n, m):
    """make (u, v) exactly dual feasible without lowering the dual value more than necessary"""
    v2 = [min(C[i][j] - u[i] for i in range(n)) for j in range(m)]
    u2 = [min(C[i][j] - v2[j] for j in range(m)) for i in range(n)]
    return u2, v2


def _bellman_duals(C, P, n, m):
    """potentials from the plan's own support: feasible iff the support has no improving cycle"""
    # residual graph on nodes s_0..s_{n-1}, t_0..t_{m-1}: s_i -> t_j cost C_ij ; t_j -> s_i cost -C_ij if P_ij > 0
    INF = None
    dist = [Fraction(0)] * (n + m)
    for _ in range(n + m):
        changed = False
        for i in range(n):
            for j in range(m):
                if dist[i] + C[i][j] < dist[n + j]:
                    dist[n + j] = dist[i] + C[i][j]; changed = True
                if P[i][j] > 0 and dist[n + j] - C[i][j] < dist[i]:
                    dist[i] = dist[n + j] - C[i][j]; changed = True
        if not changed:
            break
    u = [-dist[i] for i in range(n)]
    v = [dist[n + j] for j in range(m)]
    return u, v


_hint_cache = {}


def _certificate(case, o):
    """exact rational data + the best available dual hint for a plan case"""
    hit = _hint_cache.get(id(o))
    if hit is not None and hit[0] is o:
        return hit[1]
    p = [_F(x) for x in case["p"]]
    q = [_F(x) for x in case["q"]]
    C = [[_F(x) for x in r] for r in o["C"]]
    P = [[_F(x) for x in r] for r in o["P"]]
    n, m = len(p), len(q)
    cost = sum(P[i][j] * C[i][j] for i in range(n) for j in range(m))
    cmax = max([abs(x) for r in C for x in r] + [Fraction(0)])
    floor = EPS * cmax
    gap = REL * abs(cost) + floor

    def value(uv):
        return sum(a * b for a, b in zip(uv[0], p)) + sum(a * b for a, b in zip(uv[1], q))

    best, source = None, None
    if "lp_u" in o:
        best = _ctransform(C, [_F(x) for x in o["lp_u"]], [_F(x) for x in o["lp_v"]], n, m)
        source = "lp"
    if best is None or cost - value(best) > gap:
        # the LP hint is missing or too weak: potentials from the plan's own support
        alt = _ctransform(C, *_bellman_duals(C, P, n, m), n, m)
        if best is None or value(alt) > value(best):
            best, source = alt, "support"
    res = {"p": p, "q": q, "C": C, "P": P, "cost": cost, "u": best[0], "v": best[1], "D": value(best),
           "floor": floor, "gap": gap, "source": source}
    _hint_cache[id(o)] = (o, res)
    return res


def _finite(o, keys):
    import math
    def ok(x):
        if isinstance(x, list):
            return all(ok(y) for y in x)
        return isinstance(x, (int, float)) and math.isfinite(x)
    return all(ok(o[k]) for k in keys if k in o)


# ------------------------------------------------------------------ model side

def model_requests(case, outs):
    o = outs["normal"]
    if "crash" in o or "exc" in o or case["kind"] == "plan1d":
        return []
    if case["kind"] == "plan":
        if not _finite(o, ("P", "flow", "cost_array")):
            return []          # garbage read back (out-of-range arc): the oracle reports it
        ce = _certificate(case, o)
        n, m = len(case["p"]), len(case["q"])
        return [
            {"op": "ot.plan", "n": n, "m": m, "flow": _rl(o["flow"])},
            {"op": "ot.cost", "n": n, "m": m, "C": _rm(o["C"])},
            {"op": "ot.check", "p": _rl(ce["p"]), "q": _rl(ce["q"]), "C": _rm(ce["C"]), "P": _rm(ce["P"]),
             "u": _rl(ce["u"]), "v": _rl(ce["v"]), "eps": _rs(EPS), "delta": "0", "gap": _rs(ce["gap"])},
        ]
    if not _finite(o, ("dxr", "drx", "rec_plan", "w", "lot", "rec_cost")):
        return []
    reqs = [{"op": "ot.orient", "dxr": _rm(o["dxr"]), "drx": _rm(o["drx"])}]
    if "rec_plan" in o:
        reqs.append({"op": "ot.lot", "w": _rl(o["w"]), "X": _rm(case["X"]), "R": _rm(case["R"]), "q": _rl(case["q"]),
                     "P": _rm(o["rec_plan"]), "d": len(case["X"][0])})
    return reqs


def _pr(s):
    a, b = s.split("/")
    return Fraction(int(a), int(b))


def compare(case, outs, resps):
    o = outs["normal"]
    d = []
    if not resps:
        return d
    for r in resps:
        if "bad" in r:
            return [f"model rejected request: {r['bad']}"]
    if case["kind"] == "plan":
        rp, rc, rk = resps
        if "ok" not in rp["plan"]:
            d.append(f"model planOf fails: {rp['plan']}")
        elif [[_pr(x) for x in row] for row in rp["plan"]["ok"]] != [[_F(x) for x in row] for row in o["P"]]:
            d.append("get_transport_plan(flow) != model planOf n m flow (arc map)")
        if not o.get("P_stepwise_equal", False):
            d.append("transport_plan(p,q,C) differs from the step-by-step solve of the same instance")
        if "ok" not in rc["cost"]:
            d.append(f"model costArray fails: {rc['cost']}")
        elif [_pr(x) for x in rc["cost"]["ok"]] != [_F(x) for x in o["cost_array"]]:
            d.append("initialize_cost array != model costArray (arc map of the cost)")
        if not rk["accept"]:
            d.append("certificate checker rejected the implementation's plan with the available dual hints: "
                     + ", ".join(f"{k}={rk[k]}" for k in ("shape", "nonneg", "rows", "cols", "dual"))
                     + f", gap={float(_pr(rk['cost']) - _pr(rk['dualValue'])):.3e}")
        return d
    ro = resps[0]
    if "rec_exc" in o or "rec_cost" not in o:
        d.append(f"could not observe the cost handed to transport_plan: {o.get('rec_exc', 'no call recorded')}")
        return d
    n, r = len(case["X"]), len(case["R"])
    if o["rec_shape"] != [n, r]:
        d.append(f"cost handed to transport_plan has shape {o['rec_shape']}, model orientation gives {[n, r]}")
    if ro["cost"] is None or [[_pr(x) if x is not None else None for x in row] for row in ro["cost"]] != \
            [[_F(x) for x in row] for row in o["rec_cost"]]:
        d.append("cost handed to transport_plan != model costOriented (entry (i,j) = d(x_i, r_j))")
    if not o.get("lot_py_equal", False):
        d.append("interpreted twin of the kernel disagrees with the compiled kernel")
    if len(resps) > 1:
        rl = resps[1]
        if rl["lot"] is None:
            d.append("model lot fails (shape / zero reference mass)")
        else:
            flat = [float(_pr(x)) for row in rl["lot"] for x in row]
            err = max([abs(a - b) for a, b in zip(flat, o["lot"])] + [abs(len(flat) - len(o["lot"]))])
            if err > 1e-9:
                d.append(f"kernel output != model images - R given the kernel's own plan (max err {err:.3e})")
    return d


# ------------------------------------------------------------------ oracle (the property, on the impl)

def _fail(key, msg):
    return {"key": key, "msg": msg}


def _shape_class(n, m):
    return "1xm" if n == 1 else "nx1" if m == 1 else "n<m" if n < m else "n>m" if n > m else "n=m"


def oracle(case, outs):
    o = outs["normal"]
    if "crash" in o:
        return [_fail("ot.crash", f"process terminated: {o['crash']}")]
    if case["kind"] == "plan1d":
        n, m = case["n"], case["m"]
        if "exc" in o:
            return [_fail("ot.plan.raises", f"transport_plan raises {o['exc']} for a valid {n}x{m} instance")]
        fails = []
        if not o["finite"]:
            return [_fail("ot.plan.non-finite", f"plan contains non-finite entries ({n}x{m})")]
        if o["min"] < -1e-12:
            fails.append(_fail("ot.plan.negative", f"{n}x{m}: min entry {o['min']}"))
        if o["row_err"] > 1e-9:
            fails.append(_fail("ot.plan.row-marginal", f"{n}x{m} instance on a line: row marginal error {o['row_err']}"))
        if o["col_err"] > 1e-9:
            fails.append(_fail("ot.plan.col-marginal", f"{n}x{m} instance on a line: column marginal error {o['col_err']}"))
        if abs(o["cost"] - o["opt"]) > 1e-7 * max(1.0, abs(o["opt"])):
            fails.append(_fail("ot.plan.not-optimal", f"{n}x{m} instance on a line (seed {case['seed']}): cost {o['cost']} vs closed-form optimum {o['opt']}"))
        return fails
    if case["kind"] == "plan":
        n, m = len(case["p"]), len(case["q"])
        if "exc" in o:
            return [_fail("ot.plan.raises", f"transport_plan raises {o['exc']} for a valid {n}x{m} instance")]
        P, p, q = o["P"], case["p"], case["q"]
        fails = []
        if len(P) != n or any(len(r) != m for r in P):
            return [_fail("ot.plan.shape", f"plan shape {len(P)}x{len(P[0]) if P else 0}, expected {n}x{m}")]
        if not _finite(o, ("P",)):
            return [_fail("ot.plan.non-finite", f"plan contains non-finite entries ({_shape_class(n, m)})")]
        mn = min(x for r in P for x in r)
        if mn < 0:
            fails.append(_fail("ot.plan.negative", f"plan has a negative entry {mn}"))
        import math
        re_ = max(abs(math.fsum(P[i]) - p[i]) for i in range(n))
        ce_ = max(abs(math.fsum(P[i][j] for i in range(n)) - q[j]) for j in range(m))
        if re_ > 1e-9:
            fails.append(_fail("ot.plan.row-marginal", f"row marginal error {re_:.3e} > 1e-9 ({_shape_class(n, m)})"))
        if ce_ > 1e-9:
            fails.append(_fail("ot.plan.col-marginal", f"column marginal error {ce_:.3e} > 1e-9 ({_shape_class(n, m)})"))
        ce = _certificate(case, o)
        cost, D, floor = ce["cost"], ce["D"], ce["floor"]
        near_lp = "lp_fun" in o and abs(cost - _F(o["lp_fun"])) <= REL * abs(_F(o["lp_fun"])) + floor
        # D is an exactly feasible dual value, i.e. a certified lower bound of the LP optimum
        near_bound = abs(cost - D) <= REL * abs(D) + floor
        if not (near_lp or near_bound):
            fails.append(_fail("ot.plan.not-optimal",
                               f"<P,C> = {float(cost):.12g}, LP optimum = {o.get('lp_fun')}, certified lower bound "
                               f"{float(D):.12g}: differs by more than 1e-7 relative ({_shape_class(n, m)})"))
        return fails
    # lot
    if "exc" in o:
        return [_fail("ot.lot.raises", f"{case['path']} kernel raises {o['exc']}")]
    fails = []
    r, d = len(case["R"]), len(case["X"][0])
    if len(o["lot"]) != r * d:
        return [_fail("ot.lot.shape", f"LOT row has {len(o['lot'])} entries, expected {r * d}")]
    if not _finite(o, ("lot",)):
        return [_fail("ot.lot.non-finite", f"{case['path']} kernel returns non-finite values")]
    if o.get("lp_unique") and "lp_images" in o:
        im = [o["lot"][j * d + k] + case["R"][j][k] for j in range(r) for k in range(d)]
        ex = [x for row in o["lp_images"] for x in row]
        scale = max(1.0, max(abs(x) for x in ex))
        err = max(abs(a - b) for a, b in zip(im, ex))
        if err > 1e-7 * scale:
            n = len(case["X"])
            fails.append(_fail(f"ot.lot.images-not-optimal.{'sample>ref' if n > r else 'sample<=ref'}",
                               f"{case['path']} kernel, {case['metric']}: images of the kernel differ from the barycentric "
                               f"projection of the (unique) LP-optimal plan for cost d(x_i, r_j) by {err:.3e}"))
    if "neighbour_exc" in o:
        fails.append(_fail("ot.lot.two-rows-raise", f"{case['path']} kernel on two rows raises {o['neighbour_exc']}"))
    elif o.get("neighbour_diff", 0.0) > 1e-10 or o.get("first_row_diff", 0.0) > 1e-10:
        fails.append(_fail("ot.lot.row-depends-on-neighbour",
                           f"{case['path']} kernel, {case['metric']}: a row differs by {o.get('neighbour_diff'):.3e} from the same "
                           f"row passed alone when it follows a distribution with the same support and weights within 3e-6 "
                           f"(first row changes by {o.get('first_row_diff'):.3e}): the plan used is not the coupling of this row's marginal"))
    return fails


def nontrivial(case, outs):
    o = outs["normal"]
    if case["kind"] == "plan1d":
        return "cost" in o
    if case["kind"] == "lot":
        return "lot" in o
    if "P" not in o:
        return False
    n, m = len(case["p"]), len(case["q"])
    flat = [x for r in o["C"] for x in r]
    tied = len(set(flat)) < len(flat)
    return n >= 2 and m >= 2 and (min(case["p"]) == 0 or min(case["q"]) == 0 or tied or n != m)


def stats(case, outs):
    o = outs["normal"]
    if case["kind"] == "plan1d":
        return ["plan1d", f"plan1d.nodes>{(case['n'] + case['m']) // 1000}k"]
    if case["kind"] == "lot":
        n, r = len(case["X"]), len(case["R"])
        t = ["lot", f"lot.{case['path']}", f"lot.{case['metric']}", "lot.sample>ref" if n > r else "lot.sample<=ref"]
        if o.get("lp_unique"):
            t.append("lot.lp-unique")
        return t
    n, m = len(case["p"]), len(case["q"])
    t = ["plan", "shape." + _shape_class(n, m), "cost." + case["cdtype"] + case["order"]]
    if min(case["p"]) == 0 or min(case["q"]) == 0:
        t.append("zero-mass")
    if min(x for x in case["p"] + case["q"] if x > 0) < 1e-6:
        t.append("mass<1e-6")
    flat = [x for r in case["C"] for x in r]
    if len(set(flat)) < len(flat):
        t.append("tied-cost")
    if 0.0 in flat:
        t.append("zero-cost")
    if "P" in o:
        nz = sum(1 for r in o["P"] for x in r if x > 0)
        if nz < n + m - 1:
            t.append("degenerate-vertex")
    if "exc" in o:
        t.append("raises")
    return t


def shrink_candidates(case):
    if case["kind"] == "plan1d":
        return
    import os
    if os.environ.get("VERIF_NOSHRINK"):   # development aid: report the failing input unshrunk
        return
    if case["kind"] == "plan":
        p, q, C = case["p"], case["q"], case["C"]
        n, m = len(p), len(q)
        for i in range(n):
            if n > 1 and sum(p[:i] + p[i + 1:]) > 0:
                yield dict(case, p=_renorm(p[:i] + p[i + 1:]), C=C[:i] + C[i + 1:])
        for j in range(m):
            if m > 1 and sum(q[:j] + q[j + 1:]) > 0:
                yield dict(case, q=_renorm(q[:j] + q[j + 1:]), C=[r[:j] + r[j + 1:] for r in C])
        return
    X, w, R, q = case["X"], case["w"], case["R"], case["q"]
    for i in range(len(X)):
        if len(X) > 1 and sum(w[:i] + w[i + 1:]) > 0:
            yield dict(case, X=X[:i] + X[i + 1:], w=w[:i] + w[i + 1:])
    for j in range(len(R)):
        if len(R) > 1:
            yield dict(case, R=R[:j] + R[j + 1:], q=_renorm(q[:j] + q[j + 1:]))
