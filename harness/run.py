"""./check <id> [--tier quick|thorough] [--replay file]  — see DESIGN.md §1."""
import argparse, importlib, inspect, json, os, random, sys, time, traceback
from collections import Counter
from . import core


def _impl_all(mod, cases, tier):
    modes = getattr(mod, "MODES", [("normal", {})])
    nworkers = getattr(mod, "NWORKERS", {"quick": 4, "thorough": 8}).get(tier, 4)
    per_mode = {}
    for name, env in modes:
        per_mode[name] = core.run_impl(mod.__name__.split(".")[-1], cases, env=env, nworkers=nworkers, tag=name)
    return [{name: per_mode[name][i] for name, _ in modes} for i in range(len(cases))]


def _evaluate(mod, cases, outs, with_model=True):
    """returns (diffs, fails, responses-per-case, harness_errors)"""
    reqs, owner = [], []
    for i, (c, o) in enumerate(zip(cases, outs)):
        for r in (mod.model_requests(c, o) if with_model else []):
            reqs.append(r); owner.append(i)
    resps = core.run_driver(reqs) if reqs else []
    per_case = [[] for _ in cases]
    for i, r in zip(owner, resps):
        per_case[i].append(r)
    diffs, fails, herr = [], [], []
    for i, (c, o) in enumerate(zip(cases, outs)):
        for m, out in o.items():
            if isinstance(out, dict) and "harness_exc" in out:
                herr.append((i, out["harness_exc"], out.get("tb", "")))
        if with_model:
            for d in mod.compare(c, o, per_case[i]):
                diffs.append((i, d))
        for f in mod.oracle(c, o):
            fails.append((i, f))
    return diffs, fails, per_case, herr


def _shrink(mod, case, key, tier):
    """greedy shrinking: keep a candidate when the oracle still fails with the same key."""
    if not hasattr(mod, "shrink_candidates"):
        return case
    cur = case
    for _ in range(4 if tier == "quick" else 10):
        cands = list(mod.shrink_candidates(cur))[:48]
        if not cands:
            break
        outs = _impl_all(mod, cands, "quick")
        nxt = None
        for c, o in zip(cands, outs):
            try:
                if any(f["key"] == key for f in mod.oracle(c, o)):
                    nxt = c
                    break
            except Exception:
                continue
        if nxt is None:
            break
        cur = nxt
    return cur


def main(argv=None):
    ap = argparse.ArgumentParser()
    ap.add_argument("prop")
    ap.add_argument("--tier", default=os.environ.get("VERIF_TIER", "quick"))
    ap.add_argument("--replay")
    a = ap.parse_args(argv)
    prop, tier = a.prop, a.tier
    if tier not in ("quick", "thorough"):
        tier = "quick"
    seed = int(os.environ.get("VERIF_SEED", "0"))
    t0 = time.time()
    try:
        mod = importlib.import_module(f"harness.{prop.lower()}")
    except ModuleNotFoundError:
        print(f"no harness for {prop}", file=sys.stderr)
        return 2
    try:
        if a.replay:
            return replay(mod, prop, a.replay)
        return check(mod, prop, tier, seed, t0)
    except core.ToolFailure as e:
        print(f"TOOL-FAILURE {prop}: {e}", file=sys.stderr)
        return 2
    except Exception:
        traceback.print_exc()
        return 2


def replay(mod, prop, path):
    payload = json.load(open(path))
    case = payload.get("case")
    if case is None:
        print(f"replay {path}: no concrete input recorded ({payload.get('kind')}): {payload.get('what')}")
        return 1
    outs = _impl_all(mod, [case], "quick")
    fails = mod.oracle(case, outs[0])
    print(json.dumps({"case": case, "impl": outs[0], "oracle_failures": fails}, indent=1, default=str)[:6000])
    if fails:
        print(f"VIOLATION property={prop} replay={path}")
        return 1
    print("replay: property holds on this input now")
    return 0


def check(mod, prop, tier, seed, t0):
    rng = random.Random(seed)
    known = core.load_known(prop)
    # 1. proof audit
    aud = core.audit(prop, thorough=(tier == "thorough"))
    proof_ok = not aud["problems"] and aud["obligations"] > 0 and aud["discharged"] == aud["obligations"]
    # 2/3. correspondence + oracle on corpus and generated cases
    cases = list(mod.corpus()) + list(mod.generate(rng, tier))
    if os.environ.get("VERIF_KINDS"):          # development aid: restrict to some case kinds
        only = set(os.environ["VERIF_KINDS"].split(","))
        cases = [c for c in cases if c.get("kind") in only]
    outs = _impl_all(mod, cases, tier)
    model_ok, model_problem = True, None
    try:
        diffs, fails, per_case, herr = _evaluate(mod, cases, outs, with_model=True)
    except core.ToolFailure as e:
        # the model side is broken (driver does not build): still evaluate the oracle
        model_ok, model_problem = False, str(e)
        diffs, fails, per_case, herr = _evaluate(mod, cases, outs, with_model=False)
    if os.environ.get("VERIF_DEBUG"):
        for i, d in diffs[:40]:
            print("DIFF", json.dumps(cases[i], default=str)[:400], "=>", str(d)[:600])
        for i, f in fails[:40]:
            print("FAIL", f["key"], str(f["msg"])[:400])
    # generated twins: kernels regenerated from /repo's current source, compared inside Lean with the hand model
    # on an exhaustive small scope (module attribute TWIN_CHECKS: list of driver requests)
    twin_results, twin_diffs, twin_bad = [], [], []
    if model_ok and getattr(mod, "TWIN_CHECKS", None):
        try:
            for req, r in zip(mod.TWIN_CHECKS, core.run_driver(list(mod.TWIN_CHECKS))):
                twin_results.append({"request": req, "response": _trim(r, 400)})
                if "bad" in r:
                    # twin unavailable (syntax outside the translator's subset / an idiom the interpreter does not
                    # model): recorded, not a violation.  Any other rejection is a malformed request: tool failure.
                    if not str(r["bad"]).startswith("twin unavailable"):
                        twin_bad.append(f"{req.get('op')}: {r['bad']}")
                    continue
                if r.get("disagreements"):
                    twin_diffs.append(f"twin {req['op']}: regenerated kernel disagrees with the hand model: {r['disagreements'][:2]}")
                if r.get("memory_errors"):
                    twin_diffs.append(f"twin {req['op']} {req.get('fn')}: index/unbound errors under checked Python semantics: {r.get('memory_error_samples')}")
        except core.ToolFailure as e:
            model_ok, model_problem = False, str(e)
    if twin_bad:
        raise core.ToolFailure(f"TWIN_CHECKS request rejected by the driver: {twin_bad[0]}")
    if os.environ.get("VERIF_DEBUG"):
        for t in twin_diffs[:10]:
            print("TWIN-DIFF", t[:800])
    if herr:
        raise core.ToolFailure(f"harness error in impl worker: {herr[0][1]}\n{herr[0][2]}")
    new_fails = [(i, f) for i, f in fails if f["key"] not in known]
    known_hits = Counter(f["key"] for i, f in fails if f["key"] in known)
    searched_extra = 0
    if (not proof_ok or not model_ok or diffs or twin_diffs) and not new_fails and hasattr(mod, "search"):
        # proof or correspondence no longer checks: widen the failing-input search on the real code
        extra = list(mod.search(rng, tier))
        searched_extra = len(extra)
        eouts = _impl_all(mod, extra, tier)
        for c, o in zip(extra, eouts):
            for f in mod.oracle(c, o):
                if f["key"] in known:
                    known_hits[f["key"]] += 1
                else:
                    cases.append(c); outs.append(o)
                    new_fails.append((len(cases) - 1, f))
    # statistics
    stat = Counter()
    nontriv = set()
    for c, o in zip(cases, outs):
        for tag in mod.stats(c, o):
            stat[tag] += 1
        if mod.nontrivial(c, o):
            nontriv.add(core.canon(c))
    violations = 0
    lines = []
    for k, n in sorted(known_hits.items()):
        lines.append(f"KNOWN-FINDING: property={prop} {k} — {known[k]} (hit {n}x this run)")
    rc = 0
    if os.environ.get("VERIF_DEBUG"):
        new_fails_dbg, new_fails = new_fails, []
        print(f"DEBUG: {len(new_fails_dbg)} new failures not shrunk / reported")
    if new_fails:
        # one violation line per distinct key
        seen = set()
        for i, f in new_fails:
            if f["key"] in seen:
                continue
            seen.add(f["key"])
            small = _shrink(mod, cases[i], f["key"], tier)
            so = _impl_all(mod, [small], "quick")[0]
            sf = [x for x in mod.oracle(small, so) if x["key"] == f["key"]] or [f]
            path = core.write_replay(prop, {"property": prop, "kind": "failing-input", "key": f["key"],
                                            "what": sf[0]["msg"], "case": small, "impl": so,
                                            "replay_cmd": f"./check {prop} --replay <this file>"})
            lines.append(f"VIOLATION property={prop} replay={path}")
            violations += 1
        rc = 1
    elif not proof_ok or not model_ok or diffs or twin_diffs:
        what = [{"generated_twin": t} for t in twin_diffs]
        if not proof_ok:
            what.append({"proof": aud["problems"] or "no obligations", "theorems": aud["theorems"]})
        if not model_ok:
            what.append({"model_driver": model_problem})
        for i, d in diffs[:5]:
            what.append({"correspondence": d, "case": cases[i], "impl": outs[i], "model": per_case[i]})
        path = core.write_replay(prop, {"property": prop, "kind": "no-failing-input-found",
                                        "what": what, "searched_cases": len(cases) + searched_extra})
        lines.append(f"VIOLATION property={prop} replay={path} no-failing-input-found")
        violations += 1
        rc = 1
    samples = []
    for c, o, pc in list(zip(cases, outs, per_case + [[]] * (len(cases) - len(per_case))))[:3]:
        samples.append({"case": c, "impl": _trim(o), "model": _trim(pc)})
    samples.append({"obligations": list(aud["theorems"].keys())[:40]})
    cov = {
        "obligations": aud["obligations"], "discharged": aud["discharged"],
        "checker_cmd": aud["checker_cmd"],
        "trusted_base": core.TRUSTED_BASE + [f"axioms used: {sorted({a for v in aud['theorems'].values() if isinstance(v, list) for a in v})}"],
        "theorem_axioms": aud["theorems"], "proof_problems": aud["problems"],
        "evaluations": len(cases), "distinct_nontrivial": len(nontriv),
        "rule": getattr(mod, "RULE", ""),
        "traces_validated_against_impl": sum(1 for pc in per_case if pc),
        "correspondence_disagreements": len(diffs) + len(twin_diffs),
        "generated_twins": {"translator": core.TWIN_REPORT, "checks": twin_results},
        "oracle_failures_new": len(new_fails), "known_finding_hits": dict(known_hits),
        "input_distribution": dict(stat), "modes": [m for m, _ in getattr(mod, "MODES", [("normal", {})])],
        "samples": samples,
    }
    if "leanchecker" in aud:
        cov["leanchecker"] = aud["leanchecker"]
    core.write_evidence(prop, tier, seed, cov, getattr(mod, "ASSUMPTIONS", []), time.time() - t0, violations)
    for l in lines:
        print(l)
    print(f"{prop} {tier}: theorems {aud['discharged']}/{aud['obligations']}, cases {len(cases)} "
          f"(non-trivial {len(nontriv)}), correspondence diffs {len(diffs) + len(twin_diffs)}, new oracle failures {len(new_fails)}, "
          f"known-finding hits {sum(known_hits.values())}, {time.time()-t0:.0f}s")
    return rc


def _trim(o, n=600):
    s = json.dumps(o, default=str)
    return json.loads(s) if len(s) <= n else s[:n] + "…"


if __name__ == "__main__":
    sys.exit(main())
