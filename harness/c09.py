"""C09 — BPE lossless / reproducible / within budget.  Model: lean/VecModel/Model/BPE.lean,
theorems: lean/VecModel/Props/C09.lean."""
import itertools
from collections import Counter

PROP = "C09"
# kernels regenerated from /repo's source (tools/py2lean.py) vs the hand model, exhaustive small scope, inside Lean
TWIN_CHECKS = [{"op": "twin.bpe_exhaustive", "n": 6},
               # contract_and_count_pairs (encoding part; arrays over {1,2,3} up to length 5 x 4 pairs x 2 count dicts) vs
               # BPE.contractPairIdx / contract; bpe_encode (strings over {a,b,z} up to length 5 x 6 merge lists) vs BPE.encodeIdx / encode
               {"op": "twin.bpe_encode_exhaustive", "n": 5}]
RULE = ("corpora of short strings: all strings over {a,b,c} up to a length bound as singleton corpora, "
        "random pairs/triples of them, random unicode corpora (code points above max_char_code in the "
        "transform inputs), repeated characters; max_vocab_size in {1,2,3,10}; transform inputs = training "
        "strings + '', one-character strings, unseen characters, the learned token strings themselves "
        "(collapse to one code); plus direct calls of the njit kernels contract_pair / "
        "contract_and_count_pairs on random arrays of length 0..8. Non-trivial = at least one merge learned "
        "and some encoded string of length 0, 1 or collapsing to a single code, or a kernel call on a "
        "length<=1 array or with a match at the last position.")
ASSUMPTIONS = [
    "codes are unbounded Int in the model (int64 in the code)",
    "the pair-selection heuristic (pruning_max_freq_pair) is a parameter of the model: theorems hold for every "
    "selection; the implementation's code_list_ is replayed through the model and its well-formedness checked",
    "corpora with no adjacent pair occurring twice make fit raise (known finding, see KNOWN_FINDINGS.txt)",
]


def _cp(s):
    return [ord(c) for c in s]


def corpus():
    cs = [{"kind": "twin", "n": 6},
          # one code occurring more than 2^16 times in a single transform string (a 16-bit counter would wrap)
          {"kind": "long", "X": ["abcabc", "abc"], "max_vocab_size": 1, "unit": "abc", "reps": 70000},
          {"kind": "long", "X": ["abab", "cdcd"], "max_vocab_size": 3, "unit": "-", "reps": 66000}]
    for X, k in [(["abab", "a", ""], 10), (["ab", "ab", "a"], 10), (["abababab abab", "abab"], 1),
                 (["abababab abab", "abab"], 2), (["aaaaaaa", "aaa"], 10), (["abc", "abd"], 10),
                 (["a", "b"], 10), (["abc"], 10), (["aa"], 10), (["aaa"], 1)]:
        cs.append({"kind": "fit", "X": X, "Xt": ["", "a", "ab", "zzab", "éa", "abababab", "-" * 300 + "abab"],
                   "max_vocab_size": k, "min_token_occurrence": 1, "max_char_code": 0})
    for a in ([], [5], [1, 2], [1, 2, 1], [1, 2, 1, 2], [2, 1, 2], [1, 1, 1], [1, 1, 1, 1]):
        cs.append({"kind": "kernel", "a": a, "p": [1, 2], "c": 9})
        cs.append({"kind": "kernel", "a": a, "p": [1, 1], "c": 9})
    return cs


def generate(rng, tier):
    cs = []
    maxlen = 4 if tier == "quick" else 6
    alpha = "abc"
    allstr = ["".join(t) for n in range(0, maxlen + 1) for t in itertools.product(alpha, repeat=n)]
    sing = allstr if tier == "thorough" else rng.sample(allstr, 60)
    for s in sing:
        cs.append({"kind": "fit", "X": [s], "Xt": ["", "a", "cb", s + "z"], "max_vocab_size": rng.choice([1, 2, 3, 10]),
                   "min_token_occurrence": 1, "max_char_code": 0})
    n_multi = 120 if tier == "quick" else 1500
    for _ in range(n_multi):
        k = rng.choice([2, 2, 3, 4])
        X = [rng.choice(allstr) for _ in range(k)]
        if rng.random() < 0.3:
            X.append(rng.choice("ab") * rng.randint(1, 9))
        if rng.random() < 0.2:
            X.append("".join(chr(rng.choice([0x61, 0x62, 0xe9, 0x4e2d, 0x1f600])) for _ in range(rng.randint(0, 8))))
        Xt = [rng.choice(allstr) for _ in range(3)] + ["", rng.choice("abczé\U0001f600")]
        Xt.append("".join(chr(rng.choice([0x61, 0x62, 0x7a, 0x3b1, 0x1f600])) for _ in range(rng.randint(0, 6))))
        if rng.random() < 0.15:
            # very long runs: counts beyond 255 in one row (a narrow integer accumulator would wrap)
            Xt.append(rng.choice("abc-") * rng.choice([256, 300, 700]) + rng.choice(allstr))
        cs.append({"kind": "fit", "X": X, "Xt": Xt, "max_vocab_size": rng.choice([1, 2, 3, 10]),
                   "min_token_occurrence": rng.choice([1, 1, 2, 3]),
                   "max_char_code": rng.choice([0, 0, 127, "ascii", 200, 70000])})
    n_k = 150 if tier == "quick" else 3000
    for _ in range(n_k):
        n = rng.choice([0, 1, 1, 2, 3, 4, 5, 6, 8])
        a = [rng.choice([1, 2, 3]) for _ in range(n)]
        cs.append({"kind": "kernel", "a": a, "p": [rng.choice([1, 2]), rng.choice([1, 2])], "c": rng.choice([7, 9])})
    return cs


def search(rng, tier):
    return generate(rng, "thorough" if tier == "thorough" else "quick")


# ------------------------------------------------------------------ implementation side (worker)

def _run_long(case):
    """one very long transform string: only summaries travel back (code counts, decode check)"""
    import numpy as np
    from collections import Counter as C
    from vectorizers.mixed_gram_vectorizer import BytePairEncodingVectorizer
    kw = dict(max_vocab_size=case["max_vocab_size"])
    long_s = case["unit"] * case["reps"]
    out = {}
    try:
        ms = BytePairEncodingVectorizer(return_type="sequences", **kw)
        ms.fit(case["X"])
        seq = [int(x) for x in ms.transform([long_s])[0]]
        toks, mcc = [str(t) for t in ms.tokens_], int(ms.max_char_code_)
        dec = "".join(chr(x) if x <= mcc else toks[x - mcc - 1] for x in seq)
        out["lossless"] = dec == "".join(c if ord(c) <= mcc else chr(0) for c in long_s)
        out["seq_counts"] = sorted(C(seq).items())
        mm = BytePairEncodingVectorizer(return_type="matrix", **kw)
        mm.fit(case["X"])
        M = mm.transform([long_s]).tocsr()
        cols = {int(k): int(v) for k, v in mm.column_label_dictionary_.items()}
        inv = {v: k for k, v in cols.items()}
        out["matrix_counts"] = sorted((inv[int(j)], float(v)) for j, v in zip(M.indices, M.data) if v != 0)
        out["cols"] = sorted(cols)
        out["shape"] = [int(M.shape[0]), int(M.shape[1])]
    except Exception as e:
        out["exc"] = f"{type(e).__name__}: {e}"
    return out


def run_impl(case):
    if case["kind"] == "twin":
        return {"twin": True}
    if case["kind"] == "long":
        return _run_long(case)
    import numpy as np, numba
    from vectorizers.mixed_gram_vectorizer import (BytePairEncodingVectorizer, contract_pair,
                                                   contract_and_count_pairs)
    if case["kind"] == "kernel":
        a = np.array(case["a"], dtype=np.int64)
        p = (np.int64(case["p"][0]), np.int64(case["p"][1]))
        out = {}
        try:
            out["cp"] = [int(x) for x in contract_pair(a.copy(), p, np.int64(case["c"]))]
        except Exception as e:
            out["cp_exc"] = f"{type(e).__name__}: {e}"
        try:
            d = numba.typed.Dict.empty(numba.types.UniTuple(numba.types.int64, 2), numba.types.int64)
            d[(np.int64(-5), np.int64(-5))] = 1
            r, _ = contract_and_count_pairs(a.copy(), p, d, np.int64(case["c"]))
            out["ccp"] = [int(x) for x in r]
        except Exception as e:
            out["ccp_exc"] = f"{type(e).__name__}: {e}"
        return out
    X, Xt = case["X"], case["Xt"]
    kw = dict(max_vocab_size=case["max_vocab_size"], min_token_occurrence=case["min_token_occurrence"],
              max_char_code=case["max_char_code"])
    out = {}
    try:
        m = BytePairEncodingVectorizer(return_type="sequences", **kw)
        ft = m.fit_transform(X)
    except Exception as e:
        return {"fit_exc": f"{type(e).__name__}: {e}"}
    out["ft"] = [[int(x) for x in r] for r in ft]
    out["tokens_"] = [str(t) for t in m.tokens_]
    out["code_list_"] = [[int(c[0]), int(c[1])] for c in m.code_list_]
    out["mcc"] = int(m.max_char_code_)
    Xt = list(Xt) + [t for t in out["tokens_"][:4]]
    out["Xt_all"] = Xt
    try:
        out["tr"] = [[int(x) for x in r] for r in m.transform(X)]
        out["trt"] = [[int(x) for x in r] for r in m.transform(Xt)]
    except Exception as e:
        out["transform_exc"] = f"{type(e).__name__}: {e}"
    # a later fit that raises (corpus without a repeated pair, see the known finding) must leave the fitted model
    # usable: transform keeps re-encoding the training strings exactly as before
    if "tr" in out:
        try:
            m.fit(["ab", "cd"])
            out["refit_raised"] = False
        except Exception:
            out["refit_raised"] = True
            try:
                out["tr_after_failed_refit"] = [[int(x) for x in r] for r in m.transform(X)]
            except Exception as e:
                out["tr_after_failed_refit_exc"] = f"{type(e).__name__}: {e}"
    try:
        mt = BytePairEncodingVectorizer(return_type="tokens", **kw)
        out["ft_tokens"] = [[str(t) for t in r] for r in mt.fit_transform(X)]
        out["trt_tokens"] = [[str(t) for t in r] for r in mt.transform(Xt)]
    except Exception as e:
        out["tokens_exc"] = f"{type(e).__name__}: {e}"
    try:
        mm = BytePairEncodingVectorizer(return_type="matrix", **kw)
        M = mm.fit_transform(X)
        cols = {int(k): int(v) for k, v in mm.column_label_dictionary_.items()}
        out["cols"] = sorted(cols.items())
        out["ft_matrix"] = {"shape": list(M.shape), "rows": _rows(M)}
        Mt = mm.transform(Xt)
        out["trt_matrix"] = {"shape": list(Mt.shape), "rows": _rows(Mt)}
    except Exception as e:
        out["matrix_exc"] = f"{type(e).__name__}: {e}"
    return out


def _rows(M):
    M = M.tocsr()
    M.sum_duplicates()
    rows = []
    for i in range(M.shape[0]):
        sl = slice(M.indptr[i], M.indptr[i + 1])
        rows.append(sorted((int(j), float(v)) for j, v in zip(M.indices[sl], M.data[sl]) if v != 0))
    return rows


# ------------------------------------------------------------------ model side

def model_requests(case, outs):
    o = outs["normal"]
    if case["kind"] == "long":
        return []                      # far beyond what the list-based model encodes in reasonable time: oracle only
    if case["kind"] == "twin":
        return [{"op": "twin.bpe_exhaustive", "n": case["n"]}]
    if case["kind"] == "kernel":
        return [{"op": "bpe.contract", "a": case["a"], "p": case["p"], "c": case["c"]},
                {"op": "twin.call", "fn": "contract_pair", "args": [case["a"], {"t": case["p"]}, case["c"]]},
                {"op": "twin.call", "fn": "contract_and_count_pairs",
                 "args": [case["a"], {"t": case["p"]}, {"d": [[{"t": [-5, -5]}, 1]]}, case["c"]]}]
    if "fit_exc" in o or "crash" in o or "transform_exc" in o:
        return []
    return [{"op": "bpe.encode", "cl": o["code_list_"], "mcc": o["mcc"],
             "X": [_cp(s) for s in case["X"]] + [_cp(s) for s in o["Xt_all"]]}] + _twin_encode_reqs(o)


def _twin_encode_sample(o):
    """transform inputs whose encoding by the compiled bpe_encode is also computed by the regenerated twin"""
    from . import twinutil
    return [i for i, s in enumerate(o.get("Xt_all", [])) if twinutil.bmp(s) and len(s) <= 12][:6] if "trt" in o else []


def _twin_encode_reqs(o):
    from . import twinutil
    return [twinutil.call("bpe_encode", [o["Xt_all"][i], [tuple(p) for p in o["code_list_"]], o["mcc"]])
            for i in _twin_encode_sample(o)]


def compare(case, outs, resps):
    o = outs["normal"]
    d = []
    if not resps:
        return d
    r = resps[0]
    if "bad" in r:
        return [f"model rejected request: {r['bad']}"]
    if case["kind"] == "twin":
        if r.get("disagreements"):
            d.append(f"regenerated twin of contract_pair disagrees with the hand model: {r['disagreements'][:2]}")
        return d
    if case["kind"] == "kernel":
        # regenerated twins (source -> Lean interpreter) vs the real compiled kernels: validates the translator
        for name, tw, key in (("contract_pair", resps[1], "cp"), ("contract_and_count_pairs", resps[2], "ccp")):
            if "bad" in tw:
                continue                                   # twin unavailable: not a disagreement
            got = tw.get("ok")
            if isinstance(got, dict) and "t" in got:
                got = got["t"][0]
            if key in o and got != o[key]:
                d.append(f"twin {name} {tw.get('ok', tw.get('err'))} != impl {o[key]}")
        if "ok" not in r["idx"]:
            d.append(f"model index-level contract_pair fails: {r['idx']}")
        elif r["idx"]["ok"] != r["fun"]:
            d.append("model idx != fun")
        if o.get("cp") != r["fun"]:
            d.append(f"contract_pair impl {o.get('cp', o.get('cp_exc'))} != model {r['fun']}")
        if o.get("ccp") != r["fun"]:
            d.append(f"contract_and_count_pairs impl {o.get('ccp', o.get('ccp_exc'))} != model {r['fun']}")
        return d
    n = len(case["X"])
    if not r["wf"]:
        d.append(f"impl code_list_ not well-formed for the model: {o['code_list_']} mcc={o['mcc']}")
    if r["tokens"] is None or ["".join(map(chr, t)) for t in r["tokens"]] != o["tokens_"]:
        d.append(f"tokens_ {o['tokens_']} != model {r['tokens']}")
    if r["enc"][:n] != o["tr"]:
        d.append(f"transform(X) {o['tr']} != model encode {r['enc'][:n]}")
    if r["enc"][:n] != o["ft"]:
        d.append(f"fit_transform(X) {o['ft']} != model replay {r['enc'][:n]}")
    if r["enc"][n:] != o["trt"]:
        d.append(f"transform(Xt) {o['trt']} != model encode {r['enc'][n:]}")
    if any("ok" not in x for x in r["idx"]) or [x.get("ok") for x in r["idx"]] != r["enc"]:
        d.append("model: index-level encoder disagrees with functional encoder")
    from . import twinutil
    for i, tw in zip(_twin_encode_sample(o), resps[1:]):
        if twinutil.unavailable(tw):
            continue                                   # twin unavailable: not a disagreement
        if tw.get("ok") != o["trt"][i]:
            d.append(f"generated twin bpe_encode({o['Xt_all'][i]!r}) {tw.get('ok', tw.get('err'))} != impl {o['trt'][i]}")
    return d


# ------------------------------------------------------------------ oracle (the property, on the impl)

def _no_repeated_pair(X):
    c = Counter()
    for s in X:
        for i in range(len(s) - 1):
            c[(s[i], s[i + 1])] += 1
    return not c or max(c.values()) < 2


def _F(key, msg):
    return {"key": key, "msg": msg}


def oracle(case, outs):
    o = outs["normal"]
    fails = []
    if case["kind"] == "twin":
        return []
    if case["kind"] == "long":
        if "crash" in o:
            return [_F("bpe.crash", f"process terminated: {o['crash']}")]
        if "exc" in o:
            return [_F("bpe.long.raises", f"transform of a {len(case['unit']) * case['reps']}-character string raises {o['exc']}")]
        if not o["lossless"]:
            fails.append(_F("bpe.lossless.transform.long", f"a {len(case['unit']) * case['reps']}-character string does not decode to itself"))
        exp = [(k, float(v)) for k, v in o["seq_counts"] if k in set(o["cols"])]
        if [(k, v) for k, v in o["matrix_counts"]] != exp:
            fails.append(_F("bpe.matrix-counts.transform.long", f"matrix row {o['matrix_counts']} vs code counts of the sequence {exp} "
                                                                 f"({case['unit']!r} x {case['reps']}, max_vocab_size {case['max_vocab_size']})"))
        return fails
    if "crash" in o:
        return [_F("bpe.crash", f"process terminated: {o['crash']}")]
    if case["kind"] == "kernel":
        a, (p0, p1), c = case["a"], case["p"], case["c"]
        exp, i = [], 0
        while i < len(a):
            if i + 1 < len(a) and a[i] == p0 and a[i + 1] == p1:
                exp.append(c); i += 2
            else:
                exp.append(a[i]); i += 1
        for k in ("cp", "ccp"):
            if o.get(k) != exp:
                fails.append(_F(f"bpe.kernel.{k}", f"{k}({a},{case['p']},{c}) = {o.get(k, o.get(k + '_exc'))}, expected {exp}"))
        return fails
    X = case["X"]
    if "fit_exc" in o:
        if _no_repeated_pair(X):
            return [_F("bpe.fit-raises.no-repeated-adjacent-pair", f"fit_transform({X}) raises {o['fit_exc']}")]
        return [_F("bpe.fit-raises.other", f"fit_transform({X}) raises {o['fit_exc']}")]
    for k in ("transform_exc", "tokens_exc", "matrix_exc"):
        if k in o:
            fails.append(_F("bpe." + k, f"{k}: {o[k]} for X={X} Xt={o.get('Xt_all')}"))
    if fails:
        return fails
    mcc, toks = o["mcc"], o["tokens_"]

    def cstr(x):
        if x <= mcc:
            return chr(x)
        k = x - mcc - 1
        return toks[k] if 0 <= k < len(toks) else None

    def dec(seq):
        parts = [cstr(x) for x in seq]
        return None if any(p is None for p in parts) else "".join(parts)

    def clipped(s):
        return "".join(c if ord(c) <= mcc else chr(0) for c in s)

    for s, e in zip(X, o["ft"]):
        if dec(e) != s:
            fails.append(_F("bpe.lossless.fit_transform", f"fit_transform encoding {e} of {s!r} decodes to {dec(e)!r}"))
    for s, e in zip(o["Xt_all"], o["trt"]):
        if dec(e) != clipped(s):
            fails.append(_F("bpe.lossless.transform", f"transform encoding {e} of {s!r} decodes to {dec(e)!r} (mcc={mcc})"))
    if o.get("refit_raised"):
        if "tr_after_failed_refit_exc" in o:
            fails.append(_F("bpe.after-failed-refit.raises", f"transform after a fit that raised: {o['tr_after_failed_refit_exc']}"))
        elif o.get("tr_after_failed_refit") != o["tr"]:
            fails.append(_F("bpe.after-failed-refit.encodings", f"transform(X) after a later fit raised: {o.get('tr_after_failed_refit')} before: {o['tr']} X={X}"))
    if o["tr"] != o["ft"]:
        fails.append(_F("bpe.transform-ne-fit_transform", f"transform(X)={o['tr']} fit_transform(X)={o['ft']} X={X}"))
    for k, (t, pr) in enumerate(zip(toks, o["code_list_"])):
        l, r = cstr(pr[0]) if pr[0] < mcc + 1 + k else None, cstr(pr[1]) if pr[1] < mcc + 1 + k else None
        if l is None or r is None or t != l + r:
            fails.append(_F("bpe.token-not-concat", f"tokens_[{k}]={t!r} pair={pr}"))
    if len(toks) > case["max_vocab_size"] or len(toks) != len(o["code_list_"]):
        fails.append(_F("bpe.budget", f"{len(toks)} tokens > max_vocab_size {case['max_vocab_size']}"))
    # 'tokens' and 'matrix' outputs are the code strings / code counts of 'sequences'
    if o["ft_tokens"] != [[cstr(x) for x in e] for e in o["ft"]]:
        fails.append(_F("bpe.tokens-output.fit", f"{o['ft_tokens']} vs sequences {o['ft']}"))
    if o["trt_tokens"] != [[cstr(x) for x in e] for e in o["trt"]]:
        fails.append(_F("bpe.tokens-output.transform", f"{o['trt_tokens']} vs sequences {o['trt']}"))
    cols = dict((k, v) for k, v in o["cols"])
    for name, encs, M in (("fit", o["ft"], o["ft_matrix"]), ("transform", o["trt"], o["trt_matrix"])):
        if M["shape"] != [len(encs), len(cols)]:
            fails.append(_F(f"bpe.matrix-shape.{name}", f"shape {M['shape']} expected {[len(encs), len(cols)]}"))
            continue
        for e, row in zip(encs, M["rows"]):
            cnt = Counter(cols[x] for x in e if x in cols)
            if sorted((j, float(v)) for j, v in cnt.items()) != [(j, v) for j, v in row]:
                fails.append(_F(f"bpe.matrix-counts.{name}", f"row {row} vs code counts {sorted(cnt.items())} of {e}"))
                break
    return fails


def nontrivial(case, outs):
    o = outs["normal"]
    if case["kind"] == "twin":
        return False
    if case["kind"] == "long":
        return "seq_counts" in o
    if case["kind"] == "kernel":
        a, p = case["a"], case["p"]
        return len(a) <= 1 or (len(a) >= 2 and a[-2:] == p)
    if "ft" not in o:
        return False
    encs = o["ft"] + o.get("trt", [])
    return bool(o["code_list_"]) and any(len(e) <= 1 for e in encs)


def stats(case, outs):
    o = outs["normal"]
    if case["kind"] == "twin":
        return ["twin-exhaustive"]
    if case["kind"] == "long":
        return ["long-string", f"long.count>{max([v for _, v in o.get('seq_counts', [(0, 0)])]) // 1000}k"]
    if case["kind"] == "kernel":
        return ["kernel", f"kernel.len{min(len(case['a']), 3)}"]
    t = ["fit"]
    if "fit_exc" in o:
        t.append("fit.raises")
        return t
    t.append(f"merges.{min(len(o['code_list_']), 4)}")
    if len(o["code_list_"]) == case["max_vocab_size"]:
        t.append("budget-reached")
    if any(len(e) == 1 for e in o["ft"]):
        t.append("train-string-collapsed-to-one-code")
    if any(any(ord(c) > o["mcc"] for c in s) for s in o.get("Xt_all", [])):
        t.append("transform-char-above-mcc")
    if any(len(s) == 0 for s in case["X"]):
        t.append("empty-train-string")
    return t


def shrink_candidates(case):
    if case["kind"] in ("twin", "long"):
        return
    if case["kind"] == "kernel":
        a = case["a"]
        for i in range(len(a)):
            yield dict(case, a=a[:i] + a[i + 1:])
        return
    X, Xt = case["X"], case["Xt"]
    for i in range(len(X)):
        if len(X) > 1:
            yield dict(case, X=X[:i] + X[i + 1:])
    for i in range(len(Xt)):
        yield dict(case, Xt=Xt[:i] + Xt[i + 1:])
    for i, s in enumerate(X):
        for j in range(len(s)):
            yield dict(case, X=X[:i] + [s[:j] + s[j + 1:]] + X[i + 1:])
    for i, s in enumerate(Xt):
        for j in range(len(s)):
            yield dict(case, Xt=Xt[:i] + [s[:j] + s[j + 1:]] + Xt[i + 1:])
