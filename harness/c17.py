"""C17 — information weights are KL divergences; transform is a fixed column scaling.
Model: lean/VecModel/Model/InfoWeight.lean, theorems: lean/VecModel/Props/C17.lean."""
import math

PROP = "C17"
RULE = ("non-negative integer count matrices (1..8 x 1..8, some up to 40 x 12; empty rows and columns, columns with a "
        "single entry, repeated rows) presented in every storage format — dense ndarray, CSR, CSC, COO with duplicate "
        "triples in shuffled order, CSR/CSC with shuffled in-row order, explicitly stored zeros and duplicate entries — "
        "x prior_strength in [1e-4, 10] x exact / approximate prior x weight_power in {0.5, 1, 2, 3} x supervised "
        "targets (2..4 classes, classes made only of empty rows included) x int64 / float64 data.  Every case also "
        "carries a row permutation, a column permutation, a second matrix and two scalars for the linearity check; the "
        "fitted estimator is then re-fitted on the second matrix and compared with a fresh one, and k * M is presented "
        "in a narrow dtype (int8/uint8/int16/int32/float32, row totals beyond the type's range) against int64.  "
        "Non-trivial = a non-canonical presentation (unsorted indices, explicit zeros or duplicates) of a matrix with "
        "an empty row or column and at least one column with >= 2 entries (binary search with a real choice).")
ASSUMPTIONS = [
    "prior_strength > 0 (0 * log 0 is NaN at prior_strength = 0: outside the claim)",
    "the matrix has positive total mass, and the raw weight vector is not identically zero (the mean normalisation "
    "divides by its mean: a single column, or columns all proportional to the row sums, give 0/0) — such cases are "
    "recognised on the input (definition-based KL all < 1e-13) and only the raw weights are checked there",
    "supervised fits need two classes with mass for the same reason (decided on the input)",
    "counts are small integers (exact in float64); indices are unbounded Nat in the model",
    "the KL identity is claimed for the exact prior only; for the approximate prior and the supervised weights the "
    "oracle checks finiteness / non-negativity of the fitted weights, permutation behaviour and the transform claims",
    "fitted weights are compared across presentations / permutations / with the model only on columns whose KL from "
    "the definition is >= 1e-12: x ** p is not Lipschitz at 0, so a column whose KL is exactly 0 gets 0 or "
    "(1e-16) ** p depending on how that zero is rounded (all such values are still checked finite and >= 0)",
    "scipy's format conversions and the sparse @ diagonal product are external code; the model's canonical CSC is "
    "compared with scipy's on every case",
]
NWORKERS = {"quick": 4, "thorough": 8}
FORMATS = ["dense", "csr", "csc", "coo", "csr_raw", "csc_raw"]


# ------------------------------------------------------------------ generation

def _matrix(rng, nr, nc):
    dens = rng.choice([0.15, 0.3, 0.5, 0.8])
    M = [[(rng.choice([1, 1, 1, 2, 2, 3, 5, 9]) if rng.random() < dens else 0) for _ in range(nc)] for _ in range(nr)]
    if rng.random() < 0.4 and nr > 1:
        M[rng.randrange(nr)] = [0] * nc                       # empty row
    if rng.random() < 0.4 and nc > 1:
        j = rng.randrange(nc)
        for r in M:
            r[j] = 0                                          # empty column
    if rng.random() < 0.2 and nr > 2:
        M[rng.randrange(nr)] = list(M[rng.randrange(nr)])     # repeated row
    if not any(any(r) for r in M):
        M[rng.randrange(nr)][rng.randrange(nc)] = 1
    return M


def _raw_entries(rng, M, extra_zero=True, dup=True):
    """stored entries (row, col, value) of a non-canonical presentation: explicit zeros, split counts"""
    es = []
    for i, r in enumerate(M):
        for j, v in enumerate(r):
            if v == 0:
                if extra_zero and rng.random() < 0.15:
                    es.append([i, j, 0])
            elif dup and v >= 2 and rng.random() < 0.3:
                a = rng.randint(1, v - 1)
                es.append([i, j, a]); es.append([i, j, v - a])
            else:
                es.append([i, j, v])
    rng.shuffle(es)
    return es


def _case(rng, big=False):
    nr, nc = (rng.randint(9, 40), rng.randint(2, 12)) if big else (rng.randint(1, 8), rng.randint(1, 8))
    M = _matrix(rng, nr, nc)
    M2 = _matrix(rng, nr, nc)
    ncls = rng.randint(2, 4)
    y = [rng.randrange(ncls) for _ in range(nr)]
    labels = rng.choice([None, ["a", "b", "c", "d"], [10, 20, 30, 40]])
    pr = list(range(nr)); rng.shuffle(pr)
    pc = list(range(nc)); rng.shuffle(pc)
    return {"M": M, "M2": M2, "raw": _raw_entries(rng, M), "raw2": _raw_entries(rng, M),
            "s": rng.choice([1e-4, 0.1, 1.0, 10.0, 10.0 ** rng.uniform(-4, 1)]),
            "approx": rng.random() < 0.4, "p": rng.choice([0.5, 1.0, 2.0, 2.0, 3.0]),
            "sw": rng.choice([0.5, 0.95]), "y": y if labels is None else [labels[c] for c in y],
            "supervised": rng.random() < 0.5, "perm_r": pr, "perm_c": pc,
            "ab": [rng.choice([0.5, 2.0, 3.0]), rng.choice([1.0, 0.25, 7.0])],
            "dtype": rng.choice(["int64", "float64"]),
            # the same counts times k, stored in a narrow type whose range holds every entry but not every row total
            "narrow": rng.choice([[14, "int8"], [25, "uint8"], [25, "int16"], [3000, "int16"], [1, "float32"], [25, "int32"]])}


def corpus():
    cs = []
    base = {"s": 0.1, "approx": False, "p": 2.0, "sw": 0.95, "supervised": False, "ab": [2.0, 0.5], "dtype": "float64"}

    def mk(M, raw, y, **kw):
        nr, nc = len(M), len(M[0])
        c = dict(base, M=M, M2=[[(i + 2 * j) % 3 for j in range(nc)] for i in range(nr)], raw=raw, raw2=list(reversed(raw)),
                 y=y, perm_r=list(reversed(range(nr))), perm_c=list(reversed(range(nc))))
        c.update(kw)
        return c
    # unsorted CSC column with three entries: the binary search needs sorted indices
    M = [[1, 0], [2, 0], [3, 1]]
    cs.append(mk(M, [[2, 0, 3], [0, 0, 1], [1, 0, 2], [2, 1, 1]], [0, 1, 0]))
    # duplicates + explicit zero + empty row; class 1 consists of the empty row only
    M = [[1, 0, 2], [0, 0, 0], [3, 1, 0]]
    cs.append(mk(M, [[2, 0, 1], [0, 2, 2], [2, 0, 2], [1, 1, 0], [0, 0, 1], [2, 1, 1]], [0, 1, 2], supervised=True))
    cs.append(mk(M, [[2, 0, 1], [0, 2, 2], [2, 0, 2], [1, 1, 0], [0, 0, 1], [2, 1, 1]], ["x", "y", "z"], supervised=True, approx=True, s=1e-4))
    # single column / rank one: raw weights identically zero (excluded from the fitted-weight checks)
    cs.append(mk([[1], [2]], [[1, 0, 2], [0, 0, 1]], [0, 1]))
    cs.append(mk([[1, 2], [2, 4]], [[1, 0, 2], [0, 0, 1], [0, 1, 2], [1, 1, 4]], [0, 1]))
    # a longer column: search over 7 sorted row indices
    M = [[(i * j + i) % 4 for j in range(3)] for i in range(9)]
    raw = [[i, j, M[i][j]] for j in range(3) for i in reversed(range(9)) if M[i][j]]
    cs.append(mk(M, raw, [i % 3 for i in range(9)], supervised=True, dtype="int64"))
    return cs


def generate(rng, tier):
    n, nb = (150, 12) if tier == "quick" else (2500, 200)
    return [_case(rng) for _ in range(n)] + [_case(rng, big=True) for _ in range(nb)]


def search(rng, tier):
    n = 600 if tier == "quick" else 4000
    return [_case(rng) for _ in range(n)]


# ------------------------------------------------------------------ implementation side (worker)

def _fl(v):
    v = float(v)
    if math.isnan(v):
        return "nan"
    if math.isinf(v):
        return "inf" if v > 0 else "-inf"
    return v


def _build(np, sp, fmt, M, raw, dtype):
    """(object handed to the library, its stored entries in storage order)"""
    nr, nc = len(M), len(M[0])
    A = np.array(M, dtype=dtype)
    if fmt == "dense":
        return A, [[i, j, M[i][j]] for i in range(nr) for j in range(nc) if M[i][j]]
    if fmt == "csr":
        X = sp.csr_matrix(A)
    elif fmt == "csc":
        X = sp.csc_matrix(A)
    elif fmt == "coo":
        X = sp.coo_matrix((np.array([e[2] for e in raw], dtype=dtype),
                           (np.array([e[0] for e in raw], dtype=np.int64), np.array([e[1] for e in raw], dtype=np.int64))),
                          shape=(nr, nc))
        return X, [list(e) for e in raw]
    else:
        major = 0 if fmt == "csr_raw" else 1
        n_major = nr if major == 0 else nc
        groups = [[e for e in raw if e[major] == k] for k in range(n_major)]
        indptr = np.cumsum([0] + [len(g) for g in groups]).astype(np.int32)
        indices = np.array([e[1 - major] for g in groups for e in g], dtype=np.int32)
        data = np.array([e[2] for g in groups for e in g], dtype=dtype)
        cls = sp.csr_matrix if major == 0 else sp.csc_matrix
        X = cls((data, indices, indptr), shape=(nr, nc))
        return X, [list(e) for g in groups for e in g]
    X2 = X.tocoo()
    return X, [[int(i), int(j), int(v)] for i, j, v in zip(X2.row, X2.col, X2.data)]


def _snapshot(np, sp, X):
    if sp.issparse(X):
        if X.format == "coo":
            return [X.row.tolist(), X.col.tolist(), X.data.tolist()]
        return [X.indptr.tolist(), X.indices.tolist(), X.data.tolist()]
    return X.tolist()


def _targets(np, y):
    classes = np.unique(y)
    d = {c: k for k, c in enumerate(classes.tolist())}
    return [d[v] for v in (np.array(y).tolist())]


def run_impl(case):
    import numpy as np, scipy.sparse as sp
    from vectorizers.transformers.info_weight import information_weight, InformationWeightTransformer
    M, dtype = case["M"], np.dtype(case["dtype"])
    nr, nc = len(M), len(M[0])
    y = case["y"] if case["supervised"] else None
    out = {"fmt": {}, "target": _targets(np, case["y"])}

    def fitted(X, yy):
        m = InformationWeightTransformer(prior_strength=case["s"], approx_prior=case["approx"],
                                         weight_power=case["p"], supervision_weight=case["sw"])
        m.fit(X, yy)
        return m

    for fmt in FORMATS:
        r = {}
        try:
            X, entries = _build(np, sp, fmt, M, case["raw"], dtype)
            r["entries"] = entries
            before = _snapshot(np, sp, X)
            Xs = X if sp.issparse(X) else sp.csc_matrix(X)
            r["raw"] = [_fl(v) for v in information_weight(Xs, case["s"], case["approx"])]
            if case["supervised"]:
                r["raw_sup"] = [_fl(v) for v in information_weight(Xs, case["s"], case["approx"],
                                                                   target=np.array(out["target"], dtype=np.int64))]
            m = fitted(X, y)
            w = np.asarray(m.information_weights_, dtype=np.float64)
            r["fit"] = [_fl(v) for v in w]
            T = m.transform(X)
            Td = np.asarray(T.todense()) if sp.issparse(T) else np.asarray(T)
            r["T"] = [[_fl(v) for v in row] for row in Td]
            r["T_shape"] = list(Td.shape)
            if sp.issparse(T):
                Tc = T.tocoo()
                r["T_stored_nonzero"] = sorted([int(i), int(j)] for i, j, v in zip(Tc.row, Tc.col, Tc.data) if v != 0)
            # linearity of the fitted transform: T(a X + b X2) vs a T(X) + b T(X2)
            a, b = case["ab"]
            X2, _ = _build(np, sp, fmt, case["M2"], _canon_raw(case["M2"]), np.dtype("float64"))
            Xf = X.astype(np.float64)
            L = m.transform(a * Xf + b * X2)
            Ld = np.asarray(L.todense()) if sp.issparse(L) else np.asarray(L)
            T2 = m.transform(X2)
            T2d = np.asarray(T2.todense()) if sp.issparse(T2) else np.asarray(T2)
            r["lin_err"] = _fl(np.max(np.abs(Ld - (a * Td + b * T2d))) if Ld.size else 0.0)
            r["lin_scale"] = _fl(np.max(np.abs(Ld)) if Ld.size else 0.0)
            r["input_unchanged"] = (_snapshot(np, sp, X) == before)
            # history: the same estimator re-fitted on a second matrix of the same shape acts as a fresh one
            Xb, _ = _build(np, sp, fmt, case["M2"], _canon_raw(case["M2"]), dtype)
            try:
                fresh = fitted(Xb, y)
                Fb = fresh.transform(Xb)
                m.fit(Xb, y)
                Rb = m.transform(Xb)
                dn = lambda Z: np.asarray(Z.todense()) if sp.issparse(Z) else np.asarray(Z)
                r["refit_same"] = bool(np.array_equal(dn(Fb), dn(Rb), equal_nan=True)
                                       and np.array_equal(np.asarray(fresh.information_weights_), np.asarray(m.information_weights_), equal_nan=True))
            except Exception as e:
                r["refit_exc"] = f"{type(e).__name__}: {e}"[:200]
            # storage width: k * M held in a narrow dtype against the same counts in int64
            if fmt in ("csr", "csc", "coo") and case.get("narrow"):
                k, nd = case["narrow"]
                Mk = [[k * v for v in row] for row in M]
                rawk = [[e[0], e[1], k * e[2]] for e in case["raw"]]
                Xn, _ = _build(np, sp, fmt, Mk, rawk, np.dtype(nd))
                Xw, _ = _build(np, sp, fmt, Mk, rawk, np.dtype("int64"))
                wn = np.asarray(information_weight(Xn, case["s"], case["approx"]), dtype=np.float64)
                ww = np.asarray(information_weight(Xw, case["s"], case["approx"]), dtype=np.float64)
                r["narrow_raw"] = [[_fl(a), _fl(b)] for a, b in zip(wn, ww)]
                r["narrow_rowmax"] = max(sum(row) for row in Mk)
            # scipy's canonical CSC of the same object (correspondence of the model's canonCSC)
            C = sp.csc_matrix(Xs, copy=True)
            C.sort_indices(); C.sum_duplicates()
            r["canon"] = [[[int(i), float(v)] for i, v in zip(C.indices[C.indptr[j]:C.indptr[j + 1]],
                                                                C.data[C.indptr[j]:C.indptr[j + 1]])] for j in range(nc)]
        except Exception as e:
            r["exc"] = f"{type(e).__name__}: {e}"[:200]
        out["fmt"][fmt] = r
    # permutations (CSR and the raw CSC presentation)
    pr, pc = case["perm_r"], case["perm_c"]
    for fmt in ("csr", "csc_raw"):
        r = {}
        try:
            Mr = [M[pr[i]] for i in range(nr)]
            rawr = [[pr.index(e[0]), e[1], e[2]] for e in case["raw"]]
            yr = None if y is None else [case["y"][pr[i]] for i in range(nr)]
            Xr, _ = _build(np, sp, fmt, Mr, rawr, dtype)
            r["rowperm_raw"] = [_fl(v) for v in information_weight(Xr, case["s"], case["approx"])]
            r["rowperm_fit"] = [_fl(v) for v in fitted(Xr, yr).information_weights_]
            Mc = [[row[pc[j]] for j in range(nc)] for row in M]
            rawc = [[e[0], pc.index(e[1]), e[2]] for e in case["raw"]]
            Xc, _ = _build(np, sp, fmt, Mc, rawc, dtype)
            r["colperm_raw"] = [_fl(v) for v in information_weight(Xc, case["s"], case["approx"])]
            r["colperm_fit"] = [_fl(v) for v in fitted(Xc, y).information_weights_]
        except Exception as e:
            r["exc"] = f"{type(e).__name__}: {e}"[:200]
        out["perm_" + fmt] = r
    # np.searchsorted on the columns (the binary search the model re-implements)
    out["search"] = []
    for j in range(nc):
        idx = [i for i in range(nr) if M[i][j]]
        out["search"].append([idx, [int(np.searchsorted(np.array(idx, dtype=np.int32), v)) for v in range(nr + 1)]])
    return out


def _canon_raw(M):
    return [[i, j, v] for i, r in enumerate(M) for j, v in enumerate(r) if v]


# ------------------------------------------------------------------ model side

def _me(f):
    m, e = math.frexp(f)
    return [int(m * (1 << 53)), e - 53]


def _val(me):
    return math.ldexp(me[0], me[1])


def model_requests(case, outs):
    o = outs["normal"]
    if "crash" in o:
        return []
    M = case["M"]
    reqs = []
    for fmt in FORMATS:
        r = o["fmt"][fmt]
        if "entries" not in r:
            continue
        reqs.append({"op": "iw.weights", "nrows": len(M), "ncols": len(M[0]), "entries": r["entries"], "s": _me(case["s"]),
                     "approx": case["approx"], "p": _me(case["p"]), "sw": _me(case["sw"]),
                     "target": o["target"] if case["supervised"] else None, "_fmt": fmt})
    reqs.append({"op": "iw.search", "a": o["search"][0][0], "vs": list(range(len(M) + 1))})
    return reqs


def _close(a, b, tol=1e-9):
    return isinstance(a, (int, float)) and isinstance(b, (int, float)) and abs(a - b) <= tol * max(1.0, abs(a), abs(b))


def _vec_close(a, b, tol=1e-9):
    return len(a) == len(b) and all(_close(x, y, tol) for x, y in zip(a, b))


def _stable_cols(case, target, raw=None):
    """columns whose fitted weight is a stable function of the data: x ** p is not Lipschitz at 0 for p < 1
    (with supervision the exponents are (1 - sw) * p and sw * p), so a column whose KL from the definition is
    exactly 0 (empty column, column proportional to the row / class masses) gets 0 ** p or (1e-16) ** p depending on
    the rounding of that zero.  Those columns are compared for finiteness / sign only.  Decided on the input; for
    the approximate estimate (no closed form) additionally on the size of the raw estimate itself."""
    M = case["M"]
    nr, nc = len(M), len(M[0])
    ok = [v >= 1e-12 for v in _kl_definition(M, case["s"])]
    if case["supervised"]:
        ncls = max(target) + 1
        C = [[sum(M[i][j] for i in range(nr) if target[i] == c) for j in range(nc)] for c in range(ncls)]
        if any(any(r) for r in C) and sum(1 for r in C if any(r)) >= 2:
            ok = [a and v >= 1e-12 for a, v in zip(ok, _kl_definition(C, case["s"]))]
    if case["approx"] and raw is not None:
        ok = [a and isinstance(v, (int, float)) and abs(v) >= 1e-12 for a, v in zip(ok, raw)]
    return ok


def _fit_close(a, b, stable):
    return len(a) == len(b) == len(stable) and all(_close(x, y) for x, y, st in zip(a, b, stable) if st)


def compare(case, outs, resps):
    o = outs["normal"]
    if "crash" in o:
        return []
    d = []
    fmts = [f for f in FORMATS if "entries" in o["fmt"][f]]
    if len(resps) != len(fmts) + 1:
        return [f"expected {len(fmts) + 1} model responses, got {len(resps)}"]
    for fmt, r in zip(fmts, resps):
        im = o["fmt"][fmt]
        if "bad" in r:
            d.append(f"model rejected request: {r['bad']}")
            continue
        if "exc" in im:
            d.append(f"[{fmt}] impl raised {im['exc']}")
            continue
        canon = [[[p[0], _val(p[1])] for p in col] for col in r["canon"]]
        if canon != im["canon"]:
            d.append(f"[{fmt}] canonical CSC: scipy {im['canon']} != model {canon}")
        if not im["input_unchanged"]:
            d.append(f"[{fmt}] the model is a pure function of the matrix, but the call changed the caller's own arrays")
        for key in ("raw", "raw_sup", "fit"):
            if key not in im:
                continue
            m = r[key]
            if m is None:
                continue
            if "ok" not in m:
                if all(isinstance(v, (int, float)) for v in im[key]):
                    d.append(f"[{fmt}] {key}: impl {im[key]} but model refuses ({m})")
                continue
            mv = [_val(x) for x in m["ok"]]
            if key == "fit":
                if not _fit_close(im[key], mv, _stable_cols(case, o["target"], im.get("raw"))):
                    d.append(f"[{fmt}] fit: impl {im[key]} != Float model {mv}")
            elif not _vec_close(im[key], mv):
                d.append(f"[{fmt}] {key}: impl {im[key]} != Float model {mv}")
    sr = resps[-1]
    exp = o["search"][0][1]
    got = [x.get("ok") for x in sr.get("idx", [])]
    if got != exp:
        d.append(f"searchsorted({o['search'][0][0]}, 0..n) numpy {exp} != model {got}")
    return d


# ------------------------------------------------------------------ oracle (the property, on the impl)

def _F(key, msg):
    return {"key": key, "msg": msg}


def _kl_definition(M, s):
    """float64 KL(posterior(col) || baseline) from the definition in the property text"""
    nr, nc = len(M), len(M[0])
    rs = [float(sum(r)) for r in M]
    tot = sum(rs)
    b = [x / tot for x in rs]
    out = []
    for j in range(nc):
        col = [float(M[i][j]) for i in range(nr)]
        n = sum(col) + s
        kl = 0.0
        for i in range(nr):
            p = (col[i] + s * b[i]) / n
            if p > 0:       # (b[i] = 0 means an empty row: then col[i] = 0 and p = 0)
                kl += p * math.log(p / b[i])
        out.append(kl)
    return out


def _isnum(v):
    return isinstance(v, (int, float)) and not isinstance(v, bool)


def oracle(case, outs):
    o = outs["normal"]
    if "crash" in o:
        return [_F("iw.crash", f"process terminated: {o['crash']}")]
    M = case["M"]
    nr, nc = len(M), len(M[0])
    fails = []
    kl = _kl_definition(M, case["s"])
    degenerate = all(abs(v) < 1e-13 for v in kl)
    tgt = o["target"]
    masses = {}
    for i, c in enumerate(tgt):
        masses[c] = masses.get(c, 0) + sum(M[i])
    # supervised weights are KL divergences on the class-aggregated matrix; identically zero there = 0/0 again
    ncls = max(tgt) + 1
    C = [[sum(M[i][j] for i in range(nr) if tgt[i] == c) for j in range(nc)] for c in range(ncls)]
    sup_ok = sum(1 for v in masses.values() if v > 0) >= 2 and not all(abs(v) < 1e-13 for v in _kl_definition(C, case["s"]))
    ref = None
    for fmt in FORMATS:
        r = o["fmt"][fmt]
        tag = f"[{fmt}, s={case['s']}, approx={case['approx']}, p={case['p']}, supervised={case['supervised']}]"
        if "exc" in r:
            fails.append(_F("iw.raises", f"{tag} {r['exc']} for M={M} stored as {r.get('entries')}"))
            continue
        raw = r["raw"]
        if not all(_isnum(v) for v in raw):
            fails.append(_F("iw.raw-not-finite", f"{tag} information_weight = {raw} for M={M}"))
            continue
        if not case["approx"]:
            # the defining identity, whatever the storage format
            if not _vec_close(raw, kl):
                fails.append(_F("iw.kl-identity", f"{tag} weights {raw} != KL from the definition {kl}; M={M} stored as {r['entries']}"))
            if any(v < -1e-12 for v in raw):
                fails.append(_F("iw.kl-negative", f"{tag} weights {raw}"))
        # (layout independence is claimed for the exact prior; the approximate kernel counts *stored* entries,
        # so explicitly stored zeros legitimately change its estimate)
        if ref is None:
            ref = (fmt, raw, r.get("fit"))
        elif not case["approx"] and not _vec_close(raw, ref[1]):
            fails.append(_F("iw.layout-dependent", f"{tag} weights {raw} differ from the {ref[0]} presentation {ref[1]}; stored as {r['entries']}"))
        if case["supervised"] and sup_ok and not all(_isnum(v) for v in r.get("raw_sup", [])):
            fails.append(_F("iw.raw-sup-not-finite", f"{tag} supervised information_weight = {r.get('raw_sup')} for M={M} y={case['y']}"))
        # the mean normalisation needs a non-zero mean: decided on the input for the exact prior and the supervised
        # weights (KL from the definition not identically zero); the approximate estimate has no closed form to
        # decide it on, there an exactly-zero mean of the estimates themselves is skipped
        fit_defined = not degenerate and (not case["supervised"] or sup_ok) and \
            (not case["approx"] or abs(sum(raw)) > 1e-300)
        w = r["fit"]
        if fit_defined:
            if not all(_isnum(v) for v in w):
                fails.append(_F("iw.fit-not-finite", f"{tag} information_weights_ = {w} (raw {raw}, supervised raw {r.get('raw_sup')}) for M={M} y={case['y']}"))
                continue
            if any(v < 0 for v in w):
                fails.append(_F("iw.fit-negative", f"{tag} information_weights_ = {w}"))
            if not case["approx"] and ref[2] is not None and all(_isnum(v) for v in ref[2]) and \
                    not _fit_close(w, ref[2], _stable_cols(case, tgt, raw)):
                fails.append(_F("iw.fit-layout-dependent", f"{tag} fitted weights {w} differ from {ref[0]}: {ref[2]}"))
            # transform = X @ diag(w): fixed column scaling, zero preserving, linear
            T = r["T"]
            if r["T_shape"] != [nr, nc]:
                fails.append(_F("iw.transform-shape", f"{tag} transform shape {r['T_shape']}"))
                continue
            bad = [(i, j) for i in range(nr) for j in range(nc)
                   if not _close(T[i][j], M[i][j] * w[j], 1e-12)]
            if bad:
                i, j = bad[0]
                fails.append(_F("iw.transform-not-column-scaling", f"{tag} transform(X)[{i}][{j}] = {T[i][j]} != {M[i][j]} * {w[j]}"))
            created = [(i, j) for i in range(nr) for j in range(nc) if M[i][j] == 0 and T[i][j] != 0]
            created += [tuple(p) for p in r.get("T_stored_nonzero", []) if M[p[0]][p[1]] == 0]
            if created:
                fails.append(_F("iw.transform-creates-nonzero", f"{tag} non-zero created at {created[:3]}"))
            if not _isnum(r["lin_err"]) or r["lin_err"] > 1e-9 * max(1.0, r["lin_scale"] if _isnum(r["lin_scale"]) else 1.0):
                fails.append(_F("iw.transform-not-linear", f"{tag} |T(aX+bY) - aT(X) - bT(Y)| = {r['lin_err']}"))
    # history and storage width
    for fmt in FORMATS:
        r = o["fmt"].get(fmt, {})
        if r.get("refit_same") is False:
            fails.append(_F("iw.refit-differs-from-fresh", f"[{fmt}] estimator fitted on M then re-fitted on M2={case['M2']} differs from a fresh estimator fitted on M2"))
        if "refit_exc" in r and "exc" not in r:
            fails.append(_F("iw.raises.refit", f"[{fmt}] {r['refit_exc']}"))
        nr_ = r.get("narrow_raw")
        if nr_ and all(_isnum(b) for a, b in nr_) and not all(_isnum(a) and _close(a, b, 1e-5 if case['narrow'][1] == 'float32' else 1e-9) for a, b in nr_):
            fails.append(_F("iw.storage-width", f"[{fmt}] {case['narrow'][0]} * M stored as {case['narrow'][1]} (largest row total {r['narrow_rowmax']}) gives weights "
                            f"{[a for a, b in nr_]}, as int64 {[b for a, b in nr_]}; M={M}"))
    # permutations
    pc = case["perm_c"]
    for fmt in ("csr", "csc_raw"):
        base = o["fmt"][fmt]      # same presentation (same stored entries), rows / columns permuted
        if "raw" in base and all(_isnum(v) for v in base["raw"]):
            r = o["perm_" + fmt]
            if "exc" in r:
                fails.append(_F("iw.raises.perm", f"{r['exc']} on a permuted copy of M={M}"))
                continue
            if not _vec_close(r["rowperm_raw"], base["raw"]):
                fails.append(_F("iw.row-permutation", f"[{fmt}] weights {r['rowperm_raw']} after row permutation {case['perm_r']} != {base['raw']}; M={M}"))
            exp = [base["raw"][pc[j]] for j in range(nc)]
            if not _vec_close(r["colperm_raw"], exp):
                fails.append(_F("iw.column-permutation", f"[{fmt}] weights {r['colperm_raw']} after column permutation {pc} != {exp}; M={M}"))
            fit = base.get("fit")
            if fit and all(_isnum(v) for v in fit) and not degenerate and (not case["supervised"] or sup_ok):
                st = _stable_cols(case, tgt, base["raw"])
                if not _fit_close(r["rowperm_fit"], fit, st):
                    fails.append(_F("iw.row-permutation.fit", f"[{fmt}] fitted {r['rowperm_fit']} != {fit}"))
                if not _fit_close(r["colperm_fit"], [fit[pc[j]] for j in range(nc)], [st[pc[j]] for j in range(nc)]):
                    fails.append(_F("iw.column-permutation.fit", f"[{fmt}] fitted {r['colperm_fit']} != permuted {fit}"))
    return fails


def nontrivial(case, outs):
    M = case["M"]
    nr, nc = len(M), len(M[0])
    empty = any(not any(r) for r in M) or any(not any(M[i][j] for i in range(nr)) for j in range(nc))
    multi = any(sum(1 for i in range(nr) if M[i][j]) >= 2 for j in range(nc))
    raw = case["raw"]
    noncanon = any(e[2] == 0 for e in raw) or len({(e[0], e[1]) for e in raw}) < len(raw)
    return empty and multi and noncanon


def stats(case, outs):
    M = case["M"]
    nr, nc = len(M), len(M[0])
    t = ["approx" if case["approx"] else "exact", "supervised" if case["supervised"] else "unsupervised",
         f"p.{case['p']}", case["dtype"], "rows.le8" if nr <= 8 else "rows.9-40"]
    if any(not any(r) for r in M):
        t.append("empty-row")
    if any(not any(M[i][j] for i in range(nr)) for j in range(nc)):
        t.append("empty-column")
    raw = case["raw"]
    if any(e[2] == 0 for e in raw):
        t.append("explicit-zero")
    if len({(e[0], e[1]) for e in raw}) < len(raw):
        t.append("duplicate-entries")
    if all(abs(v) < 1e-13 for v in _kl_definition(M, case["s"])):
        t.append("degenerate-all-zero-weights")
    o = outs["normal"]
    if "target" in o and case["supervised"]:
        masses = {}
        for i, c in enumerate(o["target"]):
            masses[c] = masses.get(c, 0) + sum(M[i])
        if any(v == 0 for v in masses.values()):
            t.append("class-without-mass")
    return t


def shrink_candidates(case):
    M, M2 = case["M"], case["M2"]
    nr, nc = len(M), len(M[0])

    def rebuild(Mn, M2n, yn):
        c = dict(case, M=Mn, M2=M2n, y=yn, raw=_canon_raw(Mn), raw2=_canon_raw(Mn),
                 perm_r=list(reversed(range(len(Mn)))), perm_c=list(reversed(range(len(Mn[0])))))
        return c
    for i in range(nr):
        if nr > 1:
            Mn = M[:i] + M[i + 1:]
            if any(any(r) for r in Mn):
                yield rebuild(Mn, M2[:i] + M2[i + 1:], case["y"][:i] + case["y"][i + 1:])
    for j in range(nc):
        if nc > 1:
            Mn = [r[:j] + r[j + 1:] for r in M]
            if any(any(r) for r in Mn):
                yield rebuild(Mn, [r[:j] + r[j + 1:] for r in M2], case["y"])
