"""Shared by harness/c03.py and harness/c14.py: running the co-occurrence estimators, the
independent reference (written from the property texts, *not* from the code), conversion of the
implementation's intermediates into requests for the Lean model.

Case format (JSON):
  kind     "token" | "timed" | "multi" | "ngram"
  X        token: [[tok]]  timed: [[[tok, t]]]  multi: [[[tok]]]  (tok = short strings without '_')
  win      [{"radius": r, "orient": "before"|"after"|"directional", "fn": "fixed"|"variable",
             "mix": number, "kargs": {"offset": o, "normalize": b, "power": p, "delta": d}}]   (same kargs keys
             in every window: numba needs homogeneous argument tuples)
  kernel   "flat" | "harmonic" | "geometric"
  nw       normalize_windows
  prune    {min_occurrences: k, ...} pruning arguments handed to the estimator
  dict     None | {tok: idx} supplied token_dictionary
  mask     None | mask_string ; nullify: bool ; nsize: n-gram size ; shifts: [time offsets] (timed)
"""
import math
from collections import defaultdict
from fractions import Fraction

FAMILY_OF = {"token": "TokenCooccurrenceVectorizer", "timed": "TimedTokenCooccurrenceVectorizer",
             "multi": "MultiSetCooccurrenceVectorizer", "ngram": "NgramCooccurrenceVectorizer"}


# ------------------------------------------------------------------ configuration helpers

def expanded_blocks(case):
    """(window, orientation) pairs in the declared order: 'directional' = before then after."""
    out = []
    for i, w in enumerate(case["win"]):
        for o in (["before", "after"] if w["orient"] == "directional" else [w["orient"]]):
            ka = w.get("kargs", {})
            out.append({"i": i, "pre": o == "before", "radius": w["radius"], "fn": w.get("fn", "fixed"),
                        "mix": w.get("mix", 1), "offset": ka.get("offset", 0),
                        "normalize": ka.get("normalize", False), "power": ka.get("power", 0.9),
                        "delta": ka.get("delta")})
    return out


def integer_valued(case):
    """flat kernel, no normalisation of any kind, integer mix weights: every cell is an integer"""
    return (case["kernel"] == "flat" and not case["nw"] and
            all(float(w.get("mix", 1)).is_integer() and not w.get("kargs", {}).get("normalize", False)
                for w in case["win"]))


def shift_X(case, shift):
    if case["kind"] != "timed" or not shift:
        return case["X"]
    return [[[t, x + shift] for t, x in s] for s in case["X"]]


# ------------------------------------------------------------------ implementation side

def build_estimator(case):
    import vectorizers
    cls = getattr(vectorizers, FAMILY_OF[case["kind"]])
    win = case["win"]
    kw = dict(window_radii=[w["radius"] for w in win],
              window_orientations=[w["orient"] for w in win],
              window_functions=[w.get("fn", "fixed") for w in win],
              kernel_functions=[case["kernel"] for _ in win],
              mix_weights=[w.get("mix", 1) for w in win],
              normalize_windows=case["nw"])
    if any(w.get("kargs") for w in win):
        kw["kernel_args"] = [dict(w.get("kargs", {})) for w in win]
    kw.update(case.get("prune", {}))
    if case.get("excluded"):
        kw["excluded_tokens"] = set(case["excluded"])
    if case.get("dict") is not None:
        kw["token_dictionary"] = dict(case["dict"])
    if case.get("mask") is not None:
        kw["mask_string"] = case["mask"]
        kw["nullify_mask"] = bool(case.get("nullify"))
    if case["kind"] == "ngram":
        kw["ngram_size"] = case.get("nsize", 2)
    return cls(**kw), kw


def to_input(case, X):
    if case["kind"] == "timed":
        return [[(t, x) for t, x in s] for s in X]
    return X


def cells_of(M):
    M = M.tocoo()
    acc = defaultdict(float)
    for r, c, v in zip(M.row, M.col, M.data):
        acc[(int(r), int(c))] += float(v)
    return sorted([r, c, v] for (r, c), v in acc.items() if v != 0)


def _seqs_json(kind, seqs):
    if kind == "timed":
        return [[[int(p[0]), float(p[1])] for p in s] for s in seqs]
    if kind == "multi":
        return [[[int(t) for t in m] for m in d] for d in seqs]
    return [[int(t) for t in s] for s in seqs]


def exc_str(e):
    return f"{type(e).__name__}: {str(e)[:160]}"


def fit_one(case, X, want_transform=True):
    """fit_transform on X; everything observable the checks need, JSON-serialisable."""
    import numpy as np
    out = {}
    try:
        m, kw = build_estimator(case)
    except Exception as e:
        return {"init_exc": exc_str(e)}
    Xin = to_input(case, X)
    user_dict = kw.get("token_dictionary")
    user_dict_before = None if user_dict is None else dict(user_dict)
    if case.get("refit_first"):
        # the same estimator instance is first fitted on other data: the definition must hold for a re-fit as
        # for a first fit (nothing may be carried over from one fit to the next)
        try:
            m.fit(to_input(case, case["refit_first"]))
            out["refitted"] = True
        except Exception:
            out["refitted"] = False
    try:
        M = m.fit_transform(Xin)
    except Exception as e:
        return {"fit_exc": exc_str(e)}
    out["shape"] = [int(M.shape[0]), int(M.shape[1])]
    out["cells"] = cells_of(M)
    out["tokens"] = sorted(([str(k), int(v)] for k, v in m.token_label_dictionary_.items()), key=lambda e: (e[1], e[0]))
    out["token_index"] = sorted([int(k), str(v)] for k, v in m.token_index_dictionary_.items())
    out["cols"] = sorted(([str(k), int(v)] for k, v in m.column_label_dictionary_.items()), key=lambda e: (e[1], e[0]))
    out["col_index"] = sorted([int(k), str(v)] for k, v in m.column_index_dictionary_.items())
    if case["kind"] == "ngram":
        out["rows"] = sorted(([str(k), int(v)] for k, v in m.ngram_label_dictionary_.items()), key=lambda e: (e[1], e[0]))
        out["ndict"] = sorted(([[int(t) for t in k], int(v)] for k, v in m._raw_ngram_dictionary_.items()), key=lambda e: e[1])
        out["mask_ngram_index"] = None if m._mask_ngram_index is None else int(m._mask_ngram_index)
    else:
        out["rows"] = out["tokens"]
    out["wla"] = [[int(x) for x in row] for row in np.asarray(m._window_len_array)]
    out["nfreq"] = int(len(m._token_frequencies_))
    out["mask_index"] = None if m._mask_index is None else int(m._mask_index)
    out["delta_mean"] = None if getattr(m, "delta_mean_", None) is None else float(m.delta_mean_)
    out["user_dict_changed"] = (user_dict is not None and user_dict != user_dict_before)
    # the sequences the kernels saw: the estimator's own preprocessing call, repeated
    try:
        p = {k: getattr(m, k) for k in ("max_unique_tokens", "min_occurrences", "max_occurrences", "min_frequency",
                                        "max_frequency", "min_document_occurrences", "max_document_occurrences",
                                        "min_document_frequency", "max_document_frequency")}
        seqs, d2, _, freq2 = m._preprocessing(Xin, m.token_dictionary, ignored_tokens=m.excluded_tokens,
                                               excluded_token_regex=m.excluded_token_regex, masking=m.mask_string, **p)
        out["seqs"] = _seqs_json(case["kind"], seqs)
        out["pre_dict"] = sorted(([str(k), int(v)] for k, v in d2.items()), key=lambda e: (e[1], e[0]))
    except Exception as e:
        out["pre_exc"] = exc_str(e)
    if want_transform:
        fitted_before = dict(m.token_label_dictionary_)
        try:
            out["tr_cells"] = cells_of(m.transform(Xin))
            out["tr_shape"] = [int(x) for x in m.transform(Xin).shape]
        except Exception as e:
            out["tr_exc"] = exc_str(e)
        out["fitted_dict_changed"] = dict(m.token_label_dictionary_) != fitted_before
    return out


# ------------------------------------------------------------------ the reference (from the property text)

def masked_sequences(case, X, kept, mask):
    """C14: with mask_string unset removed tokens are deleted, otherwise replaced in place."""
    def keep(tok):
        return tok in kept

    def redo(seq, tokof, rebuild):
        if mask is None:
            return [x for x in seq if keep(tokof(x))]
        return [x if keep(tokof(x)) else rebuild(x) for x in seq]
    if case["kind"] == "timed":
        return [redo(s, lambda p: p[0], lambda p: [mask, p[1]]) for s in X]
    if case["kind"] == "multi":
        return [[redo(m, lambda t: t, lambda t: mask) for m in d] for d in X]
    return [redo(s, lambda t: t, lambda t: mask) for s in X]


def base_weight(case, b, d, dt, delta):
    """kernel weight of a context at distance d (>= 1) / time difference dt"""
    k = case["kernel"]
    if k == "flat":
        return 1.0
    if k == "harmonic":
        return 1.0 / d
    if case["kind"] == "timed":
        return float(b["power"]) ** (dt / delta)
    return float(b["power"]) ** d


class Ref:
    def __init__(self):
        self.val = defaultdict(float)
        self.cnt = defaultdict(int)

    def add(self, key, v):
        if v > 0:
            self.val[key] += v
            self.cnt[key] += 1


def reference(case, X, o, use_nullify=None):
    """The matrix as the property defines it, keyed by (row label, column label).
    Inputs taken from the implementation: the kept vocabulary (labels), for the n-gram vectorizer the
    kept n-gram rows, for 'variable' windows the radius table, for timed kernels without an explicit
    delta the fitted delta_mean_."""
    mask = case.get("mask")
    nullify = bool(case.get("nullify")) if use_nullify is None else use_nullify
    labels = [t for t, _ in o["tokens"]]
    index = {t: i for t, i in o["tokens"]}
    kept = set(labels) - ({mask} if mask is not None else set())
    seqs = masked_sequences(case, X, kept, mask)
    blocks = expanded_blocks(case)
    ref = Ref()

    def radius(bi, b, row_index, row_is_mask):
        if b["fn"] == "variable":
            return o["wla"][bi][row_index]
        return 0 if (nullify and row_is_mask) else b["radius"]

    def collabel(b, tok):
        return ("pre_" if b["pre"] else "post_") + str(b["i"]) + "_" + str(tok)

    if case["kind"] == "multi":
        for doc in seqs:
            for d, mset in enumerate(doc):
                for w, tgt in enumerate(mset):
                    if nullify and tgt == mask:
                        continue      # the mask contributes nothing: no row of its own
                    contrib = []      # (block, context token, weight)
                    for bi, b in enumerate(blocks):
                        rho = radius(bi, b, index[tgt], mask is not None and tgt == mask)
                        ws = []
                        for k in range(0, rho + 1):
                            dd = d - k if b["pre"] else d + k
                            if dd < 0 or dd >= len(doc):
                                break
                            for w2, ctx in enumerate(doc[dd]):
                                if k == 0 and w2 == w:
                                    continue                      # the target occurrence itself
                                if k < b["offset"] or (nullify and ctx == mask):
                                    wt = 0.0
                                elif case["kernel"] == "flat":
                                    wt = 1.0
                                else:
                                    wt = float(b["power"]) ** (k - b["offset"])
                                ws.append((ctx, wt))
                        z = sum(x for _, x in ws)
                        if b["normalize"] and z > 0:
                            ws = [(c, x / z) for c, x in ws]
                        contrib += [(b, c, b["mix"] * x) for c, x in ws]
                    tot = sum(x for _, _, x in contrib) if case["nw"] else 0
                    if tot <= 0:
                        tot = 1
                    for b, c, x in contrib:
                        ref.add((tgt, collabel(b, c)), x / tot)
        return ref

    n = case.get("nsize", 1) if case["kind"] == "ngram" else 1
    rowset = {t for t, _ in o["rows"]}
    rowindex = {t: i for t, i in o["rows"]}
    for s in seqs:
        toks = [p[0] for p in s] if case["kind"] == "timed" else s
        times = [p[1] for p in s] if case["kind"] == "timed" else None
        for k in range(0, len(toks) - n + 1):
            if case["kind"] == "ngram":
                row = "_".join(str(t) for t in toks[k:k + n])
                if row not in rowset:
                    continue
                first, last = k, k + n - 1
                row_is_mask = all(t == mask for t in toks[k:k + n]) and mask is not None
            else:
                row = toks[k]
                first = last = k
                row_is_mask = mask is not None and row == mask
            contrib = []
            for bi, b in enumerate(blocks):
                rho = radius(bi, b, rowindex[row], row_is_mask)
                anchor = first if b["pre"] else last
                ws = []
                for d in range(1, rho + 1):
                    j = anchor - d if b["pre"] else anchor + d
                    if j < 0 or j >= len(toks):
                        break                                   # never past the sequence boundary
                    ctx = toks[j]
                    if d <= b["offset"] or (nullify and ctx == mask):
                        wt = 0.0
                    else:
                        dt = abs(times[j] - times[anchor]) if times is not None else None
                        delta = b["delta"] if b["delta"] is not None else o.get("delta_mean")
                        wt = base_weight(case, b, d, dt, delta)
                    ws.append((ctx, wt))
                z = sum(x for _, x in ws)
                if b["normalize"] and z > 0:
                    ws = [(c, x / z) for c, x in ws]
                contrib += [(b, c, b["mix"] * x) for c, x in ws]
            tot = sum(x for _, _, x in contrib) if case["nw"] else 0
            if tot <= 0:
                tot = 1
            for b, c, x in contrib:
                ref.add((row, collabel(b, c)), x / tot)
    return ref


def compare_with_reference(case, o, cells, ref, what, keyprefix):
    """impl cells (through its own label dictionaries) vs the reference; returns oracle failures."""
    fails = []
    rows = {i: t for t, i in o["rows"]}
    cols = {i: t for i, t in o["col_index"]}
    got = {}
    for r, c, v in cells:
        if r not in rows or c not in cols:
            fails.append({"key": f"{keyprefix}.cell-without-label",
                          "msg": f"{what}: cell ({r},{c})={v} has no row/column label (rows {len(rows)}, cols {len(cols)})"})
            continue
        got[(rows[r], cols[c])] = v
    exact = integer_valued(case)
    for key in sorted(set(got) | set(ref.val), key=str):
        g, e = got.get(key, 0.0), ref.val.get(key, 0.0)
        if exact:
            ok = (g == e)
        else:
            tol = 1e-5 * max(1.0, math.sqrt(ref.cnt.get(key, 1)))
            ok = abs(g - e) <= tol * max(abs(e), abs(g)) + 1e-9
        if not ok:
            fails.append({"key": f"{keyprefix}.cell",
                          "msg": f"{what}: cell {key} = {g!r}, definition gives {e!r} ({ref.cnt.get(key, 0)} contributions)"})
            if len(fails) >= 3:
                break
    return fails


def layout_failures(case, o, keyprefix):
    """each (window, orientation) pair occupies its own block of n columns, in the declared order"""
    fails = []
    toks = o["tokens"]
    n = len(toks)
    blocks = expanded_blocks(case)
    if o["shape"] != [len(o["rows"]), n * len(blocks)]:
        fails.append({"key": f"{keyprefix}.shape", "msg": f"shape {o['shape']} expected {[len(o['rows']), n * len(blocks)]}"})
    cold = {t: i for t, i in o["cols"]}
    for k, b in enumerate(blocks):
        for t, i in toks:
            lab = ("pre_" if b["pre"] else "post_") + str(b["i"]) + "_" + t
            if cold.get(lab) != i + k * n:
                fails.append({"key": f"{keyprefix}.block-layout",
                              "msg": f"column {lab!r} has index {cold.get(lab)}, block {k} expects {i + k * n}"})
                return fails
    if len(cold) != n * len(blocks):
        fails.append({"key": f"{keyprefix}.block-layout", "msg": f"{len(cold)} column labels for {n * len(blocks)} columns"})
    return fails


# ------------------------------------------------------------------ model requests

def rat(x):
    f = Fraction(x)
    return f"{f.numerator}/{f.denominator}"


def model_blocks(case, o):
    """block records for the Lean driver; None when the model cannot evaluate the case exactly"""
    out = []
    for bi, b in enumerate(expanded_blocks(case)):
        kern = case["kernel"]
        rec = {"rev": b["pre"], "mix": rat(b["mix"]), "mask": o["mask_index"], "normalize": bool(b["normalize"]),
               "offset": int(b["offset"]), "radii": o["wla"][bi], "power": rat(float(b["power"]))}
        if any(r < 0 for r in o["wla"][bi]):
            return None
        if case["kind"] == "timed":
            rec["kernel"] = "t" + kern
            if kern == "geometric":
                delta = b["delta"] if b["delta"] is not None else o.get("delta_mean")
                if not delta:
                    return None
                rec["delta"] = rat(float(delta))
        elif case["kind"] == "multi":
            rec["kernel"] = "m" + kern
        else:
            rec["kernel"] = kern
        out.append(rec)
    return out


def timed_exact(case, o, blocks):
    if case["kind"] != "timed" or case["kernel"] != "geometric":
        return True
    for b in blocks:
        d = Fraction(b["delta"])
        if d <= 0:
            return False
        for s in o["seqs"]:
            for _, t in s:
                if (Fraction(t) / d).denominator != 1 or abs(Fraction(t) / d) > 400:
                    return False
    return True


def cooc_request(case, o, spec=False):
    blocks = model_blocks(case, o)
    if blocks is None or "seqs" not in o or not timed_exact(case, o, blocks):
        return None
    n = len(o["tokens"])
    base = {"n": n, "nw": bool(case["nw"]), "blocks": blocks}
    if case["kind"] == "multi":
        return dict(base, op="cooc.multi", docs=o["seqs"], spec=bool(spec))
    if case["kind"] == "ngram":
        return dict(base, op="cooc.ngram", seqs=o["seqs"], nsize=case.get("nsize", 2), ndict=o["ndict"],
                    spec=bool(spec))
    if case["kind"] == "timed":
        seqs = [[[t, rat(x)] for t, x in s] for s in o["seqs"]]
    else:
        seqs = [[[t, "0"] for t in s] for s in o["seqs"]]
    return dict(base, op="cooc.seq", seqs=seqs, nrows=len(o["rows"]), spec=bool(spec))


def compare_cells(case, cells, resp, what):
    """model cells (exact rationals) vs implementation cells: the cells accumulated by the procedural model
    (`cells`) and, when the driver evaluated it, the declarative definition itself (`spec_cells`: Cooc.spec /
    specNgram / specMulti of Model/Cooc.lean, the right-hand sides of the *_events_eq_spec theorems)"""
    if "bad" in resp:
        return [f"{what}: model rejected the request: {resp['bad']}"]
    if "err" in resp:
        return [f"{what}: model raises {resp['err']} where the implementation returned a matrix"]
    got = {(r, c): v for r, c, v in cells}
    exact = integer_valued(case)
    d = []
    sides = [("model", resp["cells"])]
    if resp.get("spec_cells") is not None:
        sides.append(("Lean definition (spec)", resp["spec_cells"]))
    for name, mcells in sides:
        mod = {(r, c): Fraction(v) for r, c, v in mcells}
        k = 0
        for key in sorted(set(mod) | set(got)):
            g, e = got.get(key, 0.0), mod.get(key, Fraction(0))
            if exact:
                ok = Fraction(g) == e
            else:
                ok = abs(g - float(e)) <= 1e-4 * max(abs(g), abs(float(e))) + 1e-9
            if not ok:
                d.append(f"{what}: cell {key}: impl {g!r} {name} {float(e)!r}")
                k += 1
                if k >= 3:
                    break
    if resp.get("spec_ok") is False:
        d.append(f"{what}: model: procedural events and declarative spec disagree")
    return d
