"""C16 — LZ compression rows count each string's own parse phrases.
Model: lean/VecModel/Model/LZ.lean, theorems: lean/VecModel/Props/C16.lean."""
import itertools
from . import twinutil

PROP = "C16"
# generated twins (DESIGN §11.3): lempel_ziv_based_encode (all strings over {a,b} up to length 7 x max_size {1,2,3,100} x
# base dictionaries {}, {a:1,b:1}) and murmurhash (all keys over {0,97,255} up to length 6 x seeds {0,7,2^31-2})
# regenerated from the repository's current source vs LZ.encode / LZ.murmur inside Lean
TWIN_CHECKS = [{"op": "twin.lz_exhaustive", "n": 7, "mlen": 6}]
RULE = ("corpora of 1-6 strings over small alphabets (so that phrases repeat across strings): empty, one-character, "
        "highly repetitive ('a'*n, 'ab'*n), random, unicode (BMP and astral code points), duplicates of a string in one "
        "corpus; max_dict_size in {2,3,4,5,8,65536} (small values hit the cap); max_columns in {None,2,3,16,1000,65536}; "
        "base_dictionary None / single characters (LZW style) / multi-character phrases / zero counts / the empty phrase "
        "(for hashed runs the base phrases are hashed with the run's own seeded hash function); integer random_state; "
        "transform inputs = training strings + strings with unseen phrases + '' , each transformed twice (the second "
        "result and the fitted dictionary must not have moved); ~30% of the estimators had an earlier fit with another "
        "corpus, hash width and cap before set_params + fit (must behave as a fresh estimator); plus direct calls of the njit "
        "murmurhash on random code-point arrays (>= 10^4 keys per run, lengths 0..13, code points up to 0x10FFFF). "
        "Non-trivial = a transform input with a phrase that has no fitted column, or the cap reached, or a hash "
        "collision between two phrases of the corpus, or a murmur batch.")
ASSUMPTIONS = [
    "counts/codes are unbounded Nat in the model (int64/intc/float32 in the code; counts stay far below 2^24)",
    "hash seeds are the non-negative int32 drawn by fit_transform from random_state; max_columns < 2^31",
    "'phrases of the corpus' in the relabelling clause = every phrase the parse examines (incl. candidates skipped at the "
    "cap) and the base dictionary's phrases: a skipped candidate colliding with a dictionary phrase changes the parse",
    "base_dictionary keys are distinct (a Python dict); for hashed runs the user supplies hashed keys — the harness hashes "
    "base phrases with make_hash(max_columns, seed) exactly as the estimator would",
    "murmurhash is modelled over Nat with 32-bit masks; int64 wrap-around of unmasked products does not affect the masked bits",
]
NWORKERS = {"quick": 4, "thorough": 8}
MAX_INT32 = 2 ** 31 - 1


def _cp(s):
    return [ord(c) for c in s]


def _fit(X, Xt, cap=65536, mc=None, base=None, rs=0):
    return {"kind": "fit", "X": X, "Xt": Xt, "max_dict_size": cap, "max_columns": mc, "base": base, "random_state": rs}


def corpus():
    cs = []
    X0 = ["abababab", "", "a", "aaaaaaa", "héé\U0001f600é"]
    Xt0 = ["abzzab", "ab", "", "zzzz", "abababab"]
    for mc in (None, 2, 16, 65536):
        for cap in (65536, 3, 2):
            for base in (None, [["a", 2], ["b", 0]], [["", 1], ["ab", 3]]):
                cs.append(_fit(X0, Xt0, cap, mc, base, 3))
    cs.append(_fit(["abcabcabcabc"], ["abd", "c"], 65536, None, None, 0))
    cs.append(_fit([""], ["", "a"], 65536, None, None, 0))
    cs.append(_fit([], ["a"], 65536, None, None, 0))
    cs.append(_fit(["aaaa", "aaaa"], ["aaaaaaaaaaaa"], 4, 2, None, 1))
    # the estimator had an earlier life with a wide hash / another cap / another corpus
    big = ["".join("abcdefgh"[(i * i + 3 * j) % 8] for j in range(40)) for i in range(4)]
    for mc in (None, 8, 16):
        c = _fit(big, ["abzzab", "hgfedcba" * 3, ""], 65536, mc, None, 0)
        c["prefit"] = {"X": ["xyzxyzxyz", "abab"], "max_columns": 4096, "max_dict_size": 3}
        cs.append(c)
    cs.append({"kind": "murmur", "seed": 7, "keys": [[], [1], [1, 2], [1, 2, 3], [97, 98, 99, 100, 101], [0, 0, 0, 0],
                                                    [0x10FFFF] * 9, [255, 256, 65535, 65536]]})
    return cs


_ALPHAS = ["ab", "ab", "abc", "a", "abé", "中\U0001f600a", "abcdefgh"]


def _rand_string(rng, alpha, maxlen):
    r = rng.random()
    if r < 0.08:
        return ""
    if r < 0.16:
        return rng.choice(alpha)
    if r < 0.30:
        return rng.choice(alpha) * rng.randint(2, maxlen)
    if r < 0.42:
        u = "".join(rng.choice(alpha) for _ in range(rng.randint(1, 3)))
        return (u * maxlen)[:rng.randint(2, maxlen)]
    return "".join(rng.choice(alpha) for _ in range(rng.randint(1, maxlen)))


def _rand_base(rng, alpha):
    r = rng.random()
    if r < 0.4:
        return None
    if r < 0.6:
        return [[c, rng.choice([0, 1, 1, 2, 5])] for c in dict.fromkeys(alpha)]
    ph = []
    for _ in range(rng.randint(1, 4)):
        ph.append("".join(rng.choice(alpha + "z") for _ in range(rng.randint(0, 3))))
    return [[p, rng.choice([0, 1, 2, 7])] for p in dict.fromkeys(ph)]


def generate(rng, tier):
    cs = []
    n_fit = 220 if tier == "quick" else 2500
    maxlen = 24 if tier == "quick" else 80
    for _ in range(n_fit):
        alpha = rng.choice(_ALPHAS)
        X = [_rand_string(rng, alpha, maxlen) for _ in range(rng.randint(1, 6))]
        if rng.random() < 0.25 and X:
            X.append(rng.choice(X))
        Xt = [_rand_string(rng, alpha + "z", maxlen) for _ in range(rng.randint(1, 3))] + ["", rng.choice(X)]
        if rng.random() < 0.5:
            Xt.append(rng.choice(X) + rng.choice("azé") + rng.choice(X))
        cs.append(_fit(X, Xt, rng.choice([2, 3, 4, 5, 8, 65536, 65536, 65536]),
                       rng.choice([None, None, 2, 3, 16, 16, 1000, 65536]), _rand_base(rng, alpha),
                       rng.randint(0, 10 ** 6)))
        if rng.random() < 0.3:
            cs[-1]["prefit"] = {"X": [_rand_string(rng, alpha + "q", maxlen) for _ in range(rng.randint(1, 4))],
                                "max_columns": rng.choice([2, 16, 4096, 65536]), "max_dict_size": rng.choice([2, 4, 65536])}
    n_batches, per = (12, 1000) if tier == "quick" else (60, 2000)
    for _ in range(n_batches):
        hi = rng.choice([1, 255, 256, 0x10FFFF, 0x10FFFF])
        keys = [[rng.randint(0, hi) for _ in range(rng.randint(0, 13))] for _ in range(per)]
        cs.append({"kind": "murmur", "seed": rng.choice([0, 1, MAX_INT32 - 1, rng.randint(0, MAX_INT32 - 1)]), "keys": keys})
    return cs


def search(rng, tier):
    return generate(rng, "thorough" if tier == "thorough" else "quick")


# ------------------------------------------------------------------ shared: the parse, from the property text

def _parse(s, base, cap, H):
    """Lempel-Ziv parse started from `base` (list of (key, count)), capped at `cap` dictionary phrases: one
    dictionary use per character — the current phrase (initially empty) is looked up; a known phrase is used once
    more and grows by the character, an unknown one becomes a new dictionary phrase (if there is room) and the next
    phrase starts at the character.  Returns (counts by key, skipped, examined phrases)."""
    d = {}
    for k, v in base:
        d[k] = v
    cur, skipped, examined = "", 0, []
    for ch in s:
        examined.append(cur)
        k = H(cur)
        if k in d:
            d[k] += 1
            cur = cur + ch
        else:
            if len(d) < cap:
                d[k] = 1
            else:
                skipped += 1
            cur = ch
    return d, skipped, examined


# ------------------------------------------------------------------ implementation side (worker)

def _rows(M, cols_by_index):
    """rows of a scipy matrix as sorted [[column index, label, count]], zero entries dropped"""
    M = M.tocsr()
    rows = []
    for i in range(M.shape[0]):
        acc = {}
        for j, v in zip(M.indices[M.indptr[i]:M.indptr[i + 1]], M.data[M.indptr[i]:M.indptr[i + 1]]):
            acc[int(j)] = acc.get(int(j), 0) + float(v)
        rows.append([[j, cols_by_index.get(j), int(v) if float(v).is_integer() else v]
                     for j, v in sorted(acc.items()) if v != 0])
    return rows


def _label(k):
    return _cp(k) if isinstance(k, str) else int(k)


def _run_one(case, mc, out):
    import numpy as np, numba
    from sklearn.utils.validation import check_random_state
    from vectorizers.mixed_gram_vectorizer import LZCompressionVectorizer, make_hash, lempel_ziv_based_encode
    X, Xt = case["X"], case["Xt"]
    base = case["base"]
    if mc is None:
        bd = None if base is None else {p: c for p, c in base}
        base_keys = [] if base is None else [[_cp(p), c] for p, c in base]
    else:
        # the seed fit_transform will draw; base phrases are hashed like the estimator hashes parse phrases
        seed = int(check_random_state(case["random_state"]).randint(MAX_INT32))
        h0 = make_hash(mc, np.int32(seed))
        bd, base_keys = None, []
        if base is not None:
            bd = {}
            for p, c in base:
                k = int(h0(p))
                bd[k] = bd.get(k, 0) + c
            base_keys = [[k, c] for k, c in bd.items()]
    out["base_keys"] = base_keys
    try:
        pre = case.get("prefit")
        if pre:
            # history: the same estimator was fitted before, on other data and with other settings
            m = LZCompressionVectorizer(max_dict_size=pre["max_dict_size"], max_columns=None if mc is None else pre["max_columns"],
                                        random_state=case["random_state"])
            m.fit_transform(pre["X"])
            m.transform(pre["X"] + ["zq", ""])
            m.set_params(max_dict_size=case["max_dict_size"], max_columns=mc, base_dictionary=bd)
        else:
            m = LZCompressionVectorizer(max_dict_size=case["max_dict_size"], max_columns=mc, base_dictionary=bd,
                                        random_state=case["random_state"])
        M = m.fit_transform(X)
    except Exception as e:
        out["fit_exc"] = f"{type(e).__name__}: {str(e)[:120]}"
        return
    cd = {k: int(v) for k, v in m.column_label_dictionary_.items()}
    by_index = {v: _label(k) for k, v in cd.items()}
    out["cols"] = [[_label(k), v] for k, v in sorted(cd.items(), key=lambda kv: kv[1])]
    out["ft"] = {"shape": [int(x) for x in M.shape], "rows": _rows(M, by_index)}
    if mc is not None:
        # seed and size as captured by the fitted hash closure
        try:
            fv = dict(zip(m.hash_function_.py_func.__code__.co_freevars,
                          [c.cell_contents for c in m.hash_function_.py_func.__closure__]))
            out["seed"], out["size"] = int(fv["seed"]), int(fv["size"])
        except Exception as e:
            out["seed"], out["size"] = seed, mc
        H = lambda p: int(m.hash_function_(p))
        table = {}
        for p, _ in (base or []):
            table[p] = H(p)
        bk = [(k, c) for k, c in base_keys]
        for s in list(X) + list(Xt):
            for HH, b in ((lambda p: table.setdefault(p, H(p)), bk), (lambda p: p, [(p, c) for p, c in (base or [])])):
                _, _, ex = _parse(s, b, case["max_dict_size"], HH)
                for p in ex:
                    if p not in table:
                        table[p] = H(p)
        out["hashes"] = [[_cp(p), v] for p, v in table.items()]
    # the njit encoder called directly (dictionary in insertion order)
    try:
        encs = []
        for s in list(X) + list(Xt):
            if mc is None:
                d = numba.typed.Dict.empty(numba.types.unicode_type, numba.types.int64)
            else:
                d = numba.typed.Dict.empty(numba.types.int32, numba.types.int64)
            for k, c in (bd or {}).items():
                d[k] = c
            r = lempel_ziv_based_encode(s, d, m.hash_function_, case["max_dict_size"])
            encs.append([[_label(k), int(v)] for k, v in r.items()])
        out["enc"] = encs
    except Exception as e:
        out["enc_exc"] = f"{type(e).__name__}: {str(e)[:120]}"
    for name, Y in (("tr", X), ("trt", Xt), ("tr_again", X), ("trt_again", Xt)):
        try:
            T = m.transform(Y)
            out[name] = {"shape": [int(x) for x in T.shape], "rows": _rows(T, by_index)}
        except Exception as e:
            out[name + "_exc"] = f"{type(e).__name__}: {str(e)[:120]}"
    out["cols_after"] = [[_label(k), int(v)] for k, v in sorted(m.column_label_dictionary_.items(), key=lambda kv: kv[1])]


def run_impl(case):
    import numpy as np
    if case["kind"] == "murmur":
        from vectorizers.mixed_gram_vectorizer import murmurhash
        seed = np.int32(case["seed"])
        return {"h": [int(murmurhash(np.array(k, dtype=np.int64), seed)) for k in case["keys"]]}
    out = {"plain": {}}
    _run_one(case, None, out["plain"])
    if case["max_columns"] is not None:
        out["hashed"] = {}
        _run_one(case, case["max_columns"], out["hashed"])
    return out


# ------------------------------------------------------------------ model side

def _runs(case, o):
    r = [("plain", None)]
    if case["kind"] == "fit" and case["max_columns"] is not None:
        r.append(("hashed", case["max_columns"]))
    return r


def model_requests(case, outs):
    o = outs["normal"]
    if "crash" in o:
        return []
    if case["kind"] == "murmur":
        return [{"op": "lz.murmur", "keys": case["keys"], "seed": case["seed"]}] + \
               [twinutil.call("murmurhash", [k, case["seed"]]) for k in case["keys"][:TWIN_MURMUR_SAMPLE]]
    reqs = []
    for name, mc in _runs(case, o):
        r = o[name]
        if "fit_exc" in r:
            continue
        req = {"op": "lz.run", "X": [_cp(s) for s in case["X"]], "Xt": [_cp(s) for s in case["Xt"]],
               "cap": case["max_dict_size"], "base": r["base_keys"], "_run": name}
        if mc is not None:
            req["hash"] = {"seed": r["seed"], "size": r["size"]}
        reqs.append(req)
    return reqs + _twin_lz_reqs(case, o)


# Python/numba vs the twins regenerated from the current source (validates translator + interpreter): the first keys of
# every murmur batch, and the direct lempel_ziv_based_encode calls of the plain (identity-hash) run on the first strings
TWIN_MURMUR_SAMPLE = 25
TWIN_LZ_SAMPLE = 8


def _twin_lz_sample(case, o):
    r = o.get("plain") if isinstance(o, dict) else None
    if not isinstance(r, dict) or "fit_exc" in r or "enc" not in r:
        return []
    S = list(case["X"]) + list(case["Xt"])
    if not all(twinutil.bmp("".join(map(chr, k))) for k, _ in r["base_keys"]):
        return []
    return [i for i, s in enumerate(S) if twinutil.bmp(s) and len(s) <= 40][:TWIN_LZ_SAMPLE]


def _twin_lz_reqs(case, o):
    idx = _twin_lz_sample(case, o)
    if not idx:
        return []
    S = list(case["X"]) + list(case["Xt"])
    base = {"".join(map(chr, k)): c for k, c in o["plain"]["base_keys"]}
    return [twinutil.call("lempel_ziv_based_encode", [S[i], base, "<fn identity_hash>", case["max_dict_size"]]) for i in idx]


def _model_rows(rows):
    return [sorted([c, v] for c, v in row if v != 0) for row in rows]


def compare(case, outs, resps):
    o = outs["normal"]
    d = []
    if "crash" in o:
        return d
    for r in resps:
        if "bad" in r:
            return [f"model rejected request: {r['bad']}"]
    if case["kind"] == "murmur":
        if not resps:
            return ["no model response"]
        bad = [(k, a, b) for k, a, b in zip(case["keys"], o["h"], resps[0]["h"]) if a != b]
        if bad:
            d.append(f"murmurhash(key={bad[0][0]}, seed={case['seed']}) impl {bad[0][1]} != model {bad[0][2]} "
                     f"({len(bad)} of {len(case['keys'])} keys differ)")
        tbad = [(k, a, tw.get("ok", tw.get("err"))) for k, a, tw in zip(case["keys"], o["h"], resps[1:])
                if not twinutil.unavailable(tw) and tw.get("ok") != a]
        if tbad:
            d.append(f"murmurhash(key={tbad[0][0]}, seed={case['seed']}) impl {tbad[0][1]} != generated twin {tbad[0][2]} "
                     f"({len(tbad)} of {len(resps) - 1} sampled keys differ)")
        return d
    tidx = _twin_lz_sample(case, o)
    if tidx:
        resps, tresps = resps[:len(resps) - len(tidx)], resps[len(resps) - len(tidx):]
        for i, tw in zip(tidx, tresps):
            if twinutil.unavailable(tw):
                continue                                   # twin unavailable: not a disagreement
            got = [[_cp(k), v] for k, v in twinutil.pv(tw["ok"])] if "ok" in tw else tw.get("err")
            if got != o["plain"]["enc"][i]:
                d.append(f"plain: lempel_ziv_based_encode on string #{i}: impl {o['plain']['enc'][i]} != generated twin {got}")
    runs = [(n, mc) for n, mc in _runs(case, o) if "fit_exc" not in o[n]]
    if len(runs) != len(resps):
        return [f"{len(resps)} model responses for {len(runs)} runs"]
    n = len(case["X"])
    for (name, mc), r in zip(runs, resps):
        io = o[name]
        if not r["spec_eq"]:
            d.append(f"{name}: model's index-level encode differs from its character-fold specification")
        if "enc" in io and io["enc"] != r["enc"]:
            bad = [i for i, (a, b) in enumerate(zip(io["enc"], r["enc"])) if a != b]
            d.append(f"{name}: lempel_ziv_based_encode differs from the model on string #{bad[:3]}: impl "
                     f"{io['enc'][bad[0]]} model {r['enc'][bad[0]]}")
        if "enc_exc" in io:
            d.append(f"{name}: direct encoder call raised {io['enc_exc']}")
        if "ok" not in r["fit"]:
            d.append(f"{name}: model fit_transform fails ({r['fit']}) but the implementation returned a matrix")
            continue
        if io["cols"] != r["fit"]["ok"]["cols"]:
            d.append(f"{name}: column_label_dictionary_ {io['cols']} != model {r['fit']['ok']['cols']}")
        mrows = _model_rows(r["fit"]["ok"]["rows"])
        if [[[c, v] for c, _, v in row] for row in io["ft"]["rows"]] != mrows:
            d.append(f"{name}: fit_transform rows {io['ft']['rows']} != model {mrows}")
        if io["ft"]["shape"] != [n, len(r["fit"]["ok"]["cols"])]:
            d.append(f"{name}: fit_transform shape {io['ft']['shape']} != model {[n, len(r['fit']['ok']['cols'])]}")
        for key in ("tr", "trt"):
            if key + "_exc" in io:
                if "ok" in r[key]:
                    d.append(f"{name}: {key} raised {io[key + '_exc']} but the model returns rows")
                continue
            if "ok" not in r[key]:
                d.append(f"{name}: model {key} fails ({r[key]}) but the implementation returned a matrix")
                continue
            mrows = _model_rows(r[key]["ok"])
            if [[[c, v] for c, _, v in row] for row in io[key]["rows"]] != mrows:
                d.append(f"{name}: {key} rows {io[key]['rows']} != model {mrows}")
    return d


# ------------------------------------------------------------------ oracle (the property, on the impl)

def _F(key, msg):
    return {"key": key, "msg": msg}


def _s(cps):
    return "".join(map(chr, cps)) if isinstance(cps, list) else cps


def _rowdict(row):
    """impl row -> {label: count}; a label is a phrase string or a hash value"""
    return {(_s(l) if l is not None else ("?", j)): v for j, l, v in row}


def oracle(case, outs):
    o = outs["normal"]
    if "crash" in o:
        return [_F("lz.crash", f"process terminated: {o['crash']}")]
    if case["kind"] == "murmur":
        bad = [(k, h) for k, h in zip(case["keys"], o["h"]) if not (0 <= h < 2 ** 32)]
        return [_F("lz.murmur-range", f"murmurhash({bad[0][0]}) = {bad[0][1]} outside [0, 2^32)")] if bad else []
    fails = []
    X, Xt, cap, base = case["X"], case["Xt"], case["max_dict_size"], case["base"] or []
    base_total = sum(c for _, c in base)
    results = {}
    for name, mc in _runs(case, o):
        r = o[name]
        tag = f"[{name} max_columns={mc} cap={cap} base={base} rs={case['random_state']}{' after an earlier fit ' + str(case['prefit']) if case.get('prefit') else ''}]"
        rr = o.get(name, {})
        for a, b in (("tr", "tr_again"), ("trt", "trt_again")):
            if a in rr and (b + "_exc" in rr or rr.get(b) != rr[a]):
                fails.append(_F("lz.transform-not-repeatable", f"second transform of the same strings gives {rr.get(b, rr.get(b + '_exc'))}, first {rr[a]} {tag}"))
        if "cols" in rr and "cols_after" in rr and rr["cols"] != rr["cols_after"]:
            fails.append(_F("lz.transform-changes-model", f"column_label_dictionary_ has {len(rr['cols_after'])} entries after transform, {len(rr['cols'])} after fit {tag}"))
        if "fit_exc" in r:
            fails.append(_F(f"lz.fit-raises.{name}", f"fit_transform({X}) raises {r['fit_exc']} {tag}"))
            continue
        if mc is None:
            H = lambda p: p
            pbase = [(p, c) for p, c in base]
        else:
            table = {_s(p): v for p, v in r["hashes"]}
            H = lambda p, table=table: table[p]
            pbase = [(k, c) for k, c in r["base_keys"]]
        cols = {(_s(l)): j for l, j in r["cols"]}
        ncols = len(cols)
        # -- every row counts the phrases of its own string's parse; totals
        parses = [_parse(s, pbase, cap, H) for s in X]
        results[name] = (r, parses)
        if r["ft"]["shape"] != [len(X), ncols]:
            fails.append(_F(f"lz.shape.fit.{name}", f"fit_transform shape {r['ft']['shape']} for {len(X)} strings, {ncols} columns {tag}"))
        for i, (s, row, (d, skipped, _)) in enumerate(zip(X, r["ft"]["rows"], parses)):
            exp = {k: v for k, v in d.items() if v != 0}
            got = _rowdict(row)
            if got != exp:
                fails.append(_F(f"lz.row-counts.fit.{name}", f"row {i} of fit_transform({X}) is {got}, the parse of {s!r} uses {exp} {tag}"))
                break
            if len(d) < cap and sum(got.values()) != len(s) + sum(c for _, c in pbase):
                fails.append(_F(f"lz.row-total.{name}", f"row {i} total {sum(got.values())} != len {len(s)} + base {base_total} {tag}"))
                break
        # -- same phrase, same column: transform(X) reproduces fit_transform(X) column by column
        if "tr_exc" in r:
            fails.append(_F(f"lz.transform-raises.{name}", f"transform(X) raises {r['tr_exc']} for X={X} {tag}"))
        elif r["tr"]["rows"] != r["ft"]["rows"] or r["tr"]["shape"] != r["ft"]["shape"]:
            fails.append(_F(f"lz.column-stability.{name}", f"transform(X) {r['tr']} != fit_transform(X) {r['ft']} X={X} {tag}"))
        # -- unseen phrases: dropped, nothing else changes, width = fitted width
        if "trt_exc" in r:
            fails.append(_F(f"lz.transform-raises.{name}", f"transform({Xt}) raises {r['trt_exc']} after fit on {X} {tag}"))
        else:
            if r["trt"]["shape"] != [len(Xt), ncols]:
                fails.append(_F(f"lz.shape.transform.{name}", f"transform shape {r['trt']['shape']} for {len(Xt)} strings, {ncols} fitted columns {tag}"))
            for i, (s, row) in enumerate(zip(Xt, r["trt"]["rows"])):
                d, _, _ = _parse(s, pbase, cap, H)
                exp = {k: v for k, v in d.items() if v != 0 and k in cols}
                got = _rowdict(row)
                if got != exp or any(cols.get(_s(l)) != j for j, l, _ in row):
                    fails.append(_F(f"lz.row-counts.transform.{name}", f"row {i} of transform({Xt}) is {row}; the parse of {s!r} uses {exp} (fitted columns {cols}) {tag}"))
                    break
        if mc is not None:
            if ncols > mc or any(not (0 <= k < mc) for k in cols):
                fails.append(_F("lz.max-columns", f"{ncols} columns / labels {sorted(cols)[:5]}… with max_columns={mc} {tag}"))
    # -- hashing: totals unchanged; no collision => relabelled unhashed rows
    if "plain" in results and "hashed" in results:
        (rp, pp), (rh, ph) = results["plain"], results["hashed"]
        table = {_s(p): v for p, v in rh["hashes"]}
        for i, s in enumerate(X):
            if i >= len(rp["ft"]["rows"]) or i >= len(rh["ft"]["rows"]):
                break
            tp, th = sum(v for _, _, v in rp["ft"]["rows"][i]), sum(v for _, _, v in rh["ft"]["rows"][i])
            if len(pp[i][0]) < cap and len(ph[i][0]) < cap and tp != th:
                fails.append(_F("lz.hash-totals", f"row {i} ({s!r}) total {th} with hashing, {tp} without X={X} cap={cap} base={base}"))
                break
        phrases = set(p for p, _ in base)
        for d, _, ex in pp:
            phrases.update(ex)
        hv = [table[p] for p in phrases]
        if len(set(hv)) == len(hv):
            for i, s in enumerate(X):
                if i >= len(rp["ft"]["rows"]) or i >= len(rh["ft"]["rows"]):
                    break
                if any(_s(l) not in table for _, l, _ in rp["ft"]["rows"][i]):
                    continue        # the unhashed row holds a phrase the parse never examines: reported by row-counts
                exp = {table[_s(l)]: v for _, l, v in rp["ft"]["rows"][i]}
                got = {l: v for _, l, v in rh["ft"]["rows"][i]}
                if exp != got:
                    fails.append(_F("lz.hash-relabel", f"no two phrases collide but hashed row {i} {got} != relabelled unhashed row {exp} ({s!r}) X={X} cap={cap} base={base} mc={case['max_columns']}"))
                    break
    return fails


def nontrivial(case, outs):
    o = outs["normal"]
    if "crash" in o:
        return False
    if case["kind"] == "murmur":
        return True
    return bool(set(stats(case, outs)) & {"transform-unseen-phrase", "cap-reached", "hash-collision"})


def stats(case, outs):
    o = outs["normal"]
    if "crash" in o:
        return ["crash"]
    if case["kind"] == "murmur":
        return ["murmur", f"murmur.keys.{len(case['keys'])}"]
    t = ["fit", f"max_columns.{case['max_columns']}", f"cap.{min(case['max_dict_size'], 9)}",
         "base.none" if case["base"] is None else "base.given"]
    p = o["plain"]
    if "fit_exc" in p:
        return t + ["fit.raises"]
    cap = case["max_dict_size"]
    base = [(q, c) for q, c in (case["base"] or [])]
    if any(_parse(s, base, cap, lambda q: q)[1] > 0 for s in case["X"] + case["Xt"]):
        t.append("cap-reached")
    cols = {_s(l) for l, _ in p["cols"]}
    if any(any(k not in cols for k in _parse(s, base, cap, lambda q: q)[0]) for s in case["Xt"]):
        t.append("transform-unseen-phrase")
    if any(s == "" for s in case["X"]):
        t.append("empty-train-string")
    if any(ord(c) > 255 for s in case["X"] for c in s):
        t.append("unicode>255")
    h = o.get("hashed")
    if h and "hashes" in h:
        hv = [v for _, v in h["hashes"]]
        t.append("hash-collision" if len(set(hv)) < len(hv) else "hash-injective")
    return t


def shrink_candidates(case):
    if case["kind"] == "murmur":
        ks = case["keys"]
        if len(ks) > 1:
            yield dict(case, keys=ks[:len(ks) // 2])
            yield dict(case, keys=ks[len(ks) // 2:])
        return
    X, Xt = case["X"], case["Xt"]
    # big steps first: a single transform input, a single training string, no base dictionary
    if len(Xt) > 1:
        for t in Xt:
            yield dict(case, Xt=[t])
    if len(X) > 1:
        for t in X:
            yield dict(case, X=[t])
    if case["base"]:
        yield dict(case, base=None)
    if len(Xt) == 1 and len(X) == 1:
        yield dict(case, Xt=[])
    for i in range(len(X)):
        if len(X) > 1:
            yield dict(case, X=X[:i] + X[i + 1:])
    for i in range(len(Xt)):
        if len(Xt) > 1:
            yield dict(case, Xt=Xt[:i] + Xt[i + 1:])
    for i, s in enumerate(X):
        if len(s) > 1:
            yield dict(case, X=X[:i] + [s[:len(s) // 2]] + X[i + 1:])
            yield dict(case, X=X[:i] + [s[:-1]] + X[i + 1:])
    for i, s in enumerate(Xt):
        if len(s) > 1:
            yield dict(case, Xt=Xt[:i] + [s[:len(s) // 2]] + Xt[i + 1:])
            yield dict(case, Xt=Xt[:i] + [s[:-1]] + Xt[i + 1:])
