"""C04 — co-occurrence results do not depend on threads, buffer sizes or data volume (and the
append-buffer part of C10).  Model: lean/VecModel/Model/Coo.lean, theorems: Props/C04.lean.

Two kinds of cases:
  kernel — an operation sequence run on the real njit coo_append / coo_sum_duplicates /
           merge_all_sum_duplicates (CooArray of numpy arrays) under a given sort limit
           (guarded hook; one worker process per limit) and in checked modes; compared op by op
           with the index-level Lean model; oracle = "abs equals the sum by key of everything
           appended so far, nothing raises, nothing crashes".
  est    — one of the four sequence co-occurrence vectorizers on a corpus, over a grid of
           (n_threads, coo_initial_memory, dask workers) x {fit_transform, fit small + transform
           large}; oracle = every configuration equals an independent pure-Python count (flat
           kernel, fixed radius, no normalisation: exact integers).
"""
import math, os
from collections import Counter

PROP = "C04"
REAL_LIMIT = 1 << 16
# generated twins (DESIGN §11.3): coo_append / coo_sum_duplicates / merge_sum_duplicates / merge_all_sum_duplicates /
# coo_increase_mem regenerated from the repository's current source and compared inside Lean with the index-level
# model Coo.* (about which Props/C04 is proved): every append sequence over a 3-cell (2-cell) alphabet up to
# length 5 (9), every capacity x sort limit listed, after every append and after the finalisation of every prefix:
# live (key, summed value) entries, ind, then the raw row/col/val/key/min arrays and depth; failing must agree too.
TWIN_CHECKS = [
    {"op": "twin.coo_exhaustive", "caps": [2, 3, 4, 5, 6, 7, 8, 9], "lims": [1, 2, 3, 4, 8], "nkeys": 3, "n": 5},
    {"op": "twin.coo_exhaustive", "caps": [2, 3, 5, 8], "lims": [1, 2, 3], "nkeys": 2, "n": 9},
]
RULE = ("kernel cases: random/steered operation sequences (appends with keys from a small alphabet so that "
        "duplicates abound, explicit coo_sum_duplicates / finalisation in between) on buffers of capacity 2..40 "
        "(and > 65536 at the real limit) with COO_QUICKSORT_LIMIT in {4, 8, 64, 65536}, incl. >= 1000 sort rounds "
        "on a never-full buffer (run-boundary stack); est cases: random corpora "
        "(alphabet 3..12, empty and one-token documents included) x 4 vectorizers x n_threads {1,2,3,7,16} x "
        "coo_initial_memory {'1k','4k','1M'(,'0.5 GiB')} x dask workers x {fit_transform, fit small then transform "
        "large}. Non-trivial = the run went through at least one sort round with a non-empty higher level "
        "(depth >= 2) or one buffer growth (kernel), resp. at least one configuration whose per-chunk buffer "
        "capacity is below the number of events it receives, or n_threads > number of documents (est).")
ASSUMPTIONS = [
    "weights are integer-valued (flat kernel, no normalisation) so float32 sums are exact below 2^24; float32 "
    "rounding and summation order are outside the model",
    "keys/rows/columns are unbounded Int in the model (int32/int64 in the code); keys != -1 (the merge's sentinel; "
    "the kernels' keys are >= 0)",
    "np.argsort (unstable) is modelled by a stable sort; entries with equal key carry equal row/col",
    "theorems cover the index-level model (checked accesses) for every limit >= 1 and capacity >= 5 through the proved "
    "refinement to the run-level model; capacities 2..4 (never allocated by the vectorizers: COO_MIN_SIZE = 32) are "
    "covered by the differential check only",
    "the models are tied to the code by this run's differential check, not by proof; dask scheduling, real thread "
    "interleavings and scipy's sparse sum are sampled / trusted, not enumerated",
]

_V = {"VECTORIZERS_VERIF": "1"}
MODES = [
    ("normal", {"C04_MODE": "normal"}),
    ("lim4", dict(_V, VECTORIZERS_VERIF_COO_LIMIT="4", C04_MODE="lim4")),
    ("lim8", dict(_V, VECTORIZERS_VERIF_COO_LIMIT="8", C04_MODE="lim8")),
    ("lim64", dict(_V, VECTORIZERS_VERIF_COO_LIMIT="64", C04_MODE="lim64")),
    ("bc4", dict(_V, VECTORIZERS_VERIF_COO_LIMIT="4", C04_MODE="bc4", NUMBA_BOUNDSCHECK="1")),
    ("nojit4", dict(_V, VECTORIZERS_VERIF_COO_LIMIT="4", C04_MODE="nojit4", NUMBA_DISABLE_JIT="1")),
    ("bcreal", {"C04_MODE": "bcreal", "NUMBA_BOUNDSCHECK": "1"}),
    ("nt1", {"C04_MODE": "nt1", "NUMBA_NUM_THREADS": "1"}),
    ("nt4", {"C04_MODE": "nt4", "NUMBA_NUM_THREADS": "4"}),
]
MODE_LIMIT = {"normal": REAL_LIMIT, "lim4": 4, "lim8": 8, "lim64": 64, "bc4": 4, "nojit4": 4,
              "bcreal": REAL_LIMIT, "nt1": REAL_LIMIT, "nt4": REAL_LIMIT}
NWORKERS = {"quick": 4, "thorough": 4}
VECS = ["token", "timed", "multiset", "ngram"]
THREADS = [1, 2, 3, 7, 16]
MEMS = ["1k", "4k", "1M"]


# ------------------------------------------------------------------ case construction

def _kcase(cap, lim, ops, every=1, raw=False, extra_modes=()):
    base = {4: "lim4", 8: "lim8", 64: "lim64", REAL_LIMIT: "normal"}[lim]
    return {"kind": "kernel", "cap": cap, "lim": lim, "ops": ops, "every": every, "raw": raw,
            "modes": [base] + list(extra_modes)}


def _app(r, c, v, mul):
    return [0, r, c, v, c + mul * r]


def _rand_ops(rng, n, nrow, ncol, finals=True, big=None):
    """`big` = (row offset, column offset, key multiplier): a few distinct cells far from the origin, so that the
    int64 keys exceed 2^24 / 2^31 / 2^40 (a vocabulary of a few thousand tokens already gives keys above 2^24)
    and neighbouring keys differ by 1: anything that carries keys through a narrower or floating type merges
    or separates the wrong cells"""
    mul = ncol + 1
    r0 = c0 = 0
    if big:
        r0, c0, mul = big
    ops = []
    for _ in range(n):
        x = rng.random()
        if finals and x < 0.03:
            ops.append([1])
        elif finals and x < 0.05:
            ops.append([3])
        else:
            ops.append(_app(r0 + rng.randrange(nrow), c0 + rng.randrange(ncol), rng.choice([1, 1, 1, 2, 3]), mul))
    ops.append([3])
    return ops


def _grid(rng, k=None, dask=True):
    g = [[t, m, None] for t in THREADS for m in MEMS]
    if dask:
        g += [[7, "1k", 1], [3, "4k", 2], [16, "1k", 4], [2, "1k", "sync"]]
    if k is not None and k < len(g):
        keep = [[1, "1M", None]] + rng.sample(g, k - 1)
        g = keep
    return g


def _docs(rng, ndocs, maxlen, alpha, vec, empties=True):
    toks = [f"t{i}" for i in range(alpha)]
    docs = []
    for _ in range(ndocs):
        x = rng.random()
        # (empty timed / multiset documents make the preprocessing functions raise — outside C04)
        n = 0 if (empties and vec in ("token", "ngram") and x < 0.05) else 1 if x < 0.1 else rng.randint(2, maxlen)
        if vec == "multiset":
            docs.append([rng.sample(toks, rng.randint(1, min(alpha, 4))) for _ in range(n)])
        else:
            docs.append([rng.choice(toks) for _ in range(n)])
    return docs


def _cover(alpha, vec):
    """a document mentioning every token (so that the small fit corpus fixes the whole vocabulary)"""
    toks = [f"t{i}" for i in range(alpha)]
    return [[t] for t in toks] if vec == "multiset" else toks + toks[::-1]


def _ecase(vec, docs, small, radius, orient, configs, lim=REAL_LIMIT, extra_modes=()):
    base = {4: "lim4", 8: "lim8", 64: "lim64", REAL_LIMIT: "normal"}[lim]
    return {"kind": "est", "vec": vec, "docs": docs, "small": small, "radius": radius, "orient": orient,
            "configs": configs, "lim": lim, "modes": [base] + list(extra_modes)}


def corpus():
    cs = []
    # D9: last key group lost when the slot after the segment holds the same key
    cs.append(_ecase("token", [["a", "a", "a"]], [["a", "a"]], 1, "before", [[1, "1M", None], [1, "1k", None]]))
    # D11: capacity < 20 never grows (20 docs x 50 tokens, '1k', n_threads=3)
    import random
    r = random.Random(11)
    d11 = [[f"t{r.randrange(6)}" for _ in range(50)] for _ in range(20)]
    cs.append(_ecase("token", d11, d11[:2], 2, "directional", [[1, "1M", None], [3, "1k", None], [16, "1k", None], [7, "4k", None]]))
    # D10: multiset kernel dropped the grown buffer
    ms = [[[f"t{r.randrange(8)}" for _ in range(3)] for _ in range(5)] for _ in range(2)]
    cs.append(_ecase("multiset", ms, ms[:1], 2, "directional", [[1, "1M", None], [1, "1k", None], [2, "1k", None]]))
    big = [[[f"t{r.randrange(10)}" for _ in range(4)] for _ in range(40)] for _ in range(6)]
    cs.append(_ecase("multiset", big, big[:1], 3, "directional", [[1, "1M", None], [1, "1k", None], [3, "1k", None], [16, "4k", None]]))
    cs += _steer((4, 64, REAL_LIMIT))
    # worker affinity (see generate): token cases at positions = 0 mod 4, multiset at = 2 mod 4
    est, ker = cs[:4], cs[4:]
    return [est[0], ker[0], est[2], ker[1], est[1], ker[2], est[3]] + ker[3:]


def _steer(lims, bcreal=False):
    """kernel level: tiny capacities, all-duplicate streams, finalising an empty buffer"""
    cs = []
    for lim in lims:
        extra = ("bc4", "nojit4") if lim == 4 else ("bcreal",) if (lim == REAL_LIMIT and bcreal) else ()
        for cap in (2, 3, 5, 8, 19, 20, 24):
            ops = [_app(k % 3, (k * 7) % 5, 1, 6) for k in range(40)] + [[3]]
            cs.append(_kcase(cap, lim, ops, raw=True, extra_modes=extra))
        # all-duplicate stream, same key as the zero-initialised slots
        cs.append(_kcase(8, lim, [[0, 0, 0, 1, 0]] * 30 + [[3]], raw=True, extra_modes=extra))
        # many sort rounds without the buffer ever filling: the run-boundary stack `min` (8 slots
        # for capacity 12) overflowed after 2^7 rounds before the guard in coo_append
        if lim == 4:
            cs.append(_kcase(12, lim, [[0, 0, 0, 1, 0]] * 1100 + [[3]], every=100, extra_modes=extra))
            cs.append(_kcase(70, lim, [_app(0, k % 2, 1, 3) for k in range(1500)] + [[3]], every=100, extra_modes=("bc4",)))
        # finalise an empty buffer, then keep appending
        cs.append(_kcase(4, lim, [[3], [0, 1, 1, 1, 7], [3], [3], [0, 1, 1, 2, 7], [0, 0, 1, 1, 1], [3]], raw=True, extra_modes=extra))
    return cs


def generate(rng, tier):
    """Worker w of a mode gets the cases at positions w, w+4, ... (core.run_impl, NWORKERS = 4): the
    estimator cases of vectorizer j are placed at positions = j mod 4 so that each worker process
    JIT-compiles one vectorizer only."""
    ks, es = _generate(rng, tier)
    out, pos = [], len(corpus())
    while ks or any(es.values()):
        j = pos % 4
        if es[VECS[j]]:
            out.append(es[VECS[j]].pop(0))
        elif ks:
            out.append(ks.pop(0))
        else:
            out.append(_kcase(3, 4, [[0, 0, 0, 1, 0], [3]]))       # filler
        pos += 1
    return out


def _generate(rng, tier):
    cs = []
    es = {v: [] for v in VECS}
    thorough = tier == "thorough"
    # ---- kernel level, small limits
    nk = 60 if not thorough else 600
    if thorough:
        cs += _steer((8, REAL_LIMIT), bcreal=True)
    for lim in ((4, 8, 64) if thorough else (4, 64)):
        for _ in range(nk):
            cap = rng.choice([2, 3, 4, 5, 6, 7, 8, 9, 12, 16, 19, 20, 21, 24, 33, 40, 70, 130])
            nrow, ncol = rng.choice([(1, 1), (1, 3), (2, 3), (3, 5), (6, 9), (20, 30)])
            n = rng.choice([5, 20, 60, 150] if not thorough else [5, 20, 60, 150, 400, 1200])
            extra = ("bc4", "nojit4") if lim == 4 and n <= 150 else (("bc4",) if lim == 4 else ())
            small = n * min(n, nrow * ncol) <= 20_000          # bounds the size of the reported states
            big = None
            if rng.random() < 0.25:
                ntok = rng.choice([3000, 5000, 46000, 1_000_000])       # keys up to ~2e7, 5e7, 4e9, 2e12
                big = (ntok - nrow - rng.randrange(3), ntok - ncol - rng.randrange(3), 2 * ntok)
            cs.append(_kcase(cap, lim, _rand_ops(rng, n, nrow, ncol, big=big), every=1 if small else rng.choice([7, 23]),
                             raw=small and (thorough or rng.random() < 0.3), extra_modes=extra))
    # ---- kernel level, real limit: small caps (merge-all regime) and big caps (multi-level regime)
    for _ in range(6 if not thorough else 40):
        cap = rng.choice([2, 3, 8, 19, 24, 100, 1000])
        cs.append(_kcase(cap, REAL_LIMIT, _rand_ops(rng, rng.choice([50, 300, 3000]), 5, 7), every=50,
                         extra_modes=("bcreal",) if thorough and rng.random() < 0.5 else ()))
    nbig = 1 if not thorough else 4
    for _ in range(nbig):
        n = 150_000 if not thorough else rng.choice([220_000, 300_000, 500_000])
        nrow, ncol = rng.choice([(40, 60), (300, 400), (3, 5)])
        cap = rng.choice([70_000, 140_000, 400_000]) if thorough else 140_000
        cs.append({"kind": "kernelbig", "cap": cap, "lim": REAL_LIMIT, "n": n, "nrow": nrow, "ncol": ncol,
                   "seed": rng.randrange(1 << 30), "batch": 50_000, "modes": ["normal"]})
    # ---- estimator level
    ne = 3 if not thorough else 16
    for vec in VECS:
        for _ in range(ne if vec != "ngram" or not thorough else 6):
            alpha = rng.randint(3, 12)
            nd = rng.choice([1, 2, 5, 12, 30])
            maxlen = rng.choice([3, 12, 40]) if vec != "multiset" else rng.choice([3, 8, 15])
            docs = _docs(rng, nd, maxlen, alpha, vec)
            docs.insert(rng.randrange(len(docs) + 1), _cover(alpha, vec))
            small = [_cover(alpha, vec)] + [rng.choice(docs)]
            radius = rng.choice([1, 2, 5])
            orient = rng.choice(["directional", "before", "after"])
            # (NgramCooccurrenceVectorizer re-JITs its kernel on every fit, ~3-6 s: fewer configurations)
            ncfg = (8 if thorough else 3) if vec == "ngram" else (None if thorough else 12)
            es[vec].append(_ecase(vec, docs, small, radius, orient, _grid(rng, ncfg),
                                  extra_modes=("nt1", "nt4") if thorough and vec != "ngram" else ()))
        # small sort limits: the multi-level merge inside the estimator (quick: limit 4 only)
        for lim in ((4, 8, 64) if thorough else (4,)):
            for _ in range(2 if not thorough else (4 if vec != "ngram" else 1)):
                alpha = rng.randint(3, 10)
                docs = _docs(rng, rng.choice([3, 10, 25]), 30 if vec != "multiset" else 10, alpha, vec)
                docs.append(_cover(alpha, vec))
                es[vec].append(_ecase(vec, docs, [_cover(alpha, vec)], rng.choice([1, 3]), rng.choice(["directional", "after"]),
                                      _grid(rng, (3 if not thorough else 6) if vec == "ngram" else 8, dask=False), lim=lim,
                                      extra_modes=("bc4",) if thorough and lim == 4 else ()))
    # ---- volume at the real limit
    for vec in VECS:
        if thorough:
            ntok, nd = 45_000, 30          # radius 5: >= 2.2e5 events per window
        else:
            ntok, nd = 16_000, 8           # ~ 8e4 events per window: above the 65536 threshold
        alpha = 40 if vec != "ngram" else 12
        toks = [f"t{i}" for i in range(alpha)]
        if vec == "multiset":
            per = ntok // nd // 3
            docs = [[[rng.choice(toks) for _ in range(3)] for _ in range(per)] for _ in range(nd)]
            radius = 5 if thorough else 2
        else:
            docs = [[rng.choice(toks) for _ in range(ntok // nd)] for _ in range(nd)]
            radius = 5
        small = [_cover(alpha, vec)] + [docs[0][:50]]
        cfg = [[1, "1M", None], [1, "0.5 GiB", None], [3, "1k", None], [7, "4k", None], [16, "1M", None], [2, "8M", 2]]
        if vec == "ngram" and not thorough:
            cfg = cfg[:1] + cfg[2:4]
        es[vec].append(_ecase(vec, docs, small, radius, "directional", cfg))
    return cs, es


def search(rng, tier):
    return generate(rng, tier)


# ------------------------------------------------------------------ implementation side (worker)

def _mode():
    return os.environ.get("C04_MODE", "normal")


def _canon_abs(rows, cols, vals, keys):
    acc = {}
    for r, c, v, k in zip(rows, cols, vals, keys):
        k = int(k)
        if k in acc:
            acc[k][2] += float(v)
        else:
            acc[k] = [int(r), int(c), float(v)]
    out = []
    for k in sorted(acc):
        r, c, v = acc[k]
        out.append([k, r, c, int(v) if v == int(v) else v])
    return out


def _state(i, coo, raw):
    n = int(coo.ind[0])
    n_ = max(0, min(n, len(coo.key)))
    s = {"i": i, "abs": _canon_abs(coo.row[:n_], coo.col[:n_], coo.val[:n_], coo.key[:n_]), "ind": n,
         "depth": int(coo.depth[0]), "cap": int(len(coo.key)), "mcap": int(len(coo.min))}
    if raw:
        s["mins"] = [int(x) for x in coo.min]
        s["live"] = [[int(k), int(r), int(c), int(v)] for r, c, v, k in
                     zip(coo.row[:n_], coo.col[:n_], coo.val[:n_], coo.key[:n_])]
    return s


def _run_kernel(case):
    import numpy as np
    from vectorizers import coo_utils as cu
    if int(cu.COO_QUICKSORT_LIMIT) != case["lim"]:
        return {"harness_exc": f"limit hook inactive: {cu.COO_QUICKSORT_LIMIT} != {case['lim']}"}
    cap = case["cap"]
    coo = cu.CooArray(np.zeros(cap, dtype=np.int32), np.zeros(cap, dtype=np.int32), np.zeros(cap, dtype=np.float32),
                      np.zeros(cap, dtype=np.int64), np.zeros(1, dtype=np.int64),
                      np.zeros(2 * np.int64(np.ceil(np.log2(cap))), dtype=np.int64), np.zeros(1, dtype=np.int64))
    states, every, raw = [], case["every"], case["raw"]
    i = 0
    try:
        for i, op in enumerate(case["ops"]):
            if op[0] == 0:
                coo = cu.coo_append(coo, (np.int32(op[1]), np.int32(op[2]), np.float32(op[3]), np.int64(op[4])))
            elif op[0] == 1:
                cu.coo_sum_duplicates(coo)
            elif op[0] == 2:
                cu.merge_all_sum_duplicates(coo)
            else:
                cu.coo_sum_duplicates(coo)
                cu.merge_all_sum_duplicates(coo)
            if every and (i + 1) % every == 0:
                states.append(_state(i + 1, coo, raw))
        n = len(case["ops"])
        if not (every and n % every == 0 and n > 0):
            states.append(_state(n, coo, raw))
    except Exception as e:
        return {"states": states, "exc": type(e).__name__, "exc_at": i, "msg": str(e)[:200]}
    return {"states": states}


def _run_kernelbig(case):
    """real limit, >= 1.5e5 appends through an njit loop that rebinds like the kernels do"""
    import numpy as np, numba
    from vectorizers import coo_utils as cu
    if int(cu.COO_QUICKSORT_LIMIT) != case["lim"]:
        return {"harness_exc": "limit hook mismatch"}

    @numba.njit(nogil=True)
    def feed(coo, rows, cols, vals, keys):
        for j in range(rows.shape[0]):
            coo = cu.coo_append(coo, (rows[j], cols[j], vals[j], keys[j]))
        return coo

    rs = np.random.RandomState(case["seed"])
    n, cap = case["n"], case["cap"]
    rows = rs.randint(0, case["nrow"], size=n).astype(np.int32)
    cols = rs.randint(0, case["ncol"], size=n).astype(np.int32)
    vals = rs.randint(1, 3, size=n).astype(np.float32)
    keys = cols.astype(np.int64) + (case["ncol"] + 1) * rows.astype(np.int64)
    coo = cu.CooArray(np.zeros(cap, dtype=np.int32), np.zeros(cap, dtype=np.int32), np.zeros(cap, dtype=np.float32),
                      np.zeros(cap, dtype=np.int64), np.zeros(1, dtype=np.int64),
                      np.zeros(2 * np.int64(np.ceil(np.log2(cap))), dtype=np.int64), np.zeros(1, dtype=np.int64))
    out = {"checks": []}
    b = case["batch"]
    try:
        for s in range(0, n, b):
            coo = feed(coo, rows[s:s + b], cols[s:s + b], vals[s:s + b], keys[s:s + b])
            m = int(coo.ind[0])
            got = _canon_abs(coo.row[:m], coo.col[:m], coo.val[:m], coo.key[:m])
            e = min(n, s + b)
            exp = _canon_abs(rows[:e], cols[:e], vals[:e], keys[:e])
            out["checks"].append({"upto": e, "ind": m, "depth": int(coo.depth[0]), "cap": len(coo.key),
                                  "equal": got == exp, "n_cells": len(exp),
                                  "diff": [] if got == exp else [x for x in got if x not in exp][:3] + [x for x in exp if x not in got][:3]})
        cu.coo_sum_duplicates(coo)
        cu.merge_all_sum_duplicates(coo)
        m = int(coo.ind[0])
        live = [[int(k), int(r), int(c), int(v)] for r, c, v, k in zip(coo.row[:m], coo.col[:m], coo.val[:m], coo.key[:m])]
        out["final_equal"] = live == _canon_abs(rows, cols, vals, keys)
        out["final_n"] = m
        out["depth"] = int(coo.depth[0])
        out["cap"] = len(coo.key)
    except Exception as e:
        out["exc"] = type(e).__name__
    return out


def _mk_vec(case, n_threads, mem):
    import vectorizers as V
    cls = {"token": V.TokenCooccurrenceVectorizer, "timed": V.TimedTokenCooccurrenceVectorizer,
           "multiset": V.MultiSetCooccurrenceVectorizer, "ngram": V.NgramCooccurrenceVectorizer}[case["vec"]]
    kw = dict(window_radii=case["radius"], window_orientations=case["orient"], window_functions="fixed",
              kernel_functions="flat", normalize_windows=False, n_iter=0, epsilon=0, n_threads=n_threads,
              coo_initial_memory=mem, validate_data=False)
    if case["vec"] == "ngram":
        kw["ngram_size"] = 2
    return cls(**kw)


def _feed_form(case, docs):
    if case["vec"] == "timed":
        return [[(t, float(i + 1)) for i, t in enumerate(d)] for d in docs]
    return docs


def _matrix(v, M, vec):
    M = M.tocoo()
    if vec == "ngram":
        rl = {i: l for l, i in v.ngram_label_dictionary_.items()}
    else:
        rl = v.token_index_dictionary_
    cl = v.column_index_dictionary_
    acc = Counter()
    for i, j, x in zip(M.row, M.col, M.data):
        if x != 0:
            acc[f"{rl[int(i)]}|{cl[int(j)]}"] += float(x)
    return {"shape": [int(M.shape[0]), int(M.shape[1])],
            "cells": sorted([k, int(x) if x == int(x) else x] for k, x in acc.items())}


def _run_est(case):
    import dask
    import numpy as np
    from vectorizers import coo_utils as cu
    if int(cu.COO_QUICKSORT_LIMIT) != case["lim"]:
        return {"harness_exc": "limit hook mismatch"}
    docs, small = _feed_form(case, case["docs"]), _feed_form(case, case["small"])
    res = []
    for n_threads, mem, dw in case["configs"]:
        r = {"cfg": [n_threads, mem, dw]}
        ctx = (dask.config.set(scheduler="synchronous") if dw == "sync" else
               dask.config.set(scheduler="threads", num_workers=dw) if dw else dask.config.set({}))
        with ctx:
            try:
                v = _mk_vec(case, n_threads, mem)
                M = v.fit_transform(docs)
                r["ft"] = _matrix(v, M, case["vec"])
                r["sizes_ft"] = [int(x) for x in v._coo_sizes]
                r["chunks"] = [[int(a), int(b)] for a, b in v._generate_chunk_boundaries(case["docs"], n_threads)]
            except Exception as e:
                r["ft_exc"] = f"{type(e).__name__}: {str(e)[:120]}"
            try:
                v2 = _mk_vec(case, n_threads, mem).fit(small)
                r["sizes_tr"] = [int(x) for x in v2._coo_sizes]
                r["vocab"] = sorted(v2.token_label_dictionary_)
                if case["vec"] == "ngram":
                    r["ngrams"] = sorted(v2.ngram_label_dictionary_)
                r["tr"] = _matrix(v2, v2.transform(docs), case["vec"])
            except Exception as e:
                r["tr_exc"] = f"{type(e).__name__}: {str(e)[:120]}"
        res.append(r)
    return {"results": res}


def run_impl(case):
    if _mode() not in case["modes"]:
        return {"skip": 1}
    if case["kind"] == "kernel":
        return _run_kernel(case)
    if case["kind"] == "kernelbig":
        return _run_kernelbig(case)
    return _run_est(case)


# ------------------------------------------------------------------ model side

def _ran(case, outs):
    return [(m, outs[m]) for m in case["modes"] if m in outs and not (isinstance(outs[m], dict) and outs[m].get("skip"))]


def _twin_sample(case):
    return case["kind"] == "kernel" and len(case["ops"]) <= 3000 and case["cap"] <= 64


def model_requests(case, outs):
    if case["kind"] == "kernel":
        return [{"op": "coo.run", "cap": case["cap"], "lim": case["lim"], "ops": case["ops"],
                 "every": case["every"], "raw": case["raw"]},
                {"op": "coo.refine", "cap": case["cap"], "lim": case["lim"], "ops": case["ops"]}] + (
            # the same operation sequence through the regenerated twin (source -> Lean interpreter): compiled kernels
            # vs twin validates the translator and the interpreter on this family
            [{"op": "twin.coo_run", "cap": case["cap"], "lim": case["lim"], "ops": case["ops"],
              "every": case["every"], "raw": case["raw"]}] if _twin_sample(case) else [])
    if case["kind"] == "est":
        sizes = [sum(len(m) for m in d) if case["vec"] == "multiset" else len(d) for d in case["docs"]]
        return [{"op": "coo.chunks", "sizes": sizes, "n": n} for n in sorted({c[0] for c in case["configs"]})]
    return []


def compare(case, outs, resps):
    d = []
    if case["kind"] == "kernel":
        run, ref = resps[:2]
        for r in (run, ref):
            if "bad" in r:
                return [f"model rejected request: {r['bad']}"]
        tw = resps[2] if len(resps) > 2 and "bad" not in resps[2] else None     # "bad" = twin unavailable: not a disagreement
        if tw is not None:
            for m, o in _ran(case, outs):
                if "crash" in o or "exc" in o or tw["err"] is not None:
                    if tw["err"] is not None and (m.startswith("bc") or m.startswith("nojit")) and "exc" not in o and "crash" not in o:
                        d.append(f"[{m}] generated twin fails ({tw['err']} at op {tw['err_at']}), checked impl does not")
                    continue
                if len(o["states"]) != len(tw["states"]):
                    d.append(f"[{m}] {len(o['states'])} impl states vs {len(tw['states'])} generated-twin states")
                    continue
                for a, b in zip(o["states"], tw["states"]):
                    keys = ["i", "abs"] + (["ind", "depth", "cap", "mcap", "mins", "live"] if case["raw"] else [])
                    bad = [k for k in keys if a.get(k) != b.get(k)]
                    if bad:
                        d.append(f"[{m}] after op {a['i']}: {bad[0]} impl {str(a.get(bad[0]))[:200]} != generated twin {str(b.get(bad[0]))[:200]}")
                        break
        for m, o in _ran(case, outs):
            if "crash" in o:
                if run["err"] is None:
                    d.append(f"[{m}] impl crashed ({o['crash']}), model runs through")
                continue
            if "exc" in o:
                if run["err"] is None or run["err_at"] != o["exc_at"]:
                    d.append(f"[{m}] impl raises {o['exc']} at op {o['exc_at']}, model: {run['err']} at {run['err_at']}")
                continue
            if run["err"] is not None:
                # an unchecked out-of-bounds access of the compiled code is not observable in 'normal' mode
                if m.startswith("bc") or m.startswith("nojit"):
                    d.append(f"[{m}] model fails ({run['err']} at op {run['err_at']}), checked impl does not")
                continue
            if len(o["states"]) != len(run["states"]):
                d.append(f"[{m}] {len(o['states'])} impl states vs {len(run['states'])} model states")
                continue
            for a, b in zip(o["states"], run["states"]):
                keys = ["i", "abs"] + (["ind", "depth", "cap", "mcap", "mins", "live"] if case["raw"] else [])
                bad = [k for k in keys if a.get(k) != b.get(k)]
                if bad:
                    d.append(f"[{m}] after op {a['i']}: {bad[0]} impl {str(a.get(bad[0]))[:200]} != model {str(b.get(bad[0]))[:200]}")
                    break
        if run["err"] is None and not ref.get("ok"):
            d.append(f"index-level vs run-level model: {ref.get('what')}")
        return d
    if case["kind"] == "est":
        by_n = {n: r for n, r in zip(sorted({c[0] for c in case["configs"]}), resps)}
        for m, o in _ran(case, outs):
            if "results" not in o:
                continue
            for r in o["results"]:
                if "chunks" in r and "chunks" in by_n.get(r["cfg"][0], {}):
                    if r["chunks"] != by_n[r["cfg"][0]]["chunks"]:
                        d.append(f"[{m}] chunk boundaries n={r['cfg'][0]}: impl {r['chunks']} != model {by_n[r['cfg'][0]]['chunks']}")
    return d


# ------------------------------------------------------------------ oracle (the property, on the impl)

def _F(key, msg):
    return {"key": key, "msg": msg}


def _sum_by_key(ops, upto):
    acc = {}
    for op in ops[:upto]:
        if op[0] == 0:
            _, r, c, v, k = op
            if k in acc:
                acc[k][2] += v
            else:
                acc[k] = [r, c, v]
    return [[k, acc[k][0], acc[k][1], acc[k][2]] for k in sorted(acc)]


def _count(case, docs, vocab=None, ngrams=None):
    """independent count of the co-occurrence definition: flat kernel, fixed radius, no normalisation"""
    vec, r, orient = case["vec"], case["radius"], case["orient"]
    cnt = Counter()
    pre = orient in ("directional", "before")
    post = orient in ("directional", "after")
    if vocab is not None:
        vs = set(vocab)
        docs = ([[[t for t in m if t in vs] for m in d] for d in docs] if vec == "multiset"
                else [[t for t in d if t in vs] for d in docs])
    for d in docs:
        if vec == "multiset":
            for di, mset in enumerate(d):
                for wi, t in enumerate(mset):
                    if post:
                        flat = [x for m in d[di:di + r + 1] for x in m]
                        for j, x in enumerate(flat):
                            if j != wi:
                                cnt[f"{t}|post_0_{x}"] += 1
                    if pre:
                        flat = [x for m in reversed(d[max(0, di - r):di + 1]) for x in m]
                        for j, x in enumerate(flat):
                            if j != wi:
                                cnt[f"{t}|pre_0_{x}"] += 1
        elif vec == "ngram":
            n = 2
            for w in range(n - 1, len(d)):
                g = "_".join(d[w - n + 1:w + 1])
                if ngrams is not None and g not in ngrams:
                    continue
                s = w - n + 1
                if post:
                    for j in range(w + 1, min(len(d), w + r + 1)):
                        cnt[f"{g}|post_0_{d[j]}"] += 1
                if pre:
                    for j in range(max(0, s - r), s):
                        cnt[f"{g}|pre_0_{d[j]}"] += 1
        else:
            for i, t in enumerate(d):
                if post:
                    for j in range(i + 1, min(len(d), i + r + 1)):
                        cnt[f"{t}|post_0_{d[j]}"] += 1
                if pre:
                    for j in range(max(0, i - r), i):
                        cnt[f"{t}|pre_0_{d[j]}"] += 1
    return sorted([k, v] for k, v in cnt.items())


def _diff(a, b):
    da, db = dict(map(tuple, a)), dict(map(tuple, b))
    ks = sorted(set(da) | set(db))
    bad = [(k, da.get(k, 0), db.get(k, 0)) for k in ks if da.get(k, 0) != db.get(k, 0)]
    return f"{len(bad)} cells differ, e.g. {bad[:3]} (impl, expected); totals {sum(da.values())} vs {sum(db.values())}"


def oracle(case, outs):
    fails = []
    ran = _ran(case, outs)
    if case["kind"] == "kernel":
        base = None
        for m, o in ran:
            if "crash" in o:
                fails.append(_F("coo.kernel.crash", f"[{m}] process terminated ({o['crash']}) cap={case['cap']} lim={case['lim']}"))
                continue
            if "exc" in o:
                fails.append(_F("coo.kernel.raises", f"[{m}] {o['exc']} at op {o['exc_at']} cap={case['cap']} lim={case['lim']}: {o.get('msg')}"))
                continue
            for s in o["states"]:
                exp = _sum_by_key(case["ops"], s["i"])
                if s["abs"] != exp:
                    fails.append(_F("coo.kernel.abs-ne-sum", f"[{m}] after op {s['i']} (cap={case['cap']} lim={case['lim']}): buffer holds {str(s['abs'])[:160]}, events sum to {str(exp)[:160]}"))
                    break
            last = o["states"][-1] if o["states"] else None
            if last and case["ops"] and case["ops"][-1] == [3] and "live" in last:
                ks = [e[0] for e in last["live"]]
                if any(a >= b for a, b in zip(ks, ks[1:])):
                    fails.append(_F("coo.kernel.not-sorted-unique", f"[{m}] finalised keys {ks[:20]}"))
            if base is None:
                base = (m, o)
            elif [s["abs"] for s in o["states"]] != [s["abs"] for s in base[1]["states"]]:
                fails.append(_F("coo.kernel.checked-ne-normal", f"[{m}] differs from [{base[0]}]"))
        return fails
    if case["kind"] == "kernelbig":
        for m, o in ran:
            if "crash" in o:
                fails.append(_F("coo.kernel.crash", f"[{m}] process terminated ({o['crash']}) big cap={case['cap']}"))
            elif "exc" in o:
                fails.append(_F("coo.kernel.raises", f"[{m}] {o['exc']}"))
            else:
                for c in o["checks"]:
                    if not c["equal"]:
                        fails.append(_F("coo.kernel.abs-ne-sum", f"[{m}] after {c['upto']} appends: {c['diff']}"))
                        break
                if not o.get("final_equal"):
                    fails.append(_F("coo.kernel.abs-ne-sum", f"[{m}] finalised buffer is not the sorted unique sum of the events"))
        return fails
    vec = case["vec"]
    exp_ft = None
    for m, o in ran:
        if "crash" in o:
            fails.append(_F(f"coo.est.{vec}.crash", f"[{m}] process terminated ({o['crash']}): {o.get('stderr', '')[-120:]}"))
            continue
        if exp_ft is None:
            exp_ft = _count(case, case["docs"])
        for r in o["results"]:
            cfg = r["cfg"]
            for k in ("ft_exc", "tr_exc"):
                if k in r:
                    fails.append(_F(f"coo.est.{vec}.raises", f"[{m}] cfg {cfg}: {k} {r[k]}"))
            if "ft" in r and r["ft"]["cells"] != exp_ft:
                fails.append(_F(f"coo.est.{vec}.fit_transform-ne-count", f"[{m}] cfg {cfg} sizes {r.get('sizes_ft')}: {_diff(r['ft']['cells'], exp_ft)}"))
            if "tr" in r:
                exp_tr = _count(case, case["docs"], vocab=r["vocab"], ngrams=set(r["ngrams"]) if "ngrams" in r else None)
                if r["tr"]["cells"] != exp_tr:
                    fails.append(_F(f"coo.est.{vec}.transform-ne-count", f"[{m}] cfg {cfg} sizes {r.get('sizes_tr')}: {_diff(r['tr']['cells'], exp_tr)}"))
    return fails


# ------------------------------------------------------------------ statistics

_NEV = {}


def _nevents(case):
    k = id(case["docs"])
    if k not in _NEV:
        _NEV[k] = sum(v for _, v in _count(case, case["docs"]))
    return _NEV[k]


def nontrivial(case, outs):
    for m, o in _ran(case, outs):
        if case["kind"] == "kernel":
            ss = o.get("states", [])
            if any(s["depth"] >= 2 for s in ss) or (ss and ss[-1]["cap"] > case["cap"]):
                return True
        elif case["kind"] == "kernelbig":
            return o.get("depth", 0) >= 2
        elif "results" in o:
            nd = len(case["docs"])
            if any(r["cfg"][0] > nd for r in o["results"]):
                return True
            ev = _nevents(case)
            if any("sizes_ft" in r and min(r["sizes_ft"]) * len(r.get("chunks", [1])) < ev for r in o["results"]):
                return True
    return False


def stats(case, outs):
    t = [case["kind"], f"lim.{case['lim']}"]
    for m, o in _ran(case, outs):
        t.append(f"mode.{m}")
        if "crash" in o:
            t.append("crash")
            continue
        if case["kind"] == "kernel":
            ss = o.get("states", [])
            if "exc" in o:
                t.append("kernel.raises")
            if ss:
                t.append(f"kernel.depth.{min(max(s['depth'] for s in ss), 5)}")
                if ss[-1]["cap"] > case["cap"]:
                    t.append("kernel.grew")
            t.append("kernel.cap<20" if case["cap"] < 20 else "kernel.cap>=20")
        elif case["kind"] == "kernelbig":
            t.append(f"big.depth.{o.get('depth')}")
            if o.get("cap", 0) > case["cap"]:
                t.append("big.grew")
        elif "results" in o:
            t.append(f"est.{case['vec']}")
            for r in o["results"]:
                if "sizes_ft" in r and min(r["sizes_ft"]) <= 32:
                    t.append("est.cfg.capacity-at-floor")
                if len(r.get("chunks", [])) > 1:
                    t.append("est.cfg.multi-chunk")
                if any(a == b for a, b in r.get("chunks", [])):
                    t.append("est.cfg.empty-chunk")
    return t


def shrink_candidates(case):
    if case["kind"] == "kernel":
        ops = case["ops"]
        for n in (len(ops) // 2, len(ops) - 1):
            if 0 < n < len(ops):
                yield dict(case, ops=ops[:n])
        for i in range(min(len(ops), 10)):
            yield dict(case, ops=ops[:i] + ops[i + 1:])
        return
    if case["kind"] != "est":
        return
    cfgs, docs = case["configs"], case["docs"]
    if len(cfgs) > 1:                      # first isolate one configuration (few candidates: crashes are slow)
        for c in cfgs[:10]:
            yield dict(case, configs=[c])
        return
    if len(docs) > 1:
        yield dict(case, docs=docs[:len(docs) // 2])
        yield dict(case, docs=docs[len(docs) // 2:])
        for i in range(min(len(docs), 6)):
            yield dict(case, docs=docs[:i] + docs[i + 1:])
    for i, d in enumerate(docs[:4]):
        if len(d) > 2:
            yield dict(case, docs=docs[:i] + [d[:len(d) // 2]] + docs[i + 1:])
