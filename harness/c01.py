"""C01 — transform returns one row per input item in the fitted column space.
Model: lean/VecModel/Model/Sparse.lean (generic row-wise transform with the shape pinned),
theorems: lean/VecModel/Props/C01.lean."""
from fractions import Fraction
from . import estimators as E

PROP = "C01"
RULE = ("every row-producing vectorizer (ngram, skipgram, lz, bpe-matrix, histogram, kde, distribution, "
        "wasserstein/sinkhorn/approximate-wasserstein) and every fitted-vocabulary-row vectorizer (token/timed/"
        "multiset/ngram co-occurrence, labelled tree, edge list) is fitted on a small random corpus and transform is "
        "called on inputs steered at what the suite never transforms: unseen tokens/labels/characters, items over a "
        "strict subset of the vocabulary that misses the last fitted columns, empty items, items longer than any "
        "training item, duplicates. Non-trivial = the transform input contains unseen vocabulary or misses the "
        "last fitted column. For ngram/lz/bpe/histogram/edgelist the features of every item are extracted "
        "independently and pushed through the Lean model with the fitted dictionary; the result must equal "
        "the implementation's matrix exactly.")
ASSUMPTIONS = [
    "KDE on an empty sequence is outside 'valid inputs' (no density; sklearn rejects n_samples=0) and is not generated",
    "Distribution/KDE/Wasserstein numeric content is the external libraries'; only row count, width, row-locality are checked",
    "LZ with column hashing: only shape / locality are checked here (hashing is C16's)",
]
NWORKERS = {"quick": 6, "thorough": 12}

KINDS = E.ALL_VECTORIZERS


def corpus():
    cs = [
        {"kind": "edgelist", "params": {}, "X": [["a", "x", 1], ["b", "y", 2], ["c", "z", 3]], "Xt": [["a", "x", 1]]},
        {"kind": "skipgram", "params": {"window_radius": 2}, "X": [["a", "b", "c", "a", "b", "c"], ["c", "c", "b"]], "Xt": [["a", "b"], [], ["zz", "a", "a"]]},
        {"kind": "lz", "params": {"max_columns": None}, "X": ["abab", "abc"], "Xt": ["zzab", "", "c", "abababab"]},
        {"kind": "bpe", "params": {"return_type": "matrix"}, "X": ["abab", "abc"], "Xt": ["zzab", "", "c", "abababab"]},
        {"kind": "ngram", "params": {"ngram_size": 2}, "X": [["a", "b", "c"], ["b", "c", "a"]], "Xt": [["a"], [], ["c", "a", "zz", "b", "c"]]},
        {"kind": "histogram", "params": {"n_components": 4, "append_outlier_bins": True}, "X": [[0.0, 1.0, 2.0, 8.0]], "Xt": [[0.0, 8.0, -100.0, 100.0], []]},
        {"kind": "tokencooc", "params": {"window_radii": 1}, "X": [["a", "b", "c", "a", "b", "c"]], "Xt": [["a", "zz", "b"], []]},
    ]
    return cs


def _edge_with_dictionaries(rng):
    """edge list with user-supplied label dictionaries whose indices have gaps / are not 0..n-1"""
    c = E.gen_case("edgelist", rng)
    rows = sorted({e[0] for e in c["X"]}); cols = sorted({e[1] for e in c["X"]})
    def spread(labels):
        idx, out = 0, {}
        for l in labels:
            idx += rng.choice([0, 1, 1, 3]) if out else rng.choice([0, 2])
            out[l] = idx
            idx += 1
        return out
    which = rng.choice(["col", "row", "both"])
    if which in ("col", "both"):
        c["params"]["column_label_dictionary"] = spread(cols)
    if which in ("row", "both"):
        c["params"]["row_label_dictionary"] = spread(rows)
    return c


def generate(rng, tier):
    n = 10 if tier == "quick" else 60
    slow = {"wasserstein": 3, "sinkhorn": 3, "approxwasserstein": 3, "distribution": 3, "kde": 5}
    cs = []
    for kind in KINDS:
        m = n if kind not in slow else (slow[kind] if tier == "quick" else slow[kind] * 5)
        for _ in range(m):
            cs.append(E.gen_case(kind, rng, tier))
    for _ in range(n // 2):
        cs.append(_edge_with_dictionaries(rng))
    return cs


def search(rng, tier):
    return generate(rng, "thorough")


# ------------------------------------------------------------------ worker side

def _erase_unknown(kind, est, Xt):
    vocab = set(getattr(est, "token_label_dictionary_", {}) or {})
    if kind in ("tokencooc", "ngramcooc"):
        return [[t for t in doc if t in vocab] for doc in Xt]
    if kind == "timedcooc":
        return [[[t, ts] for t, ts in doc if t in vocab] for doc in Xt]
    if kind == "multisetcooc":
        return [[[t for t in ms if t in vocab] for ms in doc] for doc in Xt]
    return None


def run_impl(case):
    import numpy as np
    kind, out = case["kind"], {}
    kw = E.call_kwargs(kind, case)
    X, Xt = case["X"], case["Xt"]
    try:
        est = E.make(kind, case["params"])
        ft = est.fit_transform(E.to_input(kind, X), **kw) if kind != "distribution" else None
        if kind == "distribution":
            est.fit(E.to_input(kind, X))
    except Exception as e:
        return {"fit_exc": E.exc_name(e)}
    out["width"] = E.fitted_width(est, kind)
    out["nrows_fitted"] = E.fitted_rows(est, kind)
    if kind == "edgelist":
        # supplied label dictionaries may have gaps: the column space fixed at fit is the fitted matrix's shape
        out["nrows_fitted"], out["width"] = int(ft.shape[0]), int(ft.shape[1])
    try:
        t = est.transform(E.to_input(kind, Xt), **kw)
        out["t"] = E.canon(t)
    except Exception as e:
        out["t_exc"] = E.exc_name(e)
        return out
    # row locality / column stability probes
    if kind in E.ROWWISE:
        singles = []
        for item in Xt:
            try:
                singles.append(E.canon(est.transform(E.to_input(kind, [item]), **kw)))
            except Exception as e:
                singles.append({"exc": E.exc_name(e)})
        out["singles"] = singles
        try:
            both = est.transform(E.to_input(kind, list(X) + list(Xt)), **kw)
            out["train_plus_t"] = E.canon(both)
            out["t_train"] = E.canon(est.transform(E.to_input(kind, X), **kw))
        except Exception as e:
            out["train_plus_t_exc"] = E.exc_name(e)
    else:
        er = _erase_unknown(kind, est, Xt)
        if er is not None and case["params"].get("mask_string") is None:
            try:
                out["t_erased"] = E.canon(est.transform(E.to_input(kind, er), **kw))
            except Exception as e:
                out["t_erased_exc"] = E.exc_name(e)
    out["unseen"] = _has_unseen(kind, est, case)
    feats = _features(kind, est, case)
    if feats is not None:
        out["features"] = feats
    return out


def _has_unseen(kind, est, case):
    Xt = case["Xt"]
    try:
        if kind in ("ngram", "skipgram", "tokencooc", "ngramcooc"):
            voc = set(est._token_dictionary_ if hasattr(est, "_token_dictionary_") else est.token_label_dictionary_)
            return any(t not in voc for d in Xt for t in d)
        if kind == "timedcooc":
            return any(t not in est.token_label_dictionary_ for d in Xt for t, _ in d)
        if kind == "multisetcooc":
            return any(t not in est.token_label_dictionary_ for d in Xt for ms in d for t in ms)
        if kind == "tree":
            return any(l not in est.token_label_dictionary_ for t in Xt for l in t["labels"])
        if kind == "edgelist":
            return any(r not in est.row_label_dictionary_ or c not in est.column_label_dictionary_ for r, c, _ in Xt)
        if kind in ("lz", "bpe"):
            seen = set("".join(case["X"]))
            return any(ch not in seen for s in Xt for ch in s)
        if kind in ("histogram", "kde"):
            lo, hi = min(min(s) for s in case["X"] if s), max(max(s) for s in case["X"] if s)
            return any(v < lo or v > hi for s in Xt for v in s)
    except Exception:
        return False
    return False


def _features(kind, est, case):
    """independent extraction of each transform item's weighted features + the fitted dictionary,
    for the Lean model (op sparse.transform).  Feature keys are strings."""
    Xt = case["Xt"]
    if kind == "ngram":
        n, beh = est.ngram_size, est.ngram_behaviour
        if beh != "exact":
            return None
        tokd = est._token_dictionary_
        lookup = {repr(label): int(col) for label, col in est.column_label_dictionary_.items()}
        items = []
        for doc in Xt:
            kept = [t for t in doc if t in tokd]
            fs = []
            for i in range(len(kept) - n + 1):
                g = kept[i:i + n]
                fs.append([repr(g[0] if n == 1 else tuple(g)), "1"])
            items.append(fs)
        return {"lookup": sorted(lookup.items()), "width": len(est.column_label_dictionary_), "items": items}
    if kind == "bpe":
        import vectorizers as V
        p = dict(case["params"]); p["return_type"] = "sequences"
        m = V.BytePairEncodingVectorizer(**p)
        m.fit(case["X"])
        seqs = m.transform(Xt)
        lookup = {str(int(k)): int(v) for k, v in est.column_label_dictionary_.items()}
        return {"lookup": sorted(lookup.items()), "width": len(lookup),
                "items": [[[str(int(c)), "1"] for c in s] for s in seqs]}
    if kind == "lz" and case["params"].get("max_columns", 1 << 16) is None:
        lookup = {k: int(v) for k, v in est.column_label_dictionary_.items()}
        cap = case["params"].get("max_dict_size", 1 << 16)
        items = []
        for s in Xt:
            d, start = {}, 0
            for end in range(len(s)):
                ph = s[start:end]
                if ph in d:
                    d[ph] += 1
                elif len(d) >= cap:
                    start = end
                else:
                    d[ph] = 1
                    start = end
            items.append([[ph, str(c)] for ph, c in d.items()])
        return {"lookup": sorted(lookup.items()), "width": len(lookup), "items": items}
    if kind == "histogram":
        bins = [(float(iv.left), float(iv.right)) for iv in est.bin_intervals_]
        items = []
        for s in Xt:
            fs = []
            for v in s:
                for b, (lo, hi) in enumerate(bins):
                    if lo < v <= hi:
                        fs.append([str(b), "1"])
            items.append(fs)
        return {"lookup": [(str(b), b) for b in range(len(bins))], "width": len(bins), "items": items}
    if kind == "edgelist":
        rl, cl = est.row_label_dictionary_, est.column_label_dictionary_
        entries = [[int(rl[r]), int(cl[c]), str(Fraction(v))] for r, c, v in Xt if r in rl and c in cl]
        return {"assemble": {"shape": [int(est._train_matrix.shape[0]), int(est._train_matrix.shape[1])], "entries": entries}}
    return None


# ------------------------------------------------------------------ model side

def model_requests(case, outs):
    o = outs["normal"]
    f = o.get("features") if isinstance(o, dict) else None
    if not f or "t" not in o:
        return []
    if "assemble" in f:
        return [{"op": "sparse.assemble", "shape": f["assemble"]["shape"], "entries": f["assemble"]["entries"]}]
    return [{"op": "sparse.transform", "lookup": [[k, v] for k, v in f["lookup"]], "width": f["width"], "items": f["items"]}]


def compare(case, outs, resps):
    o = outs["normal"]
    if not resps:
        return []
    r = resps[0]
    if "bad" in r:
        return [f"model rejected request: {r['bad']}"]
    if "err" in r:
        return [f"model transform fails ({r['err']}) where the implementation returned {o['t']['shape']}"]
    d = []
    if [r["nRows"], r["nCols"]] != o["t"]["shape"]:
        d.append(f"shape: model {[r['nRows'], r['nCols']]} impl {o['t']['shape']}")
    mrows = [sorted((int(j), E._num(float(Fraction(v)))) for j, v in row if Fraction(v) != 0) for row in r["rows"]]
    irows = [sorted((int(j), v) for j, v in row) for row in o["t"]["rows"]]
    if mrows != irows:
        d.append(f"cells: model {mrows} impl {irows}")
    return d


# ------------------------------------------------------------------ oracle

def _F(key, msg):
    return {"key": key, "msg": msg}


def oracle(case, outs):
    o = outs["normal"]
    kind = case["kind"]
    if "crash" in o:
        return [_F(f"c01.{kind}.crash", f"process terminated: {o['crash']}")]
    if "fit_exc" in o:
        return []          # fitting is not this property's subject (valid training inputs are generated; see stats)
    if "t_exc" in o:
        return [_F(f"c01.{kind}.transform-raises", f"transform raised {o['t_exc']} on Xt={case['Xt']}")]
    fails = []
    t = o["t"]
    if "shape" not in t:
        return [_F(f"c01.{kind}.not-a-matrix", f"transform returned {list(t)}")]
    exp_rows = len(case["Xt"]) if kind in E.ROWWISE else o["nrows_fitted"]
    if exp_rows is not None and t["shape"][0] != exp_rows:
        fails.append(_F(f"c01.{kind}.row-count", f"{t['shape'][0]} rows, expected {exp_rows}"))
    if o["width"] is not None and t["shape"][1] != o["width"]:
        fails.append(_F(f"c01.{kind}.width", f"{t['shape'][1]} columns, fitted width {o['width']}; Xt={case['Xt']}"))
    if fails:
        return fails
    tol = dict(rtol=1e-6, atol=1e-8) if kind in ("sinkhorn", "approxwasserstein", "wasserstein", "kde", "distribution") else dict(rtol=0, atol=0)
    if kind in E.ROWWISE:
        for i, s in enumerate(o.get("singles", [])):
            if "exc" in s:
                fails.append(_F(f"c01.{kind}.single-item-raises", f"transform([Xt[{i}]]) raised {s['exc']}; item={case['Xt'][i]}"))
                continue
            one = {"shape": [1, t["shape"][1]], "rows": [t["rows"][i]]}
            df = E.approx_equal(one, s, **tol)
            if df:
                fails.append(_F(f"c01.{kind}.row-differs-from-single", f"row {i} of transform(Xt) != transform([Xt[{i}]]): {df}"))
        if "train_plus_t_exc" in o:
            fails.append(_F(f"c01.{kind}.transform-raises", f"transform(X + Xt) raised {o['train_plus_t_exc']}"))
        elif "train_plus_t" in o:
            n = len(case["X"])
            head = {"shape": [n, o["train_plus_t"]["shape"][1]], "rows": o["train_plus_t"]["rows"][:n]}
            df = E.approx_equal(head, o["t_train"], **tol)
            if df:
                fails.append(_F(f"c01.{kind}.columns-shift", f"rows of X inside transform(X+Xt) differ from transform(X): {df}"))
    else:
        if "t_erased_exc" in o:
            fails.append(_F(f"c01.{kind}.transform-raises", f"transform(Xt without unseen tokens) raised {o['t_erased_exc']}"))
        elif "t_erased" in o:
            df = E.approx_equal(t, o["t_erased"], rtol=1e-6, atol=1e-9)
            if df:
                fails.append(_F(f"c01.{kind}.unseen-not-ignored", f"transform(Xt) != transform(Xt minus unseen tokens): {df}"))
    return fails


def nontrivial(case, outs):
    o = outs["normal"]
    if not isinstance(o, dict) or "t" not in o or "shape" not in o["t"]:
        return False
    used = {j for row in o["t"]["rows"] for j, _ in row}
    misses_last = o.get("width") and (o["width"] - 1) not in used
    return bool(o.get("unseen") or misses_last)


def stats(case, outs):
    o = outs["normal"]
    tags = [case["kind"]]
    if not isinstance(o, dict):
        return tags
    if "fit_exc" in o:
        tags.append(f"{case['kind']}.fit-raises")
    if o.get("unseen"):
        tags.append("unseen-vocabulary")
    if "t" in o and "shape" in o["t"]:
        used = {j for row in o["t"]["rows"] for j, _ in row}
        if o.get("width") and (o["width"] - 1) not in used:
            tags.append("last-column-absent")
        if any(len(r) == 0 for r in o["t"]["rows"]):
            tags.append("empty-row")
    if o.get("features"):
        tags.append("model-compared")
    return tags


def shrink_candidates(case):
    Xt = case["Xt"]
    for i in range(len(Xt)):
        if len(Xt) > 1:
            yield dict(case, Xt=Xt[:i] + Xt[i + 1:])
    if case["kind"] in ("ngram", "skipgram", "tokencooc", "ngramcooc", "lz", "bpe", "histogram", "kde"):
        for i, it in enumerate(Xt):
            for j in range(len(it)):
                yield dict(case, Xt=Xt[:i] + [it[:j] + it[j + 1:]] + Xt[i + 1:])
