"""Python/numba-vs-generated-twin samples (DESIGN §11.3): helpers to send Python values to the driver op `twin.call`
(which interprets the kernel regenerated from the repository's current source) and to read its answer.  Agreement of
the compiled kernel with the twin on sampled inputs validates the translator (tools/py2lean.py) and the interpreter
(lean/VecModel/Model/PyInterp.lean); the twin = hand-model comparison is the exhaustive TWIN_CHECKS op."""
from fractions import Fraction


def tv(x):
    """Python value -> twin.call JSON value (floats travel exactly, as rationals)"""
    if isinstance(x, bool) or x is None or isinstance(x, str):
        return x
    if isinstance(x, int):
        return x
    if isinstance(x, float):
        f = Fraction(x)
        return f.numerator if f.denominator == 1 else {"q": f"{f.numerator}/{f.denominator}"}
    if isinstance(x, Fraction):
        return x.numerator if x.denominator == 1 else {"q": f"{x.numerator}/{x.denominator}"}
    if isinstance(x, tuple):
        return {"t": [tv(y) for y in x]}
    if isinstance(x, list):
        return [tv(y) for y in x]
    if isinstance(x, dict):
        return {"d": [[tv(k), tv(v)] for k, v in x.items()]}
    raise TypeError(f"twinutil.tv: {type(x).__name__}")


def pv(j):
    """twin.call JSON value -> Python value (rationals -> Fraction, {"t": …} -> tuple, {"d": …} -> list of pairs)"""
    if isinstance(j, list):
        return [pv(y) for y in j]
    if isinstance(j, dict):
        if "q" in j:
            a, b = j["q"].split("/")
            return Fraction(int(a), int(b))
        if "t" in j:
            return tuple(pv(y) for y in j["t"])
        if "d" in j:
            return [[pv(k), pv(v)] for k, v in j["d"]]
        if "rec" in j:
            return {k: pv(v) for k, v in j["rec"]}
    return j


def call(fn, args, **globals_):
    r = {"op": "twin.call", "fn": fn, "args": [tv(a) for a in args]}
    if globals_:
        r["globals"] = [[k, tv(v)] for k, v in globals_.items()]
    return r


def unavailable(resp):
    """the kernel is outside the translator's subset or uses an idiom the interpreter does not model: no comparison"""
    return "bad" in resp or str(resp.get("err", "")).startswith("invalid:unsupported")


def memory_error(resp):
    e = str(resp.get("err", ""))
    return e.startswith("oob:") or e.startswith("unbound:")


def bmp(s):
    """strings that survive the JSON round trip through the Lean driver unchanged"""
    return all(ord(c) < 0xD800 for c in s)
