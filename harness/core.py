"""Shared machinery of the /verif checks: Lean build + proof audit, model driver, impl workers,
verdict logic, evidence and replay files.  See DESIGN.md §1."""
import fcntl, hashlib, json, os, random, re, signal, subprocess, sys, tempfile, time
from pathlib import Path

VERIF = Path(__file__).resolve().parent.parent
LEAN = VERIF / "lean"
REPO = Path(os.environ.get("VERIF_REPO", "/repo"))
PY = os.environ.get("VERIF_PYTHON", "/venv/bin/python")
ALLOWED_AXIOMS = {"propext", "Classical.choice", "Quot.sound"}
FORBIDDEN = re.compile(r"\bsorry\b|\badmit\b|^\s*axiom\s|native_decide|bv_decide|implemented_by|\bunsafe\s|maxHeartbeats\s+0\b|\bextern\b", re.M)


class ToolFailure(Exception):
    pass


# ----------------------------------------------------------------------------- Lean side

def _lake(args, timeout=3600):
    lock = LEAN / ".lake-build.lock"
    with open(lock, "w") as fh:
        fcntl.flock(fh, fcntl.LOCK_EX)
        try:
            p = subprocess.run(["lake"] + args, cwd=LEAN, capture_output=True, text=True, timeout=timeout)
        finally:
            fcntl.flock(fh, fcntl.LOCK_UN)
    return p.returncode, p.stdout + p.stderr


def build(targets):
    """lake build of the given targets; returns (ok, log)."""
    rc, log = _lake(["build"] + list(targets))
    return rc == 0, log


def strip_comments(src):
    # remove nested /- -/ block comments and -- line comments (strings in this project never contain them)
    out, depth, i = [], 0, 0
    while i < len(src):
        if src.startswith("/-", i):
            depth += 1; i += 2; continue
        if src.startswith("-/", i) and depth:
            depth -= 1; i += 2; continue
        if depth == 0:
            if src.startswith("--", i):
                j = src.find("\n", i)
                i = len(src) if j < 0 else j
                continue
            out.append(src[i])
        elif src[i] == "\n":
            out.append("\n")
        i += 1
    return "".join(out)


def theorems_of(path):
    """fully qualified names of the `theorem`s declared in a Lean file (namespace-aware)."""
    src = strip_comments(Path(path).read_text())
    ns, names = [], []
    for line in src.splitlines():
        m = re.match(r"\s*namespace\s+(\S+)", line)
        if m:
            ns.append(m.group(1)); continue
        m = re.match(r"\s*end\s+(\S+)", line)
        if m and ns and ns[-1].split(".")[-1] == m.group(1).split(".")[-1]:
            ns.pop(); continue
        m = re.match(r"\s*(?:@\[[^\]]*\]\s*)?(?:private\s+|protected\s+)?theorem\s+([^\s:({\[]+)", line)
        if m:
            names.append(".".join(ns + [m.group(1)]))
    return names


def imports_closure(module):
    """project-local modules transitively imported by `module` (incl. itself)."""
    seen, todo = set(), [module]
    while todo:
        m = todo.pop()
        if m in seen:
            continue
        f = LEAN / (m.replace(".", "/") + ".lean")
        if not f.exists():
            continue
        seen.add(m)
        for line in f.read_text().splitlines():
            mm = re.match(r"\s*(?:public\s+)?import\s+(\S+)", line)
            if mm and (mm.group(1).startswith("VecModel") or mm.group(1).startswith("Driver")):
                todo.append(mm.group(1))
    return sorted(seen)


def audit(prop_id, thorough=False):
    """Build Props/<id>, list its theorems (= obligations), check their axioms, grep for escapes.
    Returns dict(obligations, discharged, theorems{name: axioms|error}, problems[], checker_cmd)."""
    module = f"VecModel.Props.{prop_id}"
    props_file = LEAN / "VecModel" / "Props" / f"{prop_id}.lean"
    res = {"obligations": 0, "discharged": 0, "theorems": {}, "problems": [],
           "checker_cmd": f"cd lean && lake build {module} && lake env lean <#print axioms for every theorem of Props/{prop_id}.lean>"}
    if not props_file.exists():
        res["problems"].append(f"missing {props_file}")
        return res
    names = theorems_of(props_file)
    res["obligations"] = len(names)
    ok, log = build([module])
    if not ok:
        res["problems"].append("lake build failed: " + log[-1500:])
        res["theorems"] = {n: "not-built" for n in names}
        return res
    for m in imports_closure(module):
        f = LEAN / (m.replace(".", "/") + ".lean")
        hit = FORBIDDEN.search(strip_comments(f.read_text()))
        if hit:
            res["problems"].append(f"forbidden token {hit.group(0).strip()!r} in {f.relative_to(LEAN)}")
    with tempfile.TemporaryDirectory(prefix="verif-audit-") as td:
        af = Path(td) / "Audit.lean"
        af.write_text(f"import {module}\n" + "".join(f"#print axioms {n}\n" for n in names))
        p = subprocess.run(["lake", "env", "lean", str(af)], cwd=LEAN, capture_output=True, text=True, timeout=1800)
    out = p.stdout + p.stderr
    # "'name' depends on axioms: [a, b]"  /  "'name' does not depend on any axioms"
    found = {}
    for m in re.finditer(r"'([^']+)' depends on axioms: \[([^\]]*)\]", out):
        found[m.group(1)] = [a.strip() for a in m.group(2).replace("\n", " ").split(",") if a.strip()]
    for m in re.finditer(r"'([^']+)' does not depend on any axioms", out):
        found[m.group(1)] = []
    for n in names:
        if n not in found:
            res["theorems"][n] = "missing"
            res["problems"].append(f"theorem {n}: no axiom report ({out[-300:]!r})")
            continue
        res["theorems"][n] = found[n]
        bad = [a for a in found[n] if a not in ALLOWED_AXIOMS]
        if bad:
            res["problems"].append(f"theorem {n} depends on {bad}")
        else:
            res["discharged"] += 1
    if thorough:
        mods = imports_closure(module)
        p = subprocess.run(["lake", "env", "leanchecker"] + mods, cwd=LEAN, capture_output=True, text=True, timeout=3600)
        res["leanchecker"] = {"modules": mods, "rc": p.returncode, "tail": (p.stdout + p.stderr)[-300:]}
        if p.returncode != 0:
            res["problems"].append("leanchecker rejected: " + (p.stdout + p.stderr)[-500:])
    return res


def regen_twins():
    """Regenerate lean/Gen/Kernels.lean from the current source of REPO (tools/py2lean.py); the file is
    rewritten only when its content changes.  Returns the translator's report."""
    lock = LEAN / ".lake-build.lock"
    with open(lock, "w") as fh:
        fcntl.flock(fh, fcntl.LOCK_EX)
        try:
            p = subprocess.run([sys.executable, str(VERIF / "tools" / "py2lean.py"), str(REPO), str(LEAN / "Gen" / "Kernels.lean")],
                               capture_output=True, text=True, timeout=300)
        finally:
            fcntl.flock(fh, fcntl.LOCK_UN)
    if p.returncode != 0:
        raise ToolFailure("py2lean failed: " + (p.stdout + p.stderr)[-800:])
    return json.loads(p.stdout.strip().splitlines()[-1])


TWIN_REPORT = {}


def run_driver(requests, timeout=3600):
    """Send request dicts to the compiled Lean driver; returns list of response dicts.  The generated
    twins are refreshed from /repo's current source first."""
    TWIN_REPORT.update(regen_twins())
    ok, log = build(["driver"])
    if not ok:
        raise ToolFailure("driver build failed: " + log[-1500:])
    exe = LEAN / ".lake" / "build" / "bin" / "driver"
    data = "".join(json.dumps(r, separators=(",", ":")) + "\n" for r in requests)
    p = subprocess.run([str(exe)], input=data, capture_output=True, text=True, timeout=timeout)
    if p.returncode != 0:
        raise ToolFailure(f"driver exit {p.returncode}: {p.stderr[-500:]}")
    lines = p.stdout.splitlines()
    if len(lines) != len(requests):
        raise ToolFailure(f"driver answered {len(lines)} lines for {len(requests)} requests: {p.stderr[-300:]}")
    return [json.loads(l) for l in lines]


# ----------------------------------------------------------------------------- impl workers

def run_impl(modname, cases, env=None, nworkers=4, timeout=3000, tag="normal"):
    """Run `harness.<modname>.run_impl(case)` for every case in fresh worker processes importing
    /repo's package.  A worker that dies (signal) yields {"crash": "<signal>"} for the case it
    was running and a new worker continues with the rest.  Returns list aligned with cases."""
    results = [None] * len(cases)
    nworkers = max(1, min(nworkers, len(cases) or 1))
    chunks = [list(range(i, len(cases), nworkers)) for i in range(nworkers)]
    e = dict(os.environ)
    e["PYTHONPATH"] = f"{VERIF}:{REPO}"
    e.setdefault("PYTHONHASHSEED", "0")
    e["PYTHONWARNINGS"] = "ignore"
    # keep the machine usable when several checks run side by side (modules may override via MODES env)
    e.setdefault("NUMBA_NUM_THREADS", "4")
    e.setdefault("OMP_NUM_THREADS", "2")
    e.setdefault("OPENBLAS_NUM_THREADS", "2")
    e.setdefault("MKL_NUM_THREADS", "2")
    if env:
        e.update(env)

    def start(idxs):
        payload = "".join(json.dumps({"i": i, "case": cases[i]}) + "\n" for i in idxs)
        f = tempfile.TemporaryFile(mode="w+")
        f.write(payload); f.seek(0)
        return subprocess.Popen([PY, "-m", "harness.worker", modname], cwd=VERIF, env=e, stdin=f,
                                stdout=subprocess.PIPE, stderr=subprocess.PIPE, text=True)

    pending = [(idxs, start(idxs)) for idxs in chunks if idxs]
    deadline = time.time() + timeout
    while pending:
        nxt = []
        for idxs, proc in pending:
            try:
                out, err = proc.communicate(timeout=max(1, deadline - time.time()))
            except subprocess.TimeoutExpired:
                proc.kill()
                raise ToolFailure(f"impl worker timeout ({tag})")
            done = set()
            for line in out.splitlines():
                if not line.startswith("@@"):
                    continue
                d = json.loads(line[2:])
                results[d["i"]] = d["out"]
                done.add(d["i"])
            rest = [i for i in idxs if i not in done]
            if rest:
                # the worker died while running rest[0]
                rc = proc.returncode
                if rc is not None and rc < 0:
                    why = signal.Signals(-rc).name
                elif rc == 0:
                    raise ToolFailure(f"worker exited 0 without finishing: {err[-500:]}")
                else:
                    # the worker catches every exception of run_impl, so a plain non-zero exit is a tool problem
                    raise ToolFailure(f"worker failed ({tag}, exit {rc}): {err[-1500:]}")
                results[rest[0]] = {"crash": why, "stderr": err[-400:]}
                if rest[1:]:
                    nxt.append((rest[1:], start(rest[1:])))
        pending = nxt
    return results


# ----------------------------------------------------------------------------- findings / verdict

def load_known(prop_id):
    """KNOWN_FINDINGS.txt lines: 'known: property=<id> key=<key> <text>' / 'fixed: ...' (suppresses nothing)."""
    known = {}
    f = VERIF / "KNOWN_FINDINGS.txt"
    if f.exists():
        for line in f.read_text().splitlines():
            m = re.match(r"known:\s+property=(\S+)\s+key=(\S+)\s+(.*)", line)
            if m and m.group(1) == prop_id:
                known[m.group(2)] = m.group(3)
    return known


def canon(o):
    return json.dumps(o, sort_keys=True, separators=(",", ":"), default=str)


def write_replay(prop_id, payload):
    d = VERIF / "replays" / prop_id
    d.mkdir(parents=True, exist_ok=True)
    h = hashlib.sha1(canon(payload).encode()).hexdigest()[:12]
    f = d / f"{h}.json"
    f.write_text(json.dumps(payload, indent=1, default=str))
    return f


def write_evidence(prop_id, tier, seed, coverage, assumptions, wall, violations):
    ev = {"property_id": prop_id, "tier": tier, "seed": seed, "level": "proof", "coverage": coverage,
          "assumptions": assumptions, "wall_s": round(wall, 2), "violations": violations}
    d = VERIF / "evidence"
    d.mkdir(exist_ok=True)
    (d / f"{prop_id}.json").write_text(json.dumps(ev, indent=1, default=str))


TRUSTED_BASE = [
    "Lean 4.33.0 kernel; axioms limited to propext, Classical.choice, Quot.sound (checked by #print axioms on every property theorem)",
    "hand-written executable model (lean/VecModel/Model) — tied to /repo only by this run's correspondence (differential) check",
    "the Python harness: generators, canonicalisation, float<->rational conversion, oracles; the Lean driver's JSON parsing/printing",
    "modelled, not verified: CPython, numba compilation, numpy/scipy/sklearn/pandas/pynndescent/dask internals, floating-point rounding",
]
