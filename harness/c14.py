"""C14 — masking keeps positions; nullifying the mask removes its contribution.
Model: lean/VecModel/Model/{Preprocess,Window,Cooc}.lean, theorems: lean/VecModel/Props/C14.lean."""
import math
from collections import Counter
from . import cooc_common as cc

PROP = "C14"
RULE = ("random corpora x pruning settings (min/max occurrences, document occurrences, max_unique_tokens, excluded "
        "tokens, supplied dictionaries incl. ones with unused trailing tokens) x the three variants mask_string=None / "
        "mask_string='[M]' (not a token of the corpus) / mask_string + nullify_mask, each fitted on the same corpus, "
        "x window/kernel settings, for the token, timed, multiset and n-gram co-occurrence vectorizers; the labelled-tree "
        "vectorizer (nullify part: random forests) and NgramVectorizer (positions only, fit_transform and transform). "
        "Non-trivial = pruning removed at least one token occurrence from the corpus.")
ASSUMPTIONS = [
    "the kept vocabulary (which tokens the pruning settings remove) is read from the fitted estimator (property C05)",
    "'the mask's contributions removed' is read as: masked contexts get kernel weight 0 before the kernel-level and the "
    "window-level normalisation, and mask targets open no window; when no normalisation is on this is also compared "
    "cell by cell with the implementation's own non-nullified result",
    "tree vectorizer: only the nullify part (mask row/columns zero, other cells unchanged); the tree definition is C15",
    "NgramVectorizer: only the positions (n-gram counts of the deleted / replaced-in-place sequences); its nullify_mask is outside the claim",
]
_NW = int(__import__("os").environ.get("VERIF_NWORKERS", "6"))      # NFAM families are dealt round-robin to the workers
NWORKERS = {"quick": _NW, "thorough": _NW}
NFAM = 6
ALPHA = "abcdefgh"
MASK = "[M]"


# ------------------------------------------------------------------ generation

def _corpus(rng, maxlen=14, vmax=6):
    v = rng.randint(2, vmax)
    vocab = list(ALPHA[:v])
    weights = [rng.choice([1, 1, 2, 4, 8]) for _ in vocab]
    k = rng.choice([1, 2, 3, 4])
    X = [rng.choices(vocab, weights, k=rng.randint(0, maxlen)) for _ in range(k)]
    if not any(X):
        X.append([vocab[0], vocab[1], vocab[0]])
    return X


def _removes(X, setting):
    """does the pruning setting (probably) remove at least one token occurrence of X?"""
    cnt = Counter(t for s in X for t in s)
    doc = Counter(t for s in X for t in set(s))
    if setting.get("excluded") or setting.get("dict") is not None:
        d = setting.get("dict")
        return True if d is None else any(t not in d for t in cnt)
    for k, v in setting["prune"].items():
        if k == "min_occurrences" and any(c < v for c in cnt.values()):
            return True
        if k == "max_occurrences" and any(c > v for c in cnt.values()):
            return True
        if k == "min_document_occurrences" and any(c < v for c in doc.values()):
            return True
        if k == "max_unique_tokens" and len(cnt) > v:
            return True
    return False


def _prune(rng, X):
    for _ in range(12):
        p = _prune1(rng, X)
        if _removes(X, p):
            return p
    toks = sorted({t for s in X for t in s})
    return {"excluded": [rng.choice(toks)]}


def _prune1(rng, X):
    toks = sorted({t for s in X for t in s})
    r = rng.random()
    if r < 0.3:
        return {"prune": {"min_occurrences": rng.choice([2, 2, 3])}}
    if r < 0.45:
        return {"prune": {"max_occurrences": rng.choice([1, 2, 3])}}
    if r < 0.55:
        return {"prune": {"min_document_occurrences": 2}}
    if r < 0.65:
        return {"prune": {"max_unique_tokens": rng.choice([1, 2, 3])}}
    if r < 0.8:
        return {"excluded": rng.sample(toks, k=min(len(toks), rng.choice([1, 1, 2])))}
    keep = [t for t in toks if rng.random() < 0.6] or toks[:1]
    extra = [t for t in "xyz" if rng.random() < 0.4]
    return {"dict": {t: i for i, t in enumerate(keep + extra)}}


def _win(rng, shapes, kargs=None):
    shape = rng.choice(shapes)
    ka = kargs(rng) if kargs else None
    out = []
    for o in shape:
        w = {"radius": rng.choice([1, 1, 2, 2, 3]), "orient": o, "fn": "fixed", "mix": rng.choice([1, 1, 2, 0.5])}
        if ka is not None:
            w["kargs"] = {k: (v(rng) if callable(v) else v) for k, v in ka.items()}
        out.append(w)
    return out


def _ka(rng):
    return {"offset": lambda r: r.choice([0, 0, 1]), "normalize": lambda r: r.random() < 0.3}


def _ka_p(rng):
    return {"offset": lambda r: r.choice([0, 0, 1]), "normalize": lambda r: r.random() < 0.3, "power": lambda r: r.choice([0.5, 0.9])}


def _ka_t(rng):
    return {"delta": lambda r: r.choice([0.25, 0.5, 1.0]), "offset": lambda r: r.choice([0, 0, 1]),
            "normalize": lambda r: r.random() < 0.3, "power": lambda r: r.choice([0.5, 0.9])}


S2 = [["directional"], ["after", "before"]]


def _tree(rng, vocab, weights):
    n = rng.choice([rng.randint(1, 7), rng.randint(6, 12)])
    labels = rng.choices(vocab, weights, k=n)
    edges = [[rng.randrange(0, j), j] for j in range(1, n)]     # a random rooted tree, edges parent -> child
    return {"n": n, "edges": edges, "labels": labels}


def _fam(rng, f):
    X = _corpus(rng)
    c = {"nw": rng.random() < 0.35, "prune": {}, "dict": None, "mask": MASK}
    c.update(_prune(rng, X))
    if f == 0:
        c.update(kind="token", kernel=rng.choice(["flat", "flat", "harmonic"]), X=X, win=_win(rng, S2, _ka))
        if rng.random() < 0.5:
            c["nw"] = False
            for w in c["win"]:
                w["kargs"]["normalize"] = False
    elif f == 1:
        c.update(kind="token", kernel="geometric", X=X, win=_win(rng, S2, _ka_p))
        if rng.random() < 0.3:
            for w in c["win"]:
                w["fn"] = "variable"
    elif f == 2:
        k = rng.choice(["flat", "geometric"])
        tX = []
        for s in X:
            t, ts = 0.0, []
            for tok in s:
                ts.append([tok, t])
                t += rng.choice([0, 1, 1, 2, 4]) / 4
            tX.append(ts)
        c.update(kind="timed", kernel=k, X=tX, win=_win(rng, S2, _ka_t))
        if k == "flat":
            for w in c["win"]:
                del w["kargs"]["power"]
    elif f == 3:
        k = rng.choice(["flat", "flat", "geometric"])
        docs = []
        for s in X:
            doc, i = [], 0
            while i < len(s):
                m = rng.choice([1, 1, 2, 3])
                doc.append(s[i:i + m])
                i += m
            docs.append(doc)
        c.update(kind="multi", kernel=k, X=docs, win=_win(rng, S2, _ka_p if k == "geometric" else _ka))
        for w in c["win"]:
            w["radius"] = min(w["radius"], 2)
    elif f == 4:
        c.update(kind="ngram", kernel="flat", X=X, nsize=rng.choice([1, 2, 2, 3]), win=_win(rng, S2, _ka))
        if "max_unique_tokens" in c["prune"]:
            c["prune"] = {"min_occurrences": 2}
    else:
        if rng.random() < 0.5:
            v = rng.randint(2, 5)
            vocab, weights = list(ALPHA[:v]), [rng.choice([1, 2, 4, 8]) for _ in range(v)]
            trees = [_tree(rng, vocab, weights) for _ in range(rng.choice([1, 2, 3]))]
            pr = rng.choice([{"min_occurrences": 2}, {"max_occurrences": 2}, {"min_tree_occurrences": 2},
                             {"ignored_tokens": [vocab[0]]}])
            c = {"kind": "tree", "trees": trees, "prune": pr, "mask": MASK, "radius": rng.choice([1, 2, 3]),
                 "kernel": rng.choice(["flat", "harmonic", "geometric"]),
                 "orient": rng.choice(["before", "after", "symmetric", "directional"])}
        else:
            pr = dict(c["prune"])
            pr.pop("max_unique_tokens", None)
            c = {"kind": "ngramvec", "X": X, "Xt": _corpus(rng, 10), "nsize": rng.choice([1, 2, 2, 3]),
                 "prune": pr or ({} if c.get("excluded") or c.get("dict") else {"min_occurrences": 2}),
                 "excluded": c.get("excluded"), "dict": c.get("dict"), "mask": MASK}
    if c["kind"] in ("token", "timed", "multi", "ngram") and rng.random() < 0.35:
        # history: the same estimator object was fitted before, on a corpus with another vocabulary
        R = _corpus(rng, 10, 8)
        if c["kind"] == "timed":
            R = [[[t, float(i)] for i, t in enumerate(q)] for q in R]
        elif c["kind"] == "multi":
            R = [[[t] for t in q] for q in R]
        c["refit_first"] = R
    return c


def _interleave(fams):
    k = max(len(f) for f in fams)
    out = []
    for j in range(k):
        for f in fams:
            out.append(f[j % len(f)])
    return out


def corpus():
    Wd = [{"radius": 1, "orient": "directional", "fn": "fixed", "mix": 1, "kargs": {"offset": 0, "normalize": False}}]
    b = {"nw": False, "prune": {}, "dict": None, "mask": MASK}
    f0 = [dict(b, kind="token", kernel="flat", X=[["a", "x", "b", "a"]], dict={"a": 0, "b": 1, "c": 2}, win=Wd),     # D30
          dict(b, kind="token", kernel="flat", X=[["a", "b", "c", "a", "b", "d", "a"]], prune={"min_occurrences": 2}, win=Wd),
          dict(b, kind="token", kernel="flat", nw=True, X=[["a", "b", "c", "a", "b", "d", "a"], ["d", "a"]],
               prune={"min_occurrences": 3}, win=Wd),
          dict(b, kind="token", kernel="flat", X=[["a", "c", "a"]], dict={"a": 0, "b": 1}, win=Wd)]                  # D18
    f0.append(dict(b, kind="token", kernel="flat", X=[["a", "b", "c", "a", "b", "d", "a"], ["b", "e", "a"]], prune={"min_occurrences": 2},
                   win=[{"radius": 2, "orient": "directional", "fn": "fixed", "mix": 1, "kargs": {"offset": 0, "normalize": True}}]))   # mask before kernel normalisation
    f1 = [dict(b, kind="token", kernel="geometric", nw=True, X=[["a", "b", "c", "a", "b", "d", "a"], ["c"]],
               prune={"min_occurrences": 2},
               win=[{"radius": 3, "orient": "directional", "fn": "fixed", "mix": 1, "kargs": {"offset": 0, "normalize": True, "power": 0.5}}])]
    f1.append(dict(b, kind="token", kernel="geometric", X=[list("aaccaacbaaaab")], prune={"max_occurrences": 1},   # nothing kept
                   win=[{"radius": 2, "orient": "directional", "fn": "variable", "mix": 1, "kargs": {"offset": 0, "normalize": False, "power": 0.5}}]))
    f1.append(dict(b, kind="token", kernel="geometric", nw=True, X=[["c", "d", "c"]], dict={"c": 0, "e": 1, "z": 2},      # zero frequencies
                   win=[{"radius": 3, "orient": "directional", "fn": "variable", "mix": 1, "kargs": {"offset": 0, "normalize": False, "power": 0.5}}]))
    tk = {"delta": 1.0, "offset": 0, "normalize": False, "power": 0.5}
    f2 = [dict(b, kind="timed", kernel="geometric", X=[[["a", 0.0], ["x", 1.0], ["b", 2.0], ["a", 4.0]], []],
               prune={"min_occurrences": 2}, win=[{"radius": 2, "orient": "directional", "fn": "fixed", "mix": 1, "kargs": tk}])]
    f3 = [dict(b, kind="multi", kernel="flat", X=[[["a", "b"], ["c"], ["a", "a"]], [["b"], [], ["d", "a"]]],
               prune={"min_occurrences": 2}, win=Wd)]
    f3.append(dict(b, kind="multi", kernel="flat", X=[[], [["b", "e"], ["b"]]], prune={"max_unique_tokens": 1}, win=Wd))   # empty document + document frequencies
    f4 = [dict(b, kind="ngram", kernel="flat", nsize=2, X=[["a", "b", "c", "a", "b", "d", "e", "a"]], prune={"min_occurrences": 2}, win=Wd),
          dict(b, kind="ngram", kernel="flat", nsize=2, X=[["a", "x", "y", "b", "u", "v", "a", "b"]], excluded=["x", "y", "u", "v"], win=Wd)]
    f5 = [{"kind": "ngramvec", "X": [["a", "b", "x", "a", "b"], ["a", "b", "y"]], "Xt": [["a", "b", "z", "a"]], "nsize": 2,   # D7
           "prune": {"min_occurrences": 2}, "excluded": None, "dict": None, "mask": MASK},
          {"kind": "tree", "trees": [{"n": 4, "edges": [[0, 1], [1, 2], [1, 3]], "labels": ["a", "x", "b", "a"]}],
           "prune": {"min_occurrences": 2}, "mask": MASK, "radius": 2, "kernel": "flat", "orient": "directional"},
          # two removed siblings, the lower-numbered one with a child numbered above the other
          {"kind": "tree", "trees": [{"n": 6, "edges": [[0, 1], [0, 2], [1, 3], [1, 4], [2, 5]], "labels": ["a", "x", "x", "b", "a", "b"]}],
           "prune": {"ignored_tokens": ["x"]}, "mask": MASK, "radius": 2, "kernel": "flat", "orient": "directional"}]
    return _interleave([f0, f1, f2, f3, f4, f5])


def generate(rng, tier):
    k = 25 if tier == "quick" else 250
    k = max(3, int(k * float(__import__("os").environ.get("VERIF_SCALE", "1"))))     # development / detection runs
    fams = [[_fam(rng, f) for _ in range(k)] for f in range(NFAM)]
    # every n-gram co-occurrence fit recompiles its kernel (a fresh tuple converter per estimator):
    # keep a third of that family, fill the rest with the cheap tree / NgramVectorizer cases
    fams[4] = [c if j % 3 == 0 else _fam(rng, 5) for j, c in enumerate(fams[4])]
    return _interleave(fams)


def search(rng, tier):
    return generate(rng, tier)


# ------------------------------------------------------------------ implementation side

def run_impl(case):
    if case["kind"] == "tree":
        return _run_tree(case)
    if case["kind"] == "ngramvec":
        return _run_ngramvec(case)
    out = {}
    for name, mask, null in (("none", None, False), ("mask", case["mask"], False), ("null", case["mask"], True)):
        out[name] = cc.fit_one(dict(case, mask=mask, nullify=null), case["X"], want_transform=(name != "none"))
    if case["kind"] == "ngram":
        # which tokens the pruning keeps, asked from the library's preprocessing directly (needed to tell
        # "no kept sequence is long enough for one n-gram", where the estimator has no row to produce)
        try:
            from vectorizers.preprocessing import preprocess_token_sequences
            kw = dict(case.get("prune", {}))
            if case.get("excluded"):
                kw["ignored_tokens"] = set(case["excluded"])
            d = preprocess_token_sequences(case["X"], None if case.get("dict") is None else dict(case["dict"]), **kw)[1]
            out["probe_kept"] = sorted(str(k) for k in d)
        except Exception as e:
            out["probe_exc"] = cc.exc_str(e)
    return out


def _run_tree(case):
    import numpy as np, scipy.sparse
    from vectorizers import LabelledTreeCooccurrenceVectorizer
    trees = []
    for t in case["trees"]:
        n = t["n"]
        A = scipy.sparse.lil_matrix((n, n))
        for a, b in t["edges"]:
            A[a, b] = 1
        trees.append((A.tocsr(), np.array(t["labels"], dtype=object)))
    out = {}
    pr = dict(case["prune"])
    if "ignored_tokens" in pr:
        pr["ignored_tokens"] = set(pr["ignored_tokens"])
    kargs = {"power": 0.5} if case["kernel"] == "geometric" else {}
    for name, mask, null in (("none", None, False), ("mask", case["mask"], False), ("null", case["mask"], True)):
        try:
            m = LabelledTreeCooccurrenceVectorizer(window_radius=case["radius"], kernel_function=case["kernel"],
                                                   kernel_args=kargs, window_orientation=case["orient"],
                                                   mask_string=mask, nullify_mask=null, **pr)
            M = m.fit_transform(trees)
            out[name] = {"shape": [int(x) for x in M.shape], "cells": cc.cells_of(M),
                         "tokens": sorted(([str(k), int(v)] for k, v in m.token_label_dictionary_.items()), key=lambda e: e[1]),
                         "cols": sorted(([str(k), int(v)] for k, v in m.column_label_dictionary_.items()), key=lambda e: e[1])}
        except Exception as e:
            out[name] = {"fit_exc": cc.exc_str(e)}
    return out


def _run_ngramvec(case):
    from vectorizers import NgramVectorizer
    from vectorizers.preprocessing import preprocess_token_sequences
    out = {}
    for name, mask in (("none", None), ("mask", case["mask"])):
        kw = dict(case["prune"])
        if case.get("excluded"):
            kw["excluded_tokens"] = set(case["excluded"])
        user = None
        if case.get("dict") is not None:
            user = dict(case["dict"])
            kw["token_dictionary"] = user
        try:
            m = NgramVectorizer(ngram_size=case["nsize"], mask_string=mask, **kw)
            M = m.fit_transform(case["X"])
            o = {"shape": [int(x) for x in M.shape], "cells": cc.cells_of(M),
                 "tokens": sorted(([str(k), int(v)] for k, v in m._token_dictionary_.items()), key=lambda e: e[1]),
                 "cols": sorted(([list(k) if isinstance(k, tuple) else [k], int(v)] for k, v in m.column_label_dictionary_.items()),
                                key=lambda e: e[1]),
                 "user_dict_changed": user is not None and user != case["dict"]}
            fitted = dict(m._token_dictionary_)
            for key, Xq in (("tr", case["X"]), ("trt", case["Xt"])):
                try:
                    T = m.transform(Xq)
                    o[key] = {"shape": [int(x) for x in T.shape], "cells": cc.cells_of(T)}
                except Exception as e:
                    o[key] = {"exc": cc.exc_str(e)}
            o["fitted_dict_changed"] = dict(m._token_dictionary_) != fitted
            seqs, d2, _, _ = preprocess_token_sequences(case["Xt"], dict(m._token_dictionary_), masking=mask)
            o["seqs_t"] = [[int(t) for t in s] for s in seqs]
            out[name] = o
        except Exception as e:
            out[name] = {"fit_exc": cc.exc_str(e)}
    return out


# ------------------------------------------------------------------ model side

def _code(case, tokens):
    flat = _flat(case)
    toks = sorted({t for s in flat for t in s} | {t for t, _ in tokens})
    return {t: i for i, t in enumerate(toks)}


def _flat(case, key="X"):
    if case["kind"] == "timed":
        return [[p[0] for p in s] for s in case[key]]
    if case["kind"] == "multi":
        return [[t for m in d for t in m] for d in case[key]]
    return case[key]


def model_requests(case, outs):
    o = outs["normal"]
    reqs = []
    if case["kind"] == "tree":
        return reqs
    if case["kind"] == "ngramvec":
        for name in ("none", "mask"):
            v = o.get(name, {})
            if "seqs_t" not in v:
                continue
            code = _code(dict(case, X=case["X"] + case["Xt"]), v["tokens"])
            mask = case["mask"] if name == "mask" else None
            reqs.append({"op": "pre.token", "tag": name, "dict": [[code[t], i] for t, i in v["tokens"] if t != mask],
                         "mask": None if mask is None else code.get(mask, len(code)),
                         "seqs": [[code[t] for t in s] for s in case["Xt"]]})
        return reqs
    for name in ("none", "mask", "null"):
        v = o.get(name, {})
        if "cells" not in v or "seqs" not in v:
            continue
        mask = None if name == "none" else case["mask"]
        code = _code(case, v["tokens"])
        d = [[code[t], i] for t, i in v["tokens"] if t != mask]
        mcode = None if mask is None else code.get(mask, len(code))
        if case["kind"] == "multi":
            reqs.append({"op": "pre.multi", "tag": name, "dict": d, "mask": mcode,
                         "docs": [[[code[t] for t in m] for m in doc] for doc in case["X"]]})
        else:
            reqs.append({"op": "pre.token", "tag": name, "dict": d, "mask": mcode,
                         "seqs": [[code[t] for t in s] for s in _flat(case)]})
        sub = dict(case, mask=mask, nullify=(name == "null"))
        r = cc.cooc_request(sub, v, spec=(sum(len(s) for s in _flat(case)) <= 20))
        if r is not None:
            r["tag"] = name
            reqs.append(r)
    return reqs


def compare(case, outs, resps):
    o = outs["normal"]
    d = []
    if case["kind"] == "tree":
        return d
    reqs = model_requests(case, outs)
    for rq, rs in zip(reqs, resps):
        name = rq["tag"]
        v = o[name]
        if "bad" in rs:
            d.append(f"{name}: model rejected {rq['op']}: {rs['bad']}")
            continue
        if rq["op"] in ("pre.token", "pre.multi"):
            if case["kind"] == "ngramvec":
                if rs["seqs"] != v["seqs_t"]:
                    d.append(f"{name}: re-indexed transform input: impl {v['seqs_t']} model {rs['seqs']}")
                continue
            impl = v["seqs"]
            if case["kind"] == "timed":
                impl = [[p[0] for p in s] for s in impl]
            got = rs["docs"] if rq["op"] == "pre.multi" else rs["seqs"]
            if got != impl:
                d.append(f"{name}: preprocess: impl {impl} model {got}")
            if sorted(i for _, i in rs["dict"]) != sorted(i for _, i in v["tokens"]) or len(rs["dict"]) != len(v["tokens"]):
                d.append(f"{name}: dictionary indices: impl {v['tokens']} model {rs['dict']}")
        else:
            d += cc.compare_cells(dict(case, nullify=(name == "null")), v["cells"], rs, name)
    # the model's preprocessing is a pure function: the caller's / the fitted dictionary is never edited
    for name, v in o.items():
        if isinstance(v, dict) and v.get("user_dict_changed"):
            d.append(f"{name}: the supplied token_dictionary object was modified by fit (model: inputs are values)")
        if isinstance(v, dict) and v.get("fitted_dict_changed"):
            d.append(f"{name}: the fitted dictionary was modified by transform (model: inputs are values)")
    return d


# ------------------------------------------------------------------ oracle

def _F(key, msg):
    return {"key": key, "msg": msg}


def _vocab_checks(case, o, kind):
    """mask = exactly one extra vocabulary entry with the last index; same kept vocabulary in all variants"""
    fails = []
    none, mask = o["none"], o["mask"]
    for name in ("mask", "null"):
        v = o.get(name)
        if v is None or "tokens" not in v:
            continue
        toks = v["tokens"]
        if [i for _, i in toks] != list(range(len(toks))):
            fails.append(_F(f"{kind}.vocab-indices", f"{name}: vocabulary indices are not 0..n-1: {toks}"))
        if sum(1 for t, _ in toks if t == case["mask"]) != 1 or toks[-1][0] != case["mask"]:
            fails.append(_F(f"{kind}.mask-entry", f"{name}: mask {case['mask']!r} is not exactly one entry with the last index: {toks}"))
        elif "tokens" in none and [t for t, _ in toks[:-1]] != [t for t, _ in none["tokens"]]:
            fails.append(_F(f"{kind}.mask-entry", f"{name}: vocabulary without the mask {toks[:-1]} differs from the unmasked one {none['tokens']}"))
    return fails


def _nullify_checks(case, o, kind, blocks_n):
    """mask row and every column referring to the mask are zero"""
    fails = []
    v = o["null"]
    toks = v["tokens"]
    n = len(toks)
    m = n - 1
    rows_are_tokens = case["kind"] != "ngram"
    for r, c, x in v["cells"]:
        if rows_are_tokens and r == m:
            fails.append(_F(f"{kind}.nullify-row", f"mask row {m} has cell ({r},{c})={x}"))
            break
        if c % n == m and c < blocks_n * n:
            fails.append(_F(f"{kind}.nullify-column", f"column {c} (block {c // n}, mask) has cell ({r},{c})={x}"))
            break
    if case["kind"] == "ngram":
        allmask = "_".join([case["mask"]] * case.get("nsize", 2))
        idx = {t: i for t, i in v["rows"]}.get(allmask)
        if idx is not None and any(r == idx for r, _, _ in v["cells"]):
            fails.append(_F(f"{kind}.nullify-row", f"all-mask n-gram row {allmask!r} ({idx}) is not zero"))
    return fails


def _no_ngram_rows(case, o, name):
    n = case.get("nsize", 2)
    if name != "none":
        return all(len(s) < n for s in case["X"])
    if "probe_kept" not in o:
        return "probe_exc" in o and "dictionary is empty" in o["probe_exc"] or all(len(s) < n for s in case["X"])
    kept = set(o["probe_kept"])
    return all(len([t for t in s if t in kept]) < n for s in case["X"])


def oracle(case, outs):
    o = outs["normal"]
    if "crash" in o:
        return [_F("mask.crash", f"process terminated: {o['crash']}")]
    if case["kind"] == "tree":
        return _oracle_tree(case, o)
    if case["kind"] == "ngramvec":
        return _oracle_ngramvec(case, o)
    kind = f"mask.{case['kind']}"
    fails = []
    anything = any(len(s) for s in _flat(case))
    for name in ("none", "mask", "null"):
        v = o[name]
        for k in ("init_exc", "fit_exc"):
            if k in v:
                if name == "none" and ("dictionary is empty" in v[k]):
                    continue            # everything pruned and nothing to replace it with
                if name != "none" and "ngram dictionary is empty" in v[k]:
                    continue
                if case["kind"] == "ngram" and _no_ngram_rows(case, o, name):
                    continue            # no kept sequence is long enough to contain an n-gram: no rows to produce
                if anything:
                    fails.append(_F(f"{kind}.raises.{name}", f"{name}: fit_transform raises {v[k]}"))
    if fails:
        return fails
    fails += _vocab_checks(case, o, kind)
    if fails:
        return fails
    blocks = cc.expanded_blocks(case)
    for name, mask, null in (("none", None, False), ("mask", case["mask"], False), ("null", case["mask"], True)):
        v = o[name]
        if "cells" not in v:
            continue
        sub = dict(case, mask=mask, nullify=null)
        lf = cc.layout_failures(sub, v, f"{kind}.{name}")
        if lf:
            fails += lf
            continue
        ref = cc.reference(sub, case["X"], v)
        what = {"none": "removed tokens deleted", "mask": "removed tokens replaced in place",
                "null": "mask contributions removed"}[name]
        fails += cc.compare_with_reference(sub, v, v["cells"], ref, f"{name} ({what})", f"{kind}.{name}")[:2]
        if "tr_exc" in v:
            fails.append(_F(f"{kind}.{name}.transform-raises", f"transform(X) raises {v['tr_exc']}"))
        elif "tr_cells" in v:
            fails += cc.compare_with_reference(sub, v, v["tr_cells"], ref, f"{name} transform(X)", f"{kind}.{name}.transform")[:1]
    if "cells" in o["null"]:
        fails += _nullify_checks(case, o, kind, len(blocks))
        # without any normalisation the other cells are literally those of the masked computation
        if "cells" in o["mask"] and not case["nw"] and not any(b["normalize"] for b in blocks) \
                and all(b["fn"] == "fixed" for b in blocks):
            n = len(o["null"]["tokens"])
            m = n - 1
            a = {(r, c): x for r, c, x in o["mask"]["cells"] if c % n != m and (case["kind"] == "ngram" or r != m)}
            if case["kind"] == "ngram":
                allmask = "_".join([case["mask"]] * case.get("nsize", 2))
                idx = {t: i for t, i in o["null"]["rows"]}.get(allmask)
                a = {k: x for k, x in a.items() if k[0] != idx}
            b = {(r, c): x for r, c, x in o["null"]["cells"]}
            for key in sorted(set(a) | set(b)):
                x, y = a.get(key, 0.0), b.get(key, 0.0)
                if abs(x - y) > 1e-5 * max(abs(x), abs(y)) + 1e-9:
                    fails.append(_F(f"{kind}.nullify-others", f"cell {key}: masked computation {x}, nullified {y}"))
                    break
    return fails


def _oracle_tree(case, o):
    fails = []
    for name in ("mask", "null"):
        if "fit_exc" in o[name]:
            return [_F(f"mask.tree.raises.{name}", f"{name}: fit_transform raises {o[name]['fit_exc']}")]
    if "fit_exc" in o["none"]:
        # what the unmasked tree variant computes is C15's definition; that deleting the removed labels works at all
        # whenever the masked run of the same input works is this property's
        if "tokens" in o["mask"] and len(o["mask"]["tokens"]) > 1 and "KeyError" in o["none"]["fit_exc"]:
            return [_F("mask.tree.raises.none", f"with mask_string unset fit_transform raises {o['none']['fit_exc']} (the masked run keeps {len(o['mask']['tokens']) - 1} labels)")]
    fails += _vocab_checks(case, {"none": o["none"] if "tokens" in o["none"] else {}, "mask": o["mask"], "null": o["null"]}, "mask.tree")
    if fails:
        return fails
    toks = o["null"]["tokens"]
    n = len(toks)
    m = n - 1
    nb = 2 if case["orient"] == "directional" else 1
    if o["null"]["shape"] != [n, n * nb] or o["mask"]["shape"] != [n, n * nb]:
        return [_F("mask.tree.shape", f"shapes {o['mask']['shape']} / {o['null']['shape']} expected {[n, n * nb]}")]
    for r, c, x in o["null"]["cells"]:
        if r == m:
            fails.append(_F("mask.tree.nullify-row", f"mask row {m} has cell ({r},{c})={x}"))
            break
        if c % n == m:
            fails.append(_F("mask.tree.nullify-column", f"mask column {c} has cell ({r},{c})={x}"))
            break
    a = {(r, c): x for r, c, x in o["mask"]["cells"] if r != m and c % n != m}
    b = {(r, c): x for r, c, x in o["null"]["cells"]}
    for key in sorted(set(a) | set(b)):
        x, y = a.get(key, 0.0), b.get(key, 0.0)
        if abs(x - y) > 1e-9 * max(abs(x), abs(y)) + 1e-12:
            fails.append(_F("mask.tree.nullify-others", f"cell {key}: masked computation {x}, nullified {y}"))
            break
    return fails


def _ngram_counts(seqs, n, cols):
    rows = []
    for s in seqs:
        c = Counter()
        for k in range(0, len(s) - n + 1):
            g = tuple(s[k:k + n])
            if g in cols:
                c[cols[g]] += 1
        rows.append(c)
    return rows


def _oracle_ngramvec(case, o):
    fails = []
    n = case["nsize"]
    for name, mask in (("none", None), ("mask", case["mask"])):
        v = o[name]
        if "fit_exc" in v:
            continue        # an empty vocabulary / n-gram set makes fit raise; not part of this claim
        toks = v["tokens"]
        if mask is not None:
            if sum(1 for t, _ in toks if t == mask) != 1 or toks[-1][0] != mask or [i for _, i in toks] != list(range(len(toks))):
                fails.append(_F("mask.ngramvec.mask-entry", f"mask is not exactly one entry with the last index: {toks}"))
                continue
        kept = {t for t, _ in toks} - {mask}
        cols = {tuple(k): i for k, i in v["cols"]}
        for key, Xq, got in (("fit_transform", case["X"], v), ("transform(X)", case["X"], v.get("tr")), ("transform(Xt)", case["Xt"], v.get("trt"))):
            if got is None:
                continue
            if "exc" in got:
                fails.append(_F(f"mask.ngramvec.{name}.raises", f"{key} raises {got['exc']}"))
                continue
            seqs = cc.masked_sequences({"kind": "token"}, Xq, kept, mask)
            exp = _ngram_counts(seqs, n, cols)
            gotd = {}
            for r, c, x in got["cells"]:
                gotd[(r, c)] = x
            expd = {(r, c): float(x) for r, cnt in enumerate(exp) for c, x in cnt.items()}
            if got["shape"] != [len(Xq), len(cols)] or gotd != expd:
                bad = sorted(set(gotd.items()) ^ set(expd.items()))[:4]
                what = "deleted" if mask is None else "replaced in place"
                fails.append(_F(f"mask.ngramvec.{name}.positions",
                                f"{key}: n-gram counts differ from those of the sequences with removed tokens {what}: {bad} "
                                f"(shape {got['shape']}, columns {sorted(cols.items())})"))
    return fails


def nontrivial(case, outs):
    o = outs["normal"]
    if case["kind"] == "tree":
        v = o.get("mask", {})
        return "tokens" in v and any(l not in {t for t, _ in v["tokens"]} for t in case["trees"] for l in t["labels"])
    v = o.get("mask", {})
    if "tokens" not in v:
        return False
    kept = {t for t, _ in v["tokens"]} - {case["mask"]}
    return any(t not in kept for s in _flat(case) for t in s)


def stats(case, outs):
    o = outs["normal"]
    t = [case["kind"]]
    if nontrivial(case, outs):
        t.append("removed>=1")
    if case.get("dict") is not None:
        t.append("supplied-dictionary")
        toks = {x for s in _flat(case) for x in s} if case["kind"] not in ("tree",) else set()
        if any(k not in toks for k in case["dict"]):
            t.append("supplied-dictionary.unused-entries")
    for k in case.get("prune", {}):
        t.append(f"prune.{k}")
    if case.get("excluded"):
        t.append("prune.excluded_tokens")
    if case.get("nw"):
        t.append("normalize_windows")
    for name in ("none", "mask", "null"):
        if isinstance(o.get(name), dict) and ("fit_exc" in o[name] or "init_exc" in o[name]):
            t.append(f"raises.{name}")
    return t


def shrink_candidates(case):
    if __import__("os").environ.get("VERIF_SHRINK") == "0":      # detection runs: keep the generated case as it is
        return
    if case["kind"] == "tree":
        for i in range(len(case["trees"])):
            if len(case["trees"]) > 1:
                yield dict(case, trees=case["trees"][:i] + case["trees"][i + 1:])
        return
    X = case["X"]
    for i in range(len(X)):                       # coarse steps first: every round costs fresh workers (JIT)
        if len(X) > 1:
            yield dict(case, X=X[:i] + X[i + 1:])
    for i, s in enumerate(X):
        if len(s) >= 4:
            yield dict(case, X=X[:i] + [s[:len(s) // 2]] + X[i + 1:])
            yield dict(case, X=X[:i] + [s[len(s) // 2:]] + X[i + 1:])
    if case["kind"] != "ngramvec" and len(case["win"]) > 1:
        for i in range(len(case["win"])):
            yield dict(case, win=case["win"][:i] + case["win"][i + 1:])
    if sum(len(s) for s in X) <= 10:
        for i, s in enumerate(X):
            for j in range(len(s)):
                yield dict(case, X=X[:i] + [s[:j] + s[j + 1:]] + X[i + 1:])
