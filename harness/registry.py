"""Which properties are claimed: one JSON file per property under harness/claims/ (text, design_ref, note,
technique); source of MANIFEST.json (see gen_manifest.py)."""
import json
from pathlib import Path

HOOK_COMMITS = ["782cf1a12103aa15851c93212c429c7a23e224eb"]
CLAIMED = {p.stem: json.load(open(p)) for p in sorted((Path(__file__).parent / "claims").glob("C*.json"))}
_TODO = "check not built yet in this round (Lean model + correspondence in progress); no other technique substituted"
NOT_APPLICABLE = {f"C{i:02d}": _TODO for i in range(1, 21) if f"C{i:02d}" not in CLAIMED}
