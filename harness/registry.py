"""Which properties are claimed (source of MANIFEST.json, see gen_manifest.py)."""
HOOK_COMMITS = ["782cf1a12103aa15851c93212c429c7a23e224eb"]
_NOTE = ("Trusted: Lean kernel (+ propext, Classical.choice, Quot.sound), the hand-written model as far as the "
         "correspondence check exercises it, the Python harness and oracle; CPython/numba/numpy/scipy/sklearn are "
         "modelled, not verified. ")
CLAIMED = {
    "C09": {
        "text": "Theorems (all lengths, all merge lists, every pair-selection function): the index-level contract_pair loop "
                "never fails and equals the greedy contraction; encode is lossless under the learned token table; training "
                "encodings equal the replay of the merge list; tokens are concatenations of their pairs; budget respected. "
                "Tied to /repo by running the real kernels and estimator against the model on exhaustive short strings and "
                "random unicode corpora, and by the decode/round-trip oracle on the implementation.",
        "design_ref": "DESIGN.md §5 C09",
        "note": _NOTE + "pruning_max_freq_pair (which pair is merged) is a parameter of the model, not modelled; fit on a corpus "
                        "without a repeated adjacent pair raises (known finding).",
        "technique": "Lean 4 proof (induction over the loop / merge list) + differential correspondence with the njit kernels",
    },
}
_TODO = "check not built yet in this round (Lean model + correspondence in progress); no other technique substituted"
NOT_APPLICABLE = {f"C{i:02d}": _TODO for i in range(1, 21) if f"C{i:02d}" not in CLAIMED}
