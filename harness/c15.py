"""C15 — labelled-tree co-occurrence counts kernel-weighted walks between labels.
Model: lean/VecModel/Model/Tree.lean, theorems: lean/VecModel/Props/C15.lean."""
from fractions import Fraction

PROP = "C15"
RULE = ("forests of rooted labelled trees (random recursive trees, stars, paths, caterpillars; several roots and "
        "isolated nodes inside one adjacency matrix; node numbering shuffled so that parents need not precede "
        "children; edges parent->child, a fraction child->parent), 1-4 trees per corpus, labels from a 1-5 letter "
        "alphabet (single-label and two-label trees hit LabelBinarizer's special cases), window_radius 1..5 (and "
        ">= depth), kernel flat/harmonic/geometric with offset / power arguments, the four orientations, pruning "
        "by ignored_tokens / min_occurrences / max_occurrences / min_tree_occurrences / max_tree_frequency / fixed "
        "token_dictionary, mask_string with and without nullify_mask, scipy formats csr/csc/coo/lil; transform on "
        "further trees containing unseen labels; pure path corpora are also run through "
        "TokenCooccurrenceVectorizer; direct remove_node calls on LIL matrices (kind 'remove'). Non-trivial = a "
        "forest case in which at least one node with a predecessor and a successor is removed or masked and the "
        "result has a non-zero entry, or a remove case whose node has both, or a path case with >= 1 non-zero entry.")
ASSUMPTIONS = [
    "labels are strings ('pre_' + token requires it); adjacency matrices are scipy sparse 0/1 matrices of rooted forests",
    "window_radius >= 1 (radius 0 reads weights[0] of an empty array)",
    "kernel weights are taken from the implementation's kernel function as exact rationals of the float64 values; "
    "flat-kernel cases are compared exactly, the others within 1e-9 relative",
    "LabelBinarizer / scipy sparse products are re-implemented in the model (dense rational matrices); their "
    "agreement with the libraries is part of the correspondence",
    "the fitted vocabulary (which labels survive pruning) is read from token_label_dictionary_ (C05's subject)",
]
NWORKERS = {"quick": 4, "thorough": 8}

MASK = "[M]"
ORIENTS = ["after", "before", "symmetric", "directional"]


# ------------------------------------------------------------------ case construction

def _tree(n, edges, labels):
    return {"n": n, "edges": [list(e) for e in edges], "labels": list(labels)}


def _path(labels):
    return _tree(len(labels), [(i, i + 1) for i in range(len(labels) - 1)], labels)


def _case(trees, radius=2, kernel="flat", kargs=None, orient="after", prune=None, mask=None, nullify=False,
          fmt="csr", Xt=None):
    return {"kind": "forest", "trees": trees, "radius": radius, "kernel": kernel, "kargs": kargs or {},
            "orient": orient, "prune": prune or {}, "mask": mask, "nullify": bool(nullify and mask is not None),
            "fmt": fmt, "Xt": Xt or []}


def corpus():
    cs = []
    # the suite's corpora
    t1 = [_path("abcd"), _path("bcde")]
    seq = [_path(["wer", "pok"]), _path(["bar", "pok"]), _path(["foo", "pok", "wer"])]
    for o in ORIENTS:
        cs.append(_case(t1, 2, "flat", orient=o))
        cs.append(_case(seq, 2, "geometric", orient=o, prune={"min_occurrences": 2}))
        cs.append(_case(seq, 2, "geometric", orient=o, prune={"max_tree_frequency": 0.7}, mask=MASK, nullify=True))
    # DESIGN non-vacuity tree: branching 5-node tree, internal node removed
    br = _tree(5, [(0, 1), (1, 2), (1, 3), (3, 4)], "axbcd")
    for o in ORIENTS:
        cs.append(_case([br], 3, "flat", orient=o, prune={"ignored_tokens": ["x"]}))
        cs.append(_case([br], 3, "harmonic", orient=o, prune={"ignored_tokens": ["x"]}, mask=MASK))
    # single-label / two-label trees (LabelBinarizer special cases), isolated nodes, single node
    cs.append(_case([_tree(3, [(0, 1), (1, 2)], "aaa")], 2))
    cs.append(_case([_tree(4, [(0, 1), (0, 2), (2, 3)], "abba")], 3))
    cs.append(_case([_tree(4, [(2, 1)], "abca"), _tree(1, [], "b")], 2))
    cs.append(_case([_tree(1, [], "a"), _tree(2, [(1, 0)], "ab")], 1))
    # chain of removed nodes, removed root, removed leaf, unsorted numbering
    ch = _tree(6, [(5, 3), (3, 0), (0, 4), (4, 1), (1, 2)], ["e", "x", "f", "x", "y", "a"])
    cs.append(_case([ch], 5, "flat", prune={"ignored_tokens": ["x", "y"]}))
    cs.append(_case([ch], 5, "flat", prune={"ignored_tokens": ["a", "f"]}))
    cs.append(_case([ch], 2, "flat", prune={"ignored_tokens": ["x"]}, Xt=[_path("azfzz"), _path("qq")]))
    # regression (fixed de2c776): first kernel weight 0 (offset >= 1) with non-integer later weights, integer LIL adjacency
    cs.append(_case([_tree(4, [(0, 1), (1, 2), (2, 3)], "abca")], 3, "harmonic", {"offset": 1}))
    cs.append(_case([_tree(4, [(0, 1), (1, 2), (2, 3)], "abca")], 3, "geometric", {"offset": 2, "power": 0.25}, orient="symmetric"))
    cs.append(_case([_tree(4, [(0, 1), (0, 2), (2, 3)], "abxa")], 3, "geometric", {"offset": 1}, prune={"ignored_tokens": ["x"]}, fmt="lil"))
    # one LIL adjacency object shared by three labellings, a different node pruned in each
    cs.append(_case([_tree(4, [(0, 1), (1, 2), (2, 3)], "axbc"), _tree(4, [(0, 1), (1, 2), (2, 3)], "abxc"), _tree(4, [(0, 1), (1, 2), (2, 3)], "abcd")],
                    3, "harmonic", {}, prune={"ignored_tokens": ["x"]}, fmt="lil"))
    # child->parent orientation
    cs.append(_case([_tree(5, [(1, 0), (2, 1), (3, 1), (4, 3)], "axbcd")], 3, prune={"ignored_tokens": ["x"]}))
    # direct remove_node calls
    cs.append({"kind": "remove", "n": 5, "edges": [[0, 1], [1, 2], [1, 3], [3, 4]], "remove": [1]})
    cs.append({"kind": "remove", "n": 5, "edges": [[0, 1], [1, 2], [1, 3], [3, 4]], "remove": [1, 3]})
    cs.append({"kind": "remove", "n": 5, "edges": [[0, 1], [1, 2], [1, 3], [3, 4]], "remove": [3, 1, 0]})
    cs.append({"kind": "remove", "n": 4, "edges": [[3, 0], [0, 2], [0, 1]], "remove": [0]})
    cs.append({"kind": "remove", "n": 3, "edges": [[0, 1], [1, 2]], "remove": [2]})
    return cs


def _rand_forest(rng, n, shape, up=False, shuffle=True):
    """parent array -> edges (parent, child); several roots / isolated nodes possible"""
    par = [None] * n
    if shape == "recursive":
        for v in range(1, n):
            par[v] = rng.randrange(v)
    elif shape == "forest":
        for v in range(1, n):
            par[v] = rng.randrange(v) if rng.random() < 0.7 else None
    elif shape == "path":
        for v in range(1, n):
            par[v] = v - 1
    elif shape == "star":
        for v in range(1, n):
            par[v] = 0
    elif shape == "caterpillar":
        spine = max(1, n // 2)
        for v in range(1, n):
            par[v] = v - 1 if v < spine else rng.randrange(spine)
    elif shape == "deep":
        for v in range(1, n):
            par[v] = max(0, v - 1 - (rng.random() < 0.25))
    perm = list(range(n))
    if shuffle:
        rng.shuffle(perm)
    edges = []
    for v in range(n):
        if par[v] is not None:
            e = (perm[par[v]], perm[v])
            edges.append((e[1], e[0]) if up else e)
    edges.sort()
    return edges


def _rand_labels(rng, n, alpha):
    return [rng.choice(alpha) for _ in range(n)]


def _rand_prune(rng, alpha):
    r = rng.random()
    if r < 0.25:
        return {}
    if r < 0.55:
        k = rng.choice([1, 1, 2])
        return {"ignored_tokens": sorted(rng.sample(alpha, min(k, len(alpha))))}
    if r < 0.65:
        return {"min_occurrences": rng.choice([2, 3])}
    if r < 0.72:
        return {"max_occurrences": rng.choice([1, 2, 3])}
    if r < 0.79:
        return {"min_tree_occurrences": 2}
    if r < 0.86:
        return {"max_tree_frequency": rng.choice([0.5, 0.7])}
    if r < 0.93:
        k = rng.randint(1, len(alpha))
        return {"token_dictionary": sorted(rng.sample(alpha, k))}
    return {"excluded_token_regex": rng.choice(["[ab]", "c.*", "a"])}


def _rand_kernel(rng):
    k = rng.choice(["flat", "flat", "flat", "harmonic", "geometric"])
    ka = {}
    if rng.random() < 0.2:
        ka["offset"] = rng.choice([1, 1, 2])
    if k == "geometric" and rng.random() < 0.5:
        ka["power"] = rng.choice([0.5, 2.0, 0.25])
    return k, ka


def generate(rng, tier):
    cs = []
    n_forest = 170 if tier == "quick" else 2500
    for _ in range(n_forest):
        alpha = list("abcde")[: rng.choice([1, 2, 2, 3, 3, 4, 5])]
        up = rng.random() < 0.15
        trees = []
        for _ in range(rng.choice([1, 1, 2, 3, 4])):
            n = rng.choice([1, 2, 3, 4, 5, 6, 7, 8, 10, 12]) if tier == "quick" else rng.randint(1, 16)
            shape = rng.choice(["recursive", "recursive", "forest", "star", "caterpillar", "deep", "path"])
            sub = rng.sample(alpha, rng.randint(1, len(alpha)))
            trees.append(_tree(n, _rand_forest(rng, n, shape, up), _rand_labels(rng, n, sub)))
        k, ka = _rand_kernel(rng)
        mask = MASK if rng.random() < 0.25 else None
        Xt = []
        if rng.random() < 0.4:
            n = rng.randint(1, 7)
            Xt.append(_tree(n, _rand_forest(rng, n, "recursive", up), _rand_labels(rng, n, alpha + ["z"])))
        pr = _rand_prune(rng, alpha)
        # nullify_mask together with a supplied token_dictionary is defect D30's ground (mask index taken from
        # the frequency table, C14's builder): not generated here
        nul = rng.random() < 0.5 and "token_dictionary" not in pr
        if trees and rng.random() < 0.4:
            # the same structure again under another labelling (shares the adjacency object, see run_impl)
            t0 = rng.choice(trees)
            trees.append(_tree(t0["n"], [list(e) for e in t0["edges"]], _rand_labels(rng, t0["n"], sub)))
        cs.append(_case(trees, rng.choice([1, 2, 2, 3, 4, 5, 8]), k, ka, rng.choice(ORIENTS), pr,
                        mask, nul, rng.choice(["csr", "csr", "csc", "coo", "lil"]), Xt))
    n_path = 50 if tier == "quick" else 600
    for _ in range(n_path):
        alpha = list("abcd")[: rng.choice([2, 3, 4])]
        trees = [_path(_rand_labels(rng, rng.randint(1, 9), alpha)) for _ in range(rng.choice([1, 2, 3]))]
        k, ka = _rand_kernel(rng)
        pr = _rand_prune(rng, alpha)
        pr.pop("token_dictionary", None)
        mask = MASK if rng.random() < 0.2 else None
        cs.append(_case(trees, rng.choice([1, 2, 3, 4]), k, ka, rng.choice(ORIENTS), pr, mask, rng.random() < 0.5))
    n_rm = 80 if tier == "quick" else 1200
    for _ in range(n_rm):
        n = rng.randint(1, 10)
        shape = rng.choice(["recursive", "forest", "star", "caterpillar", "deep", "path"])
        edges = _rand_forest(rng, n, shape, rng.random() < 0.2)
        rem = rng.sample(range(n), rng.randint(1, max(1, n // 2)))
        cs.append({"kind": "remove", "n": n, "edges": [list(e) for e in edges], "remove": rem})
    return cs


def search(rng, tier):
    return generate(rng, "thorough" if tier == "thorough" else "quick")


# ------------------------------------------------------------------ implementation side (worker)

def _is_path_case(case):
    for t in case["trees"] + case["Xt"]:
        if t["edges"] != [[i, i + 1] for i in range(t["n"] - 1)]:
            return False
    return True


def _mat(t, fmt):
    import numpy as np, scipy.sparse as sp
    A = np.zeros((t["n"], t["n"]), dtype=np.int64)
    for u, v in t["edges"]:
        A[u, v] = 1
    return getattr(sp, fmt + "_matrix")(A)


def _frac(x):
    a, b = float(x).as_integer_ratio()
    return f"{a}/{b}"


def _triples(M, rowd, cold):
    """matrix -> sorted [row label, column label, exact value string, float] through the fitted dictionaries"""
    M = M.tocoo()
    acc = {}
    for i, j, v in zip(M.row, M.col, M.data):
        key = (int(i), int(j))
        acc[key] = acc.get(key, 0.0) + float(v)
    inv_r = {int(v): str(k) for k, v in rowd.items()}
    inv_c = {int(v): str(k) for k, v in cold.items()}
    out = []
    for (i, j), v in acc.items():
        if v != 0:
            out.append([inv_r.get(i, f"?{i}"), inv_c.get(j, f"?{j}"), v])
    out.sort()
    return out


def run_impl(case):
    import numpy as np, scipy.sparse as sp
    if case["kind"] == "remove":
        from vectorizers.preprocessing import remove_node
        A = np.zeros((case["n"], case["n"]), dtype=np.int64)
        for u, v in case["edges"]:
            A[u, v] = 1
        L = sp.lil_matrix(A)
        out = {"rows0": [[int(c) for c in r] for r in L.rows]}
        try:
            for x in case["remove"]:
                remove_node(L, x)
        except Exception as e:
            out["exc"] = f"{type(e).__name__}: {e}"
            return out
        out["rows"] = [[int(c) for c in r] for r in L.rows]
        out["data"] = [[int(d) for d in r] for r in L.data]
        try:
            # what the rest of the pipeline sees: the matrix product uses the CSR form
            C = L.tocsr().toarray()
            out["dense"] = [[int(x) for x in r] for r in C]
        except Exception as e:
            out["dense_exc"] = f"{type(e).__name__}: {e}"
        # the not-in-place variant must agree
        try:
            B = sp.csr_matrix(A)
            for x in case["remove"]:
                B = remove_node(B, x, inplace=False)
            out["dense_copy"] = [[int(x) for x in r] for r in B.toarray()]
        except Exception as e:
            out["copy_exc"] = f"{type(e).__name__}: {e}"
        return out

    from vectorizers import LabelledTreeCooccurrenceVectorizer, TokenCooccurrenceVectorizer
    from vectorizers._window_kernels import _KERNEL_FUNCTIONS
    pr = dict(case["prune"])
    kw = {}
    for k, v in pr.items():
        if k == "ignored_tokens":
            kw[k] = set(v)
        elif k == "token_dictionary":
            kw[k] = {t: i for i, t in enumerate(v)}
        else:
            kw[k] = v
    shared = {}

    def mat(t):
        # trees with the same shape share ONE adjacency object, as a caller relabelling a fixed structure would pass it
        key = (t["n"], tuple(map(tuple, t["edges"])))
        if key not in shared:
            shared[key] = _mat(t, case["fmt"])
        return shared[key]
    X = [(mat(t), np.array(t["labels"])) for t in case["trees"]]
    Xt = [(mat(t), np.array(t["labels"])) for t in case["Xt"]]
    out = {}
    # kernel weights exactly as build_tree_skip_grams asks for them (intermediate values of the implementation)
    try:
        kargs = {"mask_index": None, "normalize": False, "offset": 0}
        kargs.update(case["kargs"])
        w = _KERNEL_FUNCTIONS[case["kernel"]](-np.ones(case["radius"]), *tuple(kargs.values()))
        out["weights"] = [_frac(x) for x in w]
    except Exception as e:
        out["weights_exc"] = f"{type(e).__name__}: {e}"
    try:
        m = LabelledTreeCooccurrenceVectorizer(window_radius=case["radius"], window_orientation=case["orient"],
                                               kernel_function=case["kernel"], kernel_args=dict(case["kargs"]),
                                               mask_string=case["mask"], nullify_mask=case["nullify"], **kw)
        r = m.fit(X)
        out["fit_returns_self"] = r is m
        ft = m.cooccurrences_
        out["dict"] = sorted((str(k), int(v)) for k, v in m.token_label_dictionary_.items())
        out["cols"] = sorted((str(k), int(v)) for k, v in m.column_label_dictionary_.items())
        out["shape"] = [int(s) for s in ft.shape]
        out["ft"] = _triples(ft, m.token_label_dictionary_, m.column_label_dictionary_)
    except Exception as e:
        out["fit_exc"] = f"{type(e).__name__}: {e}"
        return out
    try:
        tr = m.transform(X)
        out["tr"] = _triples(tr, m.token_label_dictionary_, m.column_label_dictionary_)
        out["tr_shape"] = [int(s) for s in tr.shape]
        if Xt:
            trt = m.transform(Xt)
            out["trt"] = _triples(trt, m.token_label_dictionary_, m.column_label_dictionary_)
            out["trt_shape"] = [int(s) for s in trt.shape]
        out["dict_after"] = sorted((str(k), int(v)) for k, v in m.token_label_dictionary_.items())
    except Exception as e:
        out["transform_exc"] = f"{type(e).__name__}: {e}"
    if _is_path_case(case) and "token_dictionary" not in pr:
        try:
            tkw = {}
            for k, v in kw.items():
                k2 = {"min_tree_occurrences": "min_document_occurrences", "max_tree_occurrences": "max_document_occurrences",
                      "min_tree_frequency": "min_document_frequency", "max_tree_frequency": "max_document_frequency", "ignored_tokens": "excluded_tokens"}.get(k, k)
                tkw[k2] = v
            # the token vectorizer has no 'symmetric' orientation: symmetric = before + after of 'directional'
            tor = "directional" if case["orient"] == "symmetric" else case["orient"]
            tm = TokenCooccurrenceVectorizer(window_radii=case["radius"], window_orientations=tor,
                                             kernel_functions=case["kernel"], kernel_args=dict(case["kargs"]),
                                             mask_string=case["mask"], nullify_mask=case["nullify"],
                                             normalize_windows=False, **tkw)
            seqs = [list(t["labels"]) for t in case["trees"]]
            T = tm.fit_transform(seqs)
            # token columns are called '<pre|post>_<window number>_<token>'
            tcols = {}
            for k, v in tm.column_label_dictionary_.items():
                side, _, tok = str(k).split("_", 2)
                tcols[(side + "_" + tok) if case["orient"] == "directional" else tok + "\0" + side] = v
            raw = _triples(T, tm.token_label_dictionary_, tcols)
            acc = {}
            for a, b, v in raw:
                b = b.split("\0")[0]
                acc[(a, b)] = acc.get((a, b), 0.0) + v
            out["tok"] = sorted([a, b, v] for (a, b), v in acc.items())
            out["tok_shape"] = [int(s) for s in T.shape]
            out["tok_dict"] = sorted((str(k), int(v)) for k, v in tm.token_label_dictionary_.items())
        except Exception as e:
            out["tok_exc"] = f"{type(e).__name__}: {e}"
    return out


# ------------------------------------------------------------------ model side

def _codes(case, o):
    """order-preserving integer codes for all label strings (LabelBinarizer sorts classes; numpy and
    Python order strings by code point)"""
    labs = set()
    for t in case["trees"] + case["Xt"]:
        labs.update(t["labels"])
    labs.update(k for k, _ in o["dict"])
    if case["mask"] is not None:
        labs.add(case["mask"])
    return {s: i for i, s in enumerate(sorted(labs))}


def _dict_codes(o, code):
    d = sorted(o["dict"], key=lambda kv: kv[1])
    if [v for _, v in d] != list(range(len(d))):
        return None
    return [code[k] for k, _ in d]


def model_requests(case, outs):
    o = outs["normal"]
    if "crash" in o:
        return []
    if case["kind"] == "remove":
        if "rows" not in o:
            return []
        lil = [[[c, "1/1"] for c in r] for r in o["rows0"]]
        return [{"op": "tree.remove", "lil": lil, "nodes": case["remove"]}]
    if "ft" not in o or "weights" not in o:
        return []
    code = _codes(case, o)
    dc = _dict_codes(o, code)
    if dc is None:
        return []
    reqs = []
    for key, trees in (("X", case["trees"]), ("Xt", case["Xt"])):
        if not trees:
            continue
        reqs.append({"op": "tree.cooc", "trees": [{"n": t["n"], "edges": t["edges"], "labels": [code[l] for l in t["labels"]]}
                                                  for t in trees],
                     "weights": o["weights"], "dict": dc, "mask": (code[case["mask"]] if case["mask"] is not None else None),
                     "nullify": case["nullify"], "orient": case["orient"]})
    return reqs


def _close(a, b, exact):
    if exact:
        return a == b
    return abs(a - b) <= 1e-9 * max(1.0, abs(a), abs(b))


def _model_triples(resp, case, o):
    """model's dense matrix (rows of 'num/den') -> {(row label, col label): Fraction}"""
    code = _codes(case, o)
    inv = {v: k for k, v in code.items()}
    dc = _dict_codes(o, code)
    names = [inv[c] for c in dc]
    cols = names if case["orient"] != "directional" else ["pre_" + s for s in names] + ["post_" + s for s in names]
    M = resp["ok"]
    res = {}
    for i, row in enumerate(M):
        for j, v in enumerate(row):
            f = Fraction(v)
            if f != 0:
                res[(names[i], cols[j])] = f
    return res, [len(M), len(M[0]) if M else (len(cols))]


def compare(case, outs, resps):
    o = outs["normal"]
    d = []
    if not resps:
        return d
    if any("bad" in r for r in resps):
        return [f"model rejected request: {[r['bad'] for r in resps if 'bad' in r]}"]
    if case["kind"] == "remove":
        r = resps[0]
        if "ok" not in r:
            return [f"model removeNode fails: {r}"]
        rows = [[c for c, _ in row] for row in r["ok"]]
        if rows != o["rows"]:
            d.append(f"remove_node rows {o['rows']} != model {rows}")
        if any(Fraction(w) != dv for row, drow in zip(r["ok"], o["data"]) for (_, w), dv in zip(row, drow)):
            d.append("remove_node data differ from the model")
        return d
    exact = case["kernel"] == "flat"
    pairs = [("ft", resps[0]), ("tr", resps[0])]
    if case["Xt"] and len(resps) > 1:
        pairs.append(("trt", resps[1]))
    for key, r in pairs:
        if key not in o:
            continue
        if "ok" not in r:
            d.append(f"{key}: model fails with {r.get('err')} but the implementation returned a matrix")
            continue
        mt, shape = _model_triples(r, case, o)
        it = {(a, b): v for a, b, v in o[key]}
        skey = {"ft": "shape", "tr": "tr_shape", "trt": "trt_shape"}[key]
        if o.get(skey) != shape:
            d.append(f"{key}: shape {o.get(skey)} != model {shape}")
        for k in sorted(set(mt) | set(it)):
            a, b = it.get(k, 0.0), mt.get(k, Fraction(0))
            if not _close(float(a), float(b), exact):
                d.append(f"{key}: entry {k} impl {a} != model {float(b)}")
                break
    return d


# ------------------------------------------------------------------ oracle (the property, on the impl)

def _F(key, msg):
    return {"key": key, "msg": msg}


def _kernel_weight(kernel, kargs, k):
    """weight of distance k (k = 1..radius), from the kernels' definitions: flat 1, harmonic 1/k,
    geometric power**k; the first `offset` distances are switched off."""
    if k <= kargs.get("offset", 0):
        return 0.0
    if kernel == "flat":
        return 1.0
    if kernel == "harmonic":
        return 1.0 / k
    return float(kargs.get("power", 0.9)) ** k


def _walk_matrix_sum(n, succ, radius, weight):
    """W[u][v] = sum_{k=1..radius} weight(k) * #directed walks of k steps u -> v, by explicit enumeration
    of the walks (frontier expansion), no matrix algebra."""
    W = [[0.0] * n for _ in range(n)]
    for u in range(n):
        frontier = {u: 1}
        for k in range(1, radius + 1):
            nxt = {}
            for x, c in frontier.items():
                for y in succ[x]:
                    nxt[y] = nxt.get(y, 0) + c
            frontier = nxt
            if not frontier:
                break
            w = weight(k)
            for v, c in frontier.items():
                W[u][v] += w * c
    return W


def _contract(n, edges, kept):
    """successor lists of the forest in which every node outside `kept` has been removed and its parent
    reconnected to its children: u -> v iff there is a directed path u .. v whose interior nodes are all
    removed (written from the property text, independent of remove_node)."""
    succ0 = [[] for _ in range(n)]
    for u, v in edges:
        succ0[u].append(v)
    succ = [[] for _ in range(n)]
    for u in range(n):
        if not kept[u]:
            continue
        stack = list(succ0[u])
        seen = set()
        while stack:
            x = stack.pop()
            if kept[x]:
                succ[u].append(x)
            elif x not in seen:
                seen.add(x)
                stack.extend(succ0[x])
    return succ


def _expected(case, o, trees):
    """{(row label, column label): value} demanded by the property for these trees."""
    vocab = [k for k, _ in o["dict"]]
    mask = case["mask"]
    G = {}
    weight = lambda k: _kernel_weight(case["kernel"], case["kargs"], k)
    for t in trees:
        n = t["n"]
        if mask is None:
            kept = [l in vocab for l in t["labels"]]
            labels = t["labels"]
            succ = _contract(n, t["edges"], kept)
        else:
            kept = [True] * n
            labels = [l if (l in vocab and l != mask) else mask for l in t["labels"]]
            succ = [[] for _ in range(n)]
            for u, v in t["edges"]:
                succ[u].append(v)
        W = _walk_matrix_sum(n, succ, case["radius"], weight)
        for u in range(n):
            for v in range(n):
                if W[u][v] != 0 and kept[u] and kept[v]:
                    if case["nullify"] and (labels[u] == mask or labels[v] == mask):
                        continue
                    key = (labels[u], labels[v])
                    G[key] = G.get(key, 0.0) + W[u][v]
    res = {}
    orient = case["orient"]
    for (a, b), v in G.items():
        if orient == "after":
            res[(a, b)] = res.get((a, b), 0.0) + v
        elif orient == "before":
            res[(b, a)] = res.get((b, a), 0.0) + v
        elif orient == "symmetric":
            res[(a, b)] = res.get((a, b), 0.0) + v
            res[(b, a)] = res.get((b, a), 0.0) + v
        else:
            res[(a, "post_" + b)] = res.get((a, "post_" + b), 0.0) + v
            res[(b, "pre_" + a)] = res.get((b, "pre_" + a), 0.0) + v
    return res


def _reach(n, succ):
    R = [set() for _ in range(n)]
    for u in range(n):
        stack = list(succ[u])
        while stack:
            x = stack.pop()
            if x not in R[u]:
                R[u].add(x)
                stack.extend(succ[x])
    return R


def oracle(case, outs):
    o = outs["normal"]
    if "crash" in o:
        return [_F("tree.crash", f"process terminated: {o['crash']}")]
    fails = []
    if case["kind"] == "remove":
        n, E, rem = case["n"], [tuple(e) for e in case["edges"]], case["remove"]
        if "exc" in o:
            return [_F("tree.remove.raises", f"remove_node raises {o['exc']} on {case}")]
        got = set()
        for i, r in enumerate(o["rows"]):
            for c in r:
                got.add((i, c))
        # edge set after each single removal: E' = (E minus edges at x) ∪ {(p,c) | (p,x),(x,c) ∈ E, c ≠ x}
        cur = set(E)
        for x in rem:
            cur = {(u, v) for (u, v) in cur if u != x and v != x} | \
                  {(p, c) for (p, xx) in cur if xx == x and p != x for (x2, c) in cur if x2 == x and c != x}
        if got != cur:
            fails.append(_F("tree.remove.edges", f"edges after remove_node {sorted(got)} != {sorted(cur)} for {case}"))
        # reachability between surviving nodes is that of the original forest
        succ0 = [[] for _ in range(n)]
        for u, v in E:
            succ0[u].append(v)
        succ1 = [list(r) for r in o["rows"]]
        R0, R1 = _reach(n, succ0), _reach(n, succ1)
        for u in range(n):
            if u in rem:
                if succ1[u] or any(u in r for r in succ1):
                    fails.append(_F("tree.remove.not-isolated", f"removed node {u} still has edges: {o['rows']} for {case}"))
                continue
            a = {v for v in R0[u] if v not in rem}
            if a != R1[u]:
                fails.append(_F("tree.remove.reachability", f"from node {u}: reachable {sorted(R1[u])} after removal, "
                                                            f"{sorted(a)} before, for {case}"))
                break
        # multiplicities: the matrix that is multiplied must be 0/1 on a forest
        for key in ("dense", "dense_copy"):
            if key in o:
                exp = [[1 if (i, j) in cur else 0 for j in range(n)] for i in range(n)]
                if o[key] != exp:
                    fails.append(_F(f"tree.remove.{key}", f"{key} matrix {o[key]} != {exp} for {case}"))
        for key in ("dense_exc", "copy_exc"):
            if key in o:
                fails.append(_F(f"tree.remove.{key}", f"{o[key]} for {case}"))
        return fails

    if "fit_exc" in o:
        return [_F("tree.fit-raises", f"fit raises {o['fit_exc']} for {case}")]
    if "transform_exc" in o:
        fails.append(_F("tree.transform-raises", f"transform raises {o['transform_exc']} for {case}"))
    exact = case["kernel"] == "flat"
    for key, trees in (("ft", case["trees"]), ("tr", case["trees"]), ("trt", case["Xt"])):
        if key not in o:
            continue
        exp = _expected(case, o, trees)
        it = {(a, b): v for a, b, v in o[key]}
        for k in sorted(set(exp) | set(it)):
            a, b = it.get(k, 0.0), exp.get(k, 0.0)
            if not _close(a, b, exact):
                fails.append(_F(f"tree.entry.{key}", f"{key}: entry {k} = {a}, walk count demands {b}; case {case}"))
                break
    # shape: rows = vocabulary, columns = vocabulary (twice for directional)
    nv = len(o["dict"])
    want = [nv, 2 * nv if case["orient"] == "directional" else nv]
    for skey in ("shape", "tr_shape", "trt_shape"):
        if skey in o and o[skey] != want:
            fails.append(_F(f"tree.{skey}", f"{skey} {o[skey]} != {want}; case {case}"))
    # path graphs: equality with TokenCooccurrenceVectorizer on the label sequences
    if "tok_exc" in o and not o["dict"] and "Token dictionary is empty" in o["tok_exc"]:
        pass    # every label pruned: the tree vectorizer returns a 0 x 0 matrix, the token vectorizer refuses to fit
    elif "tok_exc" in o:
        fails.append(_F("tree.path.token-raises", f"TokenCooccurrenceVectorizer raises {o['tok_exc']} for {case}"))
    if "tok" in o:
        it = {(a, b): v for a, b, v in o["ft"]}
        tk = {(a, b): v for a, b, v in o["tok"]}
        for k in sorted(set(tk) | set(it)):
            a, b = it.get(k, 0.0), tk.get(k, 0.0)
            if abs(a - b) > 1e-5 * max(1.0, abs(a), abs(b)):
                fails.append(_F("tree.path.ne-token", f"path corpus: tree entry {k} = {a}, token vectorizer {b}; case {case}"))
                break
    return fails


# ------------------------------------------------------------------ statistics / shrinking

def _removed_internal(case, o):
    vocab = {k for k, _ in o.get("dict", [])}
    for t in case["trees"]:
        has_in = {v for _, v in t["edges"]}
        has_out = {u for u, _ in t["edges"]}
        for i, l in enumerate(t["labels"]):
            if l not in vocab and i in has_in and i in has_out:
                return True
    return False


def nontrivial(case, outs):
    o = outs["normal"]
    if case["kind"] == "remove":
        has_in = {v for _, v in case["edges"]}
        has_out = {u for u, _ in case["edges"]}
        return any(x in has_in and x in has_out for x in case["remove"])
    if "ft" not in o or not o["ft"]:
        return False
    return _removed_internal(case, o) or _is_path_case(case)


def stats(case, outs):
    o = outs["normal"]
    if case["kind"] == "remove":
        return ["remove", f"remove.k{min(len(case['remove']), 3)}"]
    t = ["forest", f"orient.{case['orient']}", f"kernel.{case['kernel']}", f"fmt.{case['fmt']}"]
    if "fit_exc" in o:
        t.append("fit.raises")
        return t
    if _is_path_case(case):
        t.append("path-corpus")
    if "tok" in o:
        t.append("token-compared")
    if case["mask"] is not None:
        t.append("masked.nullify" if case["nullify"] else "masked")
    if _removed_internal(case, o):
        t.append("internal-node-removed-or-masked")
    for tr in case["trees"]:
        k = len(set(tr["labels"]))
        if k <= 2:
            t.append(f"tree-with-{k}-labels")
        if tr["n"] > len({u for e in tr["edges"] for u in e}):
            t.append("isolated-node")
    if not o.get("ft"):
        t.append("all-zero")
    if case["Xt"]:
        t.append("transform-new-trees")
    return sorted(set(t))


def _drop_node(t, x):
    """delete leaf/isolated node x (keeps a forest)"""
    if any(u == x for u, _ in t["edges"]):
        return None
    ren = lambda i: i - (i > x)
    return _tree(t["n"] - 1, [(ren(u), ren(v)) for u, v in t["edges"] if v != x],
                 [l for i, l in enumerate(t["labels"]) if i != x])


def shrink_candidates(case):
    if case["kind"] == "remove":
        for i in range(len(case["remove"])):
            if len(case["remove"]) > 1:
                yield dict(case, remove=case["remove"][:i] + case["remove"][i + 1:])
        for i in range(len(case["edges"])):
            yield dict(case, edges=case["edges"][:i] + case["edges"][i + 1:])
        return
    if case["Xt"]:
        yield dict(case, Xt=[])
    T = case["trees"]
    for i in range(len(T)):
        if len(T) > 1:
            yield dict(case, trees=T[:i] + T[i + 1:])
    for i, t in enumerate(T):
        for x in range(t["n"]):
            if t["n"] > 1:
                s = _drop_node(t, x)
                if s is not None:
                    yield dict(case, trees=T[:i] + [s] + T[i + 1:])
    if case["radius"] > 1:
        yield dict(case, radius=case["radius"] - 1)
    if case["kernel"] != "flat" or case["kargs"]:
        yield dict(case, kernel="flat", kargs={})
    if case["fmt"] != "csr":
        yield dict(case, fmt="csr")
