"""C06 — N-gram, skip-gram and edge-list matrices hold exact counts; '+' merges unigram models.
Models: lean/VecModel/Model/{CountsBase,Ngram,Skipgram,EdgeList}.lean, theorems: lean/VecModel/Props/C06.lean.
The same cases carry the C01 facts for these three vectorizers (rows = len(X'), fitted width, unseen
vocabulary ignored, never raises)."""
import itertools
from collections import Counter
from fractions import Fraction

PROP = "C06"
# kernels regenerated from /repo's source (tools/py2lean.py) vs the hand model, exhaustive small scope, inside Lean
TWIN_CHECKS = [{"op": "twin.ngrams_exhaustive", "n": 5},
               # sum_coo_entries vs Skipgram.sumCooEntries: every list of <= 4 triples over heads/tails {0,1} x weights {1, 1/2}
               {"op": "twin.sumcoo_exhaustive", "n": 4}]
RULE = ("six case kinds. ngram: random corpora over {a..e} (empty documents, documents shorter than n), n in 1..3, "
        "both ngram_behaviour modes, optional pruning / fixed token_dictionary / fixed ngram_dictionary; transform "
        "inputs over a superset alphabet incl. unseen tokens, empty documents, documents missing the tokens of the last "
        "fitted columns. add: all ordered pairs of default unigram models over disjoint / nested / equal / overlapping "
        "vocabularies, (a+b).transform(Xt) called. skipgram: radii 0..4 x {flat, harmonic, geometric} x {fixed, variable} "
        "windows, pruning, fixed dictionaries. coo: direct sum_coo_entries calls on random triples with duplicate "
        "coordinates. grams: direct ngrams_of calls. edge: random edge lists with duplicate edges, negative and "
        "fractional values, joint_space, fixed (also non-contiguous) dictionaries; transform on subsets missing the last "
        "fitted row/column and on unseen labels. Non-trivial = the transform input contains unseen vocabulary and misses "
        "at least one fitted column (ngram/skipgram/edge), the two vocabularies differ (add), a coordinate is duplicated "
        "(coo), the sequence is shorter than n or produces >1 gram (grams).")
ASSUMPTIONS = [
    "token / label ids are unbounded Int in the model; counts Nat, weights exact Rat (float64 in the code)",
    "the fitted vocabularies (_token_dictionary_, _inverse_token_dictionary_, column_label_dictionary_ for n>=2, "
    "_window_sizes) are inputs of the model: which tokens / n-grams survive pruning is property C05's subject",
    "training corpora contain at least one token, transform inputs at least one document, edge lists at least one edge "
    "(utils.flatten / read_edge_data index element 0 of the collection)",
    "supplied dictionaries are injective maps into the naturals",
    "nullify_mask / mask_string are not exercised (C14)",
    "kernel_args / window_args are left at their defaults",
    "python set iteration order in __add__ is a parameter of the model (read off the merged model); comparison by label",
]
NWORKERS = {"quick": 4, "thorough": 8}

ALPHA = "abcde"
UNSEEN = "xyz"


# ------------------------------------------------------------------ generation

def _doc(rng, alpha, lens=(0, 0, 1, 1, 2, 2, 3, 4, 5, 6, 8)):
    return [rng.choice(alpha) for _ in range(rng.choice(lens))]


def _corpus(rng, alpha, nd=None):
    nd = nd or rng.choice([1, 2, 3, 4, 5])
    X = [_doc(rng, alpha) for _ in range(nd)]
    if not any(X):
        X[rng.randrange(nd)] = [rng.choice(alpha), rng.choice(alpha)]
    return X


def _xt(rng, X, alpha):
    """transform inputs: training docs, superset alphabet, subsets omitting the late tokens, empties"""
    sup = alpha + UNSEEN
    toks = sorted({t for d in X for t in d})
    early = toks[: max(1, len(toks) - 1)]
    Xt = [_doc(rng, sup), _doc(rng, early), [], [rng.choice(sup)]]
    if rng.random() < 0.5:
        Xt.append(list(rng.choice(X)))
    if rng.random() < 0.3:
        Xt.append([rng.choice(UNSEEN) for _ in range(rng.randint(1, 3))])
    if rng.random() < 0.3:
        Xt.append(_doc(rng, sup, lens=(9, 12)))
    rng.shuffle(Xt)
    return Xt


_PRUNE = [{}, {}, {}, {}, {"min_occurrences": 2}, {"max_occurrences": 3}, {"min_document_occurrences": 2},
          {"max_document_occurrences": 2}, {"max_unique_tokens": 2}, {"min_frequency": 0.2},
          {"excluded_tokens": ["a"]}, {"excluded_token_regex": "[bc]"}]


def _fixed_dict(rng, alpha):
    pop = list(alpha + "q")
    toks = rng.sample(pop, rng.randint(1, len(pop)))
    return [[t, i] for i, t in enumerate(toks)]


def _ngram_dict(rng, n, beh, style):
    labs = set()
    sizes = [n] if beh == "exact" else list(range(1, n + 1))
    for _ in range(rng.randint(1, 6)):
        k = rng.choice(sizes + [rng.randint(1, 3)])
        g = [rng.choice(ALPHA + "q") for _ in range(k)]
        if k == 1 and style == "raw":
            labs.add(g[0])
        else:
            labs.add(tuple(g))
    labs = sorted(labs, key=lambda l: (isinstance(l, tuple), l))
    rng.shuffle(labs)
    return [[list(l) if isinstance(l, tuple) else l, i] for i, l in enumerate(labs)]


def _ngram_case(rng):
    n = rng.choice([1, 1, 2, 2, 3])
    beh = rng.choice(["exact", "subgrams"])
    alpha = rng.choice([ALPHA, ALPHA[:3], ALPHA[:2]])
    X = _corpus(rng, alpha)
    c = {"kind": "ngram", "X": X, "Xt": _xt(rng, X, alpha), "n": n, "beh": beh, "kw": dict(rng.choice(_PRUNE)),
         "token_dictionary": None, "ngram_dictionary": None}
    r = rng.random()
    if r < 0.15:
        c["token_dictionary"] = _fixed_dict(rng, alpha)
        c["kw"] = {}
    elif r < 0.3:
        c["ngram_dictionary"] = _ngram_dict(rng, n, beh, rng.choice(["raw", "tuple"]))
    return c


def _add_case(rng):
    rel = rng.choice(["disjoint", "nested", "equal", "overlap", "overlap", "random"])
    if rel == "disjoint":
        aa, ab = "abc", "def"
    elif rel == "nested":
        aa, ab = "abcde", rng.choice(["ab", "cd", "e", "ace"])
        if rng.random() < 0.5:
            aa, ab = ab, aa
    elif rel == "equal":
        aa = ab = "abc"
    elif rel == "overlap":
        aa, ab = "abcd", "cdef"
    else:
        aa, ab = ALPHA + "f", ALPHA + "f"
    Xa, Xb = _corpus(rng, aa), _corpus(rng, ab)
    if rel in ("nested", "equal"):
        # make the vocabularies really nested / equal: every letter of the alphabet occurs
        Xa.append(list(aa)); Xb.append(list(ab))
    Xt = _xt(rng, Xa + Xb, "abcdef")
    return {"kind": "add", "Xa": Xa, "Xb": Xb, "Xt": Xt, "beh": rng.choice(["exact", "exact", "subgrams"])}


def _skip_case(rng):
    alpha = rng.choice([ALPHA, ALPHA[:3], ALPHA[:2]])
    X = _corpus(rng, alpha)
    c = {"kind": "skipgram", "X": X, "Xt": _xt(rng, X, alpha), "radius": rng.choice([0, 1, 1, 2, 2, 3, 4]),
         "kernel": rng.choice(["flat", "flat", "harmonic", "geometric"]),
         "window_function": rng.choice(["fixed", "fixed", "fixed", "variable"]),
         "kw": dict(rng.choice(_PRUNE)), "token_dictionary": None}
    if rng.random() < 0.15:
        c["token_dictionary"] = _fixed_dict(rng, alpha)
        c["kw"] = {}
    return c


def _coo_case(rng):
    k = rng.choice([1, 1, 2, 3, 5, 8, 12])
    seq = [[rng.randint(0, 2), rng.randint(0, 2), rng.choice([0.0, 0.5, 1.0, 1.0, 0.25, 2.0, 3.0])] for _ in range(k)]
    return {"kind": "coo", "seq": seq}


def _grams_case(rng):
    return {"kind": "grams", "seq": [rng.randint(0, 3) for _ in range(rng.choice([0, 1, 1, 2, 3, 4, 6]))],
            "n": rng.choice([1, 1, 2, 2, 3, 4]), "beh": rng.choice(["exact", "subgrams"])}


def _edge_case(rng):
    joint = rng.random() < 0.3
    rl = ["r%d" % i for i in range(4)] if not joint else list("abcd")
    cl = ["c%d" % i for i in range(4)] if not joint else list("abcd")
    vals = [1, 1, 1, 2, 3, -1, 0, 0.5, 2.25, -0.75]

    def edges(k, rl, cl):
        return [[rng.choice(rl), rng.choice(cl), rng.choice(vals)] for _ in range(k)]
    E = edges(rng.choice([1, 2, 3, 5, 8, 12]), rl[: rng.randint(1, 4)], cl[: rng.randint(1, 4)])
    if rng.random() < 0.6:
        E += [list(rng.choice(E)) for _ in range(rng.randint(1, 3))]  # duplicate edges
    rows = sorted({e[0] for e in E}); cols = sorted({e[1] for e in E})
    Et = edges(rng.randint(1, 5), rows[: max(1, len(rows) - 1)], cols[: max(1, len(cols) - 1)])
    Et += edges(rng.randint(0, 2), rl + ["zz"], cl + ["yy"])
    if rng.random() < 0.3:
        Et = edges(rng.randint(1, 2), ["zz"], ["yy"])           # nothing valid
    c = {"kind": "edge", "E": E, "Et": Et, "joint": joint, "rowd": None, "cold": None}

    def fixed(labels):
        labs = rng.sample(labels + ["q"], rng.randint(1, len(labels)))
        idx = list(range(len(labs)))
        if rng.random() < 0.25:
            idx = [i * 2 for i in idx]                           # non-contiguous indices
        return [[l, i] for l, i in zip(labs, idx)]
    r = rng.random()
    if joint:
        if r < 0.25:
            c["rowd"] = fixed(rl)
        elif r < 0.5:
            c["cold"] = fixed(cl)
    else:
        if r < 0.2:
            c["rowd"] = fixed(rl)
        elif r < 0.4:
            c["cold"] = fixed(cl)
        elif r < 0.5:
            c["rowd"] = fixed(rl); c["cold"] = fixed(cl)
    return c


def corpus():
    cs = []
    # D14: the merged model's transform
    cs.append({"kind": "add", "Xa": [["a", "b", "b"], ["c", "a"]], "Xb": [["b", "d"], ["e", "d", "d"]],
               "Xt": [["a", "d", "d"], [], ["x", "e"]], "beh": "exact"})
    cs.append({"kind": "add", "Xa": [["a"]], "Xb": [["b"]], "Xt": [["b", "a", "b"]], "beh": "exact"})
    cs.append({"kind": "add", "Xa": [["a", "b"]], "Xb": [["a", "b", "b"]], "Xt": [["b", "a", "c"]], "beh": "subgrams"})
    # D1: edge-list transform of a subset of the fitted labels / of unseen labels only
    E = [["r1", "x", 1], ["r1", "x", 2], ["r2", "y", 3.5], ["r3", "z", 1], ["r1", "y", -1]]
    cs.append({"kind": "edge", "E": E, "Et": [["r1", "x", 1]], "joint": False, "rowd": None, "cold": None})
    cs.append({"kind": "edge", "E": E, "Et": [["r9", "x", 1]], "joint": False, "rowd": None, "cold": None})
    cs.append({"kind": "edge", "E": [["a", "b", 1], ["b", "c", 2], ["c", "a", 3], ["a", "b", 4]],
               "Et": [["a", "b", 1], ["z", "b", 1]], "joint": True, "rowd": [["a", 0], ["b", 1]], "cold": None})
    cs.append({"kind": "edge", "E": [["a", "b", 1], ["b", "c", 2], ["c", "a", 3], ["a", "b", 4]],
               "Et": [["a", "b", 1], ["z", "b", 1]], "joint": True, "rowd": None, "cold": [["a", 0], ["b", 1]]})
    # D2: skip-gram transform of data lacking the last seen pair
    X = [["a", "b", "b", "c"], ["c", "a"], [], ["a"]]
    for kern, r in (("flat", 1), ("flat", 2), ("harmonic", 2), ("geometric", 3)):
        cs.append({"kind": "skipgram", "X": X, "Xt": [["a", "b", "z", "b"], ["q"], [], ["a"]], "radius": r,
                   "kernel": kern, "window_function": "fixed", "kw": {}, "token_dictionary": None})
    cs.append({"kind": "skipgram", "X": X, "Xt": [["a", "b"]], "radius": 2, "kernel": "flat",
               "window_function": "fixed", "kw": {}, "token_dictionary": [["a", 0], ["b", 1], ["z", 2]]})
    # a vocabulary of more than 1024 tokens (n^2 > 2^20 raw pair ids): pairs of known tokens never seen together at
    # fit must be dropped at transform, not credited to a neighbouring kept pair
    big = [[f"t{i:04d}", i] for i in range(1100)]
    cs.append({"kind": "skipgram", "X": [["t1090", "t1091", "t1092", "t1093"], ["t0003", "t0004", "t1095", "t0003"], ["t0500", "t0501"]],
               "Xt": [["t1093", "t1092", "t1091", "t1090"], ["t0004", "t0003", "t0500"], ["t1090", "t1091"], ["t0777", "t0778"]],
               "radius": 2, "kernel": "flat", "window_function": "fixed", "kw": {}, "token_dictionary": big})
    cs.append({"kind": "skipgram", "X": [["d", "d"]], "Xt": [["y"], [], ["z", "x", "d", "z", "y", "e", "y", "z"], ["d", "d", "d"]],
               "radius": 1, "kernel": "geometric", "window_function": "fixed", "kw": {},
               "token_dictionary": [["d", 0], ["c", 1], ["a", 2], ["e", 3], ["b", 4], ["q", 5]]})
    # n-grams: documents shorter than n, both modes, unseen tokens
    for n in (1, 2, 3):
        for beh in ("exact", "subgrams"):
            cs.append({"kind": "ngram", "X": [["a", "b", "b"], ["c", "a"], [], ["a"]],
                       "Xt": [["a", "b", "z", "b"], ["q"], [], ["c", "a", "b", "b"]], "n": n, "beh": beh, "kw": {},
                       "token_dictionary": None, "ngram_dictionary": None})
    for seq in ([], [0], [0, 1], [0, 1, 2], [1, 1, 1, 1]):
        for n in (1, 2, 3):
            for beh in ("exact", "subgrams"):
                cs.append({"kind": "grams", "seq": seq, "n": n, "beh": beh})
    cs.append({"kind": "coo", "seq": [[1, 2, 0.5], [0, 2, 1.5], [1, 2, 0.25]]})
    cs.append({"kind": "coo", "seq": [[0, 0, 0.0]]})
    return cs


def generate(rng, tier):
    q = tier == "quick"
    cs = []
    cs += [_ngram_case(rng) for _ in range(260 if q else 10000)]
    cs += [_add_case(rng) for _ in range(140 if q else 5000)]
    cs += [_skip_case(rng) for _ in range(160 if q else 6000)]
    cs += [_coo_case(rng) for _ in range(80 if q else 3000)]
    cs += [_grams_case(rng) for _ in range(100 if q else 3000)]
    cs += [_edge_case(rng) for _ in range(200 if q else 8000)]
    return cs


def search(rng, tier):
    return generate(rng, tier)


# ------------------------------------------------------------------ implementation side (worker)

def _exc(e):
    return f"{type(e).__name__}: {str(e)[:120]}"


def _num(v):
    v = float(v)
    return int(v) if v == int(v) else v


def _rows(M):
    M = M.tocoo()
    rows = [dict() for _ in range(M.shape[0])]
    for i, j, v in zip(M.row, M.col, M.data):
        rows[int(i)][int(j)] = rows[int(i)].get(int(j), 0.0) + float(v)
    return [[[j, _num(v)] for j, v in sorted(r.items()) if v != 0] for r in rows]


def _mat(M):
    return {"shape": [int(M.shape[0]), int(M.shape[1])], "rows": _rows(M)}


def _lab(l):
    if isinstance(l, tuple):
        return [str(x) for x in l]
    return str(l)


def _unlab(l):
    return tuple(l) if isinstance(l, list) else l


def _dict_items(d):
    return [[_lab(k), int(v)] for k, v in d.items()]


def _try(out, key, f):
    try:
        out[key] = f()
    except Exception as e:
        out[key + "_exc"] = _exc(e)


def _ngram_fitted(m):
    return {"tok": [[str(k), int(v)] for k, v in m._token_dictionary_.items()],
            "inv": [[k if isinstance(k, str) else int(k), v if isinstance(v, str) else int(v)]
                    for k, v in m._inverse_token_dictionary_.items()],
            "col": _dict_items(m.column_label_dictionary_),
            "idx": [[int(k), _lab(v)] for k, v in m.column_index_dictionary_.items()],
            "train": _mat(m._train_matrix)}


def run_impl(case):
    import numpy as np
    kind = case["kind"]
    out = {}
    if kind == "grams":
        from vectorizers.ngram_vectorizer import ngrams_of
        _try(out, "grams", lambda: [[int(x) for x in g] for g in
                                    ngrams_of(np.array(case["seq"], dtype=np.int32), case["n"], case["beh"])])
        return out
    if kind == "coo":
        from vectorizers.coo_utils import sum_coo_entries
        _try(out, "sum", lambda: [[int(a), int(b), float(w)] for a, b, w in
                                  sum_coo_entries([(float(a), float(b), float(w)) for a, b, w in case["seq"]])])
        return out
    if kind == "ngram":
        from vectorizers import NgramVectorizer
        kw = dict(case["kw"])
        if "excluded_tokens" in kw:
            kw["excluded_tokens"] = set(kw["excluded_tokens"])
        if case["token_dictionary"] is not None:
            kw["token_dictionary"] = {k: v for k, v in case["token_dictionary"]}
        if case["ngram_dictionary"] is not None:
            kw["ngram_dictionary"] = {_unlab(k): v for k, v in case["ngram_dictionary"]}
        try:
            m = NgramVectorizer(ngram_size=case["n"], ngram_behaviour=case["beh"], **kw)
            M = m.fit_transform(case["X"])
        except Exception as e:
            out = {"fit_exc": _exc(e)}
            # which tokens survive the token-level pruning (C05's subject): ask a unigram model
            kw.pop("ngram_dictionary", None)
            _try(out, "kept_tokens", lambda: sorted(NgramVectorizer(**kw).fit(case["X"])._token_dictionary_))
            return out
        out.update(_ngram_fitted(m))
        _try(out, "trX", lambda: _mat(m.transform(case["X"])))
        _try(out, "trXt", lambda: _mat(m.transform(case["Xt"])))
        return out
    if kind == "add":
        from vectorizers import NgramVectorizer
        try:
            a = NgramVectorizer(ngram_behaviour=case["beh"]).fit(case["Xa"])
            b = NgramVectorizer(ngram_behaviour=case["beh"]).fit(case["Xb"])
            j = NgramVectorizer(ngram_behaviour=case["beh"]).fit(case["Xa"] + case["Xb"])
        except Exception as e:
            return {"fit_exc": _exc(e)}
        out["a"], out["b"], out["j"] = _ngram_fitted(a), _ngram_fitted(b), _ngram_fitted(j)
        _try(out["j"], "trXt", lambda: _mat(j.transform(case["Xt"])))
        try:
            c = a + b
        except Exception as e:
            out["add_exc"] = _exc(e)
            return out
        out["c"] = _ngram_fitted(c)
        la = len(out["a"]["idx"])
        idx = dict((k, v) for k, v in out["c"]["idx"])
        out["enum"] = [idx[i] for i in range(la, len(idx)) if i in idx]
        _try(out["c"], "trXt", lambda: _mat(c.transform(case["Xt"])))
        # a merged model as the LEFT operand of a further merge with a freshly fitted model over the same vocabulary
        # (the merged model's columns are in merge order, the fresh model's in sorted order)
        try:
            out["chain"] = _ngram_fitted(c + j)
        except Exception as e:
            out["chain_exc"] = _exc(e)
        # the left operand is used again: merged with a model over a sub-vocabulary of its own corpus
        # (every pair of fitted models must merge like the concatenated fit, also after an earlier merge)
        sub = [d for d in case["Xa"] if d][:1]
        if sub:
            try:
                a2 = NgramVectorizer(ngram_behaviour=case["beh"]).fit(sub)
                out["c2"] = _ngram_fitted(a + a2)
                out["c2_sub"] = sub
            except Exception as e:
                out["c2_exc"] = _exc(e)
        return out
    if kind == "skipgram":
        from vectorizers import SkipgramVectorizer
        kw = dict(case["kw"])
        if "excluded_tokens" in kw:
            kw["ignored_tokens"] = set(kw.pop("excluded_tokens"))
        if case["token_dictionary"] is not None:
            kw["token_dictionary"] = {k: v for k, v in case["token_dictionary"]}
        try:
            m = SkipgramVectorizer(window_radius=case["radius"], kernel_function=case["kernel"],
                                   window_function=case["window_function"], **kw)
            M = m.fit_transform(case["X"])
        except Exception as e:
            out = {"fit_exc": _exc(e)}
            from vectorizers import NgramVectorizer
            kw2 = dict(case["kw"])
            if "excluded_tokens" in kw2:
                kw2["excluded_tokens"] = set(kw2["excluded_tokens"])
            if case["token_dictionary"] is not None:
                kw2["token_dictionary"] = {k: v for k, v in case["token_dictionary"]}
            _try(out, "kept_tokens", lambda: sorted(NgramVectorizer(**kw2).fit(case["X"])._token_dictionary_))
            return out
        out["tok"] = [[str(k), int(v)] for k, v in m._token_dictionary_.items()]
        out["inv"] = [[int(k), str(v)] for k, v in m._inverse_token_dictionary_.items()]
        out["ws"] = [int(x) for x in m._window_sizes]
        out["col"] = _dict_items(m.column_label_dictionary_)
        out["kept"] = [int(x) for x in m._kept_columns]
        out["train"] = _mat(M)
        _try(out, "trX", lambda: _mat(m.transform(case["X"])))
        _try(out, "trXt", lambda: _mat(m.transform(case["Xt"])))
        return out
    if kind == "edge":
        from vectorizers import EdgeListVectorizer
        kw = {"joint_space": case["joint"]}
        if case["rowd"] is not None:
            kw["row_label_dictionary"] = {k: v for k, v in case["rowd"]}
        if case["cold"] is not None:
            kw["column_label_dictionary"] = {k: v for k, v in case["cold"]}
        E = [tuple(e) for e in case["E"]]
        try:
            m = EdgeListVectorizer(**kw)
            M = m.fit_transform(E)
        except Exception as e:
            return {"fit_exc": _exc(e)}
        out["rowd"] = [[str(k), int(v)] for k, v in m.row_label_dictionary_.items()]
        out["cold"] = [[str(k), int(v)] for k, v in m.column_label_dictionary_.items()]
        out["train"] = _mat(M)
        _try(out, "trE", lambda: _mat(m.transform(E)))
        _try(out, "trEt", lambda: _mat(m.transform([tuple(e) for e in case["Et"]])))
        return out
    raise ValueError(kind)


# ------------------------------------------------------------------ model side

def _tokens_of(case):
    ts = set()

    def walk(o):
        if isinstance(o, str):
            ts.add(o)
        elif isinstance(o, (list, tuple)):
            for x in o:
                walk(x)
        elif isinstance(o, dict):
            for x in o.values():
                walk(x)
    for k in ("X", "Xt", "Xa", "Xb", "token_dictionary", "ngram_dictionary"):
        if case.get(k) is not None:
            walk(case[k])
    if case["kind"] == "edge":
        for e in case["E"] + case["Et"]:
            ts.update(e[:2])
        for k in ("rowd", "cold"):
            if case[k] is not None:
                ts.update(l for l, _ in case[k])
    return {t: i for i, t in enumerate(sorted(ts))}


def _mlab(tid, l):
    return [1] + [tid[t] for t in l] if isinstance(l, list) else [0, tid[l]]


def _q(v):
    f = Fraction(v)
    return f"{f.numerator}/{f.denominator}"


def _kernel_weights(kernel, R):
    if kernel == "flat":
        return ["1"] * R
    if kernel == "harmonic":
        return [f"1/{d}" for d in range(1, R + 1)]
    return [_q(0.9 ** d) for d in range(1, R + 1)]


def _mfitted(tid, f, n, beh):
    return {"n": n, "beh": beh, "tok": [[tid[t], i] for t, i in f["tok"]], "inv": [[i, tid[t]] for i, t in f["inv"]],
            "col": [[_mlab(tid, l), i] for l, i in f["col"]], "idx": [[i, _mlab(tid, l)] for i, l in f["idx"]],
            "train": {"shape": f["train"]["shape"], "rows": f["train"]["rows"]}}


def _well_typed_inv(f):
    return all(isinstance(i, int) and isinstance(t, str) for i, t in f["inv"])


def model_requests(case, outs):
    o = outs["normal"]
    kind = case["kind"]
    if "crash" in o:
        return []
    if "fit_exc" in o and kind != "edge":
        return []            # the model of fit needs the fitted vocabulary, which a failed fit does not give
    if kind == "grams":
        return [{"op": "ngram.grams", "seq": case["seq"], "n": case["n"], "beh": case["beh"]}]
    if kind == "coo":
        from . import twinutil
        return [{"op": "coo.sum", "seq": [[a, b, _q(w)] for a, b, w in case["seq"]]},
                # the compiled kernel vs the twin regenerated from the current source (validates translator + interpreter)
                twinutil.call("sum_coo_entries", [[(a, b, Fraction(w)) for a, b, w in case["seq"]]])]
    tid = _tokens_of(case)
    if kind == "ngram":
        if not _well_typed_inv(o) or any(t not in tid for t, _ in o["tok"]):
            return []
        base = {"op": "ngram.transform", "n": case["n"], "beh": case["beh"],
                "tok": [[tid[t], i] for t, i in o["tok"]], "inv": [[i, tid[t]] for i, t in o["inv"]],
                "col": [[_mlab(tid, l), i] for l, i in o["col"]]}
        reqs = [dict(base, X=[[tid[t] for t in d] for d in case["X"]]),
                dict(base, X=[[tid[t] for t in d] for d in case["Xt"]])]
        if _default_unigram(case):
            reqs.append({"op": "ngram.fit1", "X": [[tid[t] for t in d] for d in case["X"]]})
        return reqs
    if kind == "add":
        if "c" not in o or not _well_typed_inv(o["a"]) or not _well_typed_inv(o["b"]):
            return []
        return [{"op": "ngram.add", "a": _mfitted(tid, o["a"], 1, case["beh"]), "b": _mfitted(tid, o["b"], 1, case["beh"]),
                 "enum": [_mlab(tid, l) for l in o["enum"]], "X": [[tid[t] for t in d] for d in case["Xt"]]},
                {"op": "ngram.fit1", "X": [[tid[t] for t in d] for d in case["Xa"] + case["Xb"]]}]
    if kind == "skipgram":
        if min(o["ws"] + [0]) < 0:
            return []        # variable radii of a zero-frequency dictionary token: not a window radius
        if len(o["tok"]) > 200:
            return []        # n^2 columns as Lean lists: too slow; the large-vocabulary cases are decided by the oracle
        R = max(o["ws"] + [1])
        return [{"op": "skipgram.fit", "tok": [[tid[t], i] for t, i in o["tok"]], "inv": [[i, tid[t]] for i, t in o["inv"]],
                 "ws": o["ws"], "kw": _kernel_weights(case["kernel"], R),
                 "X": [[tid[t] for t in d] for d in case["X"]], "Xt": [[tid[t] for t in d] for d in case["Xt"]]}]
    if kind == "edge":
        def ed(E):
            return [[tid[r], tid[c], _q(v)] for r, c, v in E]

        def dd(d):
            return None if d is None else [[tid[l], i] for l, i in d]
        return [{"op": "edgelist.fit", "E": ed(case["E"]), "Et": ed(case["Et"]), "joint": case["joint"],
                 "rowd": dd(case["rowd"]), "cold": dd(case["cold"])}]
    return []


def _default_unigram(case):
    return (case["n"] == 1 and not case["kw"] and case["token_dictionary"] is None
            and case["ngram_dictionary"] is None)


def _cm_rows(m):
    """model count matrix -> canonical rows"""
    return [sorted([j, c] for j, c in r if c != 0) for r in m["rows"]]


def _entries_rows(m, tol_free=True):
    """model COO matrix -> canonical rows of [col, Fraction]"""
    rows = [dict() for _ in range(m["shape"][0])]
    for r, c, v in m["entries"]:
        rows[r][c] = rows[r].get(c, Fraction(0)) + Fraction(v)
    return [[[c, v] for c, v in sorted(r.items()) if v != 0] for r in rows]


def _same_rows(impl_rows, model_rows, exact):
    if len(impl_rows) != len(model_rows):
        return False
    for a, b in zip(impl_rows, model_rows):
        if [j for j, _ in a] != [j for j, _ in b]:
            return False
        for (_, x), (_, y) in zip(a, b):
            if exact:
                if Fraction(x) != y:
                    return False
            elif abs(float(x) - float(y)) > 1e-9 * max(1.0, abs(float(y))):
                return False
    return True


def _cmp_count(d, name, impl, model):
    if impl is None:
        if "ok" in model:
            d.append(f"{name}: impl raised, model returns a matrix")
        return
    if "ok" not in model:
        d.append(f"{name}: model fails ({model}) but impl returned a matrix")
        return
    m = model["ok"]
    if impl["shape"] != m["shape"]:
        d.append(f"{name}: shape impl {impl['shape']} model {m['shape']}")
    elif impl["rows"] != _cm_rows(m):
        d.append(f"{name}: rows impl {impl['rows']} model {_cm_rows(m)}")


def _cmp_coo(d, name, impl, model, exact, tolerate_oob=False):
    if impl is None:
        if "ok" in model:
            d.append(f"{name}: impl raised, model returns a matrix")
        return
    if "ok" not in model:
        if tolerate_oob and str(model.get("err", "")).startswith("oob:window_sizes"):
            return           # known finding: the model makes the unchecked out-of-range read explicit

        d.append(f"{name}: model fails ({model}) but impl returned a matrix")
        return
    m = model["ok"]
    if impl["shape"] != m["shape"]:
        d.append(f"{name}: shape impl {impl['shape']} model {m['shape']}")
    elif not _same_rows(impl["rows"], _entries_rows(m), exact):
        d.append(f"{name}: rows impl {impl['rows']} model {[[[c, str(v)] for c, v in r] for r in _entries_rows(m)]}")


def compare(case, outs, resps):
    o = outs["normal"]
    kind = case["kind"]
    d = []
    if not resps:
        return d
    for r in resps:
        if "bad" in r:
            return [f"model rejected request: {r['bad']}"]
    tid = _tokens_of(case)
    if kind == "grams":
        r = resps[0]
        if r["loop"] != r["spec"]:
            d.append("model: index loops != closed form")
        if o.get("grams") != r["loop"]:
            d.append(f"ngrams_of impl {o.get('grams', o.get('grams_exc'))} != model {r['loop']}")
        return d
    if kind == "coo":
        r = resps[0]
        if "ok" not in r:
            if "sum" in o:
                d.append(f"model fails {r} impl {o['sum']}")
            return d
        got = [[a, b, Fraction(w)] for a, b, w in r["ok"]]
        if "sum" not in o or [[a, b, Fraction(w)] for a, b, w in o["sum"]] != got:
            d.append(f"sum_coo_entries impl {o.get('sum', o.get('sum_exc'))} != model {r['ok']}")
        from . import twinutil
        tw = resps[1] if len(resps) > 1 else None
        if tw is not None and not twinutil.unavailable(tw) and "sum" in o:
            tgot = [list(t) for t in twinutil.pv(tw["ok"])] if "ok" in tw else tw.get("err")
            if tgot != [[a, b, Fraction(w)] for a, b, w in o["sum"]]:
                d.append(f"generated twin sum_coo_entries {tw.get('ok', tw.get('err'))} != impl {o['sum']}")
        return d
    if kind == "ngram":
        rX, rXt = resps[0], resps[1]
        _cmp_count(d, "train", o["train"], rX["m"])
        _cmp_count(d, "transform(X)", o.get("trX"), rX["m"])
        _cmp_count(d, "transform(Xt)", o.get("trXt"), rXt["m"])
        if len(resps) > 2:
            f = resps[2]
            if "ok" not in f:
                d.append(f"model fitUnigram fails: {f}")
            else:
                if f["ok"]["tok"] != [[tid[t], i] for t, i in o["tok"]]:
                    d.append(f"learned dictionary impl {o['tok']} model {f['ok']['tok']}")
                if _cm_rows(f["ok"]["train"]) != o["train"]["rows"]:
                    d.append("fitUnigram train matrix differs")
        return d
    if kind == "add":
        r = resps[0]
        if "ok" not in r:
            return [f"model add fails: {r}"]
        m, c = r["ok"], o["c"]
        for key, conv in (("col", lambda p: [_mlab(tid, p[0]), p[1]]), ("idx", lambda p: [p[0], _mlab(tid, p[1])])):
            try:
                impl = sorted(conv(p) for p in c[key])
            except Exception:
                impl = c[key]
            if impl != sorted(m[key]):
                d.append(f"(a+b).{key} impl {c[key]} model {m[key]}")
        try:
            itok = sorted([tid[t], i] for t, i in c["tok"])
            iinv = sorted([i, tid[t]] for i, t in c["inv"])
        except Exception:
            itok, iinv = c["tok"], c["inv"]
        if itok != sorted(m["tok"]):
            d.append(f"(a+b)._token_dictionary_ impl {c['tok']} model {m['tok']}")
        if iinv != sorted(m["inv"]):
            d.append(f"(a+b)._inverse_token_dictionary_ impl {c['inv']} model {m['inv']}")
        _cmp_count(d, "(a+b)._train_matrix", c["train"], {"ok": m["train"]})
        _cmp_count(d, "(a+b).transform(Xt)", c.get("trXt"), m["tr"])
        f = resps[1]
        if "ok" not in f or _cm_rows(f["ok"]["train"]) != o["j"]["train"]["rows"] \
                or f["ok"]["tok"] != [[tid[t], i] for t, i in o["j"]["tok"]]:
            d.append("model fitUnigram(Xa+Xb) differs from the implementation's joint fit")
        return d
    if kind == "skipgram":
        r = resps[0]
        exact = case["kernel"] == "flat"
        if "ok" not in r:
            return [f"model skipgram fit fails: {r}"]
        m = r["ok"]
        if m["kept"] != o["kept"]:
            d.append(f"_kept_columns impl {o['kept']} model {m['kept']}")
        if sorted([[tid[a], tid[b]], j] for (a, b), j in o["col"]) != sorted(m["col"]):
            d.append(f"column_label_dictionary_ impl {o['col']} model {m['col']}")
        tol = _trailing_unseen(case)
        _cmp_coo(d, "train", o["train"], {"ok": m["train"]}, exact)
        _cmp_coo(d, "transform(X)", o.get("trX"), m["trX"], exact, tol)
        _cmp_coo(d, "transform(Xt)", o.get("trXt"), m["trXt"], exact, tol)
        return d
    if kind == "edge":
        r = resps[0]
        if "fit_exc" in o:
            return [f"impl fit raises {o['fit_exc']} but the model fits"] if "ok" in r else []
        if "ok" not in r:
            return [f"model edgelist fit fails: {r}"]
        m = r["ok"]
        if m["rowd"] != [[tid[l], i] for l, i in o["rowd"]] or m["cold"] != [[tid[l], i] for l, i in o["cold"]]:
            d.append(f"dictionaries impl {o['rowd']} {o['cold']} model {m['rowd']} {m['cold']}")
        _cmp_coo(d, "train", o["train"], {"ok": m["train"]}, True)
        _cmp_coo(d, "transform(E)", o.get("trE"), m["trE"], True)
        _cmp_coo(d, "transform(Et)", o.get("trEt"), m["trEt"], True)
        return d
    return d


# ------------------------------------------------------------------ oracle (the property, on the impl)

def _F(key, msg):
    return {"key": key, "msg": msg}


def _occ(g, s):
    """number of positions at which the run g starts in s"""
    k = len(g)
    return sum(1 for p in range(len(s) - k + 1) if s[p:p + k] == g) if k else 0


def _expected_ngram_cell(label, n, beh, kept_doc):
    g = list(label) if isinstance(label, list) else [label]
    k = len(g)
    if beh == "exact":
        return _occ(g, kept_doc) if k == n else 0
    return _occ(g, kept_doc) if 1 <= k <= n else 0


def _cells(mat):
    return [dict((j, v) for j, v in r) for r in mat["rows"]]


def _oracle_ngram_matrix(fails, name, mat, docs, col, kept, n, beh):
    if mat["shape"] != [len(docs), len(col)]:
        fails.append(_F(f"ngram.shape.{name}", f"shape {mat['shape']}, expected {[len(docs), len(col)]}"))
        return
    cells = _cells(mat)
    for i, doc in enumerate(docs):
        kd = [t for t in doc if t in kept]
        for lab, j in col:
            exp = _expected_ngram_cell(lab, n, beh, kd)
            got = cells[i].get(j, 0)
            if got != exp:
                one_tuple = isinstance(lab, list) and len(lab) == 1
                if one_tuple and got == 0:
                    key = "ngram.one-tuple-label-never-counted"
                else:
                    key = f"ngram.cell.{name}"
                fails.append(_F(key, f"{name}: doc {doc} (kept {kd}) column {lab!r}: entry {got}, occurrences {exp} "
                                     f"(n={n}, {beh})"))
                return


def _oracle_ngram(case, o):
    fails = []
    if "fit_exc" in o:
        if "kept_tokens" in o:
            # outside the property's domain: after token pruning the corpus contains no n-gram at all
            lens = [sum(1 for t in d if t in o["kept_tokens"]) for d in case["X"]]
            if max(lens) < (case["n"] if case["beh"] == "exact" else 1):
                return []
        return [_F("ngram.raises.fit", f"fit raises {o['fit_exc']} on X={case['X']} kw={case['kw']}")]
    for k in ("trX", "trXt"):
        if k + "_exc" in o:
            fails.append(_F("ngram.raises.transform", f"transform raises {o[k + '_exc']} (X'={case['Xt'] if k == 'trXt' else case['X']})"))
    kept = {t for t, _ in o["tok"]}
    col = o["col"]
    if sorted(j for _, j in col) != list(range(len(col))) and case["ngram_dictionary"] is None:
        fails.append(_F("ngram.columns-not-a-range", f"column indices {sorted(j for _, j in col)}"))
        return fails
    n, beh = case["n"], case["beh"]
    _oracle_ngram_matrix(fails, "fit", o["train"], case["X"], col, kept, n, beh)
    if "trX" in o:
        _oracle_ngram_matrix(fails, "transform", o["trX"], case["X"], col, kept, n, beh)
    if "trXt" in o:
        _oracle_ngram_matrix(fails, "transform", o["trXt"], case["Xt"], col, kept, n, beh)
    return fails


def _by_label(f, mat):
    """rows as {label: value} through the fitted column_index_dictionary_"""
    idx = {}
    for i, l in f["idx"]:
        idx[i] = tuple(l) if isinstance(l, list) else l
    rows = []
    for r in mat["rows"]:
        rows.append({idx.get(j, ("?", j)): v for j, v in r})
    return rows


def _oracle_add(case, o):
    if "fit_exc" in o:
        return [_F("add.raises.fit", o["fit_exc"])]
    if "add_exc" in o:
        return [_F("add.raises.add", f"a + b raises {o['add_exc']}")]
    fails = []
    c, j = o["c"], o["j"]
    Xa, Xb, Xt = case["Xa"], case["Xb"], case["Xt"]
    vocab = {t for d in Xa + Xb for t in d}
    clabels = [l for l, _ in c["col"]]
    if set(clabels) != vocab or len(clabels) != len(vocab) or set(l for l, _ in j["col"]) != vocab:
        fails.append(_F("add.columns", f"(a+b) columns {sorted(map(str, clabels))}, joint fit {sorted(l for l, _ in j['col'])}, "
                                       f"tokens of both corpora {sorted(vocab)}"))
        return fails
    if sorted(i for _, i in c["col"]) != list(range(len(vocab))) or \
            sorted((i, l) for i, l in c["idx"]) != sorted((i, l) for l, i in c["col"]):
        fails.append(_F("add.column-dictionaries", f"col {c['col']} idx {c['idx']}"))
        return fails
    # same training matrix as the model fitted on the concatenated corpora, by label
    exp_train = [dict(Counter(d)) for d in Xa + Xb]
    if c["train"]["shape"] != [len(Xa) + len(Xb), len(vocab)] or _by_label(c, c["train"]) != exp_train:
        fails.append(_F("add.train-matrix", f"(a+b)._train_matrix by label {_by_label(c, c['train'])} shape {c['train']['shape']}, "
                                            f"token counts of Xa+Xb {exp_train}"))
    if _by_label(j, j["train"]) != exp_train:
        fails.append(_F("add.joint-fit-matrix", "fit(Xa+Xb) train matrix is not the token counts"))
    if "trXt_exc" in c:
        fails.append(_F("add.raises.transform", f"(a+b).transform raises {c['trXt_exc']}"))
        return fails
    exp = [dict(Counter(t for t in d if t in vocab)) for d in Xt]
    got = _by_label(c, c["trXt"])
    if c["trXt"]["shape"] != [len(Xt), len(vocab)] or got != exp:
        fails.append(_F("add.transform", f"(a+b).transform({Xt}) by label {got} shape {c['trXt']['shape']}; "
                                         f"counts of the tokens of both vocabularies {exp}"))
    if "trXt" in j and _by_label(j, j["trXt"]) != exp:
        fails.append(_F("add.joint-fit-transform", "fit(Xa+Xb).transform is not the token counts"))
    # (a + b) + fit(Xa + Xb): columns the union, training matrix = counts of Xa+Xb followed by Xa+Xb again, by label
    if "chain_exc" in o:
        fails.append(_F("add.chain.raises", f"(a + b) + fit(Xa+Xb) raises {o['chain_exc']}"))
    elif "chain" in o:
        ch = o["chain"]
        labc = [l for l, _ in ch["col"]]
        expc = exp_train + exp_train
        if set(labc) != vocab or len(labc) != len(vocab):
            fails.append(_F("add.chain.columns", f"(a+b)+j columns {sorted(map(str, labc))} expected {sorted(vocab)}"))
        elif ch["train"]["shape"] != [2 * (len(Xa) + len(Xb)), len(vocab)] or _by_label(ch, ch["train"]) != expc:
            fails.append(_F("add.chain.train-matrix", f"((a+b)+fit(Xa+Xb))._train_matrix by label {_by_label(ch, ch['train'])} expected {expc}"))
    # second merge with the same left operand
    if "c2_exc" in o:
        fails.append(_F("add.second-merge.raises", f"a + a_sub (after a + b) raises {o['c2_exc']}"))
    elif "c2" in o:
        c2, sub = o["c2"], o["c2_sub"]
        voc2 = {t for d in Xa for t in d}
        lab2 = [l for l, _ in c2["col"]]
        exp2 = [dict(Counter(d)) for d in Xa + sub]
        if set(lab2) != voc2 or len(lab2) != len(voc2):
            fails.append(_F("add.second-merge.columns", f"a + a_sub after a + b: columns {sorted(map(str, lab2))}, tokens of a's corpus {sorted(voc2)}"))
        elif c2["train"]["shape"] != [len(Xa) + len(sub), len(voc2)] or _by_label(c2, c2["train"]) != exp2:
            fails.append(_F("add.second-merge.train-matrix", f"a + a_sub after a + b: {_by_label(c2, c2['train'])} expected {exp2}"))
    return fails


def _kappa(kernel, d):
    return 1.0 if kernel == "flat" else (1.0 / d if kernel == "harmonic" else 0.9 ** d)


def _skip_expected(doc, kept, radius_of, kernel):
    s = [t for t in doc if t in kept]
    exp = {}
    for k, a in enumerate(s):
        for dd in range(1, radius_of(a) + 1):
            if k + dd < len(s):
                key = (a, s[k + dd])
                exp[key] = exp.get(key, 0.0) + _kappa(kernel, dd)
    return exp


def _trailing_unseen(case):
    td = case.get("token_dictionary")
    if td is None:
        return False
    seen = {t for d in case["X"] for t in d}
    top = max(td, key=lambda p: p[1])
    return top[0] not in seen


def _oracle_skipgram(case, o):
    known_class = _trailing_unseen(case)

    def F(key, msg):
        return _F("skipgram.fixed-dictionary.trailing-token-never-occurs" if known_class else key, msg)
    if "fit_exc" in o:
        if "kept_tokens" in o and not any(t in o["kept_tokens"] for d in case["X"] for t in d):
            return []        # outside the property's domain: the pruning left an empty vocabulary
        return [F("skipgram.raises.fit", f"fit raises {o['fit_exc']} X={case['X']} kw={case['kw']}")]
    fails = []
    for k in ("trX", "trXt"):
        if k + "_exc" in o:
            fails.append(F("skipgram.raises.transform", f"transform raises {o[k + '_exc']}"))
    kept = dict((t, i) for t, i in o["tok"])
    oob = sorted({t for d in case["X"] + case["Xt"] for t in d if t in kept and kept[t] >= len(o["ws"])})
    if oob:
        # the window radius of these tokens is read past the end of _window_sizes: the entry is not defined
        fails.append(F("skipgram.window-sizes-index-out-of-range",
                       f"tokens {oob} have indices {[kept[t] for t in oob]} but _window_sizes has {len(o['ws'])} entries"))
    if case["window_function"] == "fixed":
        radius_of = lambda a: case["radius"]
    else:
        radius_of = lambda a: o["ws"][kept[a]] if kept[a] < len(o["ws"]) else 0
    col = [((a, b), j) for (a, b), j in o["col"]]
    labels = [l for l, _ in col]
    if len(set(labels)) != len(labels) or sorted(j for _, j in col) != list(range(len(col))):
        fails.append(F("skipgram.columns", f"column dictionary {o['col']}"))
        return fails
    cmap = dict(col)
    exact = case["kernel"] == "flat"
    for name, docs, mat in (("fit", case["X"], o["train"]), ("transform", case["X"], o.get("trX")),
                            ("transform", case["Xt"], o.get("trXt"))):
        if mat is None:
            continue
        if mat["shape"] != [len(docs), len(col)]:
            fails.append(F(f"skipgram.shape.{name}", f"shape {mat['shape']} expected {[len(docs), len(col)]}"))
            continue
        cells = _cells(mat)
        for i, doc in enumerate(docs):
            exp = _skip_expected(doc, kept, radius_of, case["kernel"])
            bad = None
            for lab, j in col:
                e, g = exp.get(lab, 0.0), cells[i].get(j, 0)
                if (g != e) if exact else (abs(g - e) > 1e-9 * max(1.0, abs(e))):
                    bad = f"{name}: doc {doc} pair {lab}: entry {g}, summed kernel weight {e}"
                    break
            if bad is None and name == "fit":
                miss = [l for l, w in exp.items() if w > 0 and l not in cmap]
                if miss:
                    bad = f"fit: pairs {miss} occur in {doc} but have no column"
            if bad:
                fails.append(F(f"skipgram.cell.{name}", bad + f" (radius {case['radius']}, {case['kernel']}, {case['window_function']})"))
                break
    return fails


def _oracle_edge(case, o):
    if "fit_exc" in o:
        if case["joint"] and case["rowd"] is not None and case["cold"] is not None:
            return []
        if (case["rowd"] is not None and not case["rowd"]) or (case["cold"] is not None and not case["cold"]):
            return []
        return [_F("edge.raises.fit", f"fit raises {o['fit_exc']} E={case['E']} joint={case['joint']} rowd={case['rowd']} cold={case['cold']}")]
    fails = []
    rowd, cold = dict((l, i) for l, i in o["rowd"]), dict((l, i) for l, i in o["cold"])
    rows_in, cols_in = {e[0] for e in case["E"]}, {e[1] for e in case["E"]}
    if case["rowd"] is None and case["cold"] is None:
        want_r = want_c = rows_in | cols_in if case["joint"] else None
        if not case["joint"]:
            want_r, want_c = rows_in, cols_in
        if set(rowd) != want_r or set(cold) != want_c:
            fails.append(_F("edge.labels", f"row labels {sorted(rowd)} column labels {sorted(cold)} for E={case['E']}"))
    shape = [max(rowd.values()) + 1, max(cold.values()) + 1]
    for name, E, key in (("fit", case["E"], "train"), ("transform", case["E"], "trE"), ("transform", case["Et"], "trEt")):
        if key + "_exc" in o:
            fails.append(_F(f"edge.raises.{name}", f"{name} raises {o[key + '_exc']} on {E}"))
            continue
        mat = o[key]
        if mat["shape"] != shape:
            fails.append(_F(f"edge.shape.{name}", f"shape {mat['shape']}, fitted shape {shape} (X'={E})"))
            continue
        exp = {}
        for r, c, v in E:
            if r in rowd and c in cold:
                exp[(rowd[r], cold[c])] = exp.get((rowd[r], cold[c]), Fraction(0)) + Fraction(v)
        exp = {k: v for k, v in exp.items() if v != 0}
        got = {(i, j): Fraction(v) for i, r in enumerate(mat["rows"]) for j, v in r}
        if got != exp:
            fails.append(_F(f"edge.cell.{name}", f"{name} on {E}: cells {sorted((k, float(v)) for k, v in got.items())}, "
                                                 f"sums of edge values {sorted((k, float(v)) for k, v in exp.items())}"))
    return fails


def oracle(case, outs):
    o = outs["normal"]
    kind = case["kind"]
    if "crash" in o:
        return [_F(f"{kind}.crash", f"process terminated: {o['crash']}")]
    if kind == "grams":
        s, n = case["seq"], case["n"]
        if n < 1:
            return []
        if case["beh"] == "exact":
            exp = [s[i:i + n] for i in range(len(s) - n + 1)]
        else:
            exp = [s[i:i + k] for i in range(len(s)) for k in range(1, n + 1) if i + k <= len(s)]
        if o.get("grams") != exp:
            return [_F("grams.ngrams_of", f"ngrams_of({s}, {n}, {case['beh']}) = {o.get('grams', o.get('grams_exc'))}, expected {exp}")]
        return []
    if kind == "coo":
        exp = {}
        for a, b, w in case["seq"]:
            exp[(a, b)] = exp.get((a, b), Fraction(0)) + Fraction(w)
        if "sum" not in o:
            return [_F("coo.raises", o.get("sum_exc", "?"))]
        coords = [(a, b) for a, b, _ in o["sum"]]
        got = {(a, b): Fraction(w) for a, b, w in o["sum"]}
        if coords != sorted(set(coords)) or got != exp:
            return [_F("coo.sum_coo_entries", f"sum_coo_entries({case['seq']}) = {o['sum']}; per-coordinate sums "
                                              f"{sorted((k, float(v)) for k, v in exp.items())}")]
        return []
    if kind == "ngram":
        return _oracle_ngram(case, o)
    if kind == "add":
        return _oracle_add(case, o)
    if kind == "skipgram":
        return _oracle_skipgram(case, o)
    if kind == "edge":
        return _oracle_edge(case, o)
    return []


# ------------------------------------------------------------------ statistics

def _unseen_and_missing(train_tokens, Xt, last_tokens):
    seen_un = any(t not in train_tokens for d in Xt for t in d)
    missing = any(all(t not in d for t in last_tokens) for d in Xt) if last_tokens else False
    return seen_un and missing


def nontrivial(case, outs):
    o = outs["normal"]
    kind = case["kind"]
    if "crash" in o or "fit_exc" in o:
        return False
    if kind == "grams":
        return len(case["seq"]) < case["n"] or len(o.get("grams", [])) > 1
    if kind == "coo":
        co = [(a, b) for a, b, _ in case["seq"]]
        return len(set(co)) < len(co)
    if kind == "ngram":
        toks = {t for t, _ in o["tok"]}
        width = len(o["col"])
        used = {j for r in o.get("trXt", {"rows": []})["rows"] for j, _ in r}
        return any(t not in toks for d in case["Xt"] for t in d) and len(used) < width
    if kind == "add":
        return {t for d in case["Xa"] for t in d} != {t for d in case["Xb"] for t in d} and "c" in o
    if kind == "skipgram":
        toks = {t for t, _ in o["tok"]}
        used = {j for r in o.get("trXt", {"rows": []})["rows"] for j, _ in r}
        return any(t not in toks for d in case["Xt"] for t in d) and 0 < len(o["col"]) and len(used) < len(o["col"])
    if kind == "edge":
        rowd, cold = {l for l, _ in o["rowd"]}, {l for l, _ in o["cold"]}
        un = any(e[0] not in rowd or e[1] not in cold for e in case["Et"])
        dup = len({(e[0], e[1]) for e in case["E"]}) < len(case["E"])
        return un and dup
    return False


def stats(case, outs):
    o = outs["normal"]
    kind = case["kind"]
    t = [kind]
    if "fit_exc" in o:
        return t + [f"{kind}.fit-raises"]
    if kind == "ngram":
        t.append(f"ngram.n{case['n']}.{case['beh']}")
        if case["kw"]:
            t.append("ngram.pruning")
        if case["token_dictionary"] is not None:
            t.append("ngram.fixed-token-dictionary")
        if case["ngram_dictionary"] is not None:
            t.append("ngram.fixed-ngram-dictionary")
        if any(len(d) < case["n"] for d in case["X"] + case["Xt"]):
            t.append("ngram.doc-shorter-than-n")
        toks = {x for x, _ in o["tok"]}
        if any(x not in toks for d in case["Xt"] for x in d):
            t.append("ngram.unseen-token-in-transform")
    elif kind == "add":
        va, vb = {x for d in case["Xa"] for x in d}, {x for d in case["Xb"] for x in d}
        t.append("add." + ("equal" if va == vb else "disjoint" if not (va & vb) else
                           "nested" if va <= vb or vb <= va else "overlap"))
    elif kind == "skipgram":
        t.append(f"skipgram.{case['kernel']}.r{case['radius']}.{case['window_function']}")
        if case["token_dictionary"] is not None:
            t.append("skipgram.fixed-token-dictionary")
        if "trXt" in o and o["col"]:
            used = {j for r in o["trXt"]["rows"] for j, _ in r}
            if (len(o["col"]) - 1) not in used:
                t.append("skipgram.last-column-absent-in-transform")
    elif kind == "edge":
        if case["joint"]:
            t.append("edge.joint")
        if case["rowd"] is not None or case["cold"] is not None:
            t.append("edge.fixed-dictionary")
        if len({(e[0], e[1]) for e in case["E"]}) < len(case["E"]):
            t.append("edge.duplicate-edges")
        if "trEt" in o and not any(o["trEt"]["rows"]):
            t.append("edge.transform-nothing-valid")
    return t


def shrink_candidates(case):
    for k in ("X", "Xt", "Xa", "Xb", "E", "Et"):
        v = case.get(k)
        if not isinstance(v, list):
            continue
        for i in range(len(v)):
            if len(v) > 1:
                yield dict(case, **{k: v[:i] + v[i + 1:]})
        if k in ("X", "Xt", "Xa", "Xb"):
            for i, d in enumerate(v):
                for p in range(len(d)):
                    nd = d[:p] + d[p + 1:]
                    nv = v[:i] + [nd] + v[i + 1:]
                    if k == "Xt" or any(nv):
                        yield dict(case, **{k: nv})
    if case.get("kw"):
        yield dict(case, kw={})
    if case["kind"] in ("coo", "grams"):
        s = case["seq"]
        for i in range(len(s)):
            yield dict(case, seq=s[:i] + s[i + 1:])
