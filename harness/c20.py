"""C20 — histogram rows conserve the events; KDE rows depend only on the value multiset.
Model: lean/VecModel/Model/Histogram.lean, theorems: lean/VecModel/Props/C20.lean."""
import math
from fractions import Fraction

PROP = "C20"
RULE = ("histogram cases: 1-5 training sequences (ints, quarter steps, random floats, negative values for "
        "'uniform', non-negative for 'quantile', heavy ties) x n_components 1..10 x strategy x absolute_range "
        "(unbounded / half-bounded / bounded; bounds below the data, inside the data, exactly at a data value) x "
        "append_outlier_bins; always >= 2 distinct training values inside the absolute range. Transform inputs: "
        "the training sequences, the training minimum and maximum, the absolute bounds, every fitted bin edge "
        "and its two neighbouring doubles, far outliers (+-1e6, +-1e300), an empty sequence. KDE cases: numpy "
        "sequences x n_components x kernel (6 sklearn kernels) x bandwidth (given; a few estimated) x grid "
        "strategy; every transform row is recomputed on 3 permutations of its sequence; 30-40 % of the estimators "
        "were fitted on an affine image of the data (and used) before the fit that is checked. Non-trivial = a histogram "
        "case whose transform inputs contain a value equal to a fitted inner edge or training extreme AND a value "
        "outside the absolute range or the training range; a KDE case with a sequence of >= 3 distinct values "
        "whose permutation is not the identity.")
ASSUMPTIONS = [
    "training data has >= 2 distinct values strictly inside the absolute range (a single distinct value gives an "
    "empty IntervalIndex / zero-width range: outside the property's quantifier)",
    "values are finite doubles; the breaks (interval_range's linspace, find_bin_boundaries' quantile breaks) are taken "
    "from the implementation's own functions as exact rationals, the model builds the bins from them",
    "pandas' IntervalIndex / pd.cut / value_counts and sklearn's KernelDensity are external: re-implemented in the "
    "model (right-closed cut; KDE by its defining formula, Float instance) and compared (counts exactly, densities 1e-9)",
    "sequences are lists or numpy arrays (a pandas Series would have its counts re-ordered by Series.value_counts; "
    "KDEVectorizer needs numpy arrays)",
]
NWORKERS = {"quick": 4, "thorough": 8}

KERNELS = ["gaussian", "tophat", "epanechnikov", "exponential", "linear", "cosine"]
INF = float("inf")


def _b(x):
    """bound / number -> JSON-safe"""
    if x == INF:
        return "inf"
    if x == -INF:
        return "-inf"
    return x


def _ub(x):
    return INF if x == "inf" else -INF if x == "-inf" else x


def _rat(x):
    if x in ("inf", "-inf"):
        return x
    if isinstance(x, int):
        return f"{x}/1"
    a, b = float(x).as_integer_ratio()
    return f"{a}/{b}"


def _hist(X, n, strategy="uniform", rng_=("-inf", "inf"), outlier=False, Xt=None, container="list"):
    return {"kind": "hist", "X": X, "n": n, "strategy": strategy, "range": [_b(rng_[0]), _b(rng_[1])],
            "outlier": outlier, "Xt": Xt or [], "container": container}


def _kde(X, n, kernel="gaussian", bandwidth=1.0, grid="uniform", Xt=None, perms=None):
    return {"kind": "kde", "X": X, "n": n, "kernel": kernel, "bandwidth": bandwidth, "grid": grid,
            "Xt": Xt or [], "perms": perms or []}


def corpus():
    cs = []
    X = [[1, 2, 3, 10], [2, 2, 5.5]]
    for strategy in ("uniform", "quantile"):
        for r in (("-inf", "inf"), (0, 20), (0, "inf"), ("-inf", 10), (1, 10), (1.5, 6)):
            for outl in (False, True):
                cs.append(_hist(X, 3, strategy, r, outl, Xt=[[1, 10, -100, 100, 0, 20, 20.5, 2.0]]))
    cs.append(_hist([[0, 0, 0, 1]], 2, "quantile", Xt=[[0, 1, 0.5, -1]]))
    cs.append(_hist([[-3, -1, 4]], 1, "uniform", Xt=[[-3, 4, -3.0000001]]))
    cs.append(_hist([[0.1, 0.2, 0.30000000000000004, 0.7]], 7, "uniform", outlier=True, container="array"))
    cs.append(_hist([[5, 6], [7, 8, 9]], 4, "uniform", (5, 9), True))
    cs.append(_hist([[5, 6], [7, 8, 9]], 4, "quantile", (5, 9), False))
    # very long sequences (beyond any plausible size threshold 1k..64k that could select another binning path)
    # whose values sit ON the breaks, the training extremes and the absolute bounds: the row must still be the
    # (lo, hi]-count of the model, and equal the sum of the rows of its chunks (Props/C20 counts_append)
    Xl = [[0, 1, 2, 3, 4, 5, 6, 7, 8, 9, 10, 11, 12]]
    for n_long in (10001, 12007, 70001):
        long_seq = [i % 15 - 1 for i in range(n_long)]                      # -1..13: outliers on both sides too
        for strategy, r, outl in (("uniform", ("-inf", "inf"), False), ("uniform", (0, 12), True),
                                  ("quantile", (0, "inf"), False), ("uniform", (-1, 13), False)):
            if n_long > 20000 and strategy == "quantile":
                continue
            cs.append(_hist(Xl, 4, strategy, r, outl, Xt=[long_seq, long_seq[:5000], long_seq[5000:]]))
    Xk = [[1.0, 2.0, 3.0, 10.0], [2.0, 2.0, 5.5]]
    for k in KERNELS:
        cs.append(_kde(Xk, 5, k, 1.5, "density", Xt=[[100.0, 200.0], [3.0, 1.0, 2.0]], perms=[1, 2, 3]))
    cs.append(_kde(Xk, 5, "gaussian", None, "uniform", perms=[1, 2]))
    # long sequences (beyond any plausible internal block size 1k..8k) whose head and tail follow different
    # laws: a row that depended on how the events are batched would change under permutation
    for n_long in (4097, 5000, 8200):
        long_seq = [float(i % 7) for i in range(n_long - 900)] + [50.0 + (i % 5) for i in range(900)]
        cs.append(_kde([long_seq, [0.0, 55.0, 3.0]], 5, "gaussian", 2.0, "uniform", perms=[1, 2]))
    return cs


def _rand_values(rng, style, k, nonneg):
    if style == "ints":
        v = [rng.randint(0 if nonneg else -6, 12) for _ in range(k)]
    elif style == "quarters":
        v = [rng.randint(0 if nonneg else -20, 40) / 4 for _ in range(k)]
    elif style == "floats":
        v = [rng.uniform(0 if nonneg else -5, 10) for _ in range(k)]
    elif style == "ties":
        pool = [rng.randint(0, 9) for _ in range(3)]
        v = [rng.choice(pool) for _ in range(k)]
    elif style == "wide":
        v = [rng.choice([1e-3, 0.5, 1, 7, 1e3, 1e6, 123456.789]) * (1 if nonneg or rng.random() < 0.7 else -1) for _ in range(k)]
    else:
        v = [round(rng.gauss(3, 2), 3) for _ in range(k)]
        if nonneg:
            v = [abs(x) for x in v]
    return v


def _in_range(x, lo, hi):
    return lo < x < hi


def generate(rng, tier):
    cs = []
    n_h = 260 if tier == "quick" else 4000
    while len(cs) < n_h:
        strategy = rng.choice(["uniform", "uniform", "quantile"])
        nonneg = strategy == "quantile"
        style = rng.choice(["ints", "quarters", "floats", "ties", "wide", "gauss"])
        X = [_rand_values(rng, style, rng.randint(1, 9), nonneg) for _ in range(rng.randint(1, 5))]
        flat = sorted(v for s in X for v in s)
        mn, mx = flat[0], flat[-1]
        # absolute range: relative to the data
        def pick(side):
            r = rng.random()
            if r < 0.4:
                return -INF if side == 0 else INF
            if r < 0.6:      # outside the data
                return (mn - rng.choice([1, 0.5, 100])) if side == 0 else (mx + rng.choice([1, 0.5, 100]))
            if r < 0.8:      # exactly at a data value
                return rng.choice(flat[: max(1, len(flat) // 3)]) if side == 0 else rng.choice(flat[-max(1, len(flat) // 3):])
            return (mn + (mx - mn) * rng.choice([0.1, 0.25])) if side == 0 else (mx - (mx - mn) * rng.choice([0.1, 0.25]))
        lo, hi = pick(0), pick(1)
        inside = sorted({v for v in flat if _in_range(v, lo, hi)})
        if len(inside) < 2:
            continue
        n = rng.choice([1, 2, 2, 3, 3, 4, 5, 6, 8, 10])
        outl = rng.random() < 0.5
        tmin, tmax = inside[0], inside[-1]
        Xt = [[tmin, tmax], [tmin, tmin, tmax, mn, mx],
              [-1e6, 1e6, -1e300, 1e300, tmin - 1, tmax + 1],
              [x for x in (lo, hi) if abs(x) != INF],
              [],
              [rng.uniform(tmin - 2, tmax + 2) for _ in range(rng.randint(1, 12))]]
        if abs(lo) != INF:
            Xt.append([math.nextafter(lo, -INF), math.nextafter(lo, INF), lo])
        if abs(hi) != INF:
            Xt.append([math.nextafter(hi, -INF), math.nextafter(hi, INF), hi])
        cs.append(_hist(X, n, strategy, (lo, hi), outl, Xt, rng.choice(["list", "list", "array"])))
    n_k = 60 if tier == "quick" else 800
    for i in range(n_k):
        style = rng.choice(["ints", "quarters", "floats", "gauss", "ties"])
        X = [[float(v) for v in _rand_values(rng, style, rng.randint(2, 8), False)] for _ in range(rng.randint(1, 4))]
        if len({v for s in X for v in s}) < 2:
            continue
        bw = rng.choice([0.1, 0.5, 1.0, 1.5, 2.5, 7.0])
        if rng.random() < (0.06 if tier == "quick" else 0.03) and sum(len(s) for s in X) <= 12:
            bw = None
        Xt = [[float(v) for v in _rand_values(rng, rng.choice(["ints", "floats", "wide"]), rng.randint(1, 7), False)]
              for _ in range(rng.randint(0, 2))]
        cs.append(_kde(X, rng.choice([2, 3, 5, 8, 20]), rng.choice(KERNELS), bw, rng.choice(["uniform", "density"]),
                       Xt, [rng.randrange(1 << 30) for _ in range(3)]))
        if rng.random() < 0.4:
            cs[-1]["prefit"] = [rng.choice([0.5, 2.0, 3.0]), rng.choice([-40.0, 10.0, 100.0])]
    for c in cs:
        if c["kind"] == "hist" and rng.random() < 0.3:
            c["prefit"] = [rng.choice([0.5, 2.0, 3.0]), rng.choice([-40.0, 10.0, 100.0])]
    return cs


def search(rng, tier):
    return generate(rng, "thorough" if tier == "thorough" else "quick")


# ------------------------------------------------------------------ implementation side (worker)

def _num(x):
    """float -> int when integer-valued (canonical JSON)"""
    x = float(x)
    if x != x:
        return "nan"
    if abs(x) == INF:
        return _b(x)
    return int(x) if x == int(x) and abs(x) < 2 ** 53 else x


def _permute(seq, seed):
    import random
    p = list(seq)
    random.Random(seed).shuffle(p)
    return p


def run_impl(case):
    import numpy as np, pandas as pd
    if case["kind"] == "hist":
        from vectorizers import HistogramVectorizer
        from vectorizers._vectorizers import find_bin_boundaries
        lo, hi = _ub(case["range"][0]), _ub(case["range"][1])
        conv = (lambda s: np.array(s, dtype=float)) if case["container"] == "array" else (lambda s: list(s))
        X = [conv(s) for s in case["X"]]
        out = {}
        try:
            m = HistogramVectorizer(n_components=case["n"], strategy=case["strategy"], absolute_range=(lo, hi),
                                    append_outlier_bins=case["outlier"])
            if case.get("prefit"):
                # history: the same estimator was fitted on other data and used before
                try:
                    P = [conv([case["prefit"][0] * v + case["prefit"][1] for v in s]) for s in case["X"]]
                    m.fit(P)
                    m.transform(P)
                except Exception:
                    pass
            r = m.fit(X)
            out["fit_returns_self"] = r is m
            bi = m.bin_intervals_
        except Exception as e:
            return {"fit_exc": f"{type(e).__name__}: {e}"}
        out["closed"] = str(bi.closed)
        out["bins"] = [[_rat(_b(float(iv.left))), _rat(_b(float(iv.right)))] for iv in bi]
        # the breaks, from the same library calls fit makes (intermediate values of the implementation)
        flat = [v for s in case["X"] for v in s]
        flat = [v for v in flat if v > lo and v < hi]
        try:
            if case["strategy"] == "uniform":
                ii = pd.interval_range(start=np.min(flat), end=np.max(flat), periods=case["n"])
                br = [float(iv.left) for iv in ii] + [float(ii[-1].right)]
            else:
                br = [float(x) for x in find_bin_boundaries(list(flat), case["n"])]
            out["breaks"] = [_rat(x) for x in br]
        except Exception as e:
            out["breaks_exc"] = f"{type(e).__name__}: {e}"
        out["train_in_range"] = [_rat(min(flat)), _rat(max(flat))]
        # transform inputs: the case's + every fitted edge with its neighbouring doubles
        edges = sorted({float(iv.left) for iv in bi} | {float(iv.right) for iv in bi})
        fe = [e for e in edges if abs(e) != INF]
        Xt = [list(s) for s in case["X"]] + [list(s) for s in case["Xt"]]
        Xt.append(fe)
        Xt.append([math.nextafter(e, -INF) for e in fe] + [math.nextafter(e, INF) for e in fe])
        out["Xt_all"] = [[_rat(v) for v in s] for s in Xt]
        try:
            R = m.transform([conv(s) for s in Xt])
            out["rows"] = [[_num(v) for v in row] for row in R]
            out["shape"] = [int(x) for x in R.shape]
            if case.get("prefit"):
                f = HistogramVectorizer(n_components=case["n"], strategy=case["strategy"], absolute_range=(lo, hi),
                                        append_outlier_bins=case["outlier"]).fit(X)
                Rf = f.transform([conv(s) for s in Xt])
                out["fresh_same"] = bool(R.shape == Rf.shape and np.array_equal(np.asarray(R), np.asarray(Rf)))
        except Exception as e:
            out["transform_exc"] = f"{type(e).__name__}: {e}"
        return out

    from vectorizers import KDEVectorizer
    X = [np.array(s, dtype=float) for s in case["X"]]
    out = {}
    try:
        m = KDEVectorizer(n_components=case["n"], bandwidth=case["bandwidth"], kernel=case["kernel"],
                          evaluation_grid_strategy=case["grid"])
        if case.get("prefit"):
            try:
                P = [case["prefit"][0] * x + case["prefit"][1] for x in X]
                m.fit(P)
                m.transform(P)
            except Exception:
                pass
        r = m.fit(X)
        out["fit_returns_self"] = r is m
    except Exception as e:
        return {"fit_exc": f"{type(e).__name__}: {e}"}
    out["h"] = _rat(float(m.bandwidth_))
    out["grid"] = [_rat(float(g)) for g in m.evaluation_grid_]
    seqs = [list(s) for s in case["X"]] + [list(s) for s in case["Xt"]]
    out["seqs"] = [[_rat(v) for v in s] for s in seqs]
    try:
        R = m.transform([np.array(s, dtype=float) for s in seqs])
        out["rows"] = [[float(v) if math.isfinite(v) else str(v) for v in row] for row in R]
        out["perm_rows"] = []
        out["perm_moved"] = []
        if case.get("prefit"):
            f = KDEVectorizer(n_components=case["n"], bandwidth=case["bandwidth"], kernel=case["kernel"],
                              evaluation_grid_strategy=case["grid"]).fit(X)
            Rf = f.transform([np.array(s, dtype=float) for s in seqs])
            out["fresh_same"] = bool(np.shape(R) == np.shape(Rf) and np.allclose(np.asarray(R), np.asarray(Rf), rtol=1e-9, atol=1e-12, equal_nan=True))
        for seed in case["perms"]:
            P = [_permute(s, seed) for s in seqs]
            out["perm_moved"].append(any(p != s for p, s in zip(P, seqs)))
            Rp = m.transform([np.array(s, dtype=float) for s in P])
            out["perm_rows"].append([[float(v) if math.isfinite(v) else str(v) for v in row] for row in Rp])
    except Exception as e:
        out["transform_exc"] = f"{type(e).__name__}: {e}"
    return out


# ------------------------------------------------------------------ model side

def model_requests(case, outs):
    o = outs["normal"]
    if "crash" in o or "fit_exc" in o or "transform_exc" in o:
        return []
    if case["kind"] == "hist":
        if "breaks" not in o:
            return []
        return [{"op": "hist.fit", "breaks": o["breaks"], "lo": _rat(case["range"][0]), "hi": _rat(case["range"][1]),
                 "outlier": case["outlier"], "seqs": o["Xt_all"]}]
    return [{"op": "kde.rows", "kernel": case["kernel"], "h": o["h"], "grid": o["grid"], "seqs": o["seqs"]}]


def _bits_to_float(b):
    import struct
    return struct.unpack("<d", struct.pack("<Q", int(b)))[0]


def compare(case, outs, resps):
    o = outs["normal"]
    d = []
    if not resps:
        return d
    r = resps[0]
    if "bad" in r:
        return [f"model rejected request: {r['bad']}"]
    if case["kind"] == "hist":
        if "ok" not in r:
            return [f"model fails ({r.get('err')}) but the implementation fitted {o['bins']}"]
        m = r["ok"]
        if m["bins"] != o["bins"]:
            d.append(f"bin_intervals_ {o['bins']} != model bins {m['bins']} (breaks {o['breaks']})")
        if o["closed"] != "right":
            d.append(f"closed side {o['closed']} (model: right)")
        if m["rows"] != o["rows"]:
            for i, (a, b) in enumerate(zip(o["rows"], m["rows"])):
                if a != b:
                    d.append(f"row {i} for {o['Xt_all'][i]}: impl {a} != model {b}")
                    break
        return d
    if "ok" not in r:
        return [f"model fails: {r}"]
    rows = [[_bits_to_float(b) for b in row] for row in r["ok"]]
    for i, (a, b) in enumerate(zip(o["rows"], rows)):
        for x, y in zip(a, b):
            if isinstance(x, str) or not (abs(x - y) <= 1e-12 + 1e-9 * max(abs(x), abs(y))):
                d.append(f"kde row {i}: impl {x} != model (Float) {y}")
                return d
    return d


# ------------------------------------------------------------------ oracle (the property, on the impl)

def _F(key, msg):
    return {"key": key, "msg": msg}


def _fr(s):
    return INF if s == "inf" else -INF if s == "-inf" else Fraction(s)


def oracle(case, outs):
    o = outs["normal"]
    if "crash" in o:
        return [_F("c20.crash", f"process terminated: {o['crash']}")]
    kind = case["kind"]
    if "fit_exc" in o:
        return [_F(f"{kind}.fit-raises", f"fit raises {o['fit_exc']} for {case}")]
    if "transform_exc" in o:
        return [_F(f"{kind}.transform-raises", f"transform raises {o['transform_exc']} for {case}")]
    fails = []
    if o.get("fresh_same") is False:
        fails.append(_F(f"{kind}.refit-differs-from-fresh", f"an estimator fitted on {case['prefit'][0]} * X + {case['prefit'][1]}, used, then re-fitted on X "
                        f"gives other rows than a fresh estimator fitted on X; case {case}"))
    if kind == "hist":
        lo, hi = _fr(_rat(case["range"][0])), _fr(_rat(case["range"][1]))
        bins = [(_fr(a), _fr(b)) for a, b in o["bins"]]
        # gap-free, non-overlapping, increasing partition of the absolute range, intervals (left, right]
        if o["closed"] != "right":
            fails.append(_F("hist.closed-side", f"intervals closed on the {o['closed']}; case {case}"))
        if not bins:
            return fails + [_F("hist.no-bins", f"no bins; case {case}")]
        if bins[0][0] != lo or bins[-1][1] != hi:
            fails.append(_F("hist.partition.ends", f"bins span ({bins[0][0]}, {bins[-1][1]}], absolute range ({lo}, {hi}]; "
                                                    f"bins {o['bins']}; case {case}"))
        for i, (a, b) in enumerate(bins):
            if not a < b:
                fails.append(_F("hist.partition.empty-bin", f"bin {i} = ({a}, {b}] is empty/reversed; case {case}"))
        for i in range(len(bins) - 1):
            if bins[i][1] != bins[i + 1][0]:
                k = "gap" if bins[i][1] < bins[i + 1][0] else "overlap"
                fails.append(_F(f"hist.partition.{k}", f"bins {i},{i+1}: {o['bins'][i]} then {o['bins'][i+1]}; case {case}"))
        # "plus the two outlier bins when requested": the inner bins are those of the breaks, preceded by
        # (absLo, first break] and followed by (last break, absHi]
        if case["outlier"] and "breaks" in o and len(o["breaks"]) >= 2:
            br = [Fraction(x) for x in o["breaks"]]
            want_bins = [(lo, br[0])] + list(zip(br[:-1], br[1:])) + [(br[-1], hi)]
            if bins != want_bins:
                fails.append(_F("hist.outlier-bins", f"append_outlier_bins: bins {o['bins']} are not (absLo, b0], the "
                                                     f"{len(br) - 1} bins of the breaks {o['breaks']}, (b_last, absHi]; case {case}"))
        # rows: non-negative integers, total = number of the sequence's values in (lo, hi]
        if o["shape"] != [len(o["Xt_all"]), len(bins)]:
            fails.append(_F("hist.shape", f"shape {o['shape']} for {len(o['Xt_all'])} sequences and {len(bins)} bins; case {case}"))
        for i, (seq, row) in enumerate(zip(o["Xt_all"], o["rows"])):
            vals = [Fraction(v) for v in seq]
            if any((not isinstance(c, int)) or c < 0 for c in row):
                fails.append(_F("hist.row.not-natural", f"row {i} = {row} for {seq}; case {case}"))
                continue
            want = sum(1 for v in vals if lo < v <= hi)
            if sum(row) != want:
                w = "dropped" if sum(row) < want else "counted-twice"
                fails.append(_F(f"hist.row.{w}", f"row {i} = {row} (total {sum(row)}) but {want} of the values "
                                                  f"{[float(v) for v in vals]} lie in ({lo}, {hi}]; bins {o['bins']}; case {case}"))
        return fails
    # KDE: non-negative densities; the row depends only on the multiset of the values
    for i, row in enumerate(o["rows"]):
        if len(row) != len(o["grid"]):
            fails.append(_F("kde.row-length", f"row {i} has {len(row)} entries, grid {len(o['grid'])}; case {case}"))
        for v in row:
            if isinstance(v, str) or v < 0:
                fails.append(_F("kde.negative-or-nan", f"row {i} = {row}; case {case}"))
                break
    for p, rows in enumerate(o["perm_rows"]):
        for i, (a, b) in enumerate(zip(o["rows"], rows)):
            for x, y in zip(a, b):
                if isinstance(x, str) or isinstance(y, str) or abs(x - y) > 1e-12 * max(1.0, abs(x), abs(y)):
                    fails.append(_F("kde.order-dependent", f"row {i}: {a} vs {b} after permuting the sequence "
                                                           f"(seed {case['perms'][p]}); case {case}"))
                    break
            else:
                continue
            break
    return fails


# ------------------------------------------------------------------ statistics / shrinking

def nontrivial(case, outs):
    o = outs["normal"]
    if "rows" not in o:
        return False
    if case["kind"] == "hist":
        lo, hi = _fr(_rat(case["range"][0])), _fr(_rat(case["range"][1]))
        edges = {_fr(a) for a, _ in o["bins"]} | {_fr(b) for _, b in o["bins"]}
        tmin, tmax = (Fraction(x) for x in o["train_in_range"])
        vals = [Fraction(v) for s in o["Xt_all"] for v in s]
        at_edge = any(v in edges or v == tmin or v == tmax for v in vals)
        outside = any(not (lo < v <= hi) or v < tmin or v > tmax for v in vals)
        return at_edge and outside
    return any(o.get("perm_moved", [])) and any(len(set(s)) >= 3 for s in o["seqs"])


def stats(case, outs):
    o = outs["normal"]
    k = case["kind"]
    t = [k]
    if "fit_exc" in o:
        return t + [f"{k}.fit-raises"]
    if k == "hist":
        t += [f"hist.{case['strategy']}", "hist.outlier-bins" if case["outlier"] else "hist.expand",
              f"hist.container.{case['container']}"]
        lo, hi = case["range"]
        t.append("hist.range." + ("unbounded" if (lo, hi) == ("-inf", "inf") else "half" if "inf" in (hi,) or lo == "-inf" else "bounded"))
        if "bins" in o:
            t.append(f"hist.nbins.{min(len(o['bins']), 6)}")
            if case["strategy"] == "quantile" and len(o.get("breaks", [])) - 1 < case["n"]:
                t.append("hist.quantile.fewer-bins-than-asked")
        flat = [v for s in case["X"] for v in s]
        l, h = _ub(lo), _ub(hi)
        if any(not (l < v < h) for v in flat):
            t.append("hist.training-values-outside-range")
    else:
        t += [f"kde.{case['kernel']}", f"kde.grid.{case['grid']}", "kde.bandwidth." + ("estimated" if case["bandwidth"] is None else "given")]
    return t


def _valid(case):
    """stay inside the property's quantifier: >= 2 distinct training values (strictly inside the absolute range)"""
    flat = [v for s in case["X"] for v in s]
    if case["kind"] == "hist":
        lo, hi = _ub(case["range"][0]), _ub(case["range"][1])
        flat = [v for v in flat if lo < v < hi]
    return len(set(flat)) >= 2 and all(len(s) > 0 for s in case["X"])


def shrink_candidates(case):
    for c in _shrink_raw(case):
        if _valid(c):
            yield c


def _shrink_raw(case):
    X = case["X"]
    for i in range(len(X)):
        if len(X) > 1:
            yield dict(case, X=X[:i] + X[i + 1:])
    for i, s in enumerate(X):
        for j in range(len(s)):
            if len(s) > 1:
                yield dict(case, X=X[:i] + [s[:j] + s[j + 1:]] + X[i + 1:])
    Xt = case["Xt"]
    for i in range(len(Xt)):
        yield dict(case, Xt=Xt[:i] + Xt[i + 1:])
    if case["n"] > 1:
        yield dict(case, n=case["n"] - 1)
    if case["kind"] == "hist" and case["container"] != "list":
        yield dict(case, container="list")
