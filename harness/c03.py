"""C03 — co-occurrence matrices equal the windowed, kernel-weighted count definition.
Model: lean/VecModel/Model/{Window,Preprocess,Cooc}.lean, theorems: lean/VecModel/Props/C03.lean."""
import math
from fractions import Fraction
from . import cooc_common as cc

PROP = "C03"
# kernels regenerated from /repo's source (tools/py2lean.py) vs the hand model, exhaustive small scope, inside Lean
TWIN_CHECKS = [{"op": "twin.window_exhaustive", "n": 5}]
RULE = ("random corpora (0-6 sequences, lengths 0-30, vocabulary 1-8, incl. [['a','a','a']] and empty sequences) for "
        "the token, timed, multiset and n-gram co-occurrence vectorizers x window radii 0-5 x orientations "
        "before/after/directional (1-3 declared windows) x fixed/variable radii x flat/harmonic/geometric kernels x "
        "offset/normalize/power x mix weights x normalize_windows x n-gram size 1-3 x timestamp shifts 0, 1e6, 1.6e9; "
        "plus direct calls of the njit kernels window_at_index / flat / harmonic / geometric / multi kernels. "
        "Non-trivial = the matrix has a non-zero cell and some window is clipped by a sequence boundary or the corpus "
        "has >= 2 sequences; kernel calls: window clipped at either end.")
ASSUMPTIONS = [
    "vocabulary indices / counts are unbounded Nat in the model (int32/int64 in the code)",
    "weights are exact rationals in the model; the implementation's float32 cells are compared exactly when every "
    "cell is an integer (flat kernel, no normalisation, integer mix weights) and with rtol 1e-5*sqrt(contributions) otherwise",
    "variable_window_radii (real powers + rounding) is not modelled: its radius table is read from the fitted estimator",
    "the kept vocabulary (and the kept n-gram rows) are read from the fitted estimator (pruning is property C05)",
    "timed kernels without an explicit delta use the fitted delta_mean_, read from the estimator; the model evaluates "
    "timed geometric weights only when every exponent |dt|/delta is an integer (other cases: oracle only)",
    "multiset kernels: 'offset' skips the first offset multisets of the window (the target's own first) and the k-th "
    "remaining multiset has weight power^k, as the kernels index them",
    "mix weights are non-negative (contributions that are not positive are not recorded by the code)",
]
_NW = int(__import__("os").environ.get("VERIF_NWORKERS", "6"))      # NFAM families are dealt round-robin to the workers
NWORKERS = {"quick": _NW, "thorough": _NW}
NFAM = 6
ALPHA = "abcdefgh"


# ------------------------------------------------------------------ generation

def _seq(rng, vocab, maxlen):
    n = rng.choice([0, 1, 2, 3, 5, 8, maxlen]) if rng.random() < 0.5 else rng.randint(0, maxlen)
    return [rng.choice(vocab) for _ in range(n)]


def _corpus(rng, maxlen=30):
    v = rng.randint(1, 8)
    vocab = list(ALPHA[:v])
    k = rng.choice([1, 1, 2, 3, 4, 6])
    X = [_seq(rng, vocab, maxlen) for _ in range(k)]
    if rng.random() < 0.3:
        X.insert(rng.randrange(len(X) + 1), [])
    if not any(X):
        X.append([vocab[0]] * rng.randint(1, 3))
    return X


def _timed(rng, X):
    out = []
    for s in X:
        t, ts = rng.randrange(0, 8) / 4, []
        for tok in s:
            ts.append([tok, t])
            t += rng.choice([0, 1, 1, 2, 3, 4, 8]) / 4
        out.append(ts)
    return out


def _multi(rng, X):
    """each sequence becomes a document: its tokens are cut into multisets of size 0-3"""
    docs = []
    for s in X:
        doc, i = [], 0
        while i < len(s):
            k = rng.choice([1, 1, 2, 3, 0])
            doc.append(s[i:i + k])
            i += k
        docs.append(doc)
    return docs


def _wins(rng, shapes, fn=("fixed",), kargs=None, mixes=(1, 1, 1, 2, 0.5, 3)):
    shape = rng.choice(shapes)
    ka = kargs(rng) if kargs else None
    wins = []
    for o in shape:
        w = {"radius": rng.choice([0, 1, 1, 2, 2, 3, 5]), "orient": o, "fn": rng.choice(fn), "mix": rng.choice(mixes)}
        if ka is not None:
            w["kargs"] = {k: (v(rng) if callable(v) else v) for k, v in ka.items()}
        wins.append(w)
    if ka is not None and len(wins) > 1 and rng.random() < 0.4:
        # per-window dictionaries with *different* key sets (an omitted key means the default): a defaults object
        # shared between the windows would let one window's setting leak into the next
        for w in wins:
            for k in ("offset", "normalize"):
                if k in w["kargs"] and rng.random() < 0.5:
                    del w["kargs"][k]
    return wins


def _ka_plain(rng):
    c = rng.random()
    if c < 0.4:
        return None
    return {"offset": lambda r: r.choice([0, 0, 1, 2]), "normalize": lambda r: r.random() < 0.5}


def _ka_power(rng):
    return {"offset": lambda r: r.choice([0, 0, 1]), "normalize": lambda r: r.random() < 0.4,
            "power": lambda r: r.choice([0.5, 0.75, 0.9, 0.25])}


def _ka_timed(rng):
    return {"delta": lambda r: r.choice([0.25, 0.25, 0.5, 1.0, 2.0]), "offset": lambda r: r.choice([0, 0, 1]),
            "normalize": lambda r: r.random() < 0.4, "power": lambda r: r.choice([0.5, 0.75, 0.9])}


S1 = [["after"], ["before"]]
S2 = [["directional"], ["after", "before"], ["before", "after"], ["after", "after"]]
S3 = [["directional", "after"], ["before", "directional"]]


def _fam(rng, f, tier):
    """one case of family f (families keep the set of numba signatures per worker small)"""
    maxlen = 30
    X = _corpus(rng, maxlen)
    base = {"nw": rng.random() < 0.4, "prune": {}, "mask": None, "nullify": False, "dict": None}
    if f == 0:      # token, flat, 1-3 blocks (exact integer cases form the bulk)
        c = dict(base, kind="token", kernel="flat", X=X, win=_wins(rng, S1 + S2 + S3, kargs=_ka_plain))
        if rng.random() < 0.6:
            c["nw"] = False
            for w in c["win"]:
                w["mix"] = rng.choice([1, 1, 2, 3])
                if "kargs" in w:
                    w["kargs"]["normalize"] = False
    elif f == 1:    # token, harmonic / geometric, variable radii
        k = rng.choice(["harmonic", "geometric", "geometric"])
        c = dict(base, kind="token", kernel=k, X=X,
                 win=_wins(rng, S2 if k == "geometric" else S1 + S2, fn=("fixed", "fixed", "variable"),
                           kargs=_ka_power if k == "geometric" else _ka_plain))
    elif f == 2:    # token with pruning + mask (+ nullify), supplied dictionaries
        c = dict(base, kind="token", kernel=rng.choice(["flat", "flat", "harmonic"]), X=X,
                 win=_wins(rng, S2, kargs=_ka_plain))
        r = rng.random()
        if r < 0.5:
            c["prune"] = rng.choice([{"min_occurrences": 2}, {"max_occurrences": 3}, {"min_document_occurrences": 2},
                                     {"max_unique_tokens": 2}])
        elif r < 0.8:
            toks = sorted({t for s in X for t in s})
            keep = [t for t in toks if rng.random() < 0.7] or toks[:1]
            extra = [t for t in "xyz" if rng.random() < 0.4]
            c["dict"] = {t: i for i, t in enumerate(keep + extra)}
        if rng.random() < 0.7:
            c["mask"] = "[M]"
            c["nullify"] = True
    elif f == 3:    # timed
        k = rng.choice(["flat", "geometric", "geometric"])
        c = dict(base, kind="timed", kernel=k, X=_timed(rng, _corpus(rng, 20)),
                 win=_wins(rng, S2, kargs=_ka_timed), shifts=[0, 1e6, 1.6e9])
        if rng.random() < 0.3:
            for w in c["win"]:
                w["kargs"]["delta"] = 0.25          # integer exponents: model evaluates exactly
        if rng.random() < 0.2:
            for w in c["win"]:
                del w["kargs"]["delta"]             # default delta = fitted delta_mean_
        if k == "flat":
            for w in c["win"]:
                del w["kargs"]["power"]             # timed_flat_kernel takes no power
        if rng.random() < 0.5:
            # the instance is fitted first on a corpus with a ~40x larger time scale (state such as the default
            # delta must not survive into the next fit)
            c["refit_first"] = [[[tok, t * 40.0] for tok, t in doc] for doc in _timed(rng, _corpus(rng, 8))]
    elif f == 4:    # multiset
        k = rng.choice(["flat", "flat", "geometric"])
        c = dict(base, kind="multi", kernel=k, X=_multi(rng, _corpus(rng, 16)),
                 win=_wins(rng, S1 + S2 if k == "flat" else S2, fn=("fixed", "fixed", "variable"),
                           kargs=_ka_power if k == "geometric" else _ka_plain))
        for w in c["win"]:
            w["radius"] = min(w["radius"], 3)
    else:           # n-gram rows
        k = rng.choice(["flat", "flat", "harmonic"])
        c = dict(base, kind="ngram", kernel=k, X=_corpus(rng, 20), nsize=rng.choice([1, 2, 2, 3]),
                 win=_wins(rng, S2, kargs=_ka_plain))
    return c


def _kernel_cases(rng, n):
    cs = []
    for _ in range(n):
        L = rng.choice([0, 1, 2, 3, 5, 8])
        s = [rng.randrange(0, 4) for _ in range(L)]
        cs.append({"kind": "kernel", "s": s, "r": rng.choice([0, 1, 2, 3, 9]), "i": rng.randrange(0, max(L, 1)),
                   "rev": rng.random() < 0.5, "kernel": rng.choice(["flat", "harmonic", "geometric"]),
                   "mask": rng.choice([None, 1]), "normalize": rng.random() < 0.5, "offset": rng.choice([0, 1, 2]),
                   "power": rng.choice([0.5, 0.9])})
    return cs


def _interleave(fams):
    """position i of the result goes to worker i % NFAM (core.run_impl deals cases round-robin)"""
    k = max(len(f) for f in fams)
    out = []
    for j in range(k):
        for f in fams:
            out.append(f[j % len(f)] if j >= len(f) else f[j])
    return out


def corpus():
    W1 = [{"radius": 1, "orient": "before", "fn": "fixed", "mix": 1}]
    Wd = [{"radius": 2, "orient": "directional", "fn": "fixed", "mix": 1}]
    base = {"nw": False, "prune": {}, "mask": None, "nullify": False, "dict": None}
    f0 = [dict(base, kind="token", kernel="flat", X=[["a", "a", "a"]], win=W1),                      # D9
          dict(base, kind="token", kernel="flat", X=[["a", "b"], [], ["b", "a", "c"]], win=Wd),
          dict(base, kind="token", kernel="flat", X=[["a", "b", "c", "a", "b"], ["b", "a"]],
               win=[{"radius": 2, "orient": "after", "fn": "fixed", "mix": 2}, {"radius": 1, "orient": "before", "fn": "fixed", "mix": 3}]),
          dict(base, kind="token", kernel="flat", X=[["a"]], win=Wd)]
    f1 = [dict(base, kind="token", kernel="geometric", nw=True, X=[["a", "b", "c", "a", "b"], ["b", "a"]],
               win=[{"radius": 3, "orient": "directional", "fn": "fixed", "mix": 1, "kargs": {"offset": 1, "normalize": True, "power": 0.5}}]),
          dict(base, kind="token", kernel="harmonic", nw=True, X=[["a", "b", "c", "a", "b", "d", "a"], []], win=Wd),
          dict(base, kind="token", kernel="geometric", X=[["a", "b", "a", "c", "a", "b", "b", "d"]],
               win=[{"radius": 3, "orient": "directional", "fn": "variable", "mix": 1, "kargs": {"offset": 0, "normalize": False, "power": 0.9}}])]
    f2 = [dict(base, kind="token", kernel="flat", X=[["a", "x", "b", "a"]], dict={"a": 0, "b": 1, "c": 2},  # D30
               mask="[M]", nullify=True, win=[{"radius": 1, "orient": "directional", "fn": "fixed", "mix": 1}]),
          dict(base, kind="token", kernel="flat", X=[["a", "x", "b", "a"]], dict={"a": 0, "b": 1, "c": 2},
               mask="[M]", nullify=False, win=[{"radius": 1, "orient": "directional", "fn": "fixed", "mix": 1}]),
          dict(base, kind="token", kernel="flat", X=[["a", "b", "c", "a", "b"], ["c", "a"]], prune={"min_occurrences": 2},
               win=Wd)]
    tX = [[["a", 0.0], ["b", 1.0], ["a", 3.0]], [], [["b", 0.0], ["c", 2.0]]]
    f3 = [dict(base, kind="timed", kernel="geometric", X=tX, shifts=[0, 1e6, 1.6e9],                       # D12
               win=[{"radius": 2, "orient": "directional", "fn": "fixed", "mix": 1, "kargs": {"delta": 1.0, "offset": 0, "normalize": False, "power": 0.9}}]),
          dict(base, kind="timed", kernel="flat", X=tX, shifts=[0, 1.6e9], nw=True,
               win=[{"radius": 2, "orient": "directional", "fn": "fixed", "mix": 1, "kargs": {"delta": 1.0, "offset": 0, "normalize": False}}]),
          dict(base, kind="timed", kernel="geometric", X=tX, shifts=[0, 1.6e9],
               win=[{"radius": 2, "orient": "directional", "fn": "fixed", "mix": 1, "kargs": {"offset": 0, "normalize": False, "power": 0.9}}]),
          # the same default-delta model, but the instance was fitted before on a corpus with a 50x larger time scale
          dict(base, kind="timed", kernel="geometric", X=tX, shifts=[0],
               refit_first=[[["a", 0.0], ["c", 50.0], ["b", 150.0], ["a", 200.0]], [["b", 0.0], ["a", 100.0]]],
               win=[{"radius": 2, "orient": "directional", "fn": "fixed", "mix": 1, "kargs": {"offset": 0, "normalize": False, "power": 0.9}}])]
    mX = [[["a", "b"], ["c"], ["a", "a"]], [["b"], [], ["c", "a"]]]
    f4 = [dict(base, kind="multi", kernel="flat", X=mX, win=[{"radius": 1, "orient": "after", "fn": "fixed", "mix": 1}]),
          dict(base, kind="multi", kernel="flat", X=mX,
               win=[{"radius": 1, "orient": "after", "fn": "fixed", "mix": 1, "kargs": {"offset": 1, "normalize": False}}]),
          dict(base, kind="multi", kernel="geometric", X=mX, nw=True,
               win=[{"radius": 2, "orient": "directional", "fn": "fixed", "mix": 1, "kargs": {"offset": 0, "normalize": True, "power": 0.5}}]),
          dict(base, kind="multi", kernel="flat", X=[[], [["a", "b"], ["a"]]], win=[{"radius": 1, "orient": "after", "fn": "fixed", "mix": 1}]),
          dict(base, kind="multi", kernel="flat", X=[[["a"], ["b"]], [], [["b", "a"]]], win=[{"radius": 1, "orient": "directional", "fn": "fixed", "mix": 1}]),
          dict(base, kind="multi", kernel="flat", X=[[[t] for t in "abacabadaaeabaa"]],
               win=[{"radius": 3, "orient": "after", "fn": "variable", "mix": 1}])]
    f5 = [dict(base, kind="ngram", kernel="flat", nsize=2, X=[["a", "b", "c", "a", "b"]], win=Wd),
          dict(base, kind="ngram", kernel="flat", nsize=3, X=[["a", "b", "c", "a", "b", "c", "d"], ["a", "b"]], win=Wd),
          dict(base, kind="ngram", kernel="flat", nsize=1, X=[["a", "b", "c", "a", "b"], []], win=Wd),
          {"kind": "kernel", "s": [1, 2, 3, 4, 5], "r": 2, "i": 0, "rev": True, "kernel": "flat", "mask": None,
           "normalize": False, "offset": 0, "power": 0.9},
          {"kind": "kernel", "s": [1, 2, 3, 4, 5], "r": 9, "i": 3, "rev": False, "kernel": "geometric", "mask": 1,
           "normalize": True, "offset": 1, "power": 0.5}]
    return _interleave([f0, f1, f2, f3, f4, f5])


def generate(rng, tier):
    k = 30 if tier == "quick" else 300
    k = max(3, int(k * float(__import__("os").environ.get("VERIF_SCALE", "1"))))     # development / detection runs
    fams = [[_fam(rng, f, tier) for _ in range(k)] for f in range(NFAM)]
    # every n-gram fit recompiles its kernel (fresh tuple converter per estimator): a third of the family
    fams[5] = fams[5][: k // 3] + _kernel_cases(rng, k - k // 3)
    return _interleave(fams)


def search(rng, tier):
    return generate(rng, tier)


# ------------------------------------------------------------------ implementation side

def run_impl(case):
    if case["kind"] == "kernel":
        return _run_kernel(case)
    out = cc.fit_one(case, case["X"])
    if case["kind"] == "timed" and "cells" in out:
        sh = []
        for s in case.get("shifts", [])[1:]:
            o2 = cc.fit_one(case, cc.shift_X(case, s), want_transform=False)
            sh.append({"shift": s, "cells": o2.get("cells"), "delta_mean": o2.get("delta_mean"),
                       "exc": o2.get("fit_exc"), "tokens": o2.get("tokens")})
        out["shifted"] = sh
    return out


def _run_kernel(case):
    import numpy as np
    from vectorizers import _window_kernels as wk
    s = np.array(case["s"], dtype=np.int32)
    out = {}
    try:
        win = wk.window_at_index(s, np.int64(case["r"]), case["i"], reverse=case["rev"])
        out["win"] = [int(x) for x in win]
        mask = None if case["mask"] is None else np.int32(case["mask"])
        fn = {"flat": wk.flat_kernel, "harmonic": wk.harmonic_kernel, "geometric": wk.geometric_kernel}[case["kernel"]]
        args = (win, mask, case["normalize"], case["offset"]) + ((case["power"],) if case["kernel"] == "geometric" else ())
        out["ker"] = [float(x) for x in fn(*args)]
    except Exception as e:
        out["exc"] = cc.exc_str(e)
    return out


# ------------------------------------------------------------------ model side

def _code_tokens(case, o):
    """raw tokens -> integer codes for the preprocessing model"""
    toks = sorted({t for s in _flat_tokens(case) for t in s} | {t for t, _ in o["tokens"]})
    return {t: i for i, t in enumerate(toks)}


def _flat_tokens(case):
    if case["kind"] == "timed":
        return [[p[0] for p in s] for s in case["X"]]
    if case["kind"] == "multi":
        return [[t for m in d for t in m] for d in case["X"]]
    return case["X"]


def model_requests(case, outs):
    o = outs["normal"]
    if case["kind"] == "kernel":
        if "win" not in o:
            return []
        return [{"op": "win.at", "s": case["s"], "r": case["r"], "i": case["i"], "rev": case["rev"]},
                {"op": "win.kernel", "kernel": case["kernel"], "power": cc.rat(case["power"]), "win": o["win"],
                 "mask": case["mask"], "normalize": case["normalize"], "offset": case["offset"]}]
    if "cells" not in o or "seqs" not in o:
        return []
    reqs = []
    code = _code_tokens(case, o)
    mask = case.get("mask")
    d = [[code[t], i] for t, i in o["tokens"] if t != mask]
    mcode = None if mask is None else code.get(mask, len(code))
    if case["kind"] == "multi":
        reqs.append({"op": "pre.multi", "dict": d, "mask": mcode,
                     "docs": [[[code[t] for t in m] for m in doc] for doc in case["X"]]})
    else:
        reqs.append({"op": "pre.token", "dict": d, "mask": mcode, "seqs": [[code[t] for t in s] for s in _flat_tokens(case)]})
    reqs.append({"op": "cooc.labels", "orients": [w["orient"] for w in case["win"]], "n": len(o["tokens"])})
    # the driver also evaluates the declarative definition (Cooc.spec / specNgram / specMulti) cell by cell and
    # compare() holds the implementation against it: always for the n-gram and multiset variants, for
    # token / timed corpora up to 24 tokens (the larger ones are covered by theorem events_eq_spec + the model cells)
    total = sum(len(s) for s in _flat_tokens(case))
    small = total <= (150 if case["kind"] in ("ngram", "multi") else 24)
    r = cc.cooc_request(case, o, spec=small)
    if r is not None:
        reqs.append(r)
    return reqs


def compare(case, outs, resps):
    o = outs["normal"]
    d = []
    if not resps:
        return d
    if case["kind"] == "kernel":
        if resps[0].get("win") != o["win"]:
            d.append(f"window_at_index impl {o['win']} model {resps[0]}")
        if "ker" not in resps[1]:
            d.append(f"kernel: model answered {resps[1]}")
        else:
            mk = [float(Fraction(x)) for x in resps[1]["ker"]]
            if len(mk) != len(o["ker"]) or any(abs(a - b) > 1e-12 * max(1, abs(a)) for a, b in zip(mk, o["ker"])):
                d.append(f"kernel impl {o['ker']} model {mk}")
        return d
    pre = resps[0]
    if "bad" in pre:
        return [f"pre: model rejected: {pre['bad']}"]
    if case["kind"] == "multi":
        if pre["docs"] != o["seqs"]:
            d.append(f"preprocess: impl {o['seqs']} model {pre['docs']}")
    else:
        impl_tokens = [[p[0] for p in s] for s in o["seqs"]] if case["kind"] == "timed" else o["seqs"]
        if pre["seqs"] != impl_tokens:
            d.append(f"preprocess: impl {impl_tokens} model {pre['seqs']}")
    code = _code_tokens(case, o)
    mask = case.get("mask")
    inv = {v: k for k, v in code.items()}
    if mask is not None:
        inv[code.get(mask, len(code))] = mask
    md = sorted(([inv[t], i] for t, i in pre["dict"]), key=lambda e: (e[1], e[0]))
    if md != o["tokens"] or o.get("pre_dict") != o["tokens"]:
        d.append(f"dictionary: impl {o['tokens']} / {o.get('pre_dict')} model {md}")
    lab = resps[1]
    if "labels" not in lab:
        d.append(f"column labels: model answered {lab}")
    else:
        tok = {i: t for i, t in o["token_index"]}
        ml = [("pre_" if p else "post_") + str(i) + "_" + str(tok.get(t)) for p, i, t in lab["labels"]]
        il = [t for _, t in sorted(o["col_index"])]
        if ml != il:
            d.append(f"column labels: impl {il} model {ml}")
    if len(resps) > 2:
        d += cc.compare_cells(case, o["cells"], resps[2], "fit_transform")
    return d


# ------------------------------------------------------------------ oracle

def _F(key, msg):
    return {"key": key, "msg": msg}


def _ref_window(s, r, i, rev):
    """the tokens within distance r before / after position i, nearest first, clipped to the sequence"""
    out = []
    for d in range(1, r + 1):
        j = i - d if rev else i + d
        if 0 <= j < len(s):
            out.append(s[j])
    return out


def oracle(case, outs):
    o = outs["normal"]
    if "crash" in o:
        return [_F("cooc.crash", f"process terminated: {o['crash']}")]
    if case["kind"] == "kernel":
        fails = []
        exp = _ref_window(case["s"], case["r"], case["i"], case["rev"])
        if o.get("win") != exp:
            fails.append(_F("window.content", f"window_at_index({case['s']}, {case['r']}, {case['i']}, {case['rev']}) = "
                                               f"{o.get('win', o.get('exc'))}, expected {exp}"))
            return fails
        w = []
        for k, c in enumerate(exp):
            if (case["mask"] is not None and c == case["mask"]) or k < case["offset"]:
                w.append(0.0)
            else:
                w.append({"flat": 1.0, "harmonic": 1.0 / (k + 1), "geometric": case["power"] ** (k + 1)}[case["kernel"]])
        if case["normalize"] and sum(w) > 0:
            w = [x / sum(w) for x in w]
        got = o.get("ker")
        if got is None or len(got) != len(w) or any(abs(a - b) > 1e-9 * max(1, abs(b)) for a, b in zip(got, w)):
            fails.append(_F("kernel.weights", f"{case['kernel']} kernel on {exp} (mask {case['mask']}, normalize "
                                               f"{case['normalize']}, offset {case['offset']}) = {got}, expected {w}"))
        return fails
    nvocab_possible = any(_flat_tokens(case)) and any(len(s) for s in _flat_tokens(case))
    for k in ("init_exc", "fit_exc"):
        if k in o:
            if not nvocab_possible:
                return []        # nothing to count: refusing an empty vocabulary is not a violation
            if "Token dictionary is empty" in o[k] or "ngram dictionary is empty" in o[k]:
                return []        # pruning removed everything (no mask): legitimate refusal
            if case["kind"] == "ngram" and not case.get("prune") and case.get("dict") is None and \
                    all(len(s) < case.get("nsize", 2) for s in case["X"]):
                return []        # no sequence contains an n-gram: there are no rows to produce
            if case["kind"] == "multi" and case["X"] and case["X"][0] == []:
                return [_F("cooc.multi.raises.first-document-empty", f"fit_transform raises {o[k]}")]
            return [_F(f"cooc.{case['kind']}.raises", f"fit_transform raises {o[k]}")]
    fails = []
    fails += cc.layout_failures(case, o, f"cooc.{case['kind']}")
    if fails:
        return fails
    ref = cc.reference(case, case["X"], o)
    fails += cc.compare_with_reference(case, o, o["cells"], ref, "fit_transform", f"cooc.{case['kind']}")
    if "tr_exc" in o:
        fails.append(_F(f"cooc.{case['kind']}.transform-raises", f"transform(X) raises {o['tr_exc']}"))
    elif "tr_cells" in o:
        fails += cc.compare_with_reference(case, o, o["tr_cells"], ref, "transform(X)", f"cooc.{case['kind']}.transform")
    fails += _transpose_check(case, o)
    # timed: the default time scale is the mean gap between consecutive kept events of the corpus being fitted -
    # a function of that corpus only (not of what the instance was fitted on before)
    if case["kind"] == "timed" and o.get("delta_mean") is not None:
        kept = {t for t, _ in o["tokens"]}
        masked = case.get("mask") is not None
        tot, cnt = 0.0, 0
        for doc in case["X"]:
            ts = [float(t) for tok, t in doc if masked or str(tok) in kept]
            tot += sum(b - a for a, b in zip(ts, ts[1:]))
            cnt += len(ts) - 1
        exp = tot / (cnt if cnt != 0 else 1)
        if abs(exp - o["delta_mean"]) > 1e-9 * max(1.0, abs(exp)):
            fails.append(_F("cooc.timed.delta-mean" + (".refit" if case.get("refit_first") else ""),
                            f"delta_mean_ = {o['delta_mean']}, mean gap of the fitted corpus = {exp}"))
    # timed: the weights depend only on time differences, whatever the absolute magnitude
    for sh in o.get("shifted", []):
        if sh.get("exc"):
            fails.append(_F("cooc.timed.shift-raises", f"timestamps shifted by {sh['shift']}: {sh['exc']}"))
            continue
        if sh["tokens"] != o["tokens"]:
            fails.append(_F("cooc.timed.shift", f"vocabulary changes with the time shift {sh['shift']}"))
            continue
        f2 = cc.compare_with_reference(case, o, sh["cells"], ref, f"timestamps + {sh['shift']:g}", "cooc.timed.shift")
        fails += f2[:1]
        if o.get("delta_mean") is not None and sh.get("delta_mean") is not None:
            if abs(o["delta_mean"] - sh["delta_mean"]) > 1e-9 * max(1.0, abs(o["delta_mean"])):
                fails.append(_F("cooc.timed.shift-delta", f"delta_mean_ {o['delta_mean']} becomes {sh['delta_mean']} "
                                                           f"when all timestamps move by {sh['shift']:g}"))
    return fails


def _transpose_check(case, o):
    """fixed radii and no normalisation: the 'before' block is the transpose of the 'after' block"""
    if case["kind"] not in ("token", "timed") or case["nw"]:
        return []
    n = len(o["tokens"])
    got = {(r, c): v for r, c, v in o["cells"]}
    blocks = cc.expanded_blocks(case)
    fails = []
    for k, b in enumerate(blocks[:-1]):
        b2 = blocks[k + 1]
        if not (b["i"] == b2["i"] and b["pre"] and not b2["pre"]):
            continue
        if b["fn"] != "fixed" or b["normalize"]:
            continue
        for r in range(n):
            for c in range(n):
                x, y = got.get((r, c + k * n), 0.0), got.get((c, r + (k + 1) * n), 0.0)
                if abs(x - y) > 1e-5 * max(abs(x), abs(y)) * max(1.0, math.sqrt(max(x, y))) + 1e-9:
                    fails.append(_F(f"cooc.{case['kind']}.before-not-transpose-of-after",
                                    f"window {b['i']}: before[{r},{c}]={x} after[{c},{r}]={y}"))
                    return fails
    return fails


def nontrivial(case, outs):
    o = outs["normal"]
    if case["kind"] == "kernel":
        L = len(case["s"])
        return "win" in o and (case["i"] - case["r"] < 0 if case["rev"] else case["i"] + case["r"] >= L)
    if not o.get("cells"):
        return False
    seqs = _flat_tokens(case)
    rmax = max(w["radius"] for w in case["win"])
    return len([s for s in seqs if s]) >= 2 or any(0 < len(s) <= rmax + 1 for s in seqs)


def stats(case, outs):
    o = outs["normal"]
    if case["kind"] == "kernel":
        return ["kernel", f"kernel.{case['kernel']}"]
    t = [case["kind"], f"{case['kind']}.{case['kernel']}", f"blocks.{len(cc.expanded_blocks(case))}"]
    if "fit_exc" in o or "init_exc" in o:
        return t + ["fit.raises"]
    if cc.integer_valued(case):
        t.append("exact-integer-case")
    if case["nw"]:
        t.append("normalize_windows")
    if any(w.get("fn") == "variable" for w in case["win"]):
        t.append("variable-radii")
    if any(w.get("kargs", {}).get("offset") for w in case["win"]):
        t.append("offset>0")
    if any(w.get("kargs", {}).get("normalize") for w in case["win"]):
        t.append("kernel-normalize")
    if any(not s for s in _flat_tokens(case)):
        t.append("empty-sequence")
    if case.get("mask"):
        t.append("mask+nullify" if case.get("nullify") else "mask")
    if case.get("dict") is not None:
        t.append("supplied-dictionary")
    if case["kind"] == "timed":
        t.append("timed.model-exact" if cc.cooc_request(case, o) is not None else "timed.oracle-only")
    if case["kind"] == "ngram":
        t.append(f"ngram.n{case.get('nsize')}")
    return t


def shrink_candidates(case):
    if __import__("os").environ.get("VERIF_SHRINK") == "0":      # detection runs: keep the generated case as it is
        return
    if case["kind"] == "kernel":
        s = case["s"]
        for k in range(len(s)):
            if case["i"] < len(s) - 1 or k < case["i"]:
                yield dict(case, s=s[:k] + s[k + 1:], i=min(case["i"], max(len(s) - 2, 0)))
        return
    X = case["X"]
    if case["kind"] == "timed" and len(case.get("shifts", [])) > 2:
        yield dict(case, shifts=[0, case["shifts"][-1]])
    for i in range(len(X)):                       # coarse steps first: every round costs fresh workers (JIT)
        if len(X) > 1:
            yield dict(case, X=X[:i] + X[i + 1:])
    for i, s in enumerate(X):
        if len(s) >= 4:
            yield dict(case, X=X[:i] + [s[:len(s) // 2]] + X[i + 1:])
            yield dict(case, X=X[:i] + [s[len(s) // 2:]] + X[i + 1:])
    if len(case["win"]) > 1:
        for i in range(len(case["win"])):
            yield dict(case, win=case["win"][:i] + case["win"][i + 1:])
    if sum(len(s) for s in X) <= 12:
        for i, s in enumerate(X):
            for j in range(len(s)):
                yield dict(case, X=X[:i] + [s[:j] + s[j + 1:]] + X[i + 1:])
