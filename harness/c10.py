"""C10 — compiled kernels never access memory outside their arrays.

Every case is executed three times in fresh worker processes: normal compiled execution, with
NUMBA_BOUNDSCHECK=1 and with NUMBA_DISABLE_JIT=1.  The oracle is the property text evaluated on the
three outputs: no abnormal termination, no IndexError / UnboundLocalError, and the checked /
interpreted results equal the normal compiled result.

Theorems: lean/VecModel/Props/C10.lean (index-level kernel models).  The Lean correspondence for
the direct `em_update_matrix` calls (kind "em_kernel") is attached through the hook in
`model_requests` / `compare` below."""
import math
import random
from . import twinutil

PROP = "C10"
# kernels regenerated from /repo's current source, run inside Lean under Python semantics with checked accesses over an
# exhaustive small scope: any IndexError / UnboundLocalError there is reported (source-derived, no numba involved)
TWIN_CHECKS = [
    {"op": "twin.scope", "fn": "contract_pair", "args": [{"lists": [1, 2], "maxlen": 6}, {"choices": [{"t": [1, 2]}, {"t": [1, 1]}]}, {"const": 9}]},
    {"op": "twin.scope", "fn": "contract_and_count_pairs", "args": [{"lists": [1, 2], "maxlen": 6}, {"choices": [{"t": [1, 2]}, {"t": [2, 2]}]}, {"const": {"d": [[{"t": [1, 2]}, 3]]}}, {"const": 9}]},
    {"op": "twin.scope", "fn": "bpe_encode", "args": [{"choices": ["", "a", "ab", "abab", "ba", "aab", "zab"]}, {"choices": [[{"t": [97, 98]}], [{"t": [97, 98]}, {"t": [99, 99]}]]}, {"const": 98}]},
    {"op": "twin.scope", "fn": "ngrams_of", "args": [{"lists": [1, 2], "maxlen": 4}, {"choices": [1, 2, 3, 6]}, {"choices": ["exact", "subgrams"]}]},
    {"op": "twin.scope", "fn": "window_at_index", "args": [{"lists": [1, 2], "maxlen": 4}, {"choices": [0, 1, 2, 5]}, {"choices": [0, 1, 2, 3]}, {"choices": [True, False]}]},
    {"op": "twin.scope", "fn": "lempel_ziv_based_encode", "args": [{"choices": ["", "a", "ab", "abab", "aaaa", "abcabcabc"]}, {"choices": [{"d": []}, {"d": [["a", 1], ["b", 1]]}]}, {"const": "<fn identity_hash>"}, {"choices": [1, 2, 3, 100]}]},
    {"op": "twin.scope", "fn": "murmurhash", "args": [{"lists": [0, 97, 255], "maxlen": 6}, {"choices": [0, 7, 2147483646]}]},
    {"op": "twin.sparse_exhaustive", "k": 4},
    # append buffer: every append sequence (2 cells, length <= 7) + finalisation of every prefix, capacities 2..9 x limits
    {"op": "twin.coo_scope", "caps": [2, 3, 4, 5, 6, 7, 8, 9], "lims": [1, 2, 3, 4, 8], "nkeys": 2, "n": 7},
    # em_update_matrix on every valid small CSR matrix / window / kernel combination of twin.em_exhaustive's scope
    {"op": "twin.em_scope"},
]
MODES = [("normal", {}), ("boundscheck", {"NUMBA_BOUNDSCHECK": "1"}), ("nojit", {"NUMBA_DISABLE_JIT": "1"})]
# the case list is laid out in W lanes (case i runs in worker i % W), so that every worker only
# compiles the kernels of its own lane; keep both tiers at W workers.
W = 8
NWORKERS = {"quick": W, "thorough": W}

RULE = ("Smoke + steering cases for every public estimator, transformer and distance function, each run in "
        "three modes (normal / NUMBA_BOUNDSCHECK=1 / NUMBA_DISABLE_JIT=1) on tiny inputs. Each case carries the "
        "input class ('cls') its generator steered at: co-occurrence vectorizers (token/timed/ngram/multiset) with "
        "radii larger than every sequence, sequences of length 0 / length 1 / empty first sequence, epsilon>0 with "
        "n_iter>=1 (pruned EM cells), coo_initial_memory='1k' with n_threads 1..3 and enough tokens to overflow the "
        "append buffers, orientations before/after/directional, kernel functions flat/harmonic/geometric, window "
        "functions fixed/variable, mask_string with nullify_mask, a supplied token_dictionary with >=2 trailing "
        "tokens that occur only in the transform data; direct em_update_matrix calls on hand-made CSR arrays (empty "
        "rows, looked-up key beyond every stored column, empty windows, zero kernel entries); BPE/LZ with strings of "
        "length 0/1 and max_vocab_size 1..3, contract_pair / contract_and_count_pairs on arrays of length 0..3; "
        "SlidingWindowTransformer with integer window_sample, width larger than the series, series of length 0/1, all "
        "named kernels; Ngram/Skipgram with ngram_size / radius larger than the sequences; tree vectorizer with all "
        "four orientations; count-matrix transformers with zero rows / columns, one row, one column; distances on "
        "length-1, all-zero, empty / disjoint / prefix / different-length sparse supports; Wasserstein family on 3-4 "
        "distributions over 3-5 vectors of dim 2. Fixed steering cases (corpus) run first, then random cases of the "
        "same classes drawn from the seeded rng. Non-trivial = the case steers at one of these edges (cls not "
        "'smoke'/'general'/'all-present') and all three modes returned a result.")

ASSUMPTIONS = [
    "agreement of LLVM-compiled code with Python semantics is tested on the generated inputs, not proved",
    "float results are compared with rtol 1e-5 + atol 1e-7 (float32 matrices), NaN equal to NaN; integer outputs, "
    "shapes, indices, labels and exception types exactly; sparse matrices as (row, column label, value) cells with "
    "absent = 0",
    "an exception raised identically (same type) in all three modes counts as an equal result (documented "
    "ValueError for invalid input, C09's known BPE fit error); IndexError / UnboundLocalError never do, in any mode",
    "SignatureVectorizer: optional dependency iisignature is not installed on this machine -> recorded as "
    "'unavailable' (it contains no compiled kernel of this package)",
    "WassersteinVectorizer(method='LOT_exact') (network simplex; 2-3 CPU-minutes of numba compilation per process "
    "and mode), its metric='euclidean', input_method='lil' and memory_size='1k' variants run only in the thorough "
    "tier; the quick tier covers LOT_sinkhorn, HeuristicLinearAlgebra, SinkhornVectorizer and "
    "ApproximateWassersteinVectorizer (interpreted execution of these tiny inputs takes < 1 s)",
    "NUMBA_DISABLE_JIT=1 relies on numba's interpreter fallbacks (typed.List / typed.Dict stay compiled containers) "
    "and on the package's own shim in vectorizers/utils.py; an exception that only the interpreted mode raises and "
    "that is not an index / unbound-variable error is reported under '<key>.nojit-<ExcType>'",
    "estimators with random components get an integer random_state (LZ column hash, GMM, SVD)",
    "inputs are tiny because the interpreted mode runs the kernels in pure Python",
    "a segfaulting case kills its worker; buffer-overflow classes are kept to 1-3 cases, are the last cases of "
    "their worker (heap corruption may surface later) and are restarted by the framework; a case exceeding "
    "CASE_TIME_LIMIT seconds is terminated by SIGALRM and reported as abnormal termination",
    "the quick tier runs one buffer-overflow case for TokenCooccurrenceVectorizer (n_threads=3) and one for "
    "MultiSetCooccurrenceVectorizer (n_threads=1); all four estimators x n_threads 1..3 in the thorough tier",
]

BAD_EXC = ("IndexError", "UnboundLocalError")
RTOL, ATOL = 1e-5, 1e-7


# =============================================================================== case builders

def _C(kind, cls, **kw):
    d = {"kind": kind, "cls": cls}
    d.update(kw)
    return d


TOK = ["a", "b", "c", "d"]


def _rand_seq(rng, n, alpha=TOK):
    return [rng.choice(alpha) for _ in range(n)]


def _to_timed(X, step=1.0):
    out, t = [], 0.0
    for s in X:
        r = []
        for tok in s:
            t += step
            r.append([tok, t])
        out.append(r)
    return out


def _to_multi(X, rng=None):
    # every token becomes a (multi)set; with an rng some sets get 2-3 tokens or become empty
    out = []
    for s in X:
        r = []
        for tok in s:
            m = [tok]
            if rng is not None:
                u = rng.random()
                if u < 0.25:
                    m = [tok, rng.choice(TOK)]
                elif u < 0.35:
                    m = [tok, rng.choice(TOK), rng.choice(TOK)]
            r.append(m)
        out.append(r)
    return out


def _cooc_input(est, X, rng=None):
    if est == "timed":
        return _to_timed(X)
    if est == "multiset":
        return _to_multi(X, rng)
    return X


D17_SEQ = ["0", "2", "2", "0", "0", "2", "3", "2", "3"]
BASE_X = [["a", "b", "a", "c", "b", "a", "d", "c"], ["b", "a", "c"], ["d", "a", "b", "b", "c", "a"]]
LEN0_X = [["a", "b", "a", "c", "b", "a"], [], ["c", "b"], []]
LEN1_X = [["a", "b", "a", "c", "b", "a"], ["a"], ["c", "b"], ["b"]]
TRAIL_DICT = {"a": 0, "b": 1, "c": 2, "y": 3, "z": 4}
COOC_ESTS = ("token", "timed", "ngram", "multiset")
KERNELS = {"token": ("flat", "harmonic", "geometric"), "ngram": ("flat", "harmonic", "geometric"),
           "timed": ("flat", "geometric"), "multiset": ("flat", "geometric")}


def _nonempty_first(X):
    """move the first non-empty sequence to the front (an empty *first* sequence is its own input class)."""
    if X and len(X[0]) == 0:
        for i, s in enumerate(X):
            if len(s):
                return [X[i]] + X[:i] + X[i + 1:]
    return X


def _cooc(est, cls, X, kw, Xt=None, rng=None, raw=False, **extra):
    """X are plain token sequences; they are converted to the estimator's input format here."""
    if cls != "first-seq-empty":
        X = _nonempty_first(X)
        Xt = None if Xt is None else _nonempty_first(Xt)
    return _C("cooc", cls, est=est, X=X if raw else _cooc_input(est, X, rng),
              Xt=None if Xt is None else (Xt if raw else _cooc_input(est, Xt, rng)), kw=kw, **extra)


def _cooc_fixed(est):
    """fixed steering cases of one co-occurrence estimator on its base compiled specialisation (directional
    windows, flat kernel, no mask).  Empty sequences only occur in the classes len0-seq / first-seq-empty.
    NgramCooccurrenceVectorizer recompiles its kernels on every fit (a fresh tuple-converter closure), so it
    gets the shorter list."""
    r = 1000.0 if est == "timed" else 20
    lean = est == "ngram"
    cs = []
    cs.append(_cooc(est, "smoke", BASE_X, {"window_radii": 2}, Xt=BASE_X[:2]))
    cs.append(_cooc(est, "radius-gt-seq", BASE_X, {"window_radii": r}, Xt=BASE_X[1:]))
    cs.append(_cooc(est, "len0-seq", LEN0_X, {"window_radii": 2}, Xt=[["a"], [], ["b", "a"], []]))
    cs.append(_cooc(est, "len1-seq", LEN1_X, {"window_radii": 2}, Xt=[["a"], ["b", "a"], ["c"]]))
    if est in ("token", "multiset"):
        # MultiSet's preprocessing inspects token_sequences[0][0]; token is the control for the same input
        cs.append(_cooc(est, "first-seq-empty", [[], ["a", "b", "a"], ["b"]], {"window_radii": 2}, Xt=[[], ["a", "b"]]))
    cs.append(_cooc(est, "em-pruned", [D17_SEQ], {"n_iter": 1, "epsilon": 0.3}, Xt=[D17_SEQ[:5]]))
    if not lean:
        cs.append(_cooc(est, "em-pruned", BASE_X, {"n_iter": 2, "epsilon": 0.2, "window_radii": 2}))
        cs.append(_cooc(est, "em-iter", BASE_X, {"n_iter": 2, "window_radii": 3}))
    cs.append(_cooc(est, "winfn-variable", BASE_X, {"window_functions": "variable", "window_radii": 3}, Xt=BASE_X[:1]))
    if est == "token":
        # frequency table without a single occurring token: every token pruned (mask set) / a supplied dictionary
        # none of whose tokens occurs; the 'variable' window function then has no frequency to scale by
        cs.append(_cooc(est, "winfn-variable-empty-table", BASE_X, {"window_functions": "variable", "window_radii": 3,
                                                                   "min_occurrences": 1000, "mask_string": "MASK"}, Xt=BASE_X[:1]))
        cs.append(_cooc(est, "winfn-variable-empty-table", BASE_X, {"window_functions": "variable", "window_radii": 3,
                                                                   "token_dictionary": {"q": 0, "r": 1, "s": 2}}, Xt=BASE_X[:1]))
    if not lean:
        cs.append(_cooc(est, "n-threads", BASE_X + LEN1_X, {"n_threads": 2, "window_radii": 2, "n_iter": 1}))
    # D30: the supplied dictionary's trailing tokens y, z never occur in the training data; transform data uses them
    cs.append(_cooc(est, "dict-trailing-unused", BASE_X[1:2] + [["a", "b", "c", "a"]],
                    {"token_dictionary": dict(TRAIL_DICT), "window_radii": 2},
                    Xt=[["a", "z", "b", "y", "z", "c"]]))
    if not lean:
        cs.append(_cooc(est, "dict-trailing-unused", [["a", "b", "c", "a"]],
                        {"token_dictionary": dict(TRAIL_DICT), "window_radii": 2,
                         "window_functions": "variable", "n_iter": 1}, Xt=[["z", "a", "y"]]))
    return cs


def _cooc_specs(est):
    """cases needing further compiled specialisations (orientation / kernel function / mask)."""
    lean = est == "ngram"
    cs = []
    for o in ("before",) if lean else ("before", "after"):
        cs.append(_cooc(est, "orient-" + o, BASE_X, {"window_orientations": o, "window_radii": 2, "n_iter": 1},
                        Xt=BASE_X[:1]))
    for k in KERNELS[est][-1:] if lean else KERNELS[est][1:]:
        cs.append(_cooc(est, "kernel-" + k, BASE_X + [["a"]], {"kernel_functions": k, "window_radii": 3},
                        Xt=BASE_X[:1]))
    cs.append(_cooc(est, "mask-nullify", BASE_X + [["e", "a"], ["a", "f", "b"]],
                    {"mask_string": "MASK", "nullify_mask": True, "min_occurrences": 2, "window_radii": 2},
                    Xt=[["a", "q", "b", "c"]]))
    if est == "token":
        cs.append(_cooc(est, "multi-window", BASE_X, {"window_radii": [1, 3], "window_functions": ["fixed", "variable"],
                                                     "kernel_functions": ["flat", "flat"], "n_iter": 1}))
    return cs


def _cooc_small_buffer(est, rng, n_threads, n_seq=3, seq_len=20):
    """coo_initial_memory='1k' gives append buffers of 8 (n_threads=3) .. 24 (n_threads=1) entries; every token
    emits up to 6 events (radius 3, directional), so a few dozen tokens overflow them (D10 / D11)."""
    alpha = [str(i) for i in range(12)]
    X = [_rand_seq(rng, seq_len, alpha) for _ in range(n_seq)]
    return _cooc(est, "small-buffer", X, {"coo_initial_memory": "1k", "n_threads": n_threads, "window_radii": 3},
                 rng=None)


def _cooc_random(est, rng):
    """random case on the base specialisation (directional, flat kernel, no mask)."""
    cls = rng.choice(["radius-gt-seq", "len0-seq", "len1-seq", "em-pruned", "em-pruned", "winfn-variable", "em-iter",
                      "smoke", "dict-trailing-unused"])
    nseq = rng.randint(1, 4)
    X = [_rand_seq(rng, rng.randint(2, 9)) for _ in range(nseq)]
    kw = {"window_radii": rng.choice([1, 2, 3])}
    Xt = None
    if rng.random() < 0.6:
        # tokens of the training vocabulary only: unknown tokens are pruned and would leave shorter / empty sequences
        vocab = sorted({t for s in X for t in s})
        Xt = [_rand_seq(rng, rng.randint(2, 6), vocab) for _ in range(rng.randint(1, 3))]
    if cls == "radius-gt-seq":
        kw["window_radii"] = 1000.0 if est == "timed" else rng.choice([10, 50])
    if cls in ("len0-seq", "len1-seq"):
        short = [[]] if cls == "len0-seq" else [[rng.choice(X[0])]]
        X += short * rng.choice([1, 2])
        rng.shuffle(X)
        if Xt is not None:
            Xt += short
            rng.shuffle(Xt)
    if cls == "em-pruned":
        # epsilons that no ratio of small counts hits: a normalised value sitting exactly on the threshold may round
        # to either side in float32 (compiled vs interpreted summation order) and flip the cell — not a memory error
        kw.update(n_iter=rng.choice([1, 2, 3]), epsilon=rng.choice([0.047, 0.137, 0.31, 0.43]))
    if cls == "em-iter":
        kw.update(n_iter=rng.choice([1, 2]))
    if cls == "winfn-variable":
        kw.update(window_functions="variable", window_radii=rng.choice([2, 5]))
    if cls == "dict-trailing-unused":
        used = sorted({t for s in X for t in s})
        extra = ["x", "y", "z"][: rng.choice([2, 3])]
        kw["token_dictionary"] = {t: i for i, t in enumerate(used + extra)}
        if rng.random() < 0.5:
            kw["window_functions"] = "variable"
        Xt = [_rand_seq(rng, rng.randint(2, 6), used + extra) + [extra[-1]]]
    if rng.random() < 0.3:
        kw["normalize_windows"] = False
    return _cooc(est, cls, X, kw, Xt=Xt, rng=rng if est == "multiset" else None)


# ---- direct em_update_matrix calls

def _em_case(cls, indptr, indices, data, n, target, windows, kernels, post=None):
    return _C("em_kernel", cls, indptr=indptr, indices=indices, data=data,
              post=post if post is not None else [0.0] * len(data), n=n, target=target,
              windows=windows, kernels=kernels)


def _em_fixed():
    cs = []
    # 3 tokens, 2 windows -> 6 columns; row 1 empty; row 0 largest column 1 < looked-up 2 (pruned cell)
    indptr, indices, data = [0, 2, 2, 5], [0, 1, 0, 2, 4], [0.5, 0.25, 1.0, 0.5, 0.125]
    cs.append(_em_case("pruned-beyond-last", indptr, indices, data, 3, 0, [[2, 1, 0]], [[1.0, 0.5, 0.25]]))
    cs.append(_em_case("empty-row", indptr, indices, data, 3, 1, [[0, 1], [2]], [[1.0, 1.0], [1.0]]))
    cs.append(_em_case("pruned-beyond-last", indptr, indices, data, 3, 2, [[1, 2], [2, 1, 0]],
                       [[1.0, 0.5], [1.0, 0.5, 0.0]]))
    cs.append(_em_case("empty-window", indptr, indices, data, 3, 2, [[], [1]], [[], [1.0]]))
    cs.append(_em_case("empty-window", indptr, indices, data, 3, 0, [[]], [[]]))
    cs.append(_em_case("zero-kernel", indptr, indices, data, 3, 0, [[0, 1, 2]], [[0.0, 0.0, 0.0]]))
    cs.append(_em_case("pruned-middle", [0, 2], [0, 2], [0.5, 0.5], 3, 0, [[1, 0, 2]], [[1.0, 1.0, 1.0]]))
    cs.append(_em_case("last-row-beyond-array", [0, 1, 2], [0, 0], [1.0, 1.0], 2, 1, [[1, 1]], [[1.0, 0.5]]))
    cs.append(_em_case("all-empty-matrix", [0, 0, 0], [], [], 2, 0, [[1, 0]], [[1.0, 1.0]]))
    return cs


def _em_random(rng):
    n = rng.randint(1, 4)
    nwin = rng.choice([1, 2])
    ncols = n * nwin
    indptr, indices, data = [0], [], []
    for _ in range(n):
        if rng.random() < 0.25:
            cols = []
        else:
            cols = sorted(rng.sample(range(ncols), rng.randint(1, ncols)))
            if rng.random() < 0.5 and len(cols) > 1:
                cols = cols[:-1]   # drop the largest column: looked-up keys exceed every stored column
        indices += cols
        data += [rng.choice([0.125, 0.25, 0.5, 1.0, 0.75]) for _ in cols]
        indptr.append(len(indices))
    target = rng.randrange(n)
    windows, kernels = [], []
    for _ in range(nwin):
        L = rng.choice([0, 1, 2, 3, 4])
        windows.append([rng.randrange(n) for _ in range(L)])
        kernels.append([rng.choice([0.0, 1.0, 0.5, 0.25]) for _ in range(L)])
    row = indices[indptr[target]:indptr[target + 1]]
    keys = [c + w * n for w, win in enumerate(windows) for c, k in zip(win, kernels[w]) if k > 0]
    if not row:
        cls = "empty-row"
    elif any(k > row[-1] for k in keys):
        cls = "pruned-beyond-last"
    elif any(k not in row for k in keys):
        cls = "pruned-middle"
    elif any(len(w) == 0 for w in windows):
        cls = "empty-window"
    else:
        cls = "all-present"
    post = [rng.choice([0.0, 0.5, 1.0]) for _ in data]
    return _em_case(cls, indptr, indices, data, n, target, windows, kernels, post)


# ---- strings: BPE / LZ

def _bpe(cls, X, Xt, **kw):
    k = {"max_vocab_size": 10, "min_token_occurrence": 1, "max_char_code": 0}
    k.update(kw)
    return _C("bpe", cls, X=X, Xt=Xt, kw=k)


def _lz(cls, X, Xt, **kw):
    if kw.get("max_columns", 1) is not None:
        kw.setdefault("random_state", 0)      # the column hash is seeded from random_state
    return _C("lz", cls, X=X, Xt=Xt, kw=kw)


def _strings_fixed():
    cs = [
        _bpe("len01-string", ["abab", "a", ""], ["", "a", "b", "ab", "z"]),
        _bpe("len01-string", ["ab", "ab", "a"], ["a", "", "é"]),
        _bpe("vocab-1", ["abababab abab", "abab"], ["", "a", "abab"], max_vocab_size=1),
        _bpe("vocab-2", ["abababab abab", "abab"], ["a", "ab", "abababab"], max_vocab_size=2),
        _bpe("vocab-3", ["aaaaaaa", "aaa", "a"], ["a", "aa", "aaaa", ""], max_vocab_size=3),
        _bpe("collapse-to-one-code", ["abab", "abab"], ["abab", "ab", "a"]),
        _bpe("no-repeated-pair", ["a", "b"], ["a"]),
        _bpe("smoke", ["the cat sat on the mat", "the hat"], ["that cat", "zzz"], max_char_code="ascii"),
        _lz("hashed-columns", ["abab", "a", ""], ["", "a", "b", "abab"]),
        _lz("hashed-columns", ["abracadabra", "ab", ""], ["a", "bra"], max_columns=4, random_state=0),
        _lz("len01-string", ["abab", "a", ""], ["", "a", "b", "abab"], max_columns=None),
        _lz("len01-string", ["", "a"], ["a", ""], max_columns=None),
        _lz("smoke", ["abracadabra", "abrabrabra"], ["cadabra", "xyz"], max_columns=None),
        _lz("max-dict-2", ["abababab", "a"], ["ab", ""], max_dict_size=2, max_columns=None),
    ]
    for a in ([], [5], [1, 2], [1, 2, 1], [1, 1, 1], [2, 1, 2]):
        cs.append(_C("bpe_kernel", "len%d" % len(a), a=a, p=[1, 2], c=9))
    cs.append(_C("bpe_kernel", "len2", a=[1, 1], p=[1, 1], c=9))
    cs.append(_C("bpe_kernel", "len1", a=[1], p=[1, 1], c=9))
    return cs


def _strings_random(rng):
    u = rng.random()
    alpha = "ab" if rng.random() < 0.6 else "abc"
    if u < 0.35:
        n = rng.choice([0, 1, 1, 2, 3, 3])
        a = [rng.choice([1, 2]) for _ in range(n)]
        return _C("bpe_kernel", "len%d" % n, a=a, p=[rng.choice([1, 2]), rng.choice([1, 2])], c=9)

    def rs(lo, hi):
        return "".join(rng.choice(alpha) for _ in range(rng.randint(lo, hi)))
    X = [rs(0, 6) for _ in range(rng.randint(1, 3))] + [rng.choice(["abab", "aaaa", "baba"])]
    Xt = [rs(0, 1), rs(1, 1), rs(0, 5), ""]
    if u < 0.7:
        k = rng.choice([1, 2, 3, 10])
        cls = "vocab-%d" % k if k < 10 else "len01-string"
        return _bpe(cls, X, Xt, max_vocab_size=k, min_token_occurrence=rng.choice([1, 1, 2]))
    kw = dict(rng.choice([{"max_columns": None}, {"max_dict_size": 2, "max_columns": None},
                          {"max_dict_size": 3, "max_columns": None}, {"max_columns": None},
                          {"max_columns": 3, "random_state": 1}, {}]))
    return _lz("len01-string" if kw.get("max_columns", 1) is None else "hashed-columns", X, Xt, **kw)


# ---- sequence lane: sliding windows, ngram, skipgram, edge list

def _sw(cls, X, Xt, **kw):
    return _C("sliding", cls, X=X, Xt=Xt, kw=kw)


SERIES = [[0.5, 1.5, 2.0, 4.0, 3.0, 1.0, 0.0, 2.5], [1.0, 2.0, 3.0, 5.0, 8.0, 13.0], [2.0, 1.0, 0.5, 0.25, 4.0, 4.5, 1.0]]


def _seq_fixed():
    cs = [
        _sw("smoke", SERIES, SERIES[:1], window_width=3),
        _sw("kernel-average", SERIES, SERIES[:1], window_width=3, kernels=["average"]),
        _sw("kernel-differences", SERIES, SERIES[:1], window_width=4, kernels=[["differences", 0, 1, 1]]),
        _sw("kernel-position_velocity", SERIES, None, window_width=5, kernels=[["position_velocity", 2, 1, 1]]),
        _sw("kernel-weight", SERIES, None, window_width=3, kernels=[["weight", [0.5, 1.0, 2.0]]]),
        _sw("kernel-gaussian_weight", SERIES, None, window_width=5, kernels=[["gaussian_weight", 2]]),
        _sw("kernel-count_changepoint", [[0, 1, 0, 2, 1, 0, 9, 1, 0, 1, 2, 0]], None, window_width=4,
            kernels=[["count_changepoint", 1.0, 2.0]]),
        _sw("pair-window-sample", SERIES, SERIES[:1], window_width=4, window_sample=[0, 2]),
        _sw("array-window-sample", SERIES, None, window_width=4, window_sample=[3, 1, 0]),
        _sw("pad-stride", SERIES, None, window_width=3, window_stride=2, pad_width=1),
        # stride that does not divide (L - width), with a partial sample: a window count that is one too large
        # reads past the end of the series instead of failing a shape check
        _sw("stride-sample-tail", [[float(i) for i in range(12)], [float(i * i) for i in range(9)]], [[1.0, 2.0, 3.0, 4.0, 5.0, 6.0, 7.0]],
            window_width=5, window_stride=3, window_sample=[0, 2, 4]),
        _sw("stride-sample-tail", [[float(i) for i in range(11)]], None, window_width=4, window_stride=2, window_sample=[3, 0]),
        _sw("stride-sample-tail", [[float(i) for i in range(10)]], None, window_width=3, window_stride=4, window_sample=2),
        _sw("int-window-sample", SERIES, SERIES[:1], window_width=3, window_sample=5),
        _sw("int-window-sample", SERIES, None, window_width=4, window_sample=2),
        _sw("width-gt-series", [[1.0, 2.0, 3.0], [1.0, 2.0]], None, window_width=5),
        _sw("width-gt-series", SERIES, [[1.0, 2.0]], window_width=4),
        _sw("len01-series", [[1.0, 2.0, 3.0, 4.0], [], [2.0]], [[], [1.0]], window_width=1),
        _sw("len01-series", [[1.0, 2.0, 3.0, 4.0], [2.0]], [[1.0]], window_width=2, pad_width=1),
        _sw("width-eq-series", [[1.0, 2.0, 3.0]], [[3.0, 2.0, 1.0]], window_width=3, kernels=["average"]),
        _C("seqdiff", "smoke", X=SERIES, Xt=SERIES[:1], kw={"stride": 1}),
        _C("seqdiff", "len01-series", X=[[1.0, 2.0, 4.0], [1.0], []], Xt=[[3.0]], kw={"stride": 1}),
    ]
    T = [["a", "b", "a", "c", "b"], [], ["a"], ["c", "b", "a", "b", "a", "c"], ["b", "c"]]
    cs += [
        _C("ngram", "smoke", X=T, Xt=T[:2], kw={}),
        _C("ngram", "ngram-gt-seq", X=T, Xt=[["a"], [], ["a", "b"]], kw={"ngram_size": 3}),
        _C("ngram", "ngram-gt-seq", X=T, Xt=[["a", "b", "a"]], kw={"ngram_size": 2, "ngram_behaviour": "subgrams"}),
        _C("ngram", "dict-trailing-unused", X=T, Xt=[["a", "z", "y", "z", "b"]],
           kw={"token_dictionary": dict(TRAIL_DICT), "ngram_size": 2}),
        _C("ngram", "mask-nullify", X=T + [["e", "a"]], Xt=[["a", "q", "b"]],
           kw={"mask_string": "MASK", "nullify_mask": True, "min_occurrences": 2, "ngram_size": 2}),
        _C("skipgram", "smoke", X=T, Xt=T, kw={"window_radius": 2}),
        _C("skipgram", "radius-gt-seq", X=T, Xt=T, kw={"window_radius": 20}),
        _C("skipgram", "len01-seq", X=[["a", "b", "a"], [], ["b"]], Xt=[["a", "b", "a"], [], ["b"]], kw={"window_radius": 1}),
        _C("skipgram", "kernel-harmonic", X=T, Xt=T, kw={"window_radius": 3, "kernel_function": "harmonic"}),
        _C("skipgram", "winfn-variable", X=T, Xt=T, kw={"window_radius": 3, "window_function": "variable"}),
        _C("skipgram", "dict-trailing-unused", X=T + [["a", "z", "y", "z", "b"]], Xt=T + [["a", "z", "y", "z", "b"]],
           kw={"token_dictionary": dict(TRAIL_DICT), "window_radius": 2}),
        _C("skipgram", "dict-trailing-unused-fit", X=T, Xt=T,
           kw={"token_dictionary": dict(TRAIL_DICT), "window_radius": 2}),
        _C("skipgram", "transform-subset", X=T, Xt=[["a", "b"]], kw={"window_radius": 2}),
        _C("skipgram", "mask-nullify", X=T + [["e", "a"]], Xt=T,
           kw={"mask_string": "MASK", "nullify_mask": True, "min_occurrences": 2, "window_radius": 2}),
    ]
    E = [["a", "b", 1], ["b", "c", 2], ["c", "d", 3], ["d", "b", 4], ["d", "c", 8]]
    cs += [
        _C("edgelist", "smoke", X=E, Xt=E, kw={}),
        _C("edgelist", "one-edge", X=E[:1], Xt=E[:1], kw={}),
        _C("edgelist", "joint-space", X=E, Xt=E, kw={"joint_space": True}),
        _C("edgelist", "given-dicts", X=E, Xt=E, kw={"row_label_dictionary": {"a": 0, "d": 1},
                                                    "column_label_dictionary": {"b": 2, "c": 4}}),
        _C("edgelist", "transform-subset", X=E, Xt=E[:2], kw={}),
    ]
    return cs


def _seq_random(rng):
    u = rng.random()
    if u < 0.4:
        n = rng.randint(1, 3)
        X = [[float(rng.randint(0, 9)) / 2 for _ in range(rng.randint(3, 8))] for _ in range(n)]
        w = rng.choice([1, 2, 3])
        cls = rng.choice(["smoke", "len01-series", "width-gt-series", "pad-stride"])
        kw = {"window_width": w}
        Xt = [X[0][::-1]]
        if cls == "len01-series":
            Xt = [[], [1.0]] if w == 1 else [[1.0] * w, [2.0]]
            if w > 1:
                cls = "width-gt-series"
        elif cls == "width-gt-series":
            Xt = [[1.0] * (w - 1), [1.0] * w]
        elif cls == "pad-stride":
            kw.update(window_stride=rng.choice([1, 2, 3]), pad_width=rng.choice([1, 2]))
            if w >= 2 and rng.random() < 0.6:
                kw["window_sample"] = sorted(rng.sample(range(w), rng.randint(1, w - 1)))
        return _sw(cls, X, Xt, **kw)
    T = [_rand_seq(rng, rng.randint(0, 6), "abc") for _ in range(rng.randint(2, 4))] + [["a", "b", "c", "a", "b"]]
    if u < 0.7:
        k = rng.choice([1, 2, 3, 4])
        return _C("ngram", "ngram-gt-seq" if k > 1 else "smoke", X=T, Xt=T[:2] + [[], ["a"]],
                  kw={"ngram_size": k, "ngram_behaviour": rng.choice(["exact", "subgrams"])})
    r = rng.choice([1, 2, 10])
    return _C("skipgram", "radius-gt-seq" if r == 10 else "len01-seq", X=T + [[], ["b"]], Xt=T + [[], ["b"]],
              kw={"window_radius": r})


# ---- optimal transport lane

def _ot_data(rng, n_dist, n_vec, dim=2):
    vec = [[round(rng.uniform(-1, 1), 3) for _ in range(dim)] for _ in range(n_vec)]
    D = []
    for _ in range(n_dist):
        row = [rng.choice([0, 1, 2, 3]) for _ in range(n_vec)]
        if sum(1 for x in row if x) < 2:
            row[0], row[-1] = 1, 2
        D.append([float(x) for x in row])
    return D, vec


def _ot_fixed(thorough=False):
    """quick tier: LOT_sinkhorn / HeuristicLinearAlgebra / SinkhornVectorizer / ApproximateWassersteinVectorizer.
    method='LOT_exact' (network simplex; about 2-3 CPU-minutes of numba compilation per process and mode) only in
    the thorough tier."""
    r = random.Random(1010)
    cs = []
    D, V = _ot_data(r, 4, 5)
    D3, V3 = _ot_data(r, 3, 3)
    if not thorough:
        for method in ("LOT_sinkhorn", "HeuristicLinearAlgebra"):
            cs.append(_C("wasserstein", "method-" + method, D=D, V=V, Dt=D[:2],
                         kw={"method": method, "n_components": 2, "random_state": 42}))
        cs.append(_C("wasserstein", "sinkhorn-3x3", D=D3, V=V3, Dt=D3, kw={"method": "LOT_sinkhorn", "n_components": 2,
                                                                        "random_state": 42}))
        cs.append(_C("sinkhorn", "smoke", D=D, V=V, Dt=D[:2], kw={"n_components": 2, "random_state": 42}))
        cs.append(_C("sinkhorn", "chunk-1", D=D3, V=V3, Dt=D3, kw={"n_components": 2, "random_state": 42, "chunk_size": 1}))
        cs.append(_C("approx_wasserstein", "smoke", D=D, V=V, Dt=D[:2], kw={"n_components": 2, "random_state": 42}))
        return cs
    cs.append(_C("wasserstein", "method-LOT_exact", D=D, V=V, Dt=D[:2],
                 kw={"method": "LOT_exact", "n_components": 2, "random_state": 42}))
    cs.append(_C("wasserstein", "euclidean", D=D3, V=V3, Dt=D3, kw={"metric": "euclidean", "n_components": 2,
                                                                  "random_state": 42}))
    cs.append(_C("wasserstein", "lil-input", D=D3, V=V3, Dt=D3[:1], kw={"input_method": "lil", "n_components": 2,
                                                                      "random_state": 42}))
    cs.append(_C("wasserstein", "small-memory", D=D, V=V, Dt=D[:2], kw={"memory_size": "1k", "n_components": 2,
                                                                     "random_state": 42}))
    cs.append(_C("sinkhorn", "euclidean", D=D3, V=V3, Dt=D3, kw={"n_components": 2, "random_state": 42,
                                                              "metric": "euclidean"}))
    for c in cs:
        c["fixed"] = 1
    return cs


def _ot_random(rng, thorough=False):
    D, V = _ot_data(rng, rng.choice([3, 4]), rng.choice([3, 4, 5]))
    kind = rng.choice(["wasserstein", "wasserstein", "sinkhorn", "approx_wasserstein"])
    kw = {"n_components": 2, "random_state": rng.randint(0, 99)}
    cls = "smoke"
    if kind == "wasserstein":
        kw["method"] = rng.choice(["LOT_sinkhorn", "HeuristicLinearAlgebra"] + (["LOT_exact"] if thorough else []))
        cls = "method-" + kw["method"]
    return _C(kind, cls, D=D, V=V, Dt=D[: rng.choice([1, 2])], kw=kw)


# ---- misc lane: distances, transformers, tree, histogram / kde / distribution vectorizers

DENSE_FNS = ("hellinger", "kantorovich1d", "circular_kantorovich", "total_variation", "jensen_shannon_divergence",
             "symmetric_kl_divergence")
SPARSE_FNS = ("sparse_sum", "sparse_diff", "sparse_mul", "dense_union", "sparse_hellinger", "sparse_total_variation",
              "sparse_jensen_shannon_divergence", "sparse_symmetric_kl_divergence")
ARR_FNS = ("arr_union", "arr_intersect")
SPARSE_CLASSES = {
    "both-empty": ([], []), "first-empty": ([], [1, 3]), "second-empty": ([0, 2], []),
    "disjoint": ([0, 2], [1, 3]), "prefix": ([0, 1], [0, 1, 2, 5]), "difflen-tail": ([1, 4, 7, 9], [4]),
    "identical": ([2, 5], [2, 5]), "len1": ([3], [3]), "interleaved": ([0, 3, 4], [1, 3, 6, 8]),
}


def _vals(rng, n, zero=False):
    if zero:
        return [0.0] * n
    return [rng.choice([0.125, 0.25, 0.5, 1.0, 2.0]) for _ in range(n)]


ALL_DIST_FNS = DENSE_FNS + SPARSE_FNS + ARR_FNS


def _dist_fixed(fns=ALL_DIST_FNS):
    r = random.Random(77)
    cs = []
    for fn in DENSE_FNS:
        if fn not in fns:
            continue
        cs.append(_C("dense_dist", "len1", fn=fn, x=[1.0], y=[2.0]))
        cs.append(_C("dense_dist", "all-zero", fn=fn, x=[0.0, 0.0, 0.0], y=[0.0, 0.0, 0.0]))
        cs.append(_C("dense_dist", "one-zero", fn=fn, x=[0.0, 0.0], y=[0.5, 0.5]))
        cs.append(_C("dense_dist", "general", fn=fn, x=[0.5, 0.25, 0.25, 0.0], y=[0.1, 0.2, 0.3, 0.4]))
        if fn in ("kantorovich1d", "circular_kantorovich"):
            for p in (2, 3):
                cs.append(_C("dense_dist", "p%d" % p, fn=fn, x=[0.5, 0.25, 0.25], y=[0.2, 0.2, 0.6], p=p))
    for fn in SPARSE_FNS:
        if fn not in fns:
            continue
        for cls, (i1, i2) in SPARSE_CLASSES.items():
            cs.append(_C("sparse_dist", cls, fn=fn, i1=i1, d1=_vals(r, len(i1)), i2=i2, d2=_vals(r, len(i2))))
        cs.append(_C("sparse_dist", "all-zero", fn=fn, i1=[0, 2], d1=[0.0, 0.0], i2=[1, 2], d2=[0.0, 0.0]))
        cs.append(_C("sparse_dist", "cancelling", fn=fn, i1=[0, 2], d1=[1.0, 0.5], i2=[0, 2], d2=[-1.0, 0.5]))
    for fn in ARR_FNS:
        if fn not in fns:
            continue
        for cls, (a, b) in SPARSE_CLASSES.items():
            cs.append(_C("arr", cls, fn=fn, a=a, b=b))
    return cs


def _dist_random(rng, fns=ALL_DIST_FNS):
    fn = rng.choice(list(fns))
    if fn in DENSE_FNS:
        n = rng.choice([1, 2, 3, 5])
        zero = rng.random() < 0.2
        return _C("dense_dist", "len1" if n == 1 else ("all-zero" if zero else "general"), fn=fn,
                  x=_vals(rng, n, zero), y=_vals(rng, n, zero))
    n1, n2 = rng.randint(0, 4), rng.randint(0, 4)
    i1 = sorted(rng.sample(range(8), n1))
    i2 = sorted(rng.sample(range(8), n2))
    if not i1 and not i2:
        cls = "both-empty"
    elif not i1:
        cls = "first-empty"
    elif not i2:
        cls = "second-empty"
    elif not set(i1) & set(i2):
        cls = "disjoint"
    elif i1 == i2:
        cls = "len1" if len(i1) == 1 else "identical"
    elif i2[: len(i1)] == i1 or i1[: len(i2)] == i2:
        cls = "prefix"
    elif len(i1) != len(i2):
        cls = "difflen-tail"
    else:
        cls = "interleaved"
    if fn in SPARSE_FNS:
        return _C("sparse_dist", cls, fn=fn, i1=i1, d1=_vals(rng, n1), i2=i2, d2=_vals(rng, n2))
    return _C("arr", cls, fn=fn, a=i1, b=i2)


M3 = [[1, 2, 3], [4, 5, 6], [7, 8, 9]]
M3_ZROW = [[1, 2, 3], [4, 5, 6], [0, 0, 0]]
M3_ZCOL = [[1, 2, 0], [4, 5, 0], [7, 8, 0]]


def _matrix_class(kind, M):
    """input class of a count matrix (computed from the matrix): a single row makes the row sums 0-dimensional
    (InformationWeightTransformer), a single column the column sums (RowDenoisingTransformer)."""
    r, c = len(M), len(M[0])
    if r == 1 and c == 1:
        return "one-row" if kind == "infoweight" else "one-column"
    if r == 1:
        return "one-row"
    if c == 1:
        return "one-column"
    if any(not any(row) for row in M):
        return "zero-row"
    if any(not any(row[j] for row in M) for j in range(c)):
        return "zero-column"
    return "smoke"


def _misc_fixed():
    cs = []
    for M in (M3, M3_ZROW, M3_ZCOL, [[1, 0, 2]], [[3]], [[1], [2], [3]]):
        cs.append(_C("infoweight", _matrix_class("infoweight", M), M=M, Mt=M[:2], kw={}))
        cs.append(_C("rowdenoise", _matrix_class("rowdenoise", M), M=M, Mt=M[:2], kw={}))
    cs.append(_C("infoweight", "exact-prior", M=M3_ZCOL, Mt=M3, kw={"approx_prior": False, "prior_strength": 0.1}))
    cs.append(_C("infoweight", "supervised", M=M3, Mt=M3, y=[0, 1, 1], kw={"approx_prior": False}))
    cs.append(_C("rowdenoise", "normalize", M=M3_ZROW, Mt=M3, kw={"normalize": True, "em_precision": 1e-4,
                                                               "em_threshold": 1e-4, "em_background_prior": 10.0}))
    cs.append(_C("cfc", "smoke", M=M3, Mt=M3[:2], kw={"n_components": 2, "random_state": 0}))
    cs.append(_C("cfc", "arpack", M=M3, Mt=M3[:2], kw={"n_components": 2, "algorithm": "arpack", "random_state": 0}))
    cs.append(_C("catcol", "smoke", df={"id": ["one", "two", "one", "two"], "A": ["foo", "bar", "pok", "bar"],
                                         "B": ["x", "k", "c", "d"]},
                 kw={"object_column_name": "id", "descriptor_column_name": ["A", "B"], "include_column_name": True,
                     "unique_values": True}))
    path = [[0, 1, 0, 0], [0, 0, 1, 0], [0, 0, 0, 1], [0, 0, 0, 0]]
    trees = [{"adj": path, "labels": ["a", "b", "c", "d"]}, {"adj": path, "labels": ["b", "c", "d", "e"]}]
    for o in ("after", "before", "symmetric", "directional"):
        cs.append(_C("tree", "orient-" + o, trees=trees, trees_t=trees[:1], kw={"window_radius": 2, "window_orientation": o}))
    cs.append(_C("tree", "radius-gt-tree", trees=trees, trees_t=trees, kw={"window_radius": 10}))
    cs.append(_C("tree", "one-node", trees=trees + [{"adj": [[0]], "labels": ["a"]}], trees_t=[{"adj": [[0]], "labels": ["a"]}],
                 kw={"window_radius": 2}))
    cs.append(_C("tree", "dict-trailing-unused", trees=[{"adj": path, "labels": ["a", "b", "a", "c"]}],
                 trees_t=[{"adj": path, "labels": ["a", "z", "y", "z"]}],
                 kw={"window_radius": 2, "token_dictionary": dict(TRAIL_DICT)}))
    cs.append(_C("tree", "mask-nullify", trees=trees, trees_t=trees[:1],
                 kw={"window_radius": 2, "mask_string": "MASK", "nullify_mask": True, "min_occurrences": 2}))
    V = [[3, 1, 4, 1, 5, 9, 2, 6], [5, 3, 5], [8, 9, 7, 9, 3, 2, 3, 8, 4]]
    cs.append(_C("hist", "smoke", X=V, Xt=[[1, 2, 50, -3]], kw={"n_components": 4}))
    cs.append(_C("hist", "outlier-bins", X=V, Xt=[[-1.0, -1.0, 150.0], [2]], kw={"n_components": 3, "append_outlier_bins": True}))
    cs.append(_C("kde", "smoke", X=V, Xt=V[:1], kw={"n_components": 4}))
    P = [[[0.0, 0.1], [1.0, 0.9], [0.2, 0.0], [0.9, 1.1]], [[0.1, 0.0], [1.1, 1.0], [0.0, 0.2]], [[1.0, 1.0], [0.0, 0.0], [0.1, 0.1]]]
    cs.append(_C("distvec", "smoke", X=P, Xt=P[:2], kw={"n_components": 2, "random_state": 0}))
    cs.append(_C("signature", "smoke", X=[[[0.0, 0.0], [1.0, 0.5], [2.0, 0.0]], [[0.0, 1.0], [1.0, 1.0], [1.0, 2.0]]],
                 kw={"truncation_level": 2}))
    return cs


def _rand_matrix(rng):
    r, c = rng.randint(1, 4), rng.randint(1, 4)
    M = [[rng.choice([0, 0, 1, 2, 5]) for _ in range(c)] for _ in range(r)]
    if not any(any(row) for row in M):
        M[0][0] = 1
    return M


def _misc_random(rng):
    M = _rand_matrix(rng)
    if rng.random() < 0.5:
        return _C("infoweight", _matrix_class("infoweight", M), M=M, Mt=M[:1],
                  kw={"approx_prior": rng.random() < 0.5, "prior_strength": rng.choice([1e-4, 0.1, 1.0])})
    return _C("rowdenoise", _matrix_class("rowdenoise", M), M=M, Mt=M[:1], kw={"normalize": rng.random() < 0.5})


# =============================================================================== lanes / layout

LANES = ("token", "timed", "ngramcooc", "multiset", "strings", "seq", "ot", "misc")
# every lane owns two distance functions (compiled only there); they also serve as cheap filler
LANE_DIST = {name: tuple(ALL_DIST_FNS[i] for i in range(len(ALL_DIST_FNS)) if i % W == k)
             for k, name in enumerate(LANES)}
_RANDOM = {
    "token": lambda r: _cooc_random("token", r), "timed": lambda r: _cooc_random("timed", r),
    "ngramcooc": lambda r: _cooc_random("ngram", r), "multiset": lambda r: _cooc_random("multiset", r),
    "strings": lambda r: _strings_random(r) if r.random() < 0.6 else _em_random(r),
    "seq": _seq_random, "ot": _ot_random, "misc": _misc_random,
}
# random cases per lane and tier (the expensive lanes get fewer)
N_RANDOM = {"quick": {"token": 14, "timed": 14, "ngramcooc": 2, "multiset": 14, "strings": 24, "seq": 8, "ot": 4,
                      "misc": 10},
            "thorough": {"token": 300, "timed": 300, "ngramcooc": 60, "multiset": 300, "strings": 400, "seq": 120,
                         "ot": 40, "misc": 300}}


def _layout(lanes, rng, pad_front=False):
    """lanes: dict lane -> list of cases.  Pads the shorter lanes with random distance-function cases of their
    own lane (cheap, nothing new to compile) and interleaves so that case i belongs to lane i % W."""
    L = max(len(v) for v in lanes.values())
    out = []
    for name in LANES:
        v = list(lanes.get(name, []))
        pad = [_dist_random(rng, LANE_DIST[name]) for _ in range(L - len(v))]
        lanes[name] = pad + v if pad_front else v + pad
    for j in range(L):
        for name in LANES:
            out.append(lanes[name][j])
    return out


def _fixed_lanes():
    lanes = {
        "token": _cooc_fixed("token") + _cooc_specs("token"),
        "timed": _cooc_fixed("timed") + _cooc_specs("timed"),
        "ngramcooc": _cooc_fixed("ngram") + _cooc_specs("ngram"),
        "multiset": _cooc_fixed("multiset") + _cooc_specs("multiset"),
        "strings": _strings_fixed() + _em_fixed(),
        "seq": _seq_fixed(),
        "ot": _ot_fixed(),
        "misc": _misc_fixed(),
    }
    for name in LANES:
        lanes[name] = lanes[name] + _dist_fixed(LANE_DIST[name])
    for c in [x for v in lanes.values() for x in v]:
        c["fixed"] = 1
    return lanes


def corpus():
    return _layout(_fixed_lanes(), random.Random(20260928))


def generate(rng, tier):
    tier = tier if tier in N_RANDOM else "quick"
    lanes = {}
    for name in LANES:
        n = N_RANDOM[tier][name]
        if name == "ot" and tier == "thorough":
            lanes[name] = _ot_fixed(thorough=True) + [_ot_random(rng, thorough=True) for _ in range(n)]
        else:
            lanes[name] = [_RANDOM[name](rng) for _ in range(n)]
        lanes[name] += [_dist_random(rng, LANE_DIST[name]) for _ in range(6 if tier == "quick" else 200)]
    # crash-prone buffer-overflow classes go to the end of their lanes (a crash restarts the worker)
    tail = {name: [] for name in LANES}
    r2 = random.Random(rng.randrange(1 << 30))
    for est, lane in (("token", "token"), ("multiset", "multiset"), ("timed", "timed"), ("ngram", "ngramcooc")):
        if tier == "quick":
            # one crashing case per lane and at its very end: no worker restart (= recompilation) is needed
            ths = {"token": (3,), "multiset": (1,)}.get(est, ())
        else:
            ths = (1, 2, 3)
        for th in ths:
            c = _cooc_small_buffer(est, r2, th) if tier == "quick" else _cooc_small_buffer(est, r2, th, 8, 50)
            c["fixed"] = 1
            tail[lane].append(c)
    # heap corruption by a buffer overflow may only surface later: nothing else follows these cases in a worker
    return _layout(lanes, rng) + _layout(tail, rng, pad_front=True)


def search(rng, tier):
    return generate(rng, "thorough" if tier == "thorough" else "quick")


# =============================================================================== implementation side (worker)

def _fl(x):
    x = float(x)
    if math.isnan(x):
        return "nan"
    if math.isinf(x):
        return "inf" if x > 0 else "-inf"
    return x


def _canon(o):
    import numpy as np
    import scipy.sparse as sp
    if o is None or isinstance(o, (str, bool)):
        return o
    if isinstance(o, (int,)):
        return int(o)
    if isinstance(o, float):
        return _fl(o)
    if isinstance(o, (np.bool_,)):
        return bool(o)
    if isinstance(o, np.integer):
        return int(o)
    if isinstance(o, np.floating):
        return _fl(o)
    if sp.issparse(o):
        return _sparse(o)
    if isinstance(o, np.matrix):
        o = np.asarray(o)
    if isinstance(o, np.ndarray):
        if o.dtype.kind in "iub":
            return {"__arr__": list(o.shape), "v": [int(x) for x in o.ravel().tolist()]}
        if o.dtype.kind == "f":
            return {"__arr__": list(o.shape), "v": [_fl(x) for x in o.ravel().tolist()]}
        return {"__arr__": list(o.shape), "v": [_canon(x) for x in o.ravel().tolist()]}
    if isinstance(o, dict):
        if "__sp__" in o or "__arr__" in o:
            return o                      # already canonical (sparse matrix / array)
        return {"__dict__": sorted([[str(k), _canon(v)] for k, v in o.items()], key=lambda kv: kv[0])}
    if isinstance(o, (list, tuple)):
        return [_canon(x) for x in o]
    try:
        import pandas as pd
        if isinstance(o, pd.Series):
            return {"__series__": [[str(k), _canon(v)] for k, v in o.items()]}
    except Exception:
        pass
    return repr(o)[:200]


def _sparse(M, rows=None, cols=None):
    """shape + sorted (row, col, value) triples; rows / cols optionally labelled through dicts index -> label."""
    M = M.tocoo(copy=True)
    M.sum_duplicates()
    t = []
    for i, j, v in zip(M.row.tolist(), M.col.tolist(), M.data.tolist()):
        if v == 0:
            continue
        ri = int(i) if rows is None else str(rows.get(int(i), int(i)))
        cj = int(j) if cols is None else str(cols.get(int(j), int(j)))
        t.append([ri, cj, _fl(v)])
    t.sort(key=lambda x: (str(type(x[0])), x[0], str(type(x[1])), x[1]))
    return {"__sp__": [int(M.shape[0]), int(M.shape[1])], "t": t}


def _try(fn):
    import traceback
    try:
        return _canon(fn())
    except Exception as e:  # implementation exceptions are data
        tb = traceback.extract_tb(e.__traceback__)
        where = [f"{fr.filename.split('/')[-1]}:{fr.lineno}:{fr.name}" for fr in tb[-4:]]
        return {"exc": type(e).__name__, "msg": str(e)[:200], "where": where}


def _is_exc(v):
    return isinstance(v, dict) and "exc" in v


def _csr(M):
    import numpy as np, scipy.sparse as sp
    A = sp.csr_matrix(np.array(M, dtype=np.float64))
    A.eliminate_zeros()
    return A


def _run_cooc(case):
    import vectorizers as V
    cls = {"token": V.TokenCooccurrenceVectorizer, "timed": V.TimedTokenCooccurrenceVectorizer,
           "ngram": V.NgramCooccurrenceVectorizer, "multiset": V.MultiSetCooccurrenceVectorizer}[case["est"]]
    kw = dict(case["kw"])
    X = case["X"]
    if case["est"] == "timed":
        X = [[tuple(p) for p in s] for s in X]
    st = {}

    def lab(model, M):
        # columns through the fitted dictionary; rows are token (or ngram) indices
        return _sparse(M, cols=dict(model.column_index_dictionary_))

    def toks(m, data):
        """token indices the drivers look up in the radius table window_size_array[w, token]"""
        d = m.token_label_dictionary_
        if case["est"] == "multiset":
            return [0]                                     # the multiset driver reads window_size_array[i, 0] only
        if case["est"] == "timed":
            return sorted({int(d[p[0]]) for s in data for p in s if p[0] in d})
        return sorted({int(d[t]) for s in data for t in s if t in d})

    def fit():
        m = cls(**kw)
        # radius-table facts (Lean model `em.radius`), available even when the build itself fails afterwards
        build = m._build_token_cooccurrence_matrix

        def wbuild(token_sequences):
            if case["est"] != "ngram":
                st["radius"] = {"nfreq": int(len(m._token_frequencies_)),
                                "table_shape": [int(x) for x in m._window_len_array.shape],
                                "radii": [int(x) for x in m._window_radii]}
            return build(token_sequences)
        m._build_token_cooccurrence_matrix = wbuild
        try:
            R = m.fit_transform(X)
        finally:
            m._build_token_cooccurrence_matrix = build
        st["m"] = m
        return {"M": lab(m, R), "tokens": sorted([[str(k), int(v)] for k, v in m.token_label_dictionary_.items()],
                                                 key=lambda kv: kv[1])}
    out = {"ft": _try(fit)}
    if "radius" in st:
        out["_radius"] = dict(st["radius"])
        if "m" in st:
            out["_radius"]["ft"] = toks(st["m"], X)
            if case.get("Xt") is not None:
                out["_radius"]["tr"] = toks(st["m"], [[tuple(p) for p in s_] for s_ in case["Xt"]]
                                            if case["est"] == "timed" else case["Xt"])
    if "m" in st and case.get("Xt") is not None:
        Xt = case["Xt"]
        if case["est"] == "timed":
            Xt = [[tuple(p) for p in s] for s in Xt]
        out["tr"] = _try(lambda: lab(st["m"], st["m"].transform(Xt)))
    return out


def _run_em_kernel(case):
    import numpy as np, numba
    from vectorizers.coo_utils import em_update_matrix
    post = np.array(case["post"], dtype=np.float32)
    indices = np.array(case["indices"], dtype=np.int32)
    indptr = np.array(case["indptr"], dtype=np.int32)
    data = np.array(case["data"], dtype=np.float32)
    windows = numba.typed.List()
    kernels = numba.typed.List()
    for w, k in zip(case["windows"], case["kernels"]):
        windows.append(np.array(w, dtype=np.int32))
        kernels.append(np.array(k, dtype=np.float64))

    def run():
        r = em_update_matrix(post, indices, indptr, data, case["n"], case["target"], windows, kernels)
        return [float(x) for x in r]
    o = _try(run)
    return {"post": o}


def _run_bpe(case):
    from vectorizers.mixed_gram_vectorizer import BytePairEncodingVectorizer
    kw = dict(case["kw"])
    X, Xt = case["X"], case["Xt"]
    out = {}
    for rt in ("sequences", "matrix"):
        st = {}

        def fit():
            m = BytePairEncodingVectorizer(return_type=rt, **kw)
            r = m.fit_transform(X)
            st["m"] = m
            if rt == "sequences":
                return {"enc": [[int(x) for x in e] for e in r], "tokens": [str(t) for t in m.tokens_],
                        "codes": [[int(c[0]), int(c[1])] for c in m.code_list_], "mcc": int(m.max_char_code_)}
            return _sparse(r, cols={int(v): str(int(k)) for k, v in m.column_label_dictionary_.items()})
        out["ft_" + rt] = _try(fit)
        if "m" in st:
            m = st["m"]
            if rt == "sequences":
                out["tr_" + rt] = _try(lambda: [[int(x) for x in e] for e in m.transform(Xt)])
            else:
                out["tr_" + rt] = _try(lambda: _sparse(m.transform(Xt), cols={int(v): str(int(k)) for k, v in
                                                                               m.column_label_dictionary_.items()}))
    return out


def _run_bpe_kernel(case):
    import numpy as np, numba
    from vectorizers.mixed_gram_vectorizer import contract_pair, contract_and_count_pairs
    a = np.array(case["a"], dtype=np.int64)
    p = (np.int64(case["p"][0]), np.int64(case["p"][1]))

    def ccp():
        d = numba.typed.Dict.empty(numba.types.UniTuple(numba.types.int64, 2), numba.types.int64)
        d[(np.int64(-5), np.int64(-5))] = 1
        r, d2 = contract_and_count_pairs(a.copy(), p, d, np.int64(case["c"]))
        return {"a": [int(x) for x in r],
                "counts": sorted([[int(k[0]), int(k[1]), int(v)] for k, v in d2.items()])}
    return {"cp": _try(lambda: [int(x) for x in contract_pair(a.copy(), p, np.int64(case["c"]))]), "ccp": _try(ccp)}


def _run_lz(case):
    from vectorizers.mixed_gram_vectorizer import LZCompressionVectorizer
    st = {}

    def cols(m):
        return {int(v): str(k) for k, v in m.column_label_dictionary_.items()}

    def fit():
        m = LZCompressionVectorizer(**case["kw"])
        r = m.fit_transform(case["X"])
        st["m"] = m
        return _sparse(r, cols=cols(m))
    out = {"ft": _try(fit)}
    if "m" in st:
        out["tr"] = _try(lambda: _sparse(st["m"].transform(case["Xt"]), cols=cols(st["m"])))
    return out


def _kernel_arg(k):
    import numpy as np
    if isinstance(k, list):
        return tuple(np.array(x, dtype=np.float64) if isinstance(x, list) else x for x in k)
    return k


def _run_sliding(case):
    import numpy as np
    from vectorizers.transformers import SlidingWindowTransformer
    kw = dict(case["kw"])
    if kw.get("kernels") is not None:
        kw["kernels"] = [_kernel_arg(k) for k in kw["kernels"]]
    ws = kw.get("window_sample")
    if isinstance(ws, list) and len(ws) == 2 and case["cls"] == "pair-window-sample":
        kw["window_sample"] = tuple(ws)
    X = [np.array(s, dtype=np.float64) for s in case["X"]]
    st = {}

    def fit():
        m = SlidingWindowTransformer(**kw)
        r = m.fit_transform(X)
        st["m"] = m
        return [np.asarray(a) for a in r]
    out = {"ft": _try(fit)}
    if "m" in st and case.get("Xt") is not None:
        Xt = [np.array(s, dtype=np.float64) for s in case["Xt"]]
        out["tr"] = _try(lambda: [np.asarray(a) for a in st["m"].transform(Xt)])
    return out


def _run_seqdiff(case):
    import numpy as np
    from vectorizers.transformers import SequentialDifferenceTransformer
    X = [np.array(s, dtype=np.float64) for s in case["X"]]
    st = {}

    def fit():
        m = SequentialDifferenceTransformer(**case["kw"])
        r = m.fit_transform(X)
        st["m"] = m
        return [np.asarray(a) for a in r]
    out = {"ft": _try(fit)}
    if "m" in st and case.get("Xt") is not None:
        Xt = [np.array(s, dtype=np.float64) for s in case["Xt"]]
        out["tr"] = _try(lambda: [np.asarray(a) for a in st["m"].transform(Xt)])
    return out


def _run_tokvec(case):
    """NgramVectorizer / SkipgramVectorizer: rows = documents, columns labelled through the fitted dictionary."""
    import vectorizers as V
    cls = {"ngram": V.NgramVectorizer, "skipgram": V.SkipgramVectorizer}[case["kind"]]
    st = {}

    def cols(m):
        d = getattr(m, "column_index_dictionary_", None)
        return None if d is None else {int(k): str(v) for k, v in d.items()}

    def fit():
        m = cls(**case["kw"])
        r = m.fit_transform(case["X"])
        st["m"] = m
        return _sparse(r, cols=cols(m))
    out = {"ft": _try(fit)}
    if "m" in st and case.get("Xt") is not None:
        out["tr"] = _try(lambda: _sparse(st["m"].transform(case["Xt"]), cols=cols(st["m"])))
    return out


def _run_edgelist(case):
    import vectorizers as V
    st = {}

    def lab(m, r):
        rows = {int(v): str(k) for k, v in m.row_label_dictionary_.items()}
        cols = {int(v): str(k) for k, v in m.column_label_dictionary_.items()}
        return _sparse(r, rows=rows, cols=cols)

    def fit():
        m = V.EdgeListVectorizer(**case["kw"])
        r = m.fit_transform(case["X"])
        st["m"] = m
        return lab(m, r)
    out = {"ft": _try(fit)}
    if "m" in st:
        out["tr"] = _try(lambda: lab(st["m"], st["m"].transform(case["Xt"])))
    return out


def _run_tree(case):
    import numpy as np, scipy.sparse as sp
    import vectorizers as V

    def mk(ts):
        return [(sp.csr_matrix(np.array(t["adj"])), np.array(t["labels"])) for t in ts]
    st = {}

    def lab(m, r):
        d = getattr(m, "column_index_dictionary_", None)
        return _sparse(r, cols=None if d is None else {int(k): str(v) for k, v in d.items()})

    def fit():
        m = V.LabelledTreeCooccurrenceVectorizer(**case["kw"])
        r = m.fit_transform(mk(case["trees"]))
        st["m"] = m
        return {"M": lab(m, r), "tokens": sorted([[str(k), int(v)] for k, v in m.token_label_dictionary_.items()],
                                                 key=lambda kv: kv[1])}
    out = {"ft": _try(fit)}
    if "m" in st:
        out["tr"] = _try(lambda: lab(st["m"], st["m"].transform(mk(case["trees_t"]))))
    return out


def _run_numvec(case):
    """HistogramVectorizer / KDEVectorizer / DistributionVectorizer: fit, transform on the training data and
    transform on other data."""
    import numpy as np
    import vectorizers as V
    cls = {"hist": V.HistogramVectorizer, "kde": V.KDEVectorizer, "distvec": V.DistributionVectorizer}[case["kind"]]

    def conv(X):
        return [np.array(s, dtype=np.float64) for s in X]
    st = {}

    def fit():
        m = cls(**case["kw"])
        r = m.fit_transform(conv(case["X"]))
        st["m"] = m
        return r
    out = {"ft": _try(fit)}
    if "m" in st:
        out["tr"] = _try(lambda: st["m"].transform(conv(case["Xt"])))
    return out


def _run_ot(case):
    import numpy as np, scipy.sparse as sp
    import vectorizers as V
    cls = {"wasserstein": V.WassersteinVectorizer, "sinkhorn": V.SinkhornVectorizer,
           "approx_wasserstein": V.ApproximateWassersteinVectorizer}[case["kind"]]
    vec = np.array(case["V"], dtype=np.float64)
    kw = dict(case["kw"])
    lil = kw.get("input_method") == "lil"

    def conv(D):
        if lil:
            dl = [np.array([x for x in row if x != 0], dtype=np.float64) for row in D]
            vl = [np.ascontiguousarray(vec[[j for j, x in enumerate(row) if x != 0]]) for row in D]
            return dl, vl
        return sp.csr_matrix(np.array(D, dtype=np.float64)), vec
    st = {}

    def fit():
        m = cls(**kw)
        X, vv = conv(case["D"])
        r = m.fit_transform(X, vectors=vv)
        st["m"] = m
        return np.asarray(r)
    out = {"ft": _try(fit)}
    if "m" in st:
        def tr():
            X, vv = conv(case["Dt"])
            if case["kind"] == "approx_wasserstein":
                return np.asarray(st["m"].transform(X))
            return np.asarray(st["m"].transform(X, vectors=vv))
        out["tr"] = _try(tr)
    return out


def _run_dense_dist(case):
    import numpy as np
    import vectorizers.distances as D
    fn = getattr(D, case["fn"])
    x, y = np.array(case["x"], dtype=np.float64), np.array(case["y"], dtype=np.float64)
    if "p" in case:
        return {"r": _try(lambda: float(fn(x, y, case["p"])))}
    return {"r": _try(lambda: float(fn(x, y)))}


def _run_sparse_dist(case):
    import numpy as np
    import vectorizers.distances as D
    fn = getattr(D, case["fn"])
    i1, i2 = np.array(case["i1"], dtype=np.int32), np.array(case["i2"], dtype=np.int32)
    d1, d2 = np.array(case["d1"], dtype=np.float32), np.array(case["d2"], dtype=np.float32)

    def run():
        r = fn(i1, d1, i2, d2)
        if isinstance(r, tuple):
            return [np.asarray(x) for x in r]
        return float(r)
    return {"r": _try(run)}


def _run_arr(case):
    import numpy as np
    import vectorizers.distances as D
    fn = getattr(D, case["fn"])
    a, b = np.array(case["a"], dtype=np.int32), np.array(case["b"], dtype=np.int32)
    return {"r": _try(lambda: np.asarray(fn(a, b)))}


def _run_matrix_tf(case):
    import numpy as np
    from vectorizers.transformers import (InformationWeightTransformer, RowDenoisingTransformer,
                                          CountFeatureCompressionTransformer)
    cls = {"infoweight": InformationWeightTransformer, "rowdenoise": RowDenoisingTransformer,
           "cfc": CountFeatureCompressionTransformer}[case["kind"]]
    st = {}

    def fit():
        m = cls(**case["kw"])
        if case.get("y") is not None:
            r = m.fit_transform(_csr(case["M"]), np.array(case["y"]))
        else:
            r = m.fit_transform(_csr(case["M"]))
        st["m"] = m
        return r
    out = {"ft": _try(fit)}
    if "m" in st:
        out["tr_same"] = _try(lambda: st["m"].transform(_csr(case["M"])))
        out["tr"] = _try(lambda: st["m"].transform(_csr(case["Mt"])))
    return out


def _run_catcol(case):
    import pandas as pd
    from vectorizers.transformers import CategoricalColumnTransformer
    return {"ft": _try(lambda: CategoricalColumnTransformer(**case["kw"]).fit_transform(pd.DataFrame(case["df"])))}


def _run_signature(case):
    import numpy as np
    import vectorizers as V
    try:
        import iisignature  # noqa: F401
    except ImportError:
        return {"ft": {"unavailable": "iisignature"}}
    X = [np.array(p, dtype=np.float64) for p in case["X"]]
    return {"ft": _try(lambda: np.asarray(V.SignatureVectorizer(**case["kw"]).fit_transform(X)))}


_RUNNERS = {
    "cooc": _run_cooc, "em_kernel": _run_em_kernel, "bpe": _run_bpe, "bpe_kernel": _run_bpe_kernel, "lz": _run_lz,
    "sliding": _run_sliding, "seqdiff": _run_seqdiff, "ngram": _run_tokvec, "skipgram": _run_tokvec,
    "edgelist": _run_edgelist, "tree": _run_tree, "hist": _run_numvec, "kde": _run_numvec, "distvec": _run_numvec,
    "wasserstein": _run_ot, "sinkhorn": _run_ot, "approx_wasserstein": _run_ot, "dense_dist": _run_dense_dist,
    "sparse_dist": _run_sparse_dist, "arr": _run_arr, "infoweight": _run_matrix_tf, "rowdenoise": _run_matrix_tf,
    "cfc": _run_matrix_tf, "catcol": _run_catcol, "signature": _run_signature,
}


CASE_TIME_LIMIT = 600  # seconds (wall) for one case in one mode, incl. numba compilation


def run_impl(case):
    import signal, time
    t, c = time.time(), time.process_time()
    # watchdog: compiled code cannot be interrupted from Python, so let the kernel terminate a hung worker
    # (default disposition of SIGALRM); the framework then records {"crash": "SIGALRM"} for this case.
    signal.alarm(CASE_TIME_LIMIT)
    try:
        out = _RUNNERS[case["kind"]](case)
    finally:
        signal.alarm(0)
    out["_t"] = round(time.time() - t, 2)
    out["_cpu"] = round(time.process_time() - c, 2)
    return out


# =============================================================================== model side (hook)

def _rat(x):
    n, d = float(x).as_integer_ratio()
    return f"{n}/{d}"


def model_requests(case, outs):
    """Lean model requests (lean/Driver/EM.lean, Driver/BPE.lean) for the index-level models C10 owns."""
    k = case["kind"]
    if k == "em_kernel":
        return [{"op": "em.update", "indptr": case["indptr"], "indices": case["indices"],
                 "data": [_rat(x) for x in case["data"]], "post": [_rat(x) for x in case["post"]], "n": case["n"],
                 "t": case["target"], "w": case["windows"], "k": [[_rat(x) for x in r] for r in case["kernels"]]},
                # the compiled kernel vs the twin regenerated from the current source (validates translator + interpreter)
                twinutil.call("em_update_matrix", [[float(x) for x in case["post"]], case["indices"], case["indptr"],
                                                   [float(x) for x in case["data"]], case["n"], case["target"], case["windows"],
                                                   [[float(x) for x in r] for r in case["kernels"]]])]
    if k == "bpe_kernel":
        return [{"op": "bpe.contract", "a": case["a"], "p": case["p"], "c": case["c"]}]
    if k == "cooc":
        o = outs.get("normal")
        r = o.get("_radius") if isinstance(o, dict) else None
        if r and "ft" in r:
            nw = len(r["radii"])
            reqs = []
            for stage in ("ft", "tr"):
                if stage in r:
                    reqs.append({"op": "em.radius", "nfreq": r["nfreq"], "radii": r["radii"], "stage": stage,
                                 "lookups": [[w, t] for t in r[stage] for w in range(nw)]})
            return reqs
    return []


def _frac_f(s):
    from fractions import Fraction
    a, b = s.split("/")
    return float(Fraction(int(a), int(b)))


def compare(case, outs, resps):
    d = []
    if not resps:
        return d
    for r in resps:
        if "bad" in r:
            return [f"model rejected request: {r['bad']}"]
    k = case["kind"]
    o = outs.get("normal")
    bc = outs.get("boundscheck")
    if not isinstance(o, dict) or "crash" in o or "harness_exc" in o:
        return d
    if k == "em_kernel":
        r = resps[0]["idx"]
        got = o.get("post")
        if "ok" in r:
            exp = [_frac_f(x) for x in r["ok"]]
            if _is_exc(got):
                d.append(f"em_update_matrix: model returns normally, implementation raises {got['exc']}")
            elif len(got) != len(exp) or any(not math.isclose(a, b, rel_tol=1e-5, abs_tol=1e-6) for a, b in zip(got, exp)):
                d.append(f"em_update_matrix: implementation {got} != model {exp}")
        else:
            bcp = bc.get("post") if isinstance(bc, dict) else None
            if not (_is_exc(bcp) and bcp["exc"] == "IndexError"):
                d.append(f"em_update_matrix: model reports {r['err']} but the bounds-checked run does not raise IndexError")
        tw = resps[1] if len(resps) > 1 else None
        if tw is not None and not twinutil.unavailable(tw):
            if "ok" in tw:
                texp = [float(x) for x in twinutil.pv(tw["ok"])]
                if not _is_exc(got) and (len(got) != len(texp) or any(not math.isclose(a, b, rel_tol=1e-5, abs_tol=1e-6) for a, b in zip(got, texp))):
                    d.append(f"em_update_matrix: implementation {got} != generated twin {texp}")
            elif twinutil.memory_error(tw):
                bcp = bc.get("post") if isinstance(bc, dict) else None
                if not (_is_exc(bcp) and bcp["exc"] == "IndexError"):
                    d.append(f"em_update_matrix: generated twin reports {tw['err']} but the bounds-checked run does not raise IndexError")
        return d
    if k == "bpe_kernel":
        r = resps[0]
        if "ok" not in r["idx"] or r["idx"]["ok"] != r["fun"]:
            d.append(f"contract_pair: index-level model {r['idx']} vs functional {r['fun']}")
        if o.get("cp") != r["fun"]:
            d.append(f"contract_pair: implementation {o.get('cp')} != model {r['fun']}")
        ccp = o.get("ccp")
        if isinstance(ccp, dict) and "__dict__" in ccp:          # canonical form of a dict result
            ccp = dict((k_, v_) for k_, v_ in ccp["__dict__"])
        if not (isinstance(ccp, dict) and ccp.get("a") == r["fun"]):
            d.append(f"contract_and_count_pairs: implementation {ccp} != model {r['fun']}")
        return d
    if k == "cooc":
        rad = o.get("_radius") or {}
        if rad.get("table_shape") != [len(rad.get("radii", [])), rad.get("nfreq", -1) + 1]:
            d.append(f"radius table shape {rad.get('table_shape')} != model ({len(rad.get('radii', []))}, nfreq+1={rad.get('nfreq', -1) + 1})")
        stages = [s_ for s_ in ("ft", "tr") if s_ in rad]
        for stage, r in zip(stages, resps):
            res = r["res"]
            if "err" in res:
                # the model says a looked-up token index lies beyond the table: the checked run must notice it
                b = bc.get(stage) if isinstance(bc, dict) and "crash" not in bc else None
                if not (_is_exc(b) and b["exc"] == "IndexError") and not (isinstance(bc, dict) and "crash" in bc):
                    d.append(f"radius table: model reports {res['err']} for stage {stage} but the bounds-checked run "
                             f"does not raise IndexError")
        return d
    return d


# =============================================================================== oracle (the property, on the outputs)

def area(case):
    k = case["kind"]
    if k == "cooc":
        return {"token": "cooc-token", "timed": "cooc-timed", "ngram": "cooc-ngram", "multiset": "multiset"}[case["est"]]
    if k in ("dense_dist", "sparse_dist", "arr"):
        return "distance"
    return {"em_kernel": "em-kernel", "bpe_kernel": "bpe-kernel", "approx_wasserstein": "approx-wasserstein"}.get(k, k)


def base_key(case):
    """stable key: call site (area) + input class set by the generator; never derived from the outcome."""
    if area(case) == "distance":
        return f"c10.distance.{case['fn']}.{case['cls']}"
    return f"c10.{area(case)}.{case['cls']}"


def _num(x):
    if isinstance(x, str):
        return {"nan": float("nan"), "inf": float("inf"), "-inf": float("-inf")}.get(x)
    if isinstance(x, bool):
        return None
    if isinstance(x, (int, float)):
        return float(x)
    return None


def _close(a, b):
    if isinstance(a, int) and isinstance(b, int) and not isinstance(a, bool) and not isinstance(b, bool):
        return a == b
    x, y = _num(a), _num(b)
    if x is None or y is None:
        return a == b
    if math.isnan(x) or math.isnan(y):
        return math.isnan(x) and math.isnan(y)
    if math.isinf(x) or math.isinf(y):
        return x == y
    return abs(x - y) <= ATOL + RTOL * abs(x)


def _diff(a, b, path=""):
    """first difference between two canonical results, or None."""
    if isinstance(a, dict) and isinstance(b, dict):
        if "__sp__" in a and "__sp__" in b:
            if a["__sp__"] != b["__sp__"]:
                return f"{path}: shape {a['__sp__']} vs {b['__sp__']}"
            da = {(str(t[0]), str(t[1])): t[2] for t in a["t"]}
            db = {(str(t[0]), str(t[1])): t[2] for t in b["t"]}
            for k in sorted(set(da) | set(db)):
                if not _close(da.get(k, 0.0), db.get(k, 0.0)):
                    return f"{path}: cell {k} {da.get(k, 0.0)} vs {db.get(k, 0.0)}"
            return None
        if set(a) != set(b):
            return f"{path}: keys {sorted(a)} vs {sorted(b)}"
        for k in sorted(a):
            if k in ("msg", "where"):
                continue
            d = _diff(a[k], b[k], f"{path}.{k}")
            if d:
                return d
        return None
    if isinstance(a, list) and isinstance(b, list):
        if len(a) != len(b):
            return f"{path}: length {len(a)} vs {len(b)}"
        for i, (x, y) in enumerate(zip(a, b)):
            d = _diff(x, y, f"{path}[{i}]")
            if d:
                return d
        return None
    if isinstance(a, (dict, list)) or isinstance(b, (dict, list)):
        return f"{path}: {str(a)[:80]} vs {str(b)[:80]}"
    return None if _close(a, b) else f"{path}: {a} vs {b}"


def _F(key, msg):
    return {"key": key, "msg": msg[:600]}


def _stages(o):
    return {k: v for k, v in o.items() if not k.startswith("_")}


def oracle(case, outs):
    base = base_key(case)
    fails = []
    for mode, o in outs.items():
        if not isinstance(o, dict):
            fails.append(_F(base, f"{mode}: no output"))
            continue
        if "crash" in o:
            fails.append(_F(base, f"{mode}: process terminated abnormally ({o['crash']}) {o.get('stderr', '')[-160:]!r}"))
            continue
        if "harness_exc" in o:
            continue
        for st, v in _stages(o).items():
            if _is_exc(v) and v["exc"] in BAD_EXC:
                fails.append(_F(base, f"{mode}: {st} raises {v['exc']}: {v['msg']} at {v.get('where')}"))
    n = outs.get("normal")
    if not isinstance(n, dict) or "crash" in n or "harness_exc" in n:
        return _dedupe(fails)
    ns = _stages(n)
    for mode, o in outs.items():
        if mode == "normal" or not isinstance(o, dict) or "crash" in o or "harness_exc" in o:
            continue
        os_ = _stages(o)
        for st in sorted(set(ns) & set(os_)):
            a, b = ns[st], os_[st]
            ea = a["exc"] if _is_exc(a) else None
            eb = b["exc"] if _is_exc(b) else None
            if ea is not None or eb is not None:
                if ea == eb:
                    continue            # same exception type in both modes: equal results
                if ea in BAD_EXC or eb in BAD_EXC:
                    continue            # already reported above; the difference is the same finding
                key = base
                if mode == "nojit" and eb is not None and ea is None:
                    bc = outs.get("boundscheck")
                    bcs = _stages(bc).get(st) if isinstance(bc, dict) and "crash" not in bc else None
                    if not (_is_exc(bcs) and bcs["exc"] == eb):
                        key = f"{base}.nojit-{eb}"
                fails.append(_F(key, f"{mode}: {st} -> {_short(b)} but normal -> {_short(a)}"))
                continue
            d = _diff(a, b)
            if d:
                fails.append(_F(base, f"{mode}: result of {st} differs from normal execution at {d}"))
    return _dedupe(fails)


def _short(v):
    if _is_exc(v):
        return f"{v['exc']}({v['msg'][:120]}) at {v.get('where')}"
    return "result " + str(v)[:100]


def _dedupe(fails):
    seen, out = set(), []
    for f in fails:
        k = (f["key"], f["msg"])
        if k not in seen:
            seen.add(k)
            out.append(f)
    return out


TRIVIAL_CLASSES = ("smoke", "general", "all-present")


def _has_result(o):
    return isinstance(o, dict) and "crash" not in o and "harness_exc" not in o and any(
        not _is_exc(v) for v in _stages(o).values())


def nontrivial(case, outs):
    return case["cls"] not in TRIVIAL_CLASSES and all(_has_result(o) for o in outs.values())


def stats(case, outs):
    a = area(case)
    t = [a, f"{a}.{case['cls']}"]
    if a == "distance":
        t.append(f"distance.fn.{case['fn']}")
    bad = False
    for mode, o in outs.items():
        if not isinstance(o, dict):
            continue
        if "crash" in o:
            t.append(f"outcome.{mode}.crash-{o['crash']}")
            bad = True
            continue
        for st, v in _stages(o).items():
            if _is_exc(v):
                t.append(f"outcome.{mode}.exc-{v['exc']}")
    try:
        bad = bad or bool(oracle(case, outs))
    except Exception:
        pass
    t.append("outcome.fail" if bad else "outcome.ok")
    return t


# =============================================================================== shrinking

def _drop_each(xs, minlen=0):
    for i in range(len(xs)):
        if len(xs) > minlen:
            yield xs[:i] + xs[i + 1:]


def shrink_candidates(case):
    """few, cheap candidates: every round costs three fresh (JIT-compiling) worker generations.  The fixed
    steering cases are already minimal by construction."""
    if case.get("fixed"):
        return
    k = case["kind"]
    if k == "cooc":
        X = case["X"]
        for X2 in _drop_each(X, 1):
            yield dict(case, X=X2)
        if case.get("Xt") is not None:
            yield dict(case, Xt=None)
        for i, s in enumerate(X):
            if len(s) > 1:
                yield dict(case, X=X[:i] + [s[: len(s) // 2]] + X[i + 1:])
                yield dict(case, X=X[:i] + [s[len(s) // 2:]] + X[i + 1:])
        kw = case["kw"]
        for name, low in (("n_iter", 1), ("n_threads", 1)):
            if kw.get(name, low) > low:
                yield dict(case, kw=dict(kw, **{name: kw[name] - 1}))
    elif k == "em_kernel":
        for w in range(len(case["windows"])):
            for i in range(len(case["windows"][w])):
                ws = [list(x) for x in case["windows"]]
                ks = [list(x) for x in case["kernels"]]
                del ws[w][i], ks[w][i]
                yield dict(case, windows=ws, kernels=ks)
    elif k in ("bpe", "lz", "ngram", "skipgram", "sliding", "seqdiff", "hist", "kde"):
        for f in ("X", "Xt"):
            xs = case.get(f)
            if not xs:
                continue
            for x2 in _drop_each(xs, 1):
                yield dict(case, **{f: x2})
            for i, s in enumerate(xs):
                if len(s) > 1:
                    yield dict(case, **{f: xs[:i] + [s[:-1]] + xs[i + 1:]})
    elif k == "bpe_kernel":
        for a2 in _drop_each(case["a"]):
            yield dict(case, a=a2)
    elif k == "dense_dist":
        for i in range(len(case["x"])):
            if len(case["x"]) > 1:
                yield dict(case, x=case["x"][:i] + case["x"][i + 1:], y=case["y"][:i] + case["y"][i + 1:])
    elif k == "sparse_dist":
        for i in range(len(case["i1"])):
            yield dict(case, i1=case["i1"][:i] + case["i1"][i + 1:], d1=case["d1"][:i] + case["d1"][i + 1:])
        for i in range(len(case["i2"])):
            yield dict(case, i2=case["i2"][:i] + case["i2"][i + 1:], d2=case["d2"][:i] + case["d2"][i + 1:])
    elif k == "arr":
        for a2 in _drop_each(case["a"]):
            yield dict(case, a=a2)
        for b2 in _drop_each(case["b"]):
            yield dict(case, b=b2)
    elif k in ("infoweight", "rowdenoise", "cfc"):
        for M2 in _drop_each(case["M"], 1):
            yield dict(case, M=M2)
    elif k in ("wasserstein", "sinkhorn", "approx_wasserstein"):
        for D2 in _drop_each(case["D"], 2):
            yield dict(case, D=D2)
