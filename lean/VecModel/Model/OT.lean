import VecModel.Model.Basic
/-
  Model of the glue vectorizers/linear_optimal_transport.py owns around the (external,
  un-modelled) network simplex of pynndescent, and of the row pipeline of the
  Wasserstein-style vectorizers.

  C07 part
    arcOf / planOf          get_transport_plan (:89-119) with pynndescent's arc_id (no arc mixing,
                            allocate_graph_structures(n, m, False), :146-150)
    costWrites / costArray  pynndescent initialize_cost / set_cost through the same arc_id (:152)
    pairwise / costOriented cost orientation in lot_vectors_*_internal (:407-414, :522-529)
    check                   executable certificate checker for one transport problem

  C08 part
    normalise               row normalisation (:400-403, :516-520; sklearn normalize(norm="l1") :690, :1999)
    truncate                truncation to max_distribution_size (:395-398, :511-514), the argsort
                            permutation being an input (np.argsort is not modelled)
    images / lot            barycentric projection (P * (1/q)).T @ X and reference subtraction
                            (:419-426, :534-541), `post` = the row-wise post-processing
    blocks                  every `n // b + 1` block / chunk loop (:696, :733-735, :2010-2018,
                            :2145-2186, :1271-1277, :2041-2050) as list splitting
    colMask / selectCols    Sinkhorn sub-chunk column selection (:1278-1282, :2051-2056)

  Numbers are exact rationals (`Rat`), matrices are lists of rows.  Nothing is totalised
  silently: reads through an arc index are checked (`Except Err`), a zero reference mass makes
  `images` fail (numpy would produce inf/nan), shape mismatches make the checker reject.
-/
namespace VecModel.OT

abbrev Vec := List Rat
abbrev Mat := List (List Rat)

/-! ## C07 (i): the arc ↔ cell map -/

/-- `arc_id(i*m + j, graph)` for a graph allocated with `use_arc_mixing=False`:
`k = graph.n_arcs - arc - 1` with `n_arcs = n*m`.  An `Int`: nothing is truncated. -/
def arcOf (n m i j : Nat) : Int := (n * m : Nat) - 1 - ((i * m + j : Nat) : Int)

/-- checked read through a (possibly negative) integer index -/
def rdI (name : String) (a : List α) (k : Int) : Except Err α :=
  if 0 ≤ k then rd name a k.toNat else .error (.oob name k a.length)

/-- `get_transport_plan(flow, graph)`: `result[i, j] = flow[arc_id(i*m + j)]`. -/
def planOf (n m : Nat) (flow : List Rat) : Except Err Mat :=
  (List.range n).mapM fun i => (List.range m).mapM fun j => rdI "flow" flow (arcOf n m i j)

/-- The writes of `initialize_cost(cost_matrix, graph, cost)` in program order:
`set_cost(i * cost_matrix.shape[1] + j, cost_matrix[i, j])` → `cost[arc_id(arc)] = value`.
The stride is the **cost matrix's own** row length (first row; a numpy array is rectangular),
the arc count is the graph's `n*m` (sizes of `p` and `q`). -/
def costWrites (n m : Nat) (C : Mat) : List (Int × Rat) :=
  match C with
  | [] => []
  | r0 :: _ =>
    (C.zipIdx).flatMap fun (row, i) =>
      (row.zipIdx).map fun (c, j) => (((n * m : Nat) : Int) - 1 - ((i * r0.length + j : Nat) : Int), c)

/-- value of an array cell after a sequence of writes: the last write to that index wins. -/
def lastWrite : List (Int × Rat) → Int → Option Rat
  | [], _ => none
  | (k', v) :: rest, k =>
    match lastWrite rest k with
    | some x => some x
    | none => if k' = k then some v else none

/-- the cost array after `initialize_cost` (`np.ones(max_arc_num)` before, :664 of
optimal_transport.py); fails when a write falls outside the array. -/
def costArray (n m : Nat) (C : Mat) : Except Err (List Rat) :=
  let size := n * m + 2 * (n + m)
  let ws := costWrites n m C
  match ws.find? (fun w => decide (w.1 < 0) || decide ((size : Int) ≤ w.1)) with
  | some w => .error (.oob "cost" w.1 size)
  | none => .ok ((List.range size).map fun (k : Nat) => match lastWrite ws (k : Int) with
      | some v => v
      | none => 1)

/-! ## C07 (i'): cost orientation -/

/-- `chunked_pairwise_distance(A, B, dist)`: entry (i, j) = `d A[i] B[j]`. -/
def pairwise (d : α → α → β) (A B : List α) : List (List β) :=
  A.map fun a => B.map fun b => d a b

/-- transpose (`.T`) of a matrix with `m` columns; `none` if a row does not have `m` entries. -/
def transpose (m : Nat) (M : List (List β)) : Option (List (List β)) :=
  if M.all (fun r => r.length == m) then
    some (M.foldr (fun r acc => List.zipWith (· :: ·) r acc) (List.replicate m []))
  else none

/-- the cost handed to `transport_plan(row_distribution, reference_distribution, cost)`:
`pairwise(X, R)` when the sample is strictly larger than the reference, else `pairwise(R, X).T`. -/
def costOriented (d : α → α → β) (X R : List α) : Option (List (List β)) :=
  if X.length > R.length then some (pairwise d X R)
  else transpose X.length (pairwise d R X)

/-! ## C07 (ii): certificate checker -/

def dot (a b : Vec) : Rat := (List.zipWith (· * ·) a b).sum
def inner (P C : Mat) : Rat := (List.zipWith dot P C).sum
def rowSums (P : Mat) : Vec := P.map List.sum
def vadd (a b : Vec) : Vec := List.zipWith (· + ·) a b
def colSums (m : Nat) (P : Mat) : Vec := P.foldr vadd (List.replicate m 0)

def shapeOK (n m : Nat) (M : Mat) : Bool := M.length == n && M.all fun r => r.length == m
def allGE (lo : Rat) (M : Mat) : Bool := M.all fun r => r.all fun x => decide (lo ≤ x)
def within (eps : Rat) (a b : Vec) : Bool :=
  a.length == b.length && (List.zip a b).all fun (x, y) => decide (x - y ≤ eps) && decide (y - x ≤ eps)
def dualFeas (delta : Rat) (u v : Vec) (C : Mat) : Bool :=
  (List.zip u C).all fun (ui, row) => (List.zip v row).all fun (vj, c) => decide (ui + vj ≤ c + delta)

/-- dual objective `Σ u·p + Σ v·q` -/
def dualValue (p q u v : Vec) : Rat := dot u p + dot v q

/-- Certificate checker for "P is an (approximately) feasible and (approximately) optimal coupling
of p and q for cost C", given dual potentials `u`, `v` as a certificate:
shapes agree; `P ≥ -eps` entrywise; row/column sums within `eps` of `p`/`q`;
`u_i + v_j ≤ C_ij + delta`; duality gap `⟨P,C⟩ - (u·p + v·q) ≤ gap`. -/
def check (p q : Vec) (C P : Mat) (u v : Vec) (eps delta gap : Rat) : Bool :=
  shapeOK p.length q.length C && shapeOK p.length q.length P &&
  u.length == p.length && v.length == q.length &&
  allGE (-eps) P &&
  within eps (rowSums P) p && within eps (colSums q.length P) q &&
  dualFeas delta u v C &&
  decide (inner P C - dualValue p q u v ≤ gap)

/-- the optimality slack `check` certifies: `⟨P,C⟩ ≤ ⟨Q,C⟩ + eta` for every feasible `Q`. -/
def eta (p : Vec) (delta gap : Rat) : Rat := gap + delta * p.sum

/-! ## C08: the row pipeline -/

/-- `row_sum = w.sum(); if row_sum > 0: w / row_sum` (else the row is skipped: output row 0). -/
def normalise (w : Vec) : Option Vec :=
  if 0 < w.sum then some (w.map (· / w.sum)) else none

/-- truncation to `max_distribution_size`: `best = argsort(-w)[:k]`, `w[best]`, `X[best]`.
`order` stands for the permutation `np.argsort(-w)` returned (not modelled); reads are checked. -/
def truncate (k : Nat) (order : List Nat) (w : List α) : Except Err (List α) :=
  if w.length > k then (order.take k).mapM fun i => rd "row" w i else .ok w

def smul (t : Rat) (x : Vec) : Vec := x.map (t * ·)
def madd (A B : Mat) : Mat := List.zipWith vadd A B
def zeroM (m d : Nat) : Mat := List.replicate m (List.replicate d 0)
/-- `s ⊗ x` : row j is `s_j • x` -/
def outer (s x : Vec) : Mat := s.map fun t => smul t x

/-- `Sᵀ X = Σ_i S_i ⊗ X_i` for `S` with `m` columns and `X` with `d` columns. -/
def tmul (m d : Nat) (S X : Mat) : Mat :=
  (List.zip S X).foldr (fun sx acc => madd (outer sx.1 sx.2) acc) (zeroM m d)

/-- `P * (1.0 / q)` (numpy broadcasting over the last axis) -/
def scaleCols (P : Mat) (q : Vec) : Mat := P.map fun row => List.zipWith (fun pij qj => pij * (1 / qj)) row q

/-- `transport_images = (plan * (1.0 / reference_distribution)).T @ row_vectors`;
`none` when shapes disagree or a reference mass is 0 (numpy: inf/nan). -/
def images (d : Nat) (P X : Mat) (q : Vec) : Option Mat :=
  if q.any (fun t => decide (t = 0)) then none
  else if !(P.length == X.length && P.all (fun r => r.length == q.length) && X.all (fun x => x.length == d)) then none
  else some (tmul q.length d (scaleCols P q) X)

def msub (A B : Mat) : Mat := List.zipWith (List.zipWith (· - ·)) A B

/-- one output row: `post (images - reference_vectors)`, flattened by the caller. `post` is the
(arbitrary) post-processing of the (images, reference) pair: identity on the difference for
non-spherical metrics, the tangent-space construction for cosine. -/
def lot (post : Mat → Mat → Mat) (d : Nat) (P X R : Mat) (q : Vec) : Option Mat :=
  (images d P X q).map fun im => post im R

/-- non-spherical `post`: `transport_images - reference_vectors` -/
def postPlain (im R : Mat) : Mat := msub im R

/-- `for i in range(n // b + 1): X[i*b : min(n, i*b + b)]` -/
def blocks (b : Nat) (X : List α) : List (List α) :=
  (List.range (X.length / b + 1)).map fun i => (X.drop (i * b)).take b

/-- the mutant without `+ 1` (used by the non-vacuity example only) -/
def blocksNoPlus (b : Nat) (X : List α) : List (List α) :=
  (List.range (X.length / b)).map fun i => (X.drop (i * b)).take b

/-- Sinkhorn sub-chunk: `col_sums = chunk.sum(axis=0); mask = col_sums > 0` -/
def colMask (m : Nat) (chunk : Mat) : List Bool := (colSums m chunk).map fun s => decide (0 < s)
/-- `row[mask]` -/
def selectCols (mask : List Bool) (row : List α) : List α :=
  (List.zip mask row).filterMap fun (b, x) => if b then some x else none

/-! ### input formats: a CSR row vs. the list ("lil" / generator) encoding of the same row -/

/-- row `i` as the sparse kernel reads it: `indices[indptr[i]:indptr[i+1]]`, `data[indptr[i]:indptr[i+1]]`
(:391-392); the two `indptr` reads are checked, slices clip as Python slices do. -/
def csrRow (indptr indices : List Nat) (data : Vec) (i : Nat) : Except Err (List Nat × Vec) :=
  (rd "indptr" indptr i).bind fun s => (rd "indptr" indptr (i + 1)).bind fun e =>
    .ok ((indices.drop s).take (e - s), (data.drop s).take (e - s))

/-- running offsets of a list of rows, starting at `s` -/
def indptrOf : List (List α) → Nat → List Nat
  | [], s => [s]
  | r :: rs, s => s :: indptrOf rs (s + r.length)

/-- CSR encoding (indptr, indices, data) of rows given as lists of (support index, weight) -/
def toCsr (rows : List (List (Nat × Rat))) : List Nat × List Nat × Vec :=
  (indptrOf rows 0, rows.flatten.map Prod.fst, rows.flatten.map Prod.snd)

end VecModel.OT
