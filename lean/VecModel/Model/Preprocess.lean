import VecModel.Model.Basic
/-
  Model of the re-indexing tail of vectorizers/preprocessing.py
    preprocess_token_sequences (:655-696) and its copies
    preprocess_timed_token_sequences (:835-876), preprocess_multi_token_sequences (:1019-1067),
    preprocess_tree_sequences (:475-516, labels only),
  after the fixes "work on a copy of the dictionary" and "the frequency table has one entry per
  dictionary entry".  The vocabulary construction/pruning that produces the kept dictionary is
  `Model/Vocab` (C05); here the kept dictionary is an input.
  Tokens are coded as `Nat`; a dictionary is an association list in insertion order
  (Python dict), `token ↦ index`.
-/
namespace VecModel.Pre

abbrev Dict := List (Nat × Nat)

/-- `token_dictionary[token]` / `token in token_dictionary` -/
def find (d : Dict) (t : Nat) : Option Nat := d.lookup t

/-- `len(d) if t not in d else d[t]` -/
def codeOf (d : Dict) (t : Nat) : Nat :=
  match find d t with
  | some i => i
  | none => d.length

/-- the list comprehension that re-indexes one sequence.
`masking is None`:  `[d[t] for t in seq if t in d]`
otherwise:          `[len(d) if t not in d else d[t] for t in seq]`  (`d` without the mask key). -/
def reindex (d : Dict) (masking : Bool) (s : List Nat) : List Nat :=
  if masking then s.map (codeOf d) else s.filterMap (find d)

/-- `if masking in d: del d[masking]` on a copy -/
def dropMask (d : Dict) (μ : Nat) : Dict := d.filter fun e => e.1 != μ

/-- `d[masking] = len(d)` after the deletion -/
def withMask (d : Dict) (μ : Nat) : Dict := dropMask d μ ++ [(μ, (dropMask d μ).length)]

/-- `preprocess_token_sequences(X, d, masking=μ?)` with a given (already pruned or user supplied)
dictionary: returns the re-indexed sequences and the dictionary handed back to the estimator.
The input dictionary is a value: nothing the caller holds is changed. -/
def preprocess (d : Dict) (mask : Option Nat) (X : List (List Nat)) : List (List Nat) × Dict :=
  match mask with
  | none => (X.map (reindex d false), d)
  | some μ => (X.map (reindex (dropMask d μ) true), withMask d μ)

/-- timed copy: the time stamp travels with the token; pairs of removed tokens are deleted
(`masking is None`) or kept with the mask index. -/
def reindexTimed (d : Dict) (masking : Bool) (s : List (Nat × Rat)) : List (Nat × Rat) :=
  if masking then
    s.map fun p => match find d p.1 with
      | some i => (i, p.2)
      | none => (d.length, p.2)
  else
    s.filterMap fun p => (find d p.1).map fun i => (i, p.2)

def preprocessTimed (d : Dict) (mask : Option Nat) (X : List (List (Nat × Rat))) :
    List (List (Nat × Rat)) × Dict :=
  match mask with
  | none => (X.map (reindexTimed d false), d)
  | some μ => (X.map (reindexTimed (dropMask d μ) true), withMask d μ)

/-- multiset copy: every multiset of every document is re-indexed like a sequence. -/
def preprocessMulti (d : Dict) (mask : Option Nat) (X : List (List (List Nat))) :
    List (List (List Nat)) × Dict :=
  match mask with
  | none => (X.map (·.map (reindex d false)), d)
  | some μ => (X.map (·.map (reindex (dropMask d μ) true)), withMask d μ)

/-- `construct_token_dictionary_and_frequency`'s count table for a supplied dictionary, after the
fix: `np.bincount(index_list, minlength=len(d))` — one entry per dictionary index. -/
def countTable (d : Dict) (flat : List Nat) : List Nat :=
  let idx := flat.filterMap (find d)
  let width := max d.length (idx.foldl (fun m i => max m (i + 1)) 0)
  (List.range width).map fun i => idx.count i

/-- `_set_mask_indices`: `len(self._token_frequencies_)` when nullify_mask. -/
def maskIndex (freqLen : Nat) (nullify : Bool) : Option Nat := if nullify then some freqLen else none

end VecModel.Pre
