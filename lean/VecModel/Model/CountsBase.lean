import VecModel.Model.Basic
/-
  Shared base of the count-vectorizer models (C06, C01; namespace VecModel.Counts) — the scipy.sparse
  operations they rely on:
    * COO triples, the value of a cell = sum of all stored entries with that coordinate
      (scipy adds duplicates when converting / `sum_duplicates`),
    * assembly with an explicit `shape=` versus scipy's inferred shape `max index + 1`,
    * boolean column mask `M[:, mask]`,
    * python dictionaries as association lists in insertion order.
  Core Lean only.
-/
namespace VecModel.Counts

/-! ### python dicts: association lists, first match wins, insertion order kept -/

def lookup [DecidableEq κ] (d : List (κ × ν)) (k : κ) : Option ν :=
  match d with
  | [] => none
  | (k', v) :: rest => if k' = k then some v else lookup rest k

/-- `d[k] = v` : overwrite in place when the key exists, append otherwise -/
def dictSet [DecidableEq κ] (d : List (κ × ν)) (k : κ) (v : ν) : List (κ × ν) :=
  match d with
  | [] => [(k, v)]
  | (k', v') :: rest => if k' = k then (k', v) :: rest else (k', v') :: dictSet rest k v

/-- `{k: v for (k, v) in pairs}` -/
def fromPairs [DecidableEq κ] (pairs : List (κ × ν)) : List (κ × ν) :=
  pairs.foldl (fun d p => dictSet d p.1 p.2) []

/-- `{v: k for k, v in d.items()}` -/
def invert [DecidableEq ν] (d : List (κ × ν)) : List (ν × κ) :=
  fromPairs (d.map fun p => (p.2, p.1))

/-- distinct keys have distinct values (a label dictionary names every index at most once) -/
def DictInj [DecidableEq κ] (d : List (κ × Nat)) : Prop :=
  ∀ x y i, lookup d x = some i → lookup d y = some i → x = y

/-! ### COO entries and matrices -/

abbrev Entry := Nat × Nat × Rat

/-- value of cell `(r, c)`: the sum of the stored entries with that coordinate -/
def cell : List Entry → Nat → Nat → Rat
  | [], _, _ => 0
  | e :: es, r, c => (if e.1 = r ∧ e.2.1 = c then e.2.2 else 0) + cell es r c

structure Matrix where
  nRows : Nat
  nCols : Nat
  entries : List Entry
  deriving Repr

def Matrix.get (M : Matrix) (r c : Nat) : Rat := cell M.entries r c

/-- `max(index) + 1`, 0 for no index -/
def maxPlus1 : List Nat → Nat
  | [] => 0
  | x :: xs => max (x + 1) (maxPlus1 xs)

/-- `scipy.sparse.coo_matrix((data, (row, col)), shape=shape)`.
`shape = none`: scipy infers `(max row + 1, max col + 1)` and refuses empty index arrays;
`shape = some s`: an index outside `s` is an error. -/
def assemble (shape : Option (Nat × Nat)) (es : List Entry) : Except Err Matrix :=
  match shape with
  | none =>
    match es with
    | [] => .error (.invalid "cannot infer dimensions from zero sized index arrays")
    | _ => .ok ⟨maxPlus1 (es.map (·.1)), maxPlus1 (es.map (·.2.1)), es⟩
  | some s =>
    match es.find? (fun e => decide (s.1 ≤ e.1) || decide (s.2 ≤ e.2.1)) with
    | some e => .error (if s.1 ≤ e.1 then .oob "row" e.1 s.1 else .oob "col" e.2.1 s.2)
    | none => .ok ⟨s.1, s.2, es⟩

/-- indices of the `true` entries of a boolean mask (`np.where(mask)[0]`) -/
def keptCols (mask : List Bool) : List Nat :=
  (List.range mask.length).filter (fun j => mask[j]? == some true)

/-- `M[:, mask]` with a boolean mask: the mask must have exactly `nCols` entries (IndexError
otherwise); kept column `c` moves to its position among the kept columns. -/
def selectCols (mask : List Bool) (M : Matrix) : Except Err Matrix :=
  if mask.length ≠ M.nCols then
    .error (.oob "boolean column mask" mask.length M.nCols)
  else
    let kept := keptCols mask
    .ok ⟨M.nRows, kept.length,
         M.entries.filterMap (fun e =>
           if e.2.1 ∈ kept then some (e.1, kept.idxOf e.2.1, e.2.2) else none)⟩

/-- column sums (`M.sum(axis=0)`) for columns `0 … n-1` -/
def colSum (es : List Entry) (c : Nat) : Rat :=
  match es with
  | [] => 0
  | e :: rest => (if e.2.1 = c then e.2.2 else 0) + colSum rest c

/-! ### token re-indexing and learned dictionaries -/

/-- `preprocess_token_sequences(X, token_dictionary)` with masking=None (preprocessing.py:654-666):
tokens outside the dictionary are deleted, the others replaced by their index -/
def reindex (d : List (Int × Nat)) (doc : List Int) : List Nat :=
  doc.filterMap (lookup d)

/-- the kept tokens of a document, in order -/
def kept (d : List (Int × Nat)) (doc : List Int) : List Int :=
  doc.filter fun t => (lookup d t).isSome

def insertSorted (x : Int) : List Int → List Int
  | [] => [x]
  | y :: ys => if x < y then x :: y :: ys else if x = y then y :: ys else y :: insertSorted x ys

/-- `sorted(list(set(l)))` / `np.unique(l)` -/
def sortedUnique (l : List Int) : List Int := l.foldr insertSorted []

def enumFrom (start : Nat) : List α → List (α × Nat)
  | [] => []
  | x :: xs => (x, start) :: enumFrom (start + 1) xs

end VecModel.Counts
