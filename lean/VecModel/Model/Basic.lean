/-
  Shared basics for the executable models. Core Lean only (no Mathlib) so that the
  line-protocol driver can be linked as a `lean_exe`.
-/
namespace VecModel

/-- Errors of the index-level (memory-safety) models: what the Python-level semantics of a
kernel would raise (IndexError / UnboundLocalError) or what the model refuses. -/
inductive Err where
  | oob (name : String) (idx : Int) (len : Nat)
  | unbound (var : String)
  | cap (msg : String)
  | invalid (msg : String)
  deriving Repr, DecidableEq, Inhabited

def Err.toString : Err → String
  | .oob n i l => s!"oob:{n}[{i}]/{l}"
  | .unbound v => s!"unbound:{v}"
  | .cap m => s!"cap:{m}"
  | .invalid m => s!"invalid:{m}"

instance : ToString Err := ⟨Err.toString⟩

/-- checked list read (Python `a[i]` with bounds checking, non-negative index). -/
def rd (name : String) (a : List α) (i : Nat) : Except Err α :=
  match a[i]? with
  | some x => .ok x
  | none => .error (.oob name i a.length)

theorem rd_ok {name : String} {a : List α} {i : Nat} (h : i < a.length) :
    rd name a i = .ok a[i] := by
  simp [rd, h]

end VecModel
