import VecModel.Model.Basic
/-
  Model of the byte-pair-encoding core of vectorizers/mixed_gram_vectorizer.py:
    contract_pair (:462-503), contract_and_count_pairs (:196-273, encoding part),
    bpe_encode (:505-534), bpe_train (:366-460, with the pair selection as a parameter),
    bpe_decode / tokens_ construction (:340-357, :544-567), 'tokens' / 'matrix' outputs.
  Codes are unbounded `Int` (int64 in the code; overflow is outside the claim).
  Strings are lists of code points.
-/
namespace VecModel.BPE

abbrev Pair := Int × Int

/-! ### Functional specification of one merge: greedy, left to right -/

def contract (p : Pair) (c : Int) : List Int → List Int
  | a :: b :: rest =>
    if a = p.1 ∧ b = p.2 then c :: contract p c rest
    else a :: contract p c (b :: rest)
  | l => l

/-! ### Index-level model of `contract_pair` (the loop as written, checked reads/writes)

`out` is the written prefix `new_char_list[:new_char_index]`; a write at
`new_char_index = out.length` is legal iff `out.length < len(char_list)` (the buffer is
`np.zeros(len(char_list))`). -/

def wr (n : Nat) (out : List Int) (x : Int) : Except Err (List Int) :=
  if out.length < n then .ok (out ++ [x]) else .error (.oob "new_char_list" out.length n)

/-- iterations `i, i+1, …, n-2` of `for i in range(len_char_list - 1)`; `fuel` = remaining
iterations. Returns `(skip_char, written prefix)`. -/
def cpLoop (a : List Int) (p : Pair) (c : Int) :
    (fuel : Nat) → (i : Nat) → (skip : Bool) → (out : List Int) → Except Err (Bool × List Int)
  | 0, _, skip, out => .ok (skip, out)
  | fuel + 1, i, skip, out =>
    if skip then cpLoop a p c fuel (i + 1) false out
    else do
      let x ← rd "char_list" a i
      let y ← rd "char_list" a (i + 1)
      if x = p.1 ∧ y = p.2 then
        let out' ← wr a.length out c
        cpLoop a p c fuel (i + 1) true out'
      else
        let out' ← wr a.length out x
        cpLoop a p c fuel (i + 1) false out'

/-- `contract_pair(char_list, pair_to_contract, new_code)` after the loop: the tail element is
copied from `char_list[len - 1]` when the last pair was not contracted and the array is
non-empty. -/
def contractPairIdx (a : List Int) (p : Pair) (c : Int) : Except Err (List Int) := do
  let n := a.length
  let (skip, out) ← cpLoop a p c (n - 1) 0 false []
  if !skip && decide (n > 0) then
    let x ← rd "char_list" a (n - 1)
    wr n out x
  else
    .ok out

/-! ### Encoding with a learned merge list -/

def clip (mcc : Int) (ch : Int) : Int := if ch ≤ mcc then ch else 0

/-- replay of `code_list`: entry `k` gets code `mcc + 1 + k`. -/
def replay (cl : List Pair) (next : Int) (s : List Int) : List Int :=
  match cl with
  | [] => s
  | p :: rest => replay rest (next + 1) (contract p next s)

/-- `bpe_encode(chars, code_list, max_char_code)` -/
def encode (cl : List Pair) (mcc : Int) (chars : List Int) : List Int :=
  replay cl (mcc + 1) (chars.map (clip mcc))

/-- the same through the index-level kernel -/
def replayIdx (cl : List Pair) (next : Int) (s : List Int) : Except Err (List Int) :=
  match cl with
  | [] => .ok s
  | p :: rest => do
    let s' ← contractPairIdx s p next
    replayIdx rest (next + 1) s'

def encodeIdx (cl : List Pair) (mcc : Int) (chars : List Int) : Except Err (List Int) :=
  replayIdx cl (mcc + 1) (chars.map (clip mcc))

/-! ### Token strings and decoding -/

/-- string of a code given the token table (`to_unicode`): `none` where the Python code would
raise IndexError. -/
def codeStr (T : List (List Int)) (mcc : Int) (x : Int) : Option (List Int) :=
  if x ≤ mcc then some [x] else T[(x - mcc - 1).toNat]?

/-- `tokens_`: token `k` is the concatenation of the strings of its pair, built in order. -/
def buildTokens (mcc : Int) : List Pair → List (List Int) → Option (List (List Int))
  | [], T => some T
  | p :: rest, T =>
    match codeStr T mcc p.1, codeStr T mcc p.2 with
    | some l, some r => buildTokens mcc rest (T ++ [l ++ r])
    | _, _ => none

def tokensOf (cl : List Pair) (mcc : Int) : Option (List (List Int)) := buildTokens mcc cl []

/-- `bpe_decode`: concatenation of the code strings. -/
def decode (T : List (List Int)) (mcc : Int) : List Int → Option (List Int)
  | [] => some []
  | x :: xs =>
    (codeStr T mcc x).bind fun a => (decode T mcc xs).bind fun b => some (a ++ b)

/-- well-formed merge list: the pair of entry `k` only uses codes below `mcc + 1 + k`. -/
def wfFrom (next : Int) : List Pair → Bool
  | [] => true
  | p :: rest => decide (p.1 < next) && decide (p.2 < next) && wfFrom (next + 1) rest

def WF (cl : List Pair) (mcc : Int) : Bool := wfFrom (mcc + 1) cl

/-! ### Training with an arbitrary pair-selection function

State: current encodings, merge list so far, next free code. `select` sees the state and proposes
the next pair or stops (the real `pruning_max_freq_pair` + the `count > 1` test). The loop is
`bpe_train` after the fix that applies a pending merge when the budget is reached: a pair is
recorded and then contracted; at most `budget` pairs are recorded. -/

structure TrainSt where
  enc : List (List Int)
  cl : List Pair
  next : Int
  deriving Repr

def trainLoop (select : TrainSt → Option Pair) : (fuel : Nat) → TrainSt → TrainSt
  | 0, st => st
  | fuel + 1, st =>
    match select st with
    | none => st
    | some p =>
      trainLoop select fuel
        { enc := st.enc.map (contract p st.next), cl := st.cl ++ [p], next := st.next + 1 }

def maxChar (mcc : Int) (X : List (List Int)) : Int :=
  X.foldl (fun m s => s.foldl (fun m c => if c > m then c else m) m) mcc

def train (select : TrainSt → Option Pair) (budget : Nat) (mcc0 : Int) (X : List (List Int)) :
    TrainSt × Int :=
  let mcc := maxChar mcc0 X
  (trainLoop select budget { enc := X, cl := [], next := mcc + 1 }, mcc)

/-! ### Outputs -/

/-- 'matrix' row: count of each fitted column code in the encoding (unknown codes ignored). -/
def countRow (cols : List Int) (enc : List Int) : List Nat :=
  cols.map (fun c => enc.count c)

end VecModel.BPE
