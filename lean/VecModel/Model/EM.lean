import VecModel.Model.Basic
/-
  Model of the EM refinement of the co-occurrence vectorizers.

    vectorizers/coo_utils.py            em_update_matrix (:247-339, after the range-check fix :311-315)
    vectorizers/base_cooccurrence_vectorizer.py
                                        _build_token_cooccurrence_matrix (:556-589):
                                        normalise / threshold / iterate / sum per-chunk posteriors
    token_/timed_/multi_/ngram_ co-occurrence vectorizers: `numba_*em_cooccurrence_iteration`
                                        (posterior = zeros; one em_update_matrix call per occurrence)

  Values are exact `Rat` (float32 in the code), indices unbounded `Nat`.
  Three layers:
    * index level (`…Idx`, `Except Err`): the kernel on the flat CSR arrays
      (indptr / indices / data) with checked reads and writes — C10;
    * row level (functional): the same computation on `List (List (col, val))`, used for the
      pipeline (normalise, threshold, iterate, chunk sum);
    * dense specification (`spec…`): the documented procedure on `Nat → Nat → Rat`.
  The windows and kernel weights of every occurrence are *inputs* (`Occ`): they are what the
  per-vectorizer drivers compute before calling `em_update_matrix`.
-/
namespace VecModel.EM

/-- a CSR row: `(column, value)` in storage order -/
abbrev Row := List (Nat × Rat)
/-- a CSR matrix as its list of rows -/
abbrev Mat := List Row
/-- values of a matrix with the structure of another (`posterior_data` vs `prior_*`) -/
abbrev Post := List (List Rat)
/-- dense matrix -/
abbrev Dense := Nat → Nat → Rat

def absQ (x : Rat) : Rat := if x < 0 then -x else x

/-- one token occurrence as seen by `em_update_matrix`: `target_gram_ind`, `windows`, `kernels` -/
structure Occ where
  target : Nat
  windows : List (List Nat)
  kernels : List (List Rat)
  deriving Repr

/-! ### `np.searchsorted(col_ind, key)` (side='left') on a sorted array: number of entries `< key` -/

def searchsorted (a : List Nat) (key : Nat) : Nat :=
  (a.takeWhile (fun x => decide (x < key))).length

/-! ### The `(w, i)` iteration space shared by the E and the M loop

`for w, window in enumerate(windows): for i, context in enumerate(window): … kernels[w][i] …`
yields, in loop order, the looked-up column key `context + w * n_unique_tokens` and the kernel
weight.  The reads `kernels[w]`, `kernels[w][i]` are checked.  (The local arrays
`window_posterior`, `context_ind` of length `total_win_length` indexed by `i + win_offset[w]`
are represented by the list of results in the same order.) -/

def entriesW (n w : Nat) (ker : List Rat) : List Nat → Nat → Except Err (List (Nat × Rat))
  | [], _ => .ok []
  | ctx :: rest, i =>
    (rd "kernels[w]" ker i).bind fun k =>
    (entriesW n w ker rest (i + 1)).bind fun tl =>
    .ok ((ctx + w * n, k) :: tl)

def entries (n : Nat) (kernels : List (List Rat)) : List (List Nat) → Nat → Except Err (List (Nat × Rat))
  | [], _ => .ok []
  | win :: rest, w =>
    (rd "kernels" kernels w).bind fun ker =>
    (entriesW n w ker win 0).bind fun a =>
    (entries n kernels rest (w + 1)).bind fun b =>
    .ok (a ++ b)

/-- the same iteration space without checks (windows and kernels zipped) -/
def entriesWF (n w : Nat) : List Nat → List Rat → List (Nat × Rat)
  | ctx :: win, k :: ker => (ctx + w * n, k) :: entriesWF n w win ker
  | _, _ => []

def entriesF (n : Nat) : List (List Nat) → List (List Rat) → Nat → List (Nat × Rat)
  | win :: ws, ker :: ks, w => entriesWF n w win ker ++ entriesF n ws ks (w + 1)
  | _, _, _ => []

/-! ### Index level: `em_update_matrix` on the flat CSR arrays -/

/-- E-step body for one `(key, kernel)` (coo_utils.py:304-328): returns
`(context_ind[…], window_posterior[…])`.  `col_ind` is the row slice, `lo = prior_indptr[target]`.
The range check `pos < len(col_ind)` precedes the read `col_ind[pos]` (the D17 repair). -/
def lookupIdx (colInd : List Nat) (lo : Nat) (data : List Rat) (e : Nat × Rat) : Except Err (Nat × Rat) :=
  if e.2 > 0 then
    let pos := searchsorted colInd e.1
    if pos < colInd.length then
      (rd "col_ind" colInd pos).bind fun c =>
      if c = e.1 then
        (rd "prior_data" data (lo + pos)).bind fun p => .ok (pos, e.2 * p)
      else .ok (pos, 0)
    else .ok (pos, 0)
  else .ok (0, 0)

/-- the E-step body as it was before the repair: `col_ind[pos]` read unconditionally.
Only used for the counter-example in Props/C11.lean. -/
def lookupIdxPreFix (colInd : List Nat) (lo : Nat) (data : List Rat) (e : Nat × Rat) : Except Err (Nat × Rat) :=
  if e.2 > 0 then
    let pos := searchsorted colInd e.1
    (rd "col_ind" colInd pos).bind fun c =>
    if c = e.1 then
      (rd "prior_data" data (lo + pos)).bind fun p => .ok (pos, e.2 * p)
    else .ok (pos, 0)
  else .ok (0, 0)

def eStepIdx (colInd : List Nat) (lo : Nat) (data : List Rat) :
    List (Nat × Rat) → Except Err (List (Nat × Rat))
  | [] => .ok []
  | e :: es =>
    (lookupIdx colInd lo data e).bind fun x =>
    (eStepIdx colInd lo data es).bind fun xs => .ok (x :: xs)

/-- `temp = window_posterior.sum(); if temp > 0: window_posterior /= temp` -/
def normPost (lk : List (Nat × Rat)) : List (Nat × Rat) :=
  let temp := (lk.map (·.2)).sum
  if temp > 0 then lk.map (fun x => (x.1, x.2 / temp)) else lk

/-- checked `a[i] += v` -/
def addAtIdx (name : String) (a : List Rat) (i : Nat) (v : Rat) : Except Err (List Rat) :=
  if i < a.length then .ok (a.modify i (· + v)) else .error (.oob name i a.length)

/-- partial M-step (coo_utils.py:330-337): `posterior_data[lo + context_ind] += val` when `val > 0` -/
def mStepIdx (lo : Nat) : List (Nat × Rat) → List Rat → Except Err (List Rat)
  | [], post => .ok post
  | x :: xs, post =>
    if x.2 > 0 then (addAtIdx "posterior_data" post (lo + x.1) x.2).bind fun post' => mStepIdx lo xs post'
    else mStepIdx lo xs post

/-- `em_update_matrix(posterior_data, prior_indices, prior_indptr, prior_data, n_unique_tokens,
target_gram_ind, windows, kernels)`.  Python slicing `prior_indices[lo:hi]` clamps and never raises. -/
def emUpdateIdx (indptr indices : List Nat) (data : List Rat) (n : Nat) (post : List Rat) (o : Occ) :
    Except Err (List Rat) :=
  (rd "prior_indptr" indptr o.target).bind fun lo =>
  (rd "prior_indptr" indptr (o.target + 1)).bind fun hi =>
  let colInd := (indices.drop lo).take (hi - lo)
  (entries n o.kernels o.windows 0).bind fun es =>
  (eStepIdx colInd lo data es).bind fun lk =>
  mStepIdx lo (normPost lk) post

/-- the same with the pre-repair lookup (counter-example only) -/
def eStepIdxPreFix (colInd : List Nat) (lo : Nat) (data : List Rat) :
    List (Nat × Rat) → Except Err (List (Nat × Rat))
  | [] => .ok []
  | e :: es =>
    (lookupIdxPreFix colInd lo data e).bind fun x =>
    (eStepIdxPreFix colInd lo data es).bind fun xs => .ok (x :: xs)

def emUpdateIdxPreFix (indptr indices : List Nat) (data : List Rat) (n : Nat) (post : List Rat) (o : Occ) :
    Except Err (List Rat) :=
  (rd "prior_indptr" indptr o.target).bind fun lo =>
  (rd "prior_indptr" indptr (o.target + 1)).bind fun hi =>
  let colInd := (indices.drop lo).take (hi - lo)
  (entries n o.kernels o.windows 0).bind fun es =>
  (eStepIdxPreFix colInd lo data es).bind fun lk =>
  mStepIdx lo (normPost lk) post

/-- `numba_*em_cooccurrence_iteration`: `posterior_data = zeros_like(prior_data)`, one kernel call
per occurrence in corpus order. -/
def emIterIdxFrom (indptr indices : List Nat) (data : List Rat) (n : Nat) :
    List Occ → List Rat → Except Err (List Rat)
  | [], post => .ok post
  | o :: os, post =>
    (emUpdateIdx indptr indices data n post o).bind fun post' => emIterIdxFrom indptr indices data n os post'

def emIterIdx (indptr indices : List Nat) (data : List Rat) (n : Nat) (occs : List Occ) : Except Err (List Rat) :=
  emIterIdxFrom indptr indices data n occs (data.map fun _ => 0)

/-! ### CSR arrays of a row-structured matrix -/

def indptrFrom (start : Nat) : Mat → List Nat
  | [] => [start]
  | row :: rest => start :: indptrFrom (start + row.length) rest

def indptrOf (M : Mat) : List Nat := indptrFrom 0 M
def indicesOf (M : Mat) : List Nat := M.flatten.map (·.1)
def dataOf (M : Mat) : List Rat := M.flatten.map (·.2)

/-! ### Row level (functional) -/

/-- lookup of `key` in a row: `(searchsorted position, stored value or 0)`; `row[pos]?` is `none`
exactly when the position is past the end (the range check). -/
def look (row : Row) (key : Nat) : Nat × Rat :=
  let pos := searchsorted (row.map (·.1)) key
  match row[pos]? with
  | some cv => if cv.1 = key then (pos, cv.2) else (pos, 0)
  | none => (pos, 0)

def eStep (row : Row) (es : List (Nat × Rat)) : List (Nat × Rat) :=
  es.map fun e => if e.2 > 0 then ((look row e.1).1, e.2 * (look row e.1).2) else (0, 0)

def mStep : List (Nat × Rat) → List Rat → List Rat
  | [], post => post
  | x :: xs, post => mStep xs (if x.2 > 0 then post.modify x.1 (· + x.2) else post)

/-- what one occurrence adds to the posterior values of its row -/
def rowUpdate (n : Nat) (row : Row) (o : Occ) (p : List Rat) : List Rat :=
  mStep (normPost (eStep row (entriesF n o.windows o.kernels 0))) p

def emUpdate (n : Nat) (M : Mat) (post : Post) (o : Occ) : Post :=
  match M[o.target]? with
  | none => post
  | some row => post.modify o.target (rowUpdate n row o)

def zerosLike (M : Mat) : Post := M.map (·.map fun _ => 0)

def emPosterior (n : Nat) (M : Mat) (occs : List Occ) : Post :=
  occs.foldl (emUpdate n M) (zerosLike M)

def addPost (a b : Post) : Post := List.zipWith (List.zipWith (· + ·)) a b

/-- `sum(new_data_per_chunk)` (one chunk when `n_threads = 1`; the multiset vectorizer
additionally sums over documents inside a chunk) -/
def chunkPosterior (n : Nat) (M : Mat) (chunks : List (List Occ)) : Post :=
  chunks.foldl (fun acc ch => addPost acc (emPosterior n M ch)) (zerosLike M)

/-- `cooccurrence_matrix.data = new_data` -/
def zipRow (row : Row) (p : List Rat) : Row := List.zipWith (fun cv v => (cv.1, v)) row p

def withData (M : Mat) (post : Post) : Mat := List.zipWith zipRow M post

/-- column L1 norm: sklearn `normalize(…, axis=0, norm="l1")` sums `|x|` per column -/
def colSumL (cells : List (Nat × Rat)) (c : Nat) : Rat :=
  ((cells.filter fun cv => cv.1 == c).map fun cv => absQ cv.2).sum

def colSum (M : Mat) (c : Nat) : Rat := colSumL M.flatten c

/-- columns whose norm is 0 are left alone (`if sum_ == 0.0: continue`) -/
def normCell (S : Nat → Rat) (cv : Nat × Rat) : Nat × Rat :=
  (cv.1, if S cv.1 = 0 then cv.2 else cv.2 / S cv.1)

def normCols (M : Mat) : Mat := M.map fun row => row.map (normCell (colSum M))

/-- `data[data < epsilon] = 0; eliminate_zeros()` -/
def keep (eps : Rat) (cv : Nat × Rat) : Bool := !(decide (cv.2 < eps)) && !(decide (cv.2 = 0))

def threshold (eps : Rat) (M : Mat) : Mat := M.map fun row => row.filter (keep eps)

def emStep (n : Nat) (eps : Rat) (chunks : List (List Occ)) (M : Mat) : Mat :=
  threshold eps (normCols (withData M (chunkPosterior n M chunks)))

def emRun (n : Nat) (eps : Rat) (chunks : List (List Occ)) : Nat → Mat → Mat
  | 0, M => M
  | k + 1, M => emRun n eps chunks k (emStep n eps chunks M)

/-- base_cooccurrence_vectorizer.py:556-587 from the summed, duplicate-free CSR matrix `M0`
(the `n_iter = 0, epsilon = 0` result) on. -/
def em (n : Nat) (eps : Rat) (nIter : Nat) (chunks : List (List Occ)) (M0 : Mat) : Mat :=
  if nIter > 0 ∨ eps > 0 then emRun n eps chunks nIter (threshold eps (normCols M0)) else M0

/-- smallest distance of a thresholded value from `eps` over the whole run (the harness skips the
float comparison when a value is too close to the threshold to be decided in float32) -/
def marginOf (eps : Rat) (M : Mat) : Option Rat :=
  (M.flatten.map fun cv => absQ (cv.2 - eps)).foldl
    (fun acc d => match acc with | none => some d | some a => some (if d < a then d else a)) none

/-! ### Dense specification of the documented procedure -/

/-- value of a row at column `c`: the sum of the stored entries with that column (at most one
in a canonical CSR row) -/
def rowVal (row : Row) (c : Nat) : Rat := ((row.filter fun cv => cv.1 == c).map fun cv => cv.2).sum

def toDense (M : Mat) : Dense := fun r c =>
  match M[r]? with
  | none => 0
  | some row => rowVal row c

def specColSum (nRows : Nat) (D : Dense) (c : Nat) : Rat :=
  ((List.range nRows).map fun r => absQ (D r c)).sum

/-- L1-normalise the columns -/
def specNorm (nRows : Nat) (D : Dense) : Dense := fun r c =>
  if specColSum nRows D c = 0 then D r c else D r c / specColSum nRows D c

/-- zero the entries below epsilon -/
def specThresh (eps : Rat) (D : Dense) : Dense := fun r c => if D r c < eps then 0 else D r c

/-- for the window contexts of one occurrence: `(context column, kernel weight × current cell value)`
in the occurrence's own row -/
def specWeights (n : Nat) (D : Dense) (o : Occ) : List (Nat × Rat) :=
  (entriesF n o.windows o.kernels 0).map fun e => (e.1, if e.2 > 0 then e.2 * D o.target e.1 else 0)

/-- the mass the occurrence gives to cell `(r, c)`: its unit of mass split in proportion to the
weights (nothing when all weights vanish), credited to its own row only -/
def specMass (n : Nat) (D : Dense) (o : Occ) : Dense := fun r c =>
  let ws := specWeights n D o
  let T := (ws.map (·.2)).sum
  if r = o.target ∧ T > 0 then ((ws.filter fun x => x.1 == c).map fun x => x.2 / T).sum else 0

def specPosterior (n : Nat) (D : Dense) (occs : List Occ) : Dense := fun r c =>
  (occs.map fun o => specMass n D o r c).sum

def specStep (nRows n : Nat) (eps : Rat) (occs : List Occ) (D : Dense) : Dense :=
  specThresh eps (specNorm nRows (specPosterior n D occs))

def specRun (nRows n : Nat) (eps : Rat) (occs : List Occ) : Nat → Dense → Dense
  | 0, D => D
  | k + 1, D => specRun nRows n eps occs k (specStep nRows n eps occs D)

def spec (nRows n : Nat) (eps : Rat) (nIter : Nat) (occs : List Occ) (D0 : Dense) : Dense :=
  if nIter > 0 ∨ eps > 0 then specRun nRows n eps occs nIter (specThresh eps (specNorm nRows D0)) else D0

/-! ### The radius table lookup `window_size_array[w, token]` (C10)

`fixed_window_radii` / `variable_window_radii` return `len(token_frequency) + 1` entries per window
function; the drivers read `window_size_array[i, target_word]` for every token of the
preprocessed sequences (and the multiset driver reads `window_size_array[i, 0]`). -/

def radiusTable (nFreq : Nat) (radius : Nat) : List Nat := List.replicate (nFreq + 1) radius

def radiusLookup (table : List (List Nat)) (w token : Nat) : Except Err Nat :=
  (rd "window_size_array" table w).bind fun row => rd "window_size_array[w]" row token

/-- all lookups `(w, token)` of one driver pass over the token sequences -/
def radiusLookups (table : List (List Nat)) : List (Nat × Nat) → Except Err (List Nat)
  | [] => .ok []
  | q :: qs =>
    (radiusLookup table q.1 q.2).bind fun r =>
    (radiusLookups table qs).bind fun rest => .ok (r :: rest)

end VecModel.EM
