import VecModel.Model.Basic
/-
  Model of the append buffer of vectorizers/coo_utils.py (after the fixes D9, D10, D11 and the
  `min`-overflow guard):
    CooArray (:5), merge_sum_duplicates (:33-106), merge_all_sum_duplicates (:109-118),
    coo_sum_duplicates (:121-161), coo_increase_mem (:164-202), coo_append (:205-233)
  and of the chunk sum of base_cooccurrence_vectorizer.py (:477-491, :541-556).

  Two models of the same state machine:

  * `Coo.*`  — index level, a transliteration of the njit functions with checked reads and
    writes (`Except Err`): every `a[i]` of the code is a checked access here, so "never
    indexes outside the buffer" is `= .ok _`.  The four parallel arrays row/col/val/key are
    one array of `Entry` (the code always reads/writes the four at the same index and
    allocates them with the same length); `ind`, `depth` (1-element arrays in the code) are
    numbers, `mins` is `coo.min`.
  * `Coo.Runs.*` — run level: the buffer as a binary-counter stack of sorted runs plus the
    unsorted tail.  Lemmas/CooIdx.lean proves that the index-level functions refine these
    (every limit ≥ 1, capacity ≥ 5); the driver (`coo.refine`, `coo.exhaust`) additionally
    checks that the two models agree step by step (live entries, ind, depth, mins, sizes) on
    every operation sequence it is given and on exhaustive small scopes (capacities 2..9).

  Numbers: keys, rows, columns unbounded `Int` (int32/int64 in the code), weights `Int`
  (integer-valued float32 in every compared case; float32 rounding is outside the model).
  `np.argsort` (unstable) is modelled by a stable merge sort: entries with equal keys are
  interchangeable for everything observed (they carry the same row/col; integer sums).
-/
namespace VecModel.Coo

structure Entry where
  row : Int
  col : Int
  val : Int
  key : Int
  deriving Repr, DecidableEq, Inhabited

def Entry.zero : Entry := ⟨0, 0, 0, 0⟩

/-- order used by every sort/merge of the buffer: by `key` only -/
def kle (a b : Entry) : Bool := decide (a.key ≤ b.key)

structure Coo where
  buf : Array Entry      -- row/col/val/key; size = capacity `coo.key.shape[0]`
  ind : Nat              -- coo.ind[0]
  mins : Array Int       -- coo.min
  depth : Nat            -- coo.depth[0]
  deriving Repr, DecidableEq

/-! ### checked accesses -/

def rdA (name : String) (a : Array α) (i : Nat) : Except Err α :=
  match a[i]? with
  | some x => .ok x
  | none => .error (.oob name i a.size)

def wrA (name : String) (a : Array α) (i : Nat) (x : α) : Except Err (Array α) :=
  if h : i < a.size then .ok (a.set i x h) else .error (.oob name i a.size)

/-- `a[lo:hi] = v` for slices: numpy clips slice bounds to the array and then demands equal
lengths. -/
def wrSlice (name : String) (a : Array α) (lo hi : Nat) (v : List α) : Except Err (Array α) :=
  let hi' := min hi a.size
  let lo' := min lo hi'
  if v.length ≠ hi' - lo' then .error (.invalid s!"{name}: slice length mismatch")
  else .ok ((a.extract 0 lo').append (v.toArray ++ a.extract hi' a.size))

/-- `a[:hi] = x` (scalar broadcast, clipped) -/
def fillPrefix (a : Array Int) (hi : Nat) (x : Int) : Array Int :=
  let hi' := min hi a.size
  (Array.replicate hi' x) ++ a.extract hi' a.size

/-! ### sizes -/

/-- `np.ceil(np.log2(n))` for `n ≥ 1` -/
def clog2 (n : Nat) : Nat := if n ≤ 1 then 0 else Nat.log2 (n - 1) + 1

/-- `np.round(1.5 * n)`: round half to even -/
def roundHalfEven3 (n : Nat) : Nat :=
  if n % 2 = 0 then 3 * n / 2
  else let q := (3 * n - 1) / 2; if q % 2 = 0 then q else q + 1

/-- the buffers allocated by the `numba_build_*_skip_grams` kernels for `array_lengths[i] = cap`
(token_…:74-85).  `cap = 0` makes `np.log2` return `-inf` — refused. -/
def mk (cap : Nat) : Except Err Coo :=
  if cap = 0 then .error (.invalid "capacity 0: log2(0)")
  else .ok { buf := Array.replicate cap Entry.zero, ind := 0,
             mins := Array.replicate (2 * clog2 cap) 0, depth := 0 }

/-! ### merge_sum_duplicates -/

/-- one "take `this_ptr`" step of the three merge loops (:60-67, :74-81, :87-94) -/
def push (buf : Array Entry) (res : Array Entry) (rp : Nat) (p : Nat) :
    Except Err (Array Entry × Nat) := do
  let e ← rdA "key" buf p
  let r ← rdA "result_key" res rp
  if e.key = r.key then
    let res' ← wrA "result_val" res rp { r with val := r.val + e.val }
    pure (res', rp)
  else
    let res' ← wrA "result_key" res (rp + 1) e
    pure (res', rp + 1)

/-- the three `while` loops of :52-94 as one loop (the first runs while both pointers are
inside their runs; afterwards exactly one of the two drain loops runs). -/
def mergeLoop (buf : Array Entry) (mid ind : Nat) :
    (fuel : Nat) → (p1 p2 : Nat) → (res : Array Entry) → (rp : Nat) → Except Err (Array Entry × Nat)
  | 0, p1, p2, res, rp =>
    if p1 < mid ∨ p2 < ind then .error (.invalid "merge: fuel") else .ok (res, rp)
  | fuel + 1, p1, p2, res, rp =>
    if p1 < mid ∧ p2 < ind then do
      let k1 ← rdA "key" buf p1
      let k2 ← rdA "key" buf p2
      if k1.key ≤ k2.key then
        let (res', rp') ← push buf res rp p1
        mergeLoop buf mid ind fuel (p1 + 1) p2 res' rp'
      else
        let (res', rp') ← push buf res rp p2
        mergeLoop buf mid ind fuel p1 (p2 + 1) res' rp'
    else if p1 ≥ mid then
      if p2 < ind then do
        let (res', rp') ← push buf res rp p2
        mergeLoop buf mid ind fuel p1 (p2 + 1) res' rp'
      else .ok (res, rp)
    else do
      let (res', rp') ← push buf res rp p1
      mergeLoop buf mid ind fuel (p1 + 1) p2 res' rp'

/-- the `else` branch of the level loop (:41-100): merge run `[|min[i+1]|, min[i])` with
`[min[i], ind)` through the scratch arrays and write the result back. -/
def mergeLevel (c : Coo) (i : Nat) (m : Int) : Except Err Coo := do
  let lo := (← rdA "min" c.mins (i + 1)).natAbs
  let mid := m.toNat
  if lo > c.ind then throw (.invalid "merge: negative array_len")
  let arrayLen := c.ind - lo + 1
  let res0 ← wrA "result_key" (Array.replicate arrayLen Entry.zero) 0 { Entry.zero with key := -1 }
  let (res, rp) ← mergeLoop c.buf mid c.ind arrayLen lo mid res0 0
  let buf' ← wrSlice "row" c.buf lo c.ind (res.toList.drop 1)
  pure { c with buf := buf', ind := lo + rp }

/-- `for i in range(coo.depth[0])` of merge_sum_duplicates; `some c` = left through `break`
(no new depth), `none`-less encoding: the Bool is `new_depth`. -/
def mergeLevels : (fuel : Nat) → (i : Nat) → Coo → Except Err (Coo × Bool)
  | 0, _, c => .ok (c, true)
  | fuel + 1, i, c => do
    let m ← rdA "min" c.mins i
    if m ≤ 0 then
      let mins1 := fillPrefix c.mins i (-(c.ind : Int))
      let mins2 ← wrA "min" mins1 i (c.ind : Int)
      pure ({ c with mins := mins2 }, false)
    else
      let c' ← mergeLevel c i m
      mergeLevels fuel (i + 1) c'

def mergeSum (c : Coo) : Except Err Coo := do
  let (c', newDepth) ← mergeLevels c.depth 0 c
  if newDepth then
    let mins1 := fillPrefix c'.mins c'.depth (-(c'.ind : Int))
    let mins2 ← wrA "min" mins1 c'.depth (c'.ind : Int)
    pure { c' with mins := mins2, depth := c'.depth + 1 }
  else pure c'

/-! ### merge_all_sum_duplicates -/

def compactLoop (mins : Array Int) : (fuel : Nat) → (i : Nat) → (acc : List Int) → Except Err (List Int)
  | 0, _, acc => .ok acc.reverse
  | fuel + 1, i, acc => do
    let m ← rdA "min" mins i
    compactLoop mins fuel (i + 1) (if m > 0 then m :: acc else acc)

def mergeAll (c : Coo) : Except Err Coo := do
  let pos ← compactLoop c.mins c.depth 0 []
  let newMin := pos ++ List.replicate (c.depth - pos.length) 0
  let mins' ← wrSlice "min" c.mins 0 c.depth newMin
  mergeSum { c with mins := mins' }

/-! ### coo_sum_duplicates -/

/-- the summing loop :139-151; `cur` = (this_row, this_col, this_val, this_key) -/
def sumLoop : (fuel : Nat) → (i : Nat) → (buf : Array Entry) → (sumInd : Nat) → (cur : Entry) →
    Except Err (Array Entry × Nat × Entry)
  | 0, _, buf, s, cur => .ok (buf, s, cur)
  | fuel + 1, i, buf, s, cur => do
    let e ← rdA "key" buf i
    if e.key = cur.key then
      sumLoop fuel (i + 1) buf s { cur with val := cur.val + e.val }
    else
      let buf' ← wrA "row" buf s cur
      sumLoop fuel (i + 1) buf' (s + 1) e

def sumDuplicates (c : Coo) : Except Err Coo := do
  let upper := c.ind
  let lower := (← rdA "min" c.mins 0).natAbs
  -- :126-131 sort the segment in place (slices are clipped, never raise)
  let hi := min upper c.buf.size
  let lo := min lower hi
  let seg := (c.buf.extract lo hi).toList.mergeSort kle
  let buf1 ← wrSlice "row" c.buf lower upper seg
  let first ← rdA "row" buf1 lower                      -- :134-137
  let cur : Entry := { first with val := 0 }
  let (buf2, s, cur') ← sumLoop (upper - lower) lower buf1 lower cur
  let (buf3, s') ← (if upper > lower then do               -- :153-158 (D9 fix)
      let b ← wrA "row" buf2 s cur'
      pure (b, s + 1)
    else pure (buf2, s))
  mergeSum { c with buf := buf3, ind := s' }

/-! ### coo_increase_mem, coo_append -/

def increaseMem (lim : Nat) (c : Coo) : Coo :=
  let n := c.buf.size
  let n' := max (roundHalfEven3 n) (lim + 1)
  let m := c.mins.size
  let m' := roundHalfEven3 (m + 2)
  { c with buf := c.buf ++ Array.replicate (n' - n) Entry.zero,
           mins := c.mins ++ Array.replicate (m' - m) 0 }

/-- :215-229 / :231-245 — the body shared by the two `if` blocks of coo_append -/
def compactAndGrow (lim : Nat) (c : Coo) : Except Err Coo := do
  let c1 ← sumDuplicates c
  let m0 := (← rdA "min" c1.mins 0).natAbs
  if (c1.buf.size : Int) - m0 ≤ lim ∨ c1.depth + 4 ≥ c1.mins.size then
    let c2 ← mergeAll c1
    -- `ind >= 0.95 * N or ind >= N - 1 or depth + 4 >= len(min)`
    -- (exact: 0.95*N as a double compares like 19N/20)
    if 20 * c2.ind ≥ 19 * c2.buf.size ∨ c2.ind + 1 ≥ c2.buf.size ∨ c2.depth + 4 ≥ c2.mins.size then
      pure (increaseMem lim c2)
    else pure c2
  else pure c1

/-- `coo = coo_append(coo, (row, col, val, key))` with the caller rebinding the result -/
def append (lim : Nat) (c : Coo) (e : Entry) : Except Err Coo := do
  let buf' ← wrA "row" c.buf c.ind e
  let c1 := { c with buf := buf', ind := c.ind + 1 }
  let m0 := (← rdA "min" c1.mins 0).natAbs
  let c2 ← (if (c1.ind : Int) - m0 ≥ lim then compactAndGrow lim c1 else pure c1)
  if (c2.ind : Int) = (c2.buf.size : Int) - 1 then compactAndGrow lim c2 else pure c2

/-- the tail of every kernel: `coo_sum_duplicates(coo); merge_all_sum_duplicates(coo)` -/
def finalize (c : Coo) : Except Err Coo := do
  mergeAll (← sumDuplicates c)

def appendAll (lim : Nat) (c : Coo) : List Entry → Except Err Coo
  | [] => .ok c
  | e :: es => do appendAll lim (← append lim c e) es

/-- what `_build_coo` reads: `row/col/val[: ind]` -/
def live (c : Coo) : List Entry := (c.buf.extract 0 c.ind).toList

/-- a whole kernel run on one window's event stream -/
def build (lim cap : Nat) (es : List Entry) : Except Err (List Entry) := do
  let c0 ← mk cap
  let c1 ← appendAll lim c0 es
  let c2 ← finalize c1
  pure (live c2)

/-! ### the abstraction: summed weight per key -/

def total (k : Int) : List Entry → Int
  | [] => 0
  | e :: l => (if e.key = k then e.val else 0) + total k l

/-- canonical form of a multiset of entries: sorted by key, equal keys summed (row/col of the
first of each group) — `abs` as a list -/
def dedupSum : List Entry → List Entry
  | [] => []
  | e :: l =>
    match dedupSum l with
    | [] => [e]
    | f :: r => if e.key = f.key then { e with val := e.val + f.val } :: r else e :: f :: r

def canon (l : List Entry) : List Entry := dedupSum (l.mergeSort kle)

/-! ## Run-level model -/
namespace Runs

structure St where
  cap : Nat
  mcap : Nat
  levels : List (Option (List Entry))   -- level 0 first; `levels.length` = depth
  tail : List Entry                     -- unsorted entries after `|min[0]|`
  deriving Repr, DecidableEq

def lenAbove : List (Option (List Entry)) → Nat
  | [] => 0
  | none :: ls => lenAbove ls
  | some r :: ls => r.length + lenAbove ls

def ind (s : St) : Nat := lenAbove s.levels + s.tail.length

/-- merge of two sorted runs with summation (:52-94) -/
def merge2 (a b : List Entry) : List Entry := dedupSum (List.merge a b kle)

/-- a run that would end at position 0 is indistinguishable from an empty level
(`min[i] = 0` is tested with `<= 0`) -/
def place (acc : List Entry) (above : List (Option (List Entry))) : Option (List Entry) :=
  if acc.length + lenAbove above = 0 then none else some acc

/-- merge_sum_duplicates: binary-counter carry of the new run `acc` into the levels -/
def carry (acc : List Entry) : List (Option (List Entry)) → List (Option (List Entry))
  | [] => [place acc []]
  | none :: ls => place acc ls :: ls
  | some r :: ls => none :: carry (merge2 r acc) ls

/-- coo_sum_duplicates: sort + sum the tail, carry it -/
def round (s : St) : St :=
  { s with levels := carry (canon s.tail) s.levels, tail := [] }

def compact (ls : List (Option (List Entry))) : List (Option (List Entry)) :=
  let rs := ls.filterMap id
  rs.map some ++ List.replicate (ls.length - rs.length) none

/-- merge_all_sum_duplicates (called with an empty tail only) -/
def mergeAll (s : St) : St := { s with levels := carry [] (compact s.levels) }

def grow (lim : Nat) (s : St) : St :=
  { s with cap := max (roundHalfEven3 s.cap) (lim + 1), mcap := roundHalfEven3 (s.mcap + 2) }

def compactAndGrow (lim : Nat) (s : St) : St :=
  let s1 := round s
  if s1.cap ≤ ind s1 + lim ∨ s1.levels.length + 4 ≥ s1.mcap then
    let s2 := mergeAll s1
    if 20 * ind s2 ≥ 19 * s2.cap ∨ ind s2 + 1 ≥ s2.cap ∨ s2.levels.length + 4 ≥ s2.mcap then grow lim s2 else s2
  else s1

def append (lim : Nat) (s : St) (e : Entry) : St :=
  let s1 := { s with tail := s.tail ++ [e] }
  let s2 := if s1.tail.length ≥ lim then compactAndGrow lim s1 else s1
  if ind s2 + 1 = s2.cap then compactAndGrow lim s2 else s2

def finalize (s : St) : St := mergeAll (round s)

def appendAll (lim : Nat) (s : St) (es : List Entry) : St := es.foldl (append lim) s

def mk (cap : Nat) : St := { cap := cap, mcap := 2 * clog2 cap, levels := [], tail := [] }

/-- physical order of the live entries: highest level first, tail last -/
def liveLevels : List (Option (List Entry)) → List Entry
  | [] => []
  | none :: ls => liveLevels ls
  | some r :: ls => liveLevels ls ++ r

def live (s : St) : List Entry := liveLevels s.levels ++ s.tail

def build (lim cap : Nat) (es : List Entry) : List Entry := live (finalize (appendAll lim (mk cap) es))

/-- the `min` array implied by the levels: end position of the run for an occupied level,
minus that position for an empty one -/
def minsOf : List (Option (List Entry)) → List Int
  | [] => []
  | none :: ls => -(lenAbove ls : Int) :: minsOf ls
  | some r :: ls => ((r.length + lenAbove ls : Nat) : Int) :: minsOf ls

def abs (s : St) (k : Int) : Int := total k (live s)

end Runs

/-! ## Chunking (base_cooccurrence_vectorizer.py:477-491, :541-556) -/

/-- `_generate_chunk_boundaries(data, n_threads)` on the list of sequence lengths:
returns the `(start, end)` pairs.  `ceil(total / n)` in exact arithmetic. -/
def chunkLoop (chunkSize : Nat) : (sizes : List Nat) → (idx : Nat) → (cum lastCum lastEnd : Nat) →
    List (Nat × Nat) → List (Nat × Nat) × Nat
  | [], _, _, _, lastEnd, acc => (acc.reverse, lastEnd)
  | sz :: rest, idx, cum, lastCum, lastEnd, acc =>
    let cum' := cum + sz
    if cum' - lastCum ≥ chunkSize then
      chunkLoop chunkSize rest (idx + 1) cum' cum' idx ((lastEnd, idx) :: acc)
    else chunkLoop chunkSize rest (idx + 1) cum' lastCum lastEnd acc

def chunkBoundaries (sizes : List Nat) (nThreads : Nat) : List (Nat × Nat) :=
  let tot := sizes.sum
  let chunkSize := (tot + nThreads - 1) / nThreads
  let (cs, lastEnd) := chunkLoop chunkSize sizes 0 0 0 0 []
  cs ++ [(lastEnd, sizes.length)]

/-- `token_sequences[a:b]` for each boundary pair -/
def chunksOf (docs : List α) (bs : List (Nat × Nat)) : List (List α) :=
  bs.map fun (a, b) => (docs.take b).drop a

end VecModel.Coo
