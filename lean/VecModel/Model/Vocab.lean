import VecModel.Model.Basic
/-
  Model of the vocabulary learning code of vectorizers/preprocessing.py (after the `fix:` commits
  "token frequencies in float64" and "no division by an empty total"):

    construct_token_dictionary_and_frequency (:67-105)  sorted(set(tokens)) -> 0..n-1, counts / n  (float64)
    construct_document_frequency            (:13-37)   #documents containing the token / #documents (float64)
    select_tokens_by_regex                  (:108-117) re.fullmatch — a Boolean parameter of the model
    prune_token_dictionary                  (:120-294) bounds -> frequencies, strict < and >, excluded set,
                                                       regex, top-k against the (k+1)-th largest frequency,
                                                       surviving tokens in dictionary order -> 0..m-1
    second stage (n-grams)                  ngram_vectorizer.py:252-286, ngram_token_cooccurence_vectorizer.py:490-530

  Numbers.  Counts, totals, indices: `Nat` (int64 in the code; counts below 2^53 are exact in float64).
  Frequencies are IEEE doubles in the code; here they are exact rationals produced by an explicit
  rounding function `rn p` (round to nearest, ties to even, `p` significant bits, unbounded exponent
  range — quotients of counts below 2^53 are far from the subnormal and overflow ranges).
    count / total          (numpy float64 / int)        = rn 53 (c / n)
    bound / total          (Python int / int, correctly rounded true division) = rn 53 (b / n)
  The arithmetic *before* the first fix (float32 frequencies, bound cast to float32 by the comparison)
  is kept as `freq32`, `thr32` for the documented counter-example only.

  Tokens: any type with a decidable strict order `lt` (Python `str`/`int`/`tuple` comparison).
  Core Lean only.
-/
namespace VecModel.Vocab

/-! ### Rounding to `p` significant bits, pure integer/rational arithmetic -/

/-- `2^e` for an integer exponent -/
def pow2 (e : Int) : Rat :=
  if 0 ≤ e then ((2 ^ e.toNat : Nat) : Rat) else 1 / ((2 ^ (-e).toNat : Nat) : Rat)

/-- round a rational to the nearest integer, ties to even -/
def rhe (s : Rat) : Int :=
  let f := s.floor
  let r := s - (f : Rat)
  if r < 1 / 2 then f else if 1 / 2 < r then f + 1 else if f % 2 = 0 then f else f + 1

/-- for `x > 0`: the exponent `e` with `2^(p-1) ≤ x / 2^e < 2^p` (unit in the last place `2^e`).
`num ∈ [2^a, 2^(a+1))`, `den ∈ [2^b, 2^(b+1))` give `x / 2^(a-b-p) ∈ (2^(p-1), 2^(p+1))`. -/
def expo (p : Nat) (x : Rat) : Int :=
  let e0 : Int := (x.num.natAbs.log2 : Int) - (x.den.log2 : Int) - (p : Int)
  if x / pow2 e0 < ((2 ^ p : Nat) : Rat) then e0 else e0 + 1

def rnPos (p : Nat) (x : Rat) : Rat :=
  let e := expo p x
  (rhe (x / pow2 e) : Rat) * pow2 e

/-- round to nearest, ties to even, `p` significant bits -/
def rn (p : Nat) (x : Rat) : Rat :=
  if x = 0 then 0 else if 0 < x then rnPos p x else -(rnPos p (-x))

/-! ### Frequencies and thresholds as the code computes them -/

/-- an occurrence bound (`min_occurrences=b`) or a frequency bound (`min_frequency=f`, the exact
value of the Python float) -/
inductive Bound where
  | occ (b : Nat)
  | freq (f : Rat)
  deriving Repr

/-- `token_counts.astype(float64) / n_tokens` (:101-105), `doc_freq / len(docs)` (:37) -/
def freq53 (c n : Nat) : Rat := rn 53 (mkRat c n)

/-- lower threshold (:212-219, :231-238). `None` -> 0.0; an occurrence bound is divided by the total
(Python true division) unless the total is 0 (nothing to prune then). -/
def minThr (n : Nat) : Option Bound → Rat
  | none => 0
  | some (.occ b) => if n = 0 then 0 else rn 53 (mkRat b n)
  | some (.freq f) => f

/-- upper threshold (:221-228, :240-249): `min(1.0, b / n)` -/
def maxThr (n : Nat) : Option Bound → Rat
  | none => 1
  | some (.occ b) => if n = 0 then 1 else (let q := rn 53 (mkRat b n); if q < 1 then q else 1)
  | some (.freq f) => f

/-- not in `np.where(freq < min)` and not in `np.where(freq > max)` (:258-262): both strict -/
def keepFreq (c n : Nat) (lo hi : Option Bound) : Bool :=
  !decide (freq53 c n < minThr n lo) && !decide (maxThr n hi < freq53 c n)

/-! #### the arithmetic before the fix (float32 frequencies), for the counter-example only -/

/-- `np.bincount(..).astype(float32) / n` : both operands rounded to float32, then a float32 division -/
def freq32 (c n : Nat) : Rat := rn 24 (rn 24 (c : Rat) / rn 24 (n : Rat))

/-- `b / n` (float64) compared with a float32 array: cast to float32 (NEP 50 weak Python scalar) -/
def thr32 (b n : Nat) : Rat := rn 24 (rn 53 (mkRat b n))

/-- `freq > max_frequency` with `max_occurrences = b` before the fix -/
def prunedMax32 (c n b : Nat) : Bool :=
  decide ((let q := thr32 b n; if q < 1 then q else 1) < freq32 c n)

/-- `freq < min_frequency` with `min_occurrences = b` before the fix -/
def prunedMin32 (c n b : Nat) : Bool := decide (freq32 c n < thr32 b n)

/-! ### The token table: sorted unique tokens, counts, document counts -/

section
variable {τ : Type} [DecidableEq τ]

/-- insert into a strictly sorted list unless present -/
def insertU (lt : τ → τ → Bool) (x : τ) : List τ → List τ
  | [] => [x]
  | y :: ys =>
    if lt x y then x :: y :: ys
    else if lt y x then y :: insertU lt x ys
    else y :: ys

/-- `sorted(list(set(token_sequence)))` (:93) -/
def sortedUnique (lt : τ → τ → Bool) (l : List τ) : List τ := l.foldr (insertU lt) []

/-- number of documents containing `t` (`np.bincount` over `set(doc)` per document, :31-36) -/
def docCount (t : τ) (docs : List (List τ)) : Nat := docs.countP (fun d => d.contains t)

/-- one row per dictionary entry: token, occurrence count, document count; rows in dictionary order -/
abbrev Row (τ : Type) := τ × Nat × Nat

def table (lt : τ → τ → Bool) (docs : List (List τ)) : List (Row τ) :=
  (sortedUnique lt docs.flatten).map fun t => (t, docs.flatten.count t, docCount t docs)

/-! ### prune_token_dictionary -/

structure Params (τ : Type) where
  minB : Option Bound := none
  maxB : Option Bound := none
  minD : Option Bound := none
  maxD : Option Bound := none
  /-- `ignored_tokens` -/
  excl : List τ := []
  /-- `re.fullmatch(excluded_token_regex, token) is not None`; constantly `false` when no regex is configured -/
  regex : τ → Bool := fun _ => false
  /-- `max_unique_tokens` -/
  maxUnique : Option Nat := none

/-- the row survives every filter before the top-k step (:251-274); `n` total tokens, `D` documents -/
def keeps (P : Params τ) (n D : Nat) (r : Row τ) : Bool :=
  keepFreq r.2.1 n P.minB P.maxB && keepFreq r.2.2 D P.minD P.maxD &&
    !(P.excl.contains r.1) && !(P.regex r.1)

/-- `vocab_tokens` with `new_token_frequency` before the top-k step (:274-277) -/
def survivors (P : Params τ) (n D : Nat) (tab : List (Row τ)) : List (τ × Rat) :=
  (tab.filter (keeps P n D)).map fun r => (r.1, freq53 r.2.1 n)

/-- ordered insertion (ascending) -/
def insertQ (x : Rat) : List Rat → List Rat
  | [] => [x]
  | y :: ys => if x ≤ y then x :: y :: ys else y :: insertQ x ys

theorem length_insertQ (x : Rat) (l : List Rat) : (insertQ x l).length = l.length + 1 := by
  induction l with
  | nil => rfl
  | cons y ys ih =>
    unfold insertQ
    split
    · rfl
    · simp [ih]

/-- ascending sort of the frequencies (`np.sort`; which sorting algorithm is used is irrelevant, the
result is the unique ascending arrangement) -/
def sortFreqs (L : List (τ × Rat)) : List Rat := (L.map (·.2)).foldr insertQ []

omit [DecidableEq τ] in
theorem length_sortFreqs (L : List (τ × Rat)) : (sortFreqs L).length = L.length := by
  unfold sortFreqs
  induction L with
  | nil => rfl
  | cons e es ih => simp [length_insertQ, ih]

/-- the top-k step (:279-286): when more than `k` tokens are left, keep those whose frequency is
strictly greater than the `(k+1)`-th largest one, `np.sort(f)[-k-1]` -/
def topk (k : Option Nat) (L : List (τ × Rat)) : List (τ × Rat) :=
  match k with
  | none => L
  | some k =>
    if h : k < L.length then
      let thr := (sortFreqs L)[L.length - k - 1]'(by rw [length_sortFreqs]; omega)
      L.filter fun e => decide (thr < e.2)
    else L

/-- `prune_token_dictionary` on a table: surviving tokens (in dictionary order) with their frequencies -/
def prune (P : Params τ) (n D : Nat) (tab : List (Row τ)) : List (τ × Rat) :=
  topk P.maxUnique (survivors P n D tab)

/-- vocabulary before the top-k step, from documents -/
def vocab0 (lt : τ → τ → Bool) (P : Params τ) (docs : List (List τ)) : List τ :=
  (survivors P docs.flatten.length docs.length (table lt docs)).map (·.1)

/-- learned vocabulary, in index order -/
def vocab (lt : τ → τ → Bool) (P : Params τ) (docs : List (List τ)) : List τ :=
  (prune P docs.flatten.length docs.length (table lt docs)).map (·.1)

/-- `dict(zip(vocab_tokens, range(len(vocab_tokens))))` (:288) -/
def learn (lt : τ → τ → Bool) (P : Params τ) (docs : List (List τ)) : List (τ × Nat) :=
  (vocab lt P docs).zipIdx

/-! ### supplied dictionary / mask entry (preprocess_token_sequences :622-685) -/

/-- the fitted dictionary: a supplied `token_dictionary` is used as given (no pruning at all);
with masking on, an existing entry for the mask string is deleted and the mask gets the index
`len(dictionary)`. -/
def fitted (lt : τ → τ → Bool) (P : Params τ) (supplied : Option (List (τ × Nat))) (mask : Option τ)
    (docs : List (List τ)) : List (τ × Nat) :=
  let d := match supplied with
    | some d => d
    | none => learn lt P docs
  match mask with
  | none => d
  | some m =>
    let d' := d.filter (fun e => !decide (e.1 = m))
    d' ++ [(m, d'.length)]

/-! ### second stage: n-grams of the pruned sequences -/

/-- lexicographic order on sequences (Python tuple comparison) -/
def lexLt (lt : τ → τ → Bool) : List τ → List τ → Bool
  | [], [] => false
  | [], _ :: _ => true
  | _ :: _, [] => false
  | a :: as, b :: bs => lt a b || (!lt b a && lexLt lt as bs)

/-- `ngrams_of(sequence, n, "exact")` : all windows of exactly `n` consecutive tokens -/
def windows (n : Nat) (s : List τ) : List (List τ) :=
  (List.range s.length).filterMap fun i =>
    if i + n ≤ s.length then some ((s.drop i).take n) else none

/-- the second-stage parameters: same bounds and `max_unique_tokens`, no excluded set / regex
(ngram_vectorizer.py:271-286) -/
def ngramParams (P : Params τ) : Params (List τ) :=
  { minB := P.minB, maxB := P.maxB, minD := P.minD, maxD := P.maxD, maxUnique := P.maxUnique }

/-- documents of n-grams of the sequences restricted to the first-stage vocabulary (no masking) -/
def gramDocs (lt : τ → τ → Bool) (P : Params τ) (n : Nat) (docs : List (List τ)) : List (List (List τ)) :=
  let v := vocab lt P docs
  docs.map fun d => windows n (d.filter fun t => v.contains t)

/-- `NgramVectorizer(ngram_size=n ≥ 2).column_label_dictionary_` / the n-gram rows of
`NgramCooccurrenceVectorizer` -/
def learnNgram (lt : τ → τ → Bool) (P : Params τ) (n : Nat) (docs : List (List τ)) : List (List τ × Nat) :=
  learn (lexLt lt) (ngramParams P) (gramDocs lt P n docs)

end

end VecModel.Vocab
