import VecModel.Model.Basic
/-
  Model of HistogramVectorizer's bin construction and counting (vectorizers/_vectorizers.py) and of
  KDEVectorizer's per-row density (vectorizers/kde_vectorizer.py).  Core Lean only.

  * bins are right-closed intervals `(lo, hi]` whose end points are rationals or ±∞
    (`pd.Interval`, `closed='right'`);
  * the *breaks* (`pd.interval_range(start=min, end=max, periods=n)` = `np.linspace`, and
    `find_bin_boundaries`' quantile breaks, :90-115) are inputs of the model: the correspondence
    check takes them from the implementation as exact rationals;
  * `fromBreaks` = `IntervalIndex.from_breaks`, `expandBoundaries` = :118-151,
    `addOutlierBins` = :154-174, `fit` = :227-258 (after the breaks), `cut`/`counts` = :260-274
    (`pd.cut(vector, bin_intervals_).value_counts()`).
-/
namespace VecModel.Hist

/-- interval end points: a rational or ±∞ -/
inductive B where
  | ninf
  | fin (q : Rat)
  | pinf
  deriving DecidableEq, Repr, Inhabited

/-- strict order on end points -/
def B.lt : B → B → Prop
  | .ninf, .ninf => False
  | .ninf, _ => True
  | .fin _, .ninf => False
  | .fin a, .fin b => a < b
  | .fin _, .pinf => True
  | .pinf, _ => False

instance : LT B := ⟨B.lt⟩

instance (a b : B) : Decidable (a < b) := by
  cases a <;> cases b <;> simp only [LT.lt, B.lt] <;> infer_instance

/-- a right-closed interval `(lo, hi]` -/
structure Bin where
  lo : B
  hi : B
  deriving DecidableEq, Repr, Inhabited

/-- `x ∈ (lo, hi]` (`lo < x` and not `hi < x`) -/
def Bin.contains (b : Bin) (x : Rat) : Bool :=
  decide (b.lo < B.fin x) && !decide (b.hi < B.fin x)

/-- `IntervalIndex.from_breaks(breaks)` / the intervals of `pd.interval_range`:
`(b₀,b₁], (b₁,b₂], …` -/
def fromBreaks : List Rat → List Bin
  | a :: b :: rest => ⟨.fin a, .fin b⟩ :: fromBreaks (b :: rest)
  | _ => []

/-- :141-145 `if interval_list[0].left > absolute_range[0]: interval_list[0] = Interval(absolute_range[0], right)` -/
def setFirstLo (a0 : B) : List Bin → List Bin
  | [] => []
  | b :: bs => (if a0 < b.lo then { b with lo := a0 } else b) :: bs

/-- :146-150 the same for the right end of the last interval -/
def setLastHi (a1 : B) : List Bin → List Bin
  | [] => []
  | [b] => [if b.hi < a1 then { b with hi := a1 } else b]
  | b :: c :: bs => b :: setLastHi a1 (c :: bs)

/-- `expand_boundaries` (:118-151).  `interval_list[0]` on an empty index raises IndexError. -/
def expandBoundaries (bins : List Bin) (a0 a1 : B) : Except Err (List Bin) :=
  match bins with
  | [] => .error (.oob "interval_list" 0 0)
  | b :: bs => .ok (setLastHi a1 (setFirstLo a0 (b :: bs)))

/-- :163-166 prepend `(absolute_range[0], first.left]` when the first interval starts above it -/
def addLeftOutlier (a0 : B) : List Bin → List Bin
  | [] => []
  | b :: bs => if a0 < b.lo then ⟨a0, b.lo⟩ :: b :: bs else b :: bs

/-- :168-173 append `(last.right, absolute_range[1]]` when the last interval ends below it -/
def addRightOutlier (a1 : B) : List Bin → List Bin
  | [] => []
  | [b] => if b.hi < a1 then [b, ⟨b.hi, a1⟩] else [b]
  | b :: c :: bs => b :: addRightOutlier a1 (c :: bs)

/-- `add_outier_bins` (:154-174) -/
def addOutlierBins (bins : List Bin) (a0 a1 : B) : Except Err (List Bin) :=
  match bins with
  | [] => .error (.oob "interval_list" 0 0)
  | b :: bs => .ok (addRightOutlier a1 (addLeftOutlier a0 (b :: bs)))

/-- `HistogramVectorizer.fit` after the breaks have been computed (:246-257) -/
def fit (breaks : List Rat) (a0 a1 : B) (outlier : Bool) : Except Err (List Bin) :=
  if outlier then addOutlierBins (fromBreaks breaks) a0 a1
  else expandBoundaries (fromBreaks breaks) a0 a1

/-- `pd.cut(x, bins)`: position of the interval containing `x`, `none` (NaN) when there is none.
(the first containing interval; for the non-overlapping indexes built by `fit` it is the only one —
theorem `cut_unique`) -/
def cutFrom : List Bin → Nat → Rat → Option Nat
  | [], _, _ => none
  | b :: bs, i, x => if b.contains x then some i else cutFrom bs (i + 1) x

def cut (bins : List Bin) (x : Rat) : Option Nat := cutFrom bins 0 x

/-- number of values of the sequence cut into interval number `i` -/
def countAt (bins : List Bin) (xs : List Rat) (i : Nat) : Nat :=
  (xs.filter (fun x => cut bins x == some i)).length

/-- `pd.cut(vector, bin_intervals_).value_counts().values`: one count per interval, in interval order -/
def counts (bins : List Bin) (xs : List Rat) : List Nat :=
  (List.range bins.length).map (countAt bins xs)

/-! ### KDE (kde_vectorizer.py:121-132, sklearn's KernelDensity by its defining formula)

Generic over the number type: the theorems are proved for every linearly ordered field
(Props/C20.lean), the driver runs the `Float` instance. -/

/-- `density(g) = (1 / (n h)) Σ_x K((g − x) / h)` -/
def kde {α : Type} [Add α] [Sub α] [Mul α] [Div α] [OfNat α 0] [NatCast α]
    (K : α → α) (h : α) (xs : List α) (g : α) : α :=
  (xs.map (fun x => K ((g - x) / h))).foldr (· + ·) 0 / ((xs.length : α) * h)

/-- one output row: the density on the evaluation grid -/
def kdeRow {α : Type} [Add α] [Sub α] [Mul α] [Div α] [OfNat α 0] [NatCast α]
    (K : α → α) (h : α) (grid : List α) (xs : List α) : List α :=
  grid.map (kde K h xs)

end VecModel.Hist
