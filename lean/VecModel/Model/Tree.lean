import VecModel.Model.Basic
/-
  Model of LabelledTreeCooccurrenceVectorizer (vectorizers/tree_token_cooccurrence.py),
  `sparse_collapse` (vectorizers/utils.py:105-137) and the tree preprocessing
  (vectorizers/preprocessing.py: `remove_node` :293-341, node removal / masking :475-505).
  Core Lean only.

  Conventions
  * nodes are `0 … n-1`; labels are natural-number codes whose order is the order of the label
    strings (LabelBinarizer sorts its classes); weights are exact rationals;
  * a LIL adjacency matrix is the list of its rows, a row the list of `(column, value)` pairs in
    storage order (exactly scipy's `rows` / `data` lists — `remove_node` edits those lists);
  * every other matrix is dense (`List (List Rat)`), built by `ofFn` and read by `ent`
    (a missing cell of a sparse matrix *is* a structural zero, so `ent` answers `0` outside);
  * the label dictionary is the list of label codes in index order (`label ↦ position`).
-/
namespace VecModel.Tree

/-! ### finite sums and dense matrices -/

/-- `Σ_{i<n} f i` -/
def sumTo : Nat → (Nat → Rat) → Rat
  | 0, _ => 0
  | n + 1, f => sumTo n f + f n

abbrev Mat := List (List Rat)

def ofFn (r c : Nat) (f : Nat → Nat → Rat) : Mat :=
  (List.range r).map fun i => (List.range c).map (f i)

/-- cell `(i, j)`; structural zero outside the stored shape -/
def ent (M : Mat) (i j : Nat) : Rat :=
  match M[i]? with
  | none => 0
  | some row =>
    match row[j]? with
    | none => 0
    | some x => x

def mul (n : Nat) (A B : Mat) : Mat := ofFn n n fun i j => sumTo n fun k => ent A i k * ent B k j
def smul (n : Nat) (w : Rat) (A : Mat) : Mat := ofFn n n fun i j => w * ent A i j
def add (r c : Nat) (A B : Mat) : Mat := ofFn r c fun i j => ent A i j + ent B i j
def transpose (r c : Nat) (A : Mat) : Mat := ofFn c r fun i j => ent A j i
def zero (r c : Nat) : Mat := ofFn r c fun _ _ => 0

/-! ### LIL adjacency -/

abbrev Row := List (Nat × Rat)
abbrev Lil := List Row

/-- value of a LIL row at column `j` (duplicates add up, as in the CSR product) -/
def rowEnt (row : Row) (j : Nat) : Rat :=
  row.foldr (fun p acc => if p.1 = j then p.2 + acc else acc) 0

def lilEnt (L : Lil) (i j : Nat) : Rat :=
  match L[i]? with
  | none => 0
  | some row => rowEnt row j

/-- shape check: `n` rows, every column index below `n` -/
def lilOk (n : Nat) (L : Lil) : Bool :=
  L.length == n && L.all fun row => row.all fun p => decide (p.1 < n)

def adjMat (n : Nat) (L : Lil) : Mat := ofFn n n (lilEnt L)

/-! ### `build_tree_skip_grams` (tree_token_cooccurrence.py:22-61) -/

/-- :54-56 `for i in range(1, window_size): walk = walk @ A; count_matrix += walk * weights[i]` -/
def buildLoop (n : Nat) (A : Mat) : List Rat → Mat → Mat → Mat
  | [], _, count => count
  | w :: ws, walk, count =>
    let walk' := mul n walk A
    buildLoop n A ws walk' (add n n count (smul n w walk'))

/-- :51-56; `weights[0]` on an empty weight vector (window_radius 0) is an IndexError -/
def build (n : Nat) (A : Mat) (ws : List Rat) : Except Err Mat :=
  match ws with
  | [] => .error (.oob "weights" 0 0)
  | w0 :: rest => .ok (buildLoop n A rest A (smul n w0 A))

/-- specification: number of directed walks with `k` steps from `u` to `v` (weighted by the
product of the edge values), by recursion on the first step — the `(u,v)` cell of `A^k` -/
def walks (n : Nat) (A : Mat) : Nat → Nat → Nat → Rat
  | 0, u, v => if u = v then 1 else 0
  | k + 1, u, v => sumTo n fun m => ent A u m * walks n A k m v

/-- `Σ_i ws[i] · walks (k+i) u v` -/
def walkSum (n : Nat) (A : Mat) : List Rat → Nat → Nat → Nat → Rat
  | [], _, _, _ => 0
  | w :: ws, k, u, v => w * walks n A k u v + walkSum n A ws (k + 1) u v

/-! ### `sparse_collapse` (utils.py:105-137) -/

/-- insertion into a strictly increasing list -/
def insertU (x : Nat) : List Nat → List Nat
  | [] => [x]
  | y :: ys => if x < y then x :: y :: ys else if x = y then y :: ys else y :: insertU x ys

/-- `LabelBinarizer.classes_` = `np.unique(labels)`: sorted, without repetitions -/
def classesOf (labels : List Nat) : List Nat := labels.foldr insertU []

/-- `LabelBinarizer(sparse_output=True).fit_transform(labels)`: one column per class, except that
one class gives a single all-zero column and two classes give the single column of the second class -/
def labelBinarize (classes labels : List Nat) : Mat :=
  match classes with
  | [_] => labels.map fun _ => [0]
  | [_, c1] => labels.map fun l => [if l = c1 then 1 else 0]
  | cs => labels.map fun l => cs.map fun c => if l = c then 1 else 0

/-- `trans ^ 1` on a 0/1 integer matrix -/
def xor1 (M : Mat) : Mat := M.map fun row => row.map fun x => if x = 0 then 1 else 0

def hstack (A B : Mat) : Mat := List.zipWith (· ++ ·) A B

/-- :129-136 the indicator matrix after the special cases for one and two classes -/
def transMat (classes labels : List Nat) : Mat :=
  let Y := labelBinarize classes labels
  match classes with
  | [_] => xor1 Y
  | [_, _] => hstack (xor1 Y) Y
  | _ => Y

/-- :136 `trans.T @ matrix @ trans` (left product first), `n` nodes, `c` classes -/
def collapseWith (n c : Nat) (T M : Mat) : Mat :=
  let P : Mat := ofFn c n fun a v => sumTo n fun u => ent T u a * ent M u v
  ofFn c c fun a b => sumTo n fun v => ent P a v * ent T v b

/-- `sparse_collapse(matrix, labels)`; :126-127 empty label array: returned unchanged -/
def sparseCollapse (n : Nat) (M : Mat) (labels : List Nat) : Mat × List Nat :=
  match labels with
  | [] => (M, [])
  | _ =>
    let cls := classesOf labels
    (collapseWith n cls.length (transMat cls labels) M, cls)

/-! ### alignment to the label dictionary, sum over trees, nullify, orientation (:109-152) -/

structure TreeIn where
  n : Nat
  lil : Lil
  labels : List Nat
  deriving Repr, Inhabited

/-- position of a label in the dictionary (`label_dictionary[label]`); `dict.length` when absent —
only used under the `keysOk` guard below -/
def pos (dict : List Nat) (l : Nat) : Nat := dict.idxOf l

def clsAt (cls : List Nat) (a : Nat) : Option Nat := cls[a]?

/-- :121-122 every stored (non-zero) cell must have both labels in the dictionary (KeyError otherwise) -/
def keysOk (dict cls : List Nat) (C : Mat) : Bool :=
  (List.range cls.length).all fun a => (List.range cls.length).all fun b =>
    ent C a b == 0 ||
      (match clsAt cls a with | some l => dict.contains l | none => false) &&
      (match clsAt cls b with | some l => dict.contains l | none => false)

/-- indicator: class number `a` is the label with dictionary index `p` -/
def hit (dict cls : List Nat) (a p : Nat) : Bool :=
  match clsAt cls a with
  | some l => pos dict l == p
  | none => false

/-- :120-126 the COO scatter of the collapsed matrix into the `N × N` dictionary layout, written as
the sum it computes: cell `(p,q)` collects every class pair mapped to `(p,q)` -/
def alignMat (dict cls : List Nat) (C : Mat) : Mat :=
  ofFn dict.length dict.length fun p q =>
    sumTo cls.length fun a => sumTo cls.length fun b =>
      if hit dict cls a p && hit dict cls b q then ent C a b else 0

/-- one tree: :112-126 -/
def treeCounts (ws : List Rat) (dict : List Nat) (t : TreeIn) : Except Err Mat :=
  if !(lilOk t.n t.lil) || t.labels.length != t.n then .error (.invalid "adjacency/labels shape") else
  (build t.n (adjMat t.n t.lil) ws).bind fun count =>
    let (C, cls) := sparseCollapse t.n count t.labels
    if keysOk dict cls C then .ok (alignMat dict cls C)
    else .error (.invalid "KeyError: label not in label_dictionary")

/-- :110-128 `global_counts += reordered_matrix` over the trees -/
def sumTrees (ws : List Rat) (dict : List Nat) : List TreeIn → Except Err Mat
  | [] => .ok (zero dict.length dict.length)
  | t :: ts =>
    (treeCounts ws dict t).bind fun G =>
      (sumTrees ws dict ts).bind fun R => .ok (add dict.length dict.length G R)

/-- :131-136 `M = I` with `M[mask,mask] = 0`; `M · G · M` -/
def nullify (N : Nat) (mask : Nat) (G : Mat) : Mat :=
  ofFn N N fun p q => if p = mask ∨ q = mask then 0 else ent G p q

inductive Orient where
  | after | before | symmetric | directional
  deriving DecidableEq, Repr

/-- :138-150 -/
def orientMat (N : Nat) (o : Orient) (G : Mat) : Mat :=
  match o with
  | .after => G
  | .before => transpose N N G
  | .symmetric => add N N G (transpose N N G)
  | .directional => hstack (transpose N N G) G

/-- `sequence_tree_skip_grams` -/
def cooc (ws : List Rat) (dict : List Nat) (maskIdx : Option Nat) (o : Orient)
    (trees : List TreeIn) : Except Err Mat :=
  (sumTrees ws dict trees).bind fun G =>
    let G' := match maskIdx with
      | none => G
      | some m => nullify dict.length m G
    .ok (orientMat dict.length o G')

/-! ### `remove_node` (preprocessing.py:293-341), in place on the LIL lists -/

def dropAt (l : List α) (i : Nat) : List α := l.take i ++ l.drop (i + 1)

/-- `row.index(node)`: first position holding column `x` -/
def colIdx (row : Row) (x : Nat) : Option Nat := row.findIdx? (fun p => p.1 == x)

/-- :304-316 the removed node's own row without its (first) self-loop entry -/
def rowToRemove (rowx : Row) (x : Nat) : Row :=
  match colIdx rowx x with
  | some k => dropAt rowx k
  | none => rowx

/-- :318-332 row `i` after the removal of `x` -/
def editRow (x : Nat) (rowR : Row) (i : Nat) (row : Row) : Row :=
  if i = x then [] else
    match colIdx row x with
    | some k => row.take k ++ rowR ++ row.drop (k + 1)
    | none => row

/-- `remove_node(adj, x)`; `adj.rows[x]` out of range is an IndexError -/
def removeNode (L : Lil) (x : Nat) : Except Err Lil :=
  match L[x]? with
  | none => .error (.oob "rows" x L.length)
  | some rowx =>
    let rowR := rowToRemove rowx x
    .ok (L.mapIdx fun i row => editRow x rowR i row)

/-- :479-484 `for node_index in node_index_to_remove: remove_node(result_matrix, node_index)` -/
def removeNodes (L : Lil) : List Nat → Except Err Lil
  | [] => .ok L
  | x :: xs => (removeNode L x).bind fun L' => removeNodes L' xs

/-- :476-478 indices of the nodes whose label is not in the dictionary, increasing -/
def nodesToRemove (dict labels : List Nat) : List Nat :=
  (List.range labels.length).filter fun i =>
    match labels[i]? with
    | some l => !dict.contains l
    | none => false

/-- tree preprocessing (:472-505).  `mask = none`: nodes with a label outside the dictionary are
removed, labels unchanged.  `mask = some m`: (the dictionary has `m` as its last entry) every
label outside `dict \ {m}` becomes `m`, the adjacency is untouched. -/
def preprocess (dict : List Nat) (mask : Option Nat) (t : TreeIn) : Except Err TreeIn :=
  match mask with
  | none =>
    (removeNodes t.lil (nodesToRemove dict t.labels)).bind fun L => .ok { t with lil := L }
  | some m =>
    let d := dict.erase m
    .ok { t with labels := t.labels.map fun l => if d.contains l then l else m }

/-- the estimator: preprocess every tree with the fitted dictionary, then `sequence_tree_skip_grams`.
`nullifyMask`: `mask_index` = dictionary index of the mask label. -/
def vectorize (ws : List Rat) (dict : List Nat) (mask : Option Nat) (nullifyMask : Bool) (o : Orient)
    (trees : List TreeIn) : Except Err Mat :=
  (trees.mapM (preprocess dict mask)).bind fun ts =>
    let mi := match mask with
      | some m => if nullifyMask then some (pos dict m) else none
      | none => none
    cooc ws dict mi o ts

end VecModel.Tree
