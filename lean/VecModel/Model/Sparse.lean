import VecModel.Model.Basic
/-
  Sparse-matrix assembly as the vectorizers use it (scipy.sparse.coo_matrix / csr_matrix):
  * `assemble (some shape) entries` — the caller pins the shape (`shape=`); an index outside the
    shape is an error (scipy raises ValueError);
  * `assemble none entries` — the shape is inferred as (max row + 1, max col + 1); an empty entry
    list is an error (scipy: "cannot infer dimensions from zero sized index arrays").
  Duplicates are summed (`sum_duplicates` / CSR conversion).  Values are `Rat`.
  And the generic row-wise vectorizer transform: every input item is reduced (by code specific to
  the vectorizer) to a list of weighted features; a fitted dictionary maps features to columns;
  features without a column are ignored; the width is the fitted one.
  Used by C01 (fitted column space), C02, C12 (row independence).
-/
namespace VecModel.Sparse

/-- matrix in triplet form with an explicit shape -/
structure Matrix where
  nRows : Nat
  nCols : Nat
  entries : List (Nat × Nat × Rat)
  deriving Repr

def Matrix.get (M : Matrix) (i j : Nat) : Rat :=
  (M.entries.filter (fun e => e.1 == i && e.2.1 == j)).foldr (fun e acc => e.2.2 + acc) 0

def maxRow (es : List (Nat × Nat × Rat)) : Nat := es.foldr (fun e m => max e.1 m) 0
def maxCol (es : List (Nat × Nat × Rat)) : Nat := es.foldr (fun e m => max e.2.1 m) 0

def inShape (s : Nat × Nat) (e : Nat × Nat × Rat) : Bool := decide (e.1 < s.1) && decide (e.2.1 < s.2)

def assemble (shape : Option (Nat × Nat)) (es : List (Nat × Nat × Rat)) : Except Err Matrix :=
  match shape with
  | some s =>
    if es.all (inShape s) then .ok { nRows := s.1, nCols := s.2, entries := es }
    else .error (.invalid "index exceeds matrix dimensions")
  | none =>
    if es.isEmpty then .error (.invalid "cannot infer dimensions from zero sized index arrays")
    else .ok { nRows := maxRow es + 1, nCols := maxCol es + 1, entries := es }

/-! ### generic row-wise transform -/

/-- one row: the (column, weight) pairs of the item's known features, in feature order -/
def rowEntries (lookup : α → Option Nat) (item : List (α × Rat)) : List (Nat × Rat) :=
  item.filterMap fun fw => (lookup fw.1).map fun c => (c, fw.2)

/-- triplets of all rows, row by row (this is the order in which the code extends
`indices`/`data` and appends to `indptr`) -/
def rowsEntries (lookup : α → Option Nat) : Nat → List (List (α × Rat)) → List (Nat × Nat × Rat)
  | _, [] => []
  | i, item :: rest =>
    (rowEntries lookup item).map (fun cw => (i, cw.1, cw.2)) ++ rowsEntries lookup (i + 1) rest

/-- `transform`: shape pinned to (number of items, fitted width) -/
def transform (lookup : α → Option Nat) (width : Nat) (items : List (List (α × Rat))) :
    Except Err Matrix :=
  assemble (some (items.length, width)) (rowsEntries lookup 0 items)

/-- the same without `shape=` (what several `transform`s did before their repair) -/
def transformInferred (lookup : α → Option Nat) (items : List (List (α × Rat))) :
    Except Err Matrix :=
  assemble none (rowsEntries lookup 0 items)

/-- a row as a dense vector of the fitted width -/
def denseRow (width : Nat) (row : List (Nat × Rat)) : List Rat :=
  (List.range width).map fun j =>
    (row.filter (fun cw => cw.1 == j)).foldr (fun cw acc => cw.2 + acc) 0

/-- the row-wise view of `transform`: one dense row per item -/
def transformRows (lookup : α → Option Nat) (width : Nat) (items : List (List (α × Rat))) :
    List (List Rat) :=
  items.map fun item => denseRow width (rowEntries lookup item)

/-- splitting `n` rows into blocks the way the block loops do: `n // b + 1` blocks of size `b`
(the last one possibly empty) -/
def blocks (b : Nat) : (fuel : Nat) → List α → List (List α)
  | 0, _ => []
  | fuel + 1, l => l.take b :: blocks b fuel (l.drop b)

def blockwise (b : Nat) (f : List α → List β) (l : List α) : List β :=
  ((blocks b (l.length / b + 1) l).map f).flatten

end VecModel.Sparse

namespace VecModel.Sparse

/-! ### Column assignment on the fly (`counts_to_csr_data`, mixed_gram_vectorizer.py:116-151)

`fit_transform` of the LZ vectorizer does not look columns up in a finished dictionary: it
extends a shared, insertion-ordered column dictionary while it emits the rows.  `transform`
looks the same features up in the final dictionary. -/

def lookupD [BEq α] (dict : List (α × Nat)) (f : α) : Option Nat :=
  (dict.find? (fun kv => kv.1 == f)).map (·.2)

/-- one row: returns the extended dictionary and the emitted (column, weight) pairs -/
def assignRow [BEq α] (dict : List (α × Nat)) : List (α × Rat) → List (α × Nat) × List (Nat × Rat)
  | [] => (dict, [])
  | (f, w) :: rest =>
    match lookupD dict f with
    | some c =>
      let r := assignRow dict rest
      (r.1, (c, w) :: r.2)
    | none =>
      let r := assignRow (dict ++ [(f, dict.length)]) rest
      (r.1, (dict.length, w) :: r.2)

def assignRows [BEq α] (dict : List (α × Nat)) : List (List (α × Rat)) → List (α × Nat) × List (List (Nat × Rat))
  | [] => (dict, [])
  | row :: rest =>
    let r1 := assignRow dict row
    let r2 := assignRows r1.1 rest
    (r2.1, r1.2 :: r2.2)

end VecModel.Sparse
