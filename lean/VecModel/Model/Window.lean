import VecModel.Model.Basic
/-
  Model of vectorizers/_window_kernels.py (the parts used by the co-occurrence family):
    window_at_index (:10-13), fixed_window_radii (:38-42),
    flat_kernel / harmonic_kernel / geometric_kernel (:48-91),
    timed_flat_kernel / timed_geometric_kernel (:179-216),
    multi_flat_kernel / multi_geometric_kernel (:95-158).
  Tokens are vocabulary indices (`Nat`), weights are exact rationals (`Rat`).
  `variable_window_radii` (:20-34, real powers + rounding) is *not* modelled: radii tables are an
  input of the co-occurrence model, read from the implementation's `_window_len_array`.
-/
namespace VecModel.Window

/-- `window_at_index(token_sequence, window_size, ind, reverse)`:
  reverse: `np.flipud(token_sequence[max(ind - window_size, 0) : ind])`
  else:    `token_sequence[ind + 1 : min(ind + window_size + 1, len(token_sequence))]`.
`i - r` on `Nat` is `max (i - r) 0`; `take r` after `drop (i+1)` clips at the end of the sequence. -/
def windowAt (s : List α) (r i : Nat) (rev : Bool) : List α :=
  if rev then ((s.take i).drop (i - r)).reverse else (s.drop (i + 1)).take r

/-- `fixed_window_radii(window_size, token_frequency, mask_index)`:
`np.repeat(window_size, len(token_frequency) + 1)` with `radii[mask_index] = 0`.
A mask index outside the table is an IndexError at Python level (silent write without bounds
checking in numba): the model refuses. -/
def fixedRadii (w nfreq : Nat) (mask : Option Nat) : Except Err (List Nat) :=
  let base := List.replicate (nfreq + 1) w
  match mask with
  | none => .ok base
  | some m => if m < base.length then .ok (base.set m 0) else .error (.oob "radii" m base.length)

/-- the three positional kernels: weight of the `k`-th window entry (`k = 0` is the nearest). -/
inductive Kernel where
  | flat
  | harmonic
  | geometric (power : Rat)

def Kernel.base : Kernel → Nat → Rat
  | .flat, _ => 1
  | .harmonic, k => 1 / ((k : Rat) + 1)
  | .geometric p, k => p ^ (k + 1)

/-- the common trailing arguments of every kernel: `mask_index, normalize, offset`. -/
structure KArgs where
  mask : Option Nat := none
  normalize : Bool := false
  offset : Nat := 0

/-- `temp = result.sum(); if temp > 0: result /= temp`. -/
def l1norm (raw : List Rat) : List Rat :=
  if raw.sum > 0 then raw.map (· / raw.sum) else raw

/-- `result[window == mask_index] = 0; result[0 : min(offset, len(result))] = 0` applied to the
base weights `bw` (one per window entry). -/
def rawWeights (a : KArgs) (win : List Nat) (bw : List Rat) : List Rat :=
  (win.zip bw).mapIdx fun k cb =>
    if a.mask = some cb.1 then 0 else if k < a.offset then 0 else cb.2

/-- a kernel call: base weights, mask, offset, optional L1 normalisation. -/
def applyKernel (a : KArgs) (win : List Nat) (bw : List Rat) : List Rat :=
  if a.normalize then l1norm (rawWeights a win bw) else rawWeights a win bw

/-- base weights of a positional kernel for a window of length `n`:
`np.ones(n)`, `1.0 / np.arange(1, n + 1)`, `power ** np.arange(1, n + 1)`. -/
def posWeights (base : Nat → Rat) (n : Nat) : List Rat := (List.range n).map base

/-- `flat_kernel` / `harmonic_kernel` / `geometric_kernel` -/
def kernelW (base : Nat → Rat) (a : KArgs) (win : List Nat) : List Rat :=
  applyKernel a win (posWeights base win.length)

/-- `timed_flat_kernel` / `timed_geometric_kernel`: the base weight is a function `g` of the time
difference (`1`, resp. `power ** (dt / delta)`). -/
def timedKernelW (g : Rat → Rat) (a : KArgs) (win : List Nat) (dts : List Rat) : List Rat :=
  applyKernel a win (dts.map g)

/-! ### multiset kernels

`multi_flat_kernel(window, target_ind, mask_index, normalize, offset)` with `window` a list of
multisets, the first being the target's own multiset. `ker k` (`1`, resp. `power ** k`) is the
weight of the `k`-th multiset *after the first `offset` ones*; the skipped multisets keep weight 0
(after the alignment fix: the filled region starts after the skipped multisets). Masked tokens
get 0, position `target_ind` gets 0, then optional L1 normalisation. -/

def multiRaw (ker : Nat → Rat) (mask : Option Nat) (offset : Nat) (msets : List (List Nat)) :
    List Rat :=
  ((msets.take offset).flatten.map fun _ => (0 : Rat)) ++
    ((msets.drop offset).mapIdx fun k m =>
      m.map fun c => if mask = some c then (0 : Rat) else ker k).flatten

/-- checked `kernel_result[target_ind] = 0` -/
def zeroAt (l : List Rat) (i : Nat) : Except Err (List Rat) :=
  if i < l.length then .ok (l.set i 0) else .error (.oob "kernel_result" i l.length)

def multiKernelW (ker : Nat → Rat) (a : KArgs) (msets : List (List Nat)) (target : Nat) :
    Except Err (List Rat) := do
  let z ← zeroAt (multiRaw ker a.mask a.offset msets) target
  pure (if a.normalize then l1norm z else z)

end VecModel.Window
