import VecModel.Model.Basic
import VecModel.Model.CountsBase
/-
  Model of vectorizers/skip_gram_vectorizer.py (C06, shapes for C01):
    window_at_index (_window_kernels.py:9-13, reverse=False)  → `windowAt`
    build_skip_grams (:29-85)                                 → `docLoop`, `buildSkipGrams`
    sum_coo_entries (coo_utils.py:228-244): sort + run-length sum → `sumCooEntries`
    skip_grams_matrix_coo_data (:88-144): column id head * n + tail → `cooRows`, `encode`
    fit (:402-431 after the D2 repair: explicit n² width), decode `//`, `%` → `fit`, `decode`
    transform (:439-470), fit-time keep mask on the explicit-width matrix → `transform`
  The kernel is a parameter `κ : Nat → Rat` (weight of the window element at distance d ≥ 1):
  flat `κ d = 1`, harmonic `κ d = 1/d`, geometric `κ d = p^d` — what the three kernels return
  with the default kernel arguments the vectorizer passes (`tuple(*{}.values()) = ()`).
  `_window_sizes` (fixed / variable radii, float arithmetic on the token frequencies) is an
  input of the model.
-/
namespace VecModel.Skipgram
open VecModel.Counts

abbrev Triple := Nat × Nat × Rat      -- (head, tail, weight)

/-- `token_sequence[ind + 1 : min(ind + window_size + 1, len(token_sequence))]` -/
def windowAt (s : List Nat) (w i : Nat) : List Nat :=
  (s.drop (i + 1)).take (min (i + w + 1) s.length - (i + 1))

/-- `[(head, window[j], weights[j]) for j in range(len(window))]`, `weights[j] = κ (j+1)`;
`d` is the distance of the first element of the remaining window -/
def headTriples (κ : Nat → Rat) (head : Nat) : (d : Nat) → List Nat → List Triple
  | _, [] => []
  | d, t :: rest => (head, t, κ d) :: headTriples κ head (d + 1) rest

/-- `for i, head_token in enumerate(token_sequence)` with checked reads of
`token_sequence[i]` and `window_sizes[head_token]` -/
def docLoop (ws : List Nat) (κ : Nat → Rat) (s : List Nat) :
    (fuel : Nat) → (i : Nat) → Except Err (List Triple)
  | 0, _ => .ok []
  | fuel + 1, i =>
    match rd "token_sequence" s i with
    | .error e => .error e
    | .ok head =>
      match rd "window_sizes" ws head with
      | .error e => .error e
      | .ok w =>
        match docLoop ws κ s fuel (i + 1) with
        | .error e => .error e
        | .ok rest => .ok (headTriples κ head 1 (windowAt s w i) ++ rest)

/-! ### `sum_coo_entries` -/

/-- tuple order of `seq.sort()` on `(head, tail, weight)` -/
def tripleLe (a b : Triple) : Bool :=
  decide (a.1 < b.1) ||
    (decide (a.1 = b.1) &&
      (decide (a.2.1 < b.2.1) || (decide (a.2.1 = b.2.1) && decide (a.2.2 ≤ b.2.2))))

/-- the run-length loop: `this_coord`, `this_sum`, then the remaining (sorted) entries -/
def runLength : (co : Nat × Nat) → (sm : Rat) → List Triple → List Triple
  | co, sm, [] => [(co.1, co.2, sm)]
  | co, sm, e :: rest =>
    if (e.1, e.2.1) = co then runLength co (sm + e.2.2) rest
    else (co.1, co.2, sm) :: runLength (e.1, e.2.1) e.2.2 rest

/-- `sum_coo_entries(seq)`; `seq[0]` of an empty list is an IndexError -/
def sumCooEntries (seq : List Triple) : Except Err (List Triple) :=
  match seq.mergeSort (fun a b => tripleLe a b) with
  | [] => .error (.oob "seq" 0 0)
  | e :: rest => .ok (runLength (e.1, e.2.1) 0 (e :: rest))

/-- `build_skip_grams(token_sequence, window_sizes, kernel, kernel_args)`: the dummy
`(0, 0, 0.0)` entry, the triples of every position, then `sum_coo_entries` -/
def buildSkipGrams (ws : List Nat) (κ : Nat → Rat) (s : List Nat) : Except Err (List Triple) :=
  match docLoop ws κ s s.length 0 with
  | .error e => .error e
  | .ok l => sumCooEntries ((0, 0, 0) :: l)

/-! ### column ids -/

def encode (n h t : Nat) : Nat := h * n + t
def decode (n c : Nat) : Nat × Nat := (c / n, c % n)

/-- `skip_grams_matrix_coo_data`: row `r`, column `head * n_unique_tokens + tail` -/
def cooRows (ws : List Nat) (κ : Nat → Rat) (n : Nat) :
    (r : Nat) → List (List Nat) → Except Err (List Entry)
  | _, [] => .ok []
  | r, s :: rest =>
    match buildSkipGrams ws κ s with
    | .error e => .error e
    | .ok tr =>
      match cooRows ws κ n (r + 1) rest with
      | .error e => .error e
      | .ok more => .ok (tr.map (fun t => (r, encode n t.1 t.2.1, t.2.2)) ++ more)

structure Fitted where
  tokDict : List (Int × Nat)              -- _token_dictionary_
  invDict : List (Nat × Int)              -- _inverse_token_dictionary_
  ws : List Nat                           -- _window_sizes (n + 1 entries)
  mask : List Bool                        -- _column_is_kept
  colLabel : List ((Int × Int) × Nat)     -- column_label_dictionary_
  train : Matrix
  deriving Repr

/-- number of columns of the base matrix: `max(1, n²)` (the `(0, 0, 0.0)` entry of every row
needs column 0 even when the vocabulary is empty) -/
def width (n : Nat) : Nat := max 1 (n * n)

/-- base matrix of fit / transform: `n_unique_tokens = len(window_sizes) - 1` in the column id
(:128), explicit shape `(len(token_sequences), max(1, len(token_dictionary)²))` -/
def baseMatrix (tokDict : List (Int × Nat)) (ws : List Nat) (κ : Nat → Rat) (X : List (List Int)) :
    Except Err Matrix :=
  let seqs := X.map (reindex tokDict)
  match cooRows ws κ (ws.length - 1) 0 seqs with
  | .error e => .error e
  | .ok es => assemble (some (seqs.length, width tokDict.length)) es

/-- `{(inv[raw // n], inv[raw % n]): i for i, raw in enumerate(kept_columns)}`; `none` = KeyError.
(`n = 0` leaves no column, so `// 0` is never evaluated.) -/
def labelsOf (inv : List (Nat × Int)) (n : Nat) : (i : Nat) → List Nat → Option (List ((Int × Int) × Nat))
  | _, [] => some []
  | i, raw :: rest =>
    match lookup inv (decode n raw).1 with
    | none => none
    | some a =>
      match lookup inv (decode n raw).2 with
      | none => none
      | some b =>
        match labelsOf inv n (i + 1) rest with
        | none => none
        | some more => some (((a, b), i) :: more)

def fit (tokDict : List (Int × Nat)) (invDict : List (Nat × Int)) (ws : List Nat) (κ : Nat → Rat)
    (X : List (List Int)) : Except Err Fitted :=
  match baseMatrix tokDict ws κ X with
  | .error e => .error e
  | .ok base =>
    let n := tokDict.length
    let mask := (List.range (width n)).map fun c => decide (0 < colSum base.entries c)   -- :411-412
    match labelsOf invDict n 0 (keptCols mask) with                                    -- :415-424
    | none => .error (.invalid "KeyError: _inverse_token_dictionary_")
    | some labels =>
      match selectCols mask base with                                                  -- :429
      | .error e => .error e
      | .ok train =>
        .ok { tokDict := tokDict, invDict := invDict, ws := ws, mask := mask,
              colLabel := fromPairs labels, train := train }

/-- `transform(X)` -/
def transform (m : Fitted) (κ : Nat → Rat) (X : List (List Int)) : Except Err Matrix :=
  match baseMatrix m.tokDict m.ws κ X with
  | .error e => .error e
  | .ok base => selectCols m.mask base

/-- what the theorems assume of a fitted model: `_window_sizes` has one entry per token plus the
mask entry, token indices are below the vocabulary size, the keep mask covers the base width -/
structure WF (m : Fitted) : Prop where
  wsLen : m.ws.length = m.tokDict.length + 1
  tokBound : ∀ t i, lookup m.tokDict t = some i → i < m.tokDict.length
  maskLen : m.mask.length = width m.tokDict.length

/-! ### the property's count -/

def sumRat : List Rat → Rat
  | [] => 0
  | x :: xs => x + sumRat xs

/-- `Σ_{d = 1 … w, k + d < len} [s_{k+d} = b] κ d` -/
def afterWeight (κ : Nat → Rat) (s : List Nat) (w b k : Nat) : Rat :=
  sumRat ((List.range w).map fun d => if s[k + (d + 1)]? = some b then κ (d + 1) else 0)

/-- summed kernel weight of `b` within the window after `a`:
`Σ_k [s_k = a] Σ_{d=1…w} [s_{k+d} = b] κ d` -/
def pairWeight (κ : Nat → Rat) (s : List Nat) (w a b : Nat) : Rat :=
  sumRat ((List.range s.length).map fun k => if s[k]? = some a then afterWeight κ s w b k else 0)

end VecModel.Skipgram
