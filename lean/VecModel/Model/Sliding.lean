import VecModel.Model.Basic
/-
  Model of vectorizers/transformers/sliding_windows.py: sliding_windows (:10-54, after the fix that
  skips the sample only when it is exactly 0..width-1), build_matrix_kernel (:57-103),
  SlidingWindowTransformer.fit's interpretation of window_sample (:357-394, after the fix of the
  integer case), SequentialDifferenceTransformer (:472-482); and of the matrix kernels of
  vectorizers/_window_kernels.py (:247-287: average, differences — after the fix of the count —,
  weight; user matrices).
  Values are exact rationals (`Rat`); the harness uses integer-valued inputs, exact in float64.
  A sequence of shape (L, d) is kept feature-major: `d` columns of length `L` (a 1-d sequence is
  d = 1); every operation of the code acts on axis 0, i.e. on each column alike, and the flattened
  kernel output `(K @ window).flatten()` lists, for every kernel row, the value for every column.
-/
namespace VecModel.Sliding

abbrev Col := List Rat
abbrev Mat := List (List Rat)

/-! ### integer helpers -/

/-- `ceil(x / s)` for a positive divisor (the float computation `int(np.ceil(x / s))`, exact for
the magnitudes in scope) -/
def ceilDiv (x : Int) (s : Nat) : Int :=
  if x ≤ 0 then -(((-x).toNat / s : Nat) : Int) else (((x.toNat + (s - 1)) / s : Nat) : Int)

/-- the documented window count `⌈(L − w + 1) / s⌉` for `L + 1 ≥ w` -/
def nWindows (L w s : Nat) : Nat := (L + 1 - w + (s - 1)) / s

/-- `n_rows` (:29-31): `ZeroDivisionError` for stride 0, `ValueError: negative dimensions` from
`np.empty` when the sequence is shorter than the window by a stride or more -/
def nRows (L w s : Nat) : Except Err Nat :=
  if s = 0 then .error (.invalid "division by zero")
  else
    let n := ceilDiv ((L : Int) - w + 1) s
    if n < 0 then .error (.invalid "negative dimensions") else .ok n.toNat

/-- `np.arange(a, b, m)`; `m = 0` raises, a negative step is not modelled -/
def arange (a b m : Int) : Except Err (List Int) :=
  if m = 0 then .error (.invalid "division by zero")
  else if m < 0 then .error (.invalid "negative step not modelled")
  else .ok ((List.range (ceilDiv (b - a) m.toNat).toNat).map fun (k : Nat) => a + (k : Int) * m)

/-! ### `window_sample` (:357-394) -/

inductive Sample where
  | all                          -- None
  | every (n : Int)              -- integer stride
  | pair (start stride : Int)    -- (start, stride)
  | idx (l : List Int)           -- index list / array
  deriving Repr

def sampleIdx (w : Nat) : Sample → Except Err (List Int)
  | .all => arange 0 w 1               -- :358 np.arange(window_width)
  | .every n => arange 0 w n           -- :364 np.arange(0, window_width, window_sample)
  | .pair a m => arange a w m          -- :370 np.arange(start, window_width, stride)
  | .idx l => .ok l                    -- :379 np.asarray(window_sample)

/-! ### padding (:22-26) -/

def padCol (p : Nat) (v : Rat) (c : Col) : Col :=
  if p > 0 then List.replicate p v ++ c ++ List.replicate p v else c

/-! ### windows and sampling -/

/-- Python slice `c[a:b]` (clamps silently) -/
def pySlice (c : Col) (a b : Nat) : Col := (c.drop a).take (b - a)

/-- one fancy-index read `win[j]`: negative indices wrap, anything else out of range is an
out-of-bounds read (IndexError under NUMBA_BOUNDSCHECK, garbage otherwise) -/
def readIdx (win : Col) (j : Int) : Except Err Rat :=
  let k : Int := if j < 0 then j + win.length else j
  if k < 0 then .error (.oob "window" j win.length)
  else rd "window" win k.toNat

/-- `win[sample]` -/
def gather (win : Col) (sample : List Int) : Except Err Col := sample.mapM (readIdx win)

/-- the sample may be skipped only when it is `0, 1, …, width-1` in order (:34-39) -/
def wholeWindow (sample : List Int) (w : Nat) : Bool :=
  sample.length == w && sample == (List.range w).map (fun (k : Nat) => (k : Int))

/-! ### matrix kernels (`build_matrix_kernel`) -/

def dot : List Rat → List Rat → Rat
  | a :: as, b :: bs => a * b + dot as bs
  | _, _ => 0

def eye (n : Nat) : Mat := (List.range n).map fun i => (List.replicate n (0 : Rat)).set i 1

/-- columns of a matrix with `n` columns -/
def transposeN (n : Nat) (m : Mat) : Except Err Mat :=
  (List.range n).mapM fun j => m.mapM fun row => rd "kernel row" row j

/-- `A @ B` for 2-d `A` (each row of length `B.length`) and 2-d `B` with `n` columns -/
def matMul (A B : Mat) (n : Nat) : Except Err Mat := do
  if A.any (fun r => r.length != B.length) then throw (.invalid "matmul shape")
  let Bt ← transposeN n B
  pure (A.map fun r => Bt.map fun c => dot r c)

/-- the running `result` of `build_matrix_kernel`: 2-d with a known column count, or 1-d -/
inductive KRes where
  | mat (rows : Mat) (ncols : Nat)
  | vec (v : List Rat)

def KRes.shape0 : KRes → Nat
  | .mat rows _ => rows.length
  | .vec v => v.length

inductive KSpec where
  | average
  | differences (start step stride : Nat)
  | weight (w : List Rat)
  | matrix (m : Mat)
  deriving Repr

/-- `n_differences` of `difference_kernel` (:252, after the fix): `⌈(n − start − step) / stride⌉` -/
def nDiff (n start step stride : Nat) : Int := ceilDiv ((n : Int) - start - step) stride

/-- checked write `row[j] = x` (plain numpy: IndexError when out of range) -/
def setChecked (row : List Rat) (j : Nat) (x : Rat) : Except Err (List Rat) :=
  if j < row.length then .ok (row.set j x) else .error (.oob "difference_kernel result" j row.length)

/-- `difference_kernel(n_cols, start, step, stride)` (:251-258) -/
def differenceKernel (n start step stride : Nat) : Except Err Mat :=
  if stride = 0 then .error (.invalid "division by zero")
  else
    let k := nDiff n start step stride
    if k < 0 then .error (.invalid "negative dimensions")
    else (List.range k.toNat).mapM fun i => do
      let r ← setChecked (List.replicate n 0) (start + i * stride) (-1)
      setChecked r (start + i * stride + step) 1

/-- `np.diag(weights)` -/
def diagAux (n : Nat) : Nat → List Rat → Mat
  | _, [] => []
  | i, x :: xs => ((List.replicate n (0 : Rat)).set i x) :: diagAux n (i + 1) xs

def diag (w : List Rat) : Mat := diagAux w.length 0 w

/-- the 2-d or 1-d array a named kernel produces for `n_cols = n` -/
def kernelArray (n : Nat) : KSpec → Except Err KRes
  | .average =>
    if n = 0 then .error (.invalid "division by zero")
    else .ok (.vec (List.replicate n (1 / (n : Rat))))                -- :248 np.full(n, 1.0 / n)
  | .differences a st sd => (differenceKernel n a st sd).map fun m => .mat m n
  | .weight w =>
    if w.length ≠ n then .error (.invalid "weight kernel shape")      -- :277-281
    else .ok (.mat (diag w) n)
  | .matrix m =>
    if m.any (fun r => r.length != n) then .error (.invalid "ndarray kernel shape")   -- :73-77
    else .ok (.mat m n)

/-- `K @ result` -/
def applyTo (K : KRes) (res : KRes) : Except Err KRes :=
  match K with
  | .mat A _ =>
    match res with
    | .mat B n => (matMul A B n).map fun m => .mat m n
    | .vec v =>
      if A.any (fun r => r.length != v.length) then .error (.invalid "matmul shape")
      else .ok (.vec (A.map fun r => dot r v))
  | .vec a =>
    match res with
    | .mat B n =>
      if a.length ≠ B.length then .error (.invalid "matmul shape")
      else (transposeN n B).map fun Bt => .vec (Bt.map fun c => dot a c)
    | .vec _ => .error (.invalid "0-d kernel")          -- 1-d @ 1-d is a scalar; `result[None, :]` fails

/-- `build_matrix_kernel(kernel_list, window_size, …)` (:57-92): the final 2-d matrix -/
def buildKernel (ks : List KSpec) (k : Nat) : Except Err Mat := do
  let res ← ks.foldlM (fun (res : KRes) spec => do
      let K ← kernelArray res.shape0 spec
      applyTo K res) (KRes.mat (eye k) k)
  match res with
  | .mat rows _ => pure rows
  | .vec v => pure [v]                                   -- :88-89 result[None, :]

/-- `_kernel_func(data)` (:98-100): `(K @ data).flatten()`; `data` is the sampled window, given by
its columns.  numba's `np.dot` raises on incompatible sizes. -/
def applyKernel (K : Mat) (winCols : List Col) : Except Err (List Rat) :=
  if K.any (fun r => winCols.any fun c => r.length != c.length) then .error (.invalid "np.dot sizes")
  else .ok (K.flatMap fun r => winCols.map fun c => dot r c)

/-! ### `sliding_windows` (:10-54) with the `np.empty` buffer as possibly-unwritten cells -/

abbrev Buf := List (List (Option Rat))

/-- `result[i] = row`: row index checked, the row must have the buffer's width -/
def writeRow (buf : Buf) (ncols i : Nat) (row : List Rat) : Except Err Buf :=
  if i < buf.length then
    if row.length = ncols then .ok (buf.set i (row.map some))
    else .error (.invalid "cannot assign row of different size")
  else .error (.oob "result" i buf.length)

/-- row `i`: the kernel applied to (the sampled entries of) `sequence[i*stride : i*stride+width]` -/
def windowRow (cols : List Col) (w s : Nat) (sample : List Int) (K : Mat) (i : Nat) :
    Except Err (List Rat) := do
  let wins := cols.map fun c => pySlice c (i * s) (i * s + w)
  if wholeWindow sample w then applyKernel K wins
  else do
    let sampled ← wins.mapM fun win => gather win sample
    applyKernel K sampled

def fillLoop (f : Nat → Except Err (List Rat)) (ncols : Nat) :
    (fuel i : Nat) → Buf → Except Err Buf
  | 0, _, buf => .ok buf
  | fuel + 1, i, buf => do
    let row ← f i
    let buf' ← writeRow buf ncols i row
    fillLoop f ncols fuel (i + 1) buf'

/-- `sliding_windows(sequence, width, stride, sample, kernel, kernel_output_size, …, pad_width,
pad_value)`; `cols` are the columns of the sequence, `L` its length (`shape[0]`) -/
def slidingWindows (cols : List Col) (L w s : Nat) (sample : List Int) (K : Mat) (ncols : Nat)
    (p : Nat) (v : Rat) : Except Err Buf := do
  let cols' := cols.map (padCol p v)
  let L' := if p > 0 then 2 * p + L else L
  let n ← nRows L' w s
  fillLoop (windowRow cols' w s sample K) ncols n 0 (List.replicate n (List.replicate ncols none))

/-- `SlidingWindowTransformer(...).fit(X).transform([sequence])[0]`: sample interpretation, kernel
matrix for `window_sample_.shape[0]` columns, `kernel_output_size_ = rows × d` -/
def transformer (cols : List Col) (L w s : Nat) (sample : Sample) (ks : List KSpec)
    (p : Nat) (v : Rat) : Except Err Buf := do
  let idx ← sampleIdx w sample
  let K ← buildKernel ks idx.length
  slidingWindows cols L w s idx K (K.length * cols.length) p v

/-- `SequentialDifferenceTransformer(stride)` (:472-482) -/
def seqDiff (cols : List Col) (L stride : Nat) : Except Err Buf :=
  transformer cols L (stride + 1) 1 .all [.differences 0 stride stride] 0 0

end VecModel.Sliding
