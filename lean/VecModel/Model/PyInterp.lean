import VecModel.Model.Basic
/-
  A small interpreter for the restricted Python subset in which the library's index-heavy njit
  kernels are written (DESIGN §2.6, "generated twins").  `tools/py2lean.py` turns the *current*
  source of a whitelisted kernel in /repo into a value of `Stmt`/`Expr` (file
  `lean/Gen/Kernels.lean`, regenerated on every run); `callFn` below gives it Python-level
  semantics with checked array accesses (IndexError → `Err.oob`, use of an unassigned variable →
  `Err.unbound`).  The driver then compares the regenerated twin with the hand-written model on an
  exhaustive small scope, inside Lean, with no numba involved.

  The interpreter is `partial` (driver-only code, nothing is proved about it); it is validated
  against CPython/numba by the Python-vs-twin sample in the harness.  Integers are unbounded,
  floats are exact rationals, arrays/lists have value semantics with copy-back of mutable
  arguments after a call (the kernels never alias two names to one array).
-/
namespace VecModel.Py

inductive Val where
  | int (i : Int)
  | rat (q : Rat)
  | bool (b : Bool)
  | none
  | str (s : String)
  | tuple (vs : List Val)
  | list (vs : List Val)                       -- Python lists and 1-d numpy arrays
  | dict (kv : List (Val × Val))
  | record (fields : List (String × Val))      -- namedtuple
  deriving Repr, Inhabited

partial def Val.beq : Val → Val → Bool
  | .int a, .int b => a == b
  | .rat a, .rat b => a == b
  | .int a, .rat b => (a : Rat) == b
  | .rat a, .int b => a == (b : Rat)
  | .bool a, .bool b => a == b
  | .none, .none => true
  | .str a, .str b => a == b
  | .tuple a, .tuple b => a.length == b.length && (a.zip b).all fun p => Val.beq p.1 p.2
  | .list a, .list b => a.length == b.length && (a.zip b).all fun p => Val.beq p.1 p.2
  | .dict a, .dict b => a.length == b.length &&
      (a.zip b).all fun p => Val.beq p.1.1 p.2.1 && Val.beq p.1.2 p.2.2
  | .record a, .record b => a.length == b.length &&
      (a.zip b).all fun p => p.1.1 == p.2.1 && Val.beq p.1.2 p.2.2
  | _, _ => false

instance : BEq Val := ⟨Val.beq⟩

inductive BinOp where
  | add | sub | mul | div | floordiv | mod | lshift | rshift | bitand | bitor | bitxor
  deriving Repr, Inhabited

inductive CmpOp where
  | eq | ne | lt | le | gt | ge | in_ | notin
  deriving Repr, Inhabited

inductive Expr where
  | const (v : Val)
  | name (x : String)
  | bin (op : BinOp) (a b : Expr)
  | neg (a : Expr)
  | not_ (a : Expr)
  | and_ (a b : Expr)
  | or_ (a b : Expr)
  | cmp (op : CmpOp) (a b : Expr)
  | index (a i : Expr)
  | slice (a : Expr) (lo hi : Option Expr)
  | attr (a : Expr) (f : String)
  | tuple (es : List Expr)
  | listLit (es : List Expr)
  | call (f : String) (args : List Expr)
  | mcall (recv : Expr) (meth : String) (args : List Expr)
  | ifExp (c a b : Expr)
  | listComp (elt : Expr) (targets : List String) (iter : Expr)
  deriving Repr, Inhabited

inductive Stmt where
  | assign (target : Expr) (e : Expr)
  | augAssign (target : Expr) (op : BinOp) (e : Expr)
  | exprStmt (e : Expr)
  | if_ (c : Expr) (t e : List Stmt)
  | while_ (c : Expr) (body : List Stmt)
  | forRange (v : String) (args : List Expr) (body : List Stmt)
  | forIn (targets : List String) (enumerate : Bool) (iter : Expr) (body : List Stmt)
  | ret (e : Option Expr)
  | break_
  | continue_
  | pass
  deriving Repr, Inhabited

structure FnDef where
  name : String
  params : List String
  defaults : List (String × Val) := []
  body : List Stmt
  deriving Repr, Inhabited

abbrev Env := List (String × Val)

/-- a translated module: functions, namedtuple constructors, module-level constants -/
structure Prog where
  fns : List FnDef
  records : List (String × List String) := []
  globals : Env := []
  deriving Repr, Inhabited

inductive Ctl where
  | normal | brk | cont | ret (v : Val)
  deriving Inhabited

abbrev M := Except Err

/-- an idiom the interpreter does not model: the twin is *unavailable* for this kernel (never a
violation).  Genuine Python run-time errors (ZeroDivisionError, KeyError, ValueError …) are plain
`.invalid`; IndexError / UnboundLocalError are `.oob` / `.unbound`. -/
def unsupported (msg : String) : Err := .invalid ("unsupported: " ++ msg)

def _root_.VecModel.Err.isUnsupported : Err → Bool
  | .invalid m => m.startsWith "unsupported: "
  | _ => false

def lookup (env : Env) (x : String) : M Val :=
  match env.find? (·.1 == x) with
  | some p => .ok p.2
  | none => .error (.unbound x)

def bind (env : Env) (x : String) (v : Val) : Env := (x, v) :: env.filter (·.1 != x)

def truthy : Val → Bool
  | .bool b => b
  | .int i => i != 0
  | .rat q => q != 0
  | .none => false
  | .str s => !s.isEmpty
  | .tuple vs | .list vs => !vs.isEmpty
  | .dict kv => !kv.isEmpty
  | .record _ => true

def asRat : Val → M Rat
  | .int i => .ok i
  | .rat q => .ok q
  | .bool b => .ok (if b then 1 else 0)
  | v => .error (.invalid s!"number expected, got {repr v}")

def asInt : Val → M Int
  | .int i => .ok i
  | .bool b => .ok (if b then 1 else 0)
  | .rat q => if q.den == 1 then .ok q.num else .error (.invalid s!"integer expected, got {q}")
  | v => .error (.invalid s!"integer expected, got {repr v}")

def isIntLike : Val → Bool
  | .int _ | .bool _ => true
  | _ => false

def arith (op : BinOp) (a b : Val) : M Val := do
  match op, a, b with
  | .add, .str x, .str y => return .str (x ++ y)
  | .add, .list x, .list y => return .list (x ++ y)
  | .add, .tuple x, .tuple y => return .tuple (x ++ y)
  | .mul, .list x, n => do
    let k ← asInt n
    return .list ((List.replicate k.toNat x).flatten)
  | .div, .list x, d => do            -- numpy: array / scalar
    let q ← asRat d
    if q == 0 then throw (.invalid "division by zero")
    let ys ← x.mapM fun v => do let r ← asRat v; pure (Val.rat (r / q))
    return .list ys
  | _, .list _, _ | _, _, .list _ | _, .tuple _, _ | _, _, .tuple _ | _, .dict _, _ | _, _, .dict _
  | _, .record _, _ | _, _, .record _ =>
    throw (unsupported "arithmetic on containers (numpy broadcasting) beyond list+list, list*int, array/scalar")
  | _, _, _ =>
    if isIntLike a && isIntLike b then
      let x ← asInt a
      let y ← asInt b
      match op with
      | .add => return .int (x + y)
      | .sub => return .int (x - y)
      | .mul => return .int (x * y)
      | .div => if y == 0 then throw (.invalid "division by zero") else return .rat (mkRat x y.natAbs * (if y < 0 then -1 else 1))
      | .floordiv => if y == 0 then throw (.invalid "division by zero") else return .int (Int.fdiv x y)
      | .mod => if y == 0 then throw (.invalid "modulo by zero") else return .int (Int.fmod x y)
      | .lshift => return .int (x * (2 ^ y.toNat))
      | .rshift => return .int (Int.fdiv x (2 ^ y.toNat))
      | .bitand | .bitor | .bitxor =>
        if x < 0 || y < 0 then throw (unsupported "bit operation on a negative integer")
        else
          let (a, b) := (x.toNat, y.toNat)
          match op with
          | .bitand => return .int (a &&& b : Nat)
          | .bitor => return .int (a ||| b : Nat)
          | _ => return .int (a ^^^ b : Nat)
    else
      let x ← asRat a
      let y ← asRat b
      match op with
      | .add => return .rat (x + y)
      | .sub => return .rat (x - y)
      | .mul => return .rat (x * y)
      | .div => if y == 0 then throw (.invalid "division by zero") else return .rat (x / y)
      | .floordiv => if y == 0 then throw (.invalid "division by zero") else return .rat ((x / y).floor)
      | _ => throw (unsupported "bit/mod operation on non-integers")

partial def valLt (a b : Val) : M Bool := do
  match a, b with
  | .tuple x, .tuple y =>
    match x, y with
    | [], [] => return false
    | [], _ => return true
    | _, [] => return false
    | p :: ps, q :: qs => if p == q then valLt (.tuple ps) (.tuple qs) else valLt p q
  | .str x, .str y => return x < y
  | _, _ => return (← asRat a) < (← asRat b)

def compare (op : CmpOp) (a b : Val) : M Bool := do
  match op with
  | .eq => return a == b
  | .ne => return !(a == b)
  | .lt => valLt a b
  | .gt => valLt b a
  | .le => return (a == b) || (← valLt a b)
  | .ge => return (a == b) || (← valLt b a)
  | .in_ | .notin =>
    let r ← match b with
      | .dict kv => pure (kv.any (·.1 == a))
      | .list vs | .tuple vs => pure (vs.any (· == a))
      | _ => throw (unsupported "`in` on this container")
    return if op matches .in_ then r else !r

/-- normalise a possibly negative Python index; `none` when out of range -/
def normIndex (len : Nat) (i : Int) : Option Nat :=
  let j := if i < 0 then i + len else i
  if 0 ≤ j ∧ j < len then some j.toNat else none

partial def getIndex (name : String) (a : Val) (i : Val) : M Val := do
  match a, i with
  | .list xs, .list idx => do          -- numpy fancy indexing a[perm] / boolean mask a[flag]
    if !idx.isEmpty && idx.all (fun v => match v with | .bool _ => true | _ => false) then
      if idx.length != xs.length then throw (.invalid s!"boolean mask of length {idx.length} on {name} of length {xs.length}")
      else return .list ((xs.zip idx).filterMap fun p => match p.2 with | .bool true => some p.1 | _ => none)
    else
      let vs ← idx.mapM fun k => getIndex name a k
      return .list vs
  | _, _ =>
  match a with
  | .list vs | .tuple vs =>
    let k ← asInt i
    match normIndex vs.length k with
    | some j => match vs[j]? with
      | some v => return v
      | none => throw (.oob name k vs.length)
    | none => throw (.oob name k vs.length)
  | .dict kv =>
    match kv.find? (·.1 == i) with
    | some p => return p.2
    | none => throw (.invalid s!"KeyError {repr i}")
  | .str s =>
    let k ← asInt i
    match normIndex s.length k with
    | some j => return .str (String.singleton (s.toList.getD j ' '))
    | none => throw (.oob name k s.length)
  | _ => throw (unsupported s!"cannot index {name}")

def sliceBounds (len : Nat) (lo hi : Option Int) : Nat × Nat :=
  let clamp (i : Int) : Nat :=
    let j := if i < 0 then i + len else i
    if j < 0 then 0 else if j > len then len else j.toNat
  let l := match lo with | some i => clamp i | none => 0
  let h := match hi with | some i => clamp i | none => len
  (l, if h < l then l else h)

def getSlice (a : Val) (lo hi : Option Int) : M Val := do
  match a with
  | .list vs => let (l, h) := sliceBounds vs.length lo hi; return .list ((vs.drop l).take (h - l))
  | .tuple vs => let (l, h) := sliceBounds vs.length lo hi; return .tuple ((vs.drop l).take (h - l))
  | .str s => let (l, h) := sliceBounds s.length lo hi; return .str (String.ofList ((s.toList.drop l).take (h - l)))
  | _ => throw (unsupported "cannot slice")

def setIndex (name : String) (a : Val) (i : Val) (v : Val) : M Val := do
  match a with
  | .list vs =>
    let k ← asInt i
    match normIndex vs.length k with
    | some j => return .list (vs.set j v)
    | none => throw (.oob name k vs.length)
  | .dict kv =>
    if kv.any (·.1 == i) then return .dict (kv.map fun p => if p.1 == i then (p.1, v) else p)
    else return .dict (kv ++ [(i, v)])
  | _ => throw (unsupported s!"cannot assign into {name}")

/-- `a[lo:hi] = v` (numpy: same length, or broadcast of a scalar) -/
def setSlice (name : String) (a : Val) (lo hi : Option Int) (v : Val) : M Val := do
  match a with
  | .list vs =>
    let (l, h) := sliceBounds vs.length lo hi
    let n := h - l
    let src ← match v with
      | .list ws => if ws.length == n then pure ws
                    else throw (.invalid s!"could not broadcast {ws.length} values into slice of {n} of {name}")
      | s => pure (List.replicate n s)
    return .list (vs.take l ++ src ++ vs.drop h)
  | _ => throw (unsupported s!"cannot slice-assign into {name}")

def exprName : Expr → String
  | .name x => x
  | .attr a f => exprName a ++ "." ++ f
  | .index a _ => exprName a
  | _ => "<expr>"

def stableSortIdx (keys : List Val) : M (List Nat) := do
  -- insertion sort on (key, position): stable; keys are numbers
  let ks ← keys.mapM asRat
  let idx := (List.range ks.length).zip ks
  let sorted := idx.mergeSort (fun a b => a.2 ≤ b.2)
  return sorted.map (·.1)

/-- stable insertion of `x` after every element that is not greater (Python's `<` on numbers, strings, tuples) -/
partial def insertSorted (x : Val) : List Val → M (List Val)
  | [] => pure [x]
  | y :: ys => do
    if ← valLt x y then pure (x :: y :: ys) else pure (y :: (← insertSorted x ys))

/-- `list.sort()` / `np.sort`: numbers through the stable merge sort, anything else (tuples, strings) through a
stable insertion sort on Python's ordering -/
def sortVals (xs : List Val) : M (List Val) := do
  if xs.all (fun v => match v with | .int _ | .rat _ | .bool _ => true | _ => false) then
    let idx ← stableSortIdx xs
    pure (idx.filterMap fun i => xs[i]?)
  else xs.foldlM (fun acc x => insertSorted x acc) []

/-- `np.zeros(n)` / `np.empty(n)`: a negative size is a ValueError -/
def allocSize (n : Val) : M Nat := do
  if let .tuple _ := n then throw (unsupported "multi-dimensional allocation")
  let k ← asInt n
  if k < 0 then throw (.invalid "ValueError: negative dimensions are not allowed") else pure k.toNat

def searchsortedLeft (a : List Val) (v : Val) : M Nat := do
  let x ← asRat v
  let xs ← a.mapM asRat
  return (xs.takeWhile (· < x)).length

mutual

partial def evalExpr (P : Prog) (env : Env) : Expr → M (Val × Env)
  | .const v => pure (v, env)
  | .name x => do pure (← lookup env x, env)
  | .bin op a b => do
    let (x, env) ← evalExpr P env a
    let (y, env) ← evalExpr P env b
    pure (← arith op x y, env)
  | .neg a => do
    let (x, env) ← evalExpr P env a
    match x with
    | .list xs => do
      let ys ← xs.mapM fun v => arith .sub (.int 0) v
      pure (.list ys, env)
    | _ => pure (← arith .sub (.int 0) x, env)
  | .not_ a => do
    let (x, env) ← evalExpr P env a
    pure (.bool (!truthy x), env)
  | .and_ a b => do
    let (x, env) ← evalExpr P env a
    if truthy x then evalExpr P env b else pure (x, env)
  | .or_ a b => do
    let (x, env) ← evalExpr P env a
    if truthy x then pure (x, env) else evalExpr P env b
  | .cmp op a b => do
    let (x, env) ← evalExpr P env a
    let (y, env) ← evalExpr P env b
    match op, x, y with
    | .in_, _, _ | .notin, _, _ => pure (.bool (← compare op x y), env)
    | _, .list xs, .list ys =>          -- numpy arrays compare elementwise
      if xs.length != ys.length then throw (.invalid "elementwise comparison of arrays of different length")
      else do
        let bs ← (xs.zip ys).mapM fun p => do pure (Val.bool (← compare op p.1 p.2))
        pure (.list bs, env)
    | _, _, _ => pure (.bool (← compare op x y), env)
  | .index a i => do
    let (x, env) ← evalExpr P env a
    let (k, env) ← evalExpr P env i
    pure (← getIndex (exprName a) x k, env)
  | .slice a lo hi => do
    let (x, env) ← evalExpr P env a
    let (l, env) ← evalOpt P env lo
    let (h, env) ← evalOpt P env hi
    pure (← getSlice x l h, env)
  | .attr a f => do
    let (x, env) ← evalExpr P env a
    match x, f with
    | .record fs, _ =>
      match fs.find? (·.1 == f) with
      | some p => pure (p.2, env)
      | none => throw (.invalid s!"no field {f}")
    | .list vs, "shape" => pure (.tuple [.int vs.length], env)
    | .list vs, "size" => pure (.int vs.length, env)
    | _, _ => throw (unsupported s!"attribute {f}")
  | .tuple es => do
    let (vs, env) ← evalList P env es
    pure (.tuple vs, env)
  | .listLit es => do
    let (vs, env) ← evalList P env es
    pure (.list vs, env)
  | .ifExp c a b => do
    let (x, env) ← evalExpr P env c
    if truthy x then evalExpr P env a else evalExpr P env b
  | .listComp elt targets iter => do
    let (it, env) ← evalExpr P env iter
    let items ← match it with
      | .list vs | .tuple vs => pure vs
      | .dict kv => pure (kv.map (·.1))
      | _ => throw (unsupported "cannot iterate in comprehension")
    let mut out : List Val := []
    let mut env' := env
    for v in items do
      env' ← match targets, v with
        | [x], v => pure (bind env' x v)
        | xs, .tuple vs =>
          if xs.length == vs.length then pure ((xs.zip vs).foldl (fun e p => bind e p.1 p.2) env')
          else throw (.invalid "comprehension unpacking")
        | _, _ => throw (.invalid "comprehension unpacking")
      let (r, e2) ← evalExpr P env' elt
      env' := e2
      out := out ++ [r]
    pure (.list out, env)
  | .mcall recv meth args => do
    let (vs, env) ← evalList P env args
    let (r, env) ← evalExpr P env recv
    match meth, r, vs with
    | "append", .list xs, [v] => do
      let env ← assignTo P env recv (.list (xs ++ [v]))
      pure (.none, env)
    | "extend", .list xs, [.list ys] => do
      let env ← assignTo P env recv (.list (xs ++ ys))
      pure (.none, env)
    | "pop", .dict kv, [k] =>
      match kv.find? (·.1 == k) with
      | some p => do
        let env ← assignTo P env recv (.dict (kv.filter (fun q => !(q.1 == k))))
        pure (p.2, env)
      | none => throw (.invalid s!"KeyError {repr k}")
    | "pop", .list xs, [] =>
      match xs.getLast? with
      | some v => do
        let env ← assignTo P env recv (.list xs.dropLast)
        pure (v, env)
      | none => throw (.invalid "pop from empty list")
    | "add", .list xs, [v] => do     -- sets are modelled as duplicate-free lists
      let env ← assignTo P env recv (.list (if xs.any (· == v) then xs else xs ++ [v]))
      pure (.none, env)
    | "items", .dict kv, [] => pure (.list (kv.map fun p => .tuple [p.1, p.2]), env)
    | "keys", .dict kv, [] => pure (.list (kv.map (·.1)), env)
    | "values", .dict kv, [] => pure (.list (kv.map (·.2)), env)
    | "sum", .list xs, [] => do
      let s ← xs.foldlM (fun acc v => arith .add acc v) (.int 0)
      pure (s, env)
    | "astype", v, _ => pure (v, env)
    | "copy", v, [] => pure (v, env)
    | "sort", .list xs, [] => do
      let env ← assignTo P env recv (.list (← sortVals xs))
      pure (.none, env)
    | _, _, _ => throw (unsupported s!"method {meth}")
  | .call f args => do
    let (vs, env) ← evalList P env args
    match f, vs with
    | "len", [.list xs] | "len", [.tuple xs] => pure (.int xs.length, env)
    | "len", [.dict kv] => pure (.int kv.length, env)
    | "len", [.str s] => pure (.int s.length, env)
    | "abs", [v] | "np.abs", [v] => do
      if isIntLike v then pure (.int (← asInt v).natAbs, env)
      else let q ← asRat v; pure (.rat (if q < 0 then -q else q), env)
    | "min", [a, b] => do pure (if ← valLt b a then b else a, env)
    | "max", [a, b] => do pure (if ← valLt a b then b else a, env)
    | "int", [v] | "np.int64", [v] | "np.int32", [v] | "np.uint32", [v] => do
      match v with
      | .rat q => pure (.int (if q < 0 then -((-q).floor) else q.floor), env)
      | _ => pure (.int (← asInt v), env)
    | "float", [v] | "np.float32", [v] | "np.float64", [v] => pure (v, env)
    | "bool", [v] => pure (.bool (truthy v), env)
    | "divmod", [a, b] => do
      let q ← arith .floordiv a b
      let r ← arith .mod a b
      pure (.tuple [q, r], env)
    | "ord", [.str c] =>
      match c.toList with
      | [ch] => pure (.int ch.toNat, env)
      | _ => throw (.invalid "ord() expects one character")
    | "chr", [v] => do
      let k ← asInt v
      pure (.str (String.singleton (Char.ofNat k.toNat)), env)
    | "np.zeros", (n :: _) => do
      pure (.list (List.replicate (← allocSize n) (.int 0)), env)
    | "np.empty", (n :: _) => do
      pure (.list (List.replicate (← allocSize n) .none), env)       -- uninitialised cells
    | "np.ones", (n :: _) => do
      pure (.list (List.replicate (← allocSize n) (.bool true)), env)   -- only used as a boolean seed (arr_unique)
    | "np.array", [.list xs] | "list", [.list xs] => pure (.list xs, env)
    | "np.concatenate", [.tuple parts] => do
      let ls ← parts.mapM fun p => match p with
        | .list xs => pure xs
        | _ => throw (unsupported "np.concatenate of a non-array")
      pure (.list ls.flatten, env)
    | "np.flipud", [.list xs] => pure (.list xs.reverse, env)
    | "np.sort", [.list xs] => do
      let idx ← stableSortIdx xs
      pure (.list (idx.filterMap fun i => xs[i]?), env)
    | "np.sum", [.list xs] | "sum", [.list xs] => do
      let s ← xs.foldlM (fun acc v => arith .add acc v) (.int 0)
      pure (s, env)
    | "np.argsort", [.list xs] => do
      let idx ← stableSortIdx xs
      pure (.list (idx.map fun i => .int (i : Nat)), env)
    | "np.searchsorted", [.list xs, v] => do pure (.int (← searchsortedLeft xs v), env)
    | "np.round", [v] => do
      let q ← asRat v
      -- round half to even, as numpy
      let fl := q.floor
      let r := q - fl
      let res := if r < 1/2 then fl else if r > 1/2 then fl + 1 else (if fl % 2 == 0 then fl else fl + 1)
      pure (.int res, env)
    | "np.ceil", [v] => do
      let q ← asRat v
      pure (.int (-((-q).floor)), env)
    | "np.floor", [v] => do
      let q ← asRat v
      pure (.int q.floor, env)
    | "np.cumsum", [.list xs] => do
      let (_, out) ← xs.foldlM (fun (acc : Val × List Val) v => do
        let s ← arith .add acc.1 v
        pure (s, acc.2 ++ [s])) (.int 0, [])
      pure (.list out, env)
    | "np.append", [.list xs, .list ys] => pure (.list (xs ++ ys), env)
    | "raise", _ => throw (.invalid "exception raised by the kernel")      -- a `raise` statement (py2lean)
    | "set", [] => pure (.list [], env)
    | "set", [.list xs] => pure (.list xs.eraseDups, env)
    | "take", [.list xs, .list idx] => do     -- fancy indexing a[perm]
      let vs ← idx.mapM fun i => getIndex "take" (.list xs) i
      pure (.list vs, env)
    | _, _ =>
      -- a parameter holding a function (`hash_function=identity_hash`) is called through its name
      let f := match env.find? (·.1 == f) with
        | some (_, .str s) => if s.startsWith "<fn " then ((s.drop 4).dropEnd 1).toString else f
        | _ => f
      match P.fns.find? (·.name == f) with
      | some fd => do
        let (ret, callee) ← callFnEnv P fd vs
        -- copy-back of mutable arguments passed by name (reference semantics without aliasing)
        let env := (fd.params.zip args).foldl (fun (env : Env) pa =>
          match pa.2, callee.find? (·.1 == pa.1) with
          | .name x, some (_, v@(.list _)) | .name x, some (_, v@(.dict _)) | .name x, some (_, v@(.record _)) =>
            bind env x v
          | _, _ => env) env
        pure (ret, env)
      | none =>
        match P.records.find? (·.1 == f) with
        | some (_, fields) =>
          if fields.length == vs.length then pure (.record (fields.zip vs), env)
          else throw (.invalid s!"{f}: expected {fields.length} fields")
        | none => throw (unsupported s!"unknown function {f}/{vs.length}")

partial def evalOpt (P : Prog) (env : Env) : Option Expr → M (Option Int × Env)
  | none => pure (none, env)
  | some e => do
    let (v, env) ← evalExpr P env e
    pure (some (← asInt v), env)

partial def evalList (P : Prog) (env : Env) : List Expr → M (List Val × Env)
  | [] => pure ([], env)
  | e :: es => do
    let (v, env) ← evalExpr P env e
    let (vs, env) ← evalList P env es
    pure (v :: vs, env)

/-- store `v` into the place denoted by a target expression -/
partial def assignTo (P : Prog) (env : Env) : Expr → Val → M Env
  | .name x, v => pure (bind env x v)
  | .index a i, v => do
    let (cur, env) ← evalExpr P env a
    let (k, env) ← evalExpr P env i
    let upd ← setIndex (exprName a) cur k v
    assignTo P env a upd
  | .slice a lo hi, v => do
    let (cur, env) ← evalExpr P env a
    let (l, env) ← evalOpt P env lo
    let (h, env) ← evalOpt P env hi
    let upd ← setSlice (exprName a) cur l h v
    assignTo P env a upd
  | .attr a f, v => do
    let (cur, env) ← evalExpr P env a
    match cur with
    | .record fs =>
      if fs.any (·.1 == f) then assignTo P env a (.record (fs.map fun p => if p.1 == f then (f, v) else p))
      else throw (.invalid s!"no field {f}")
    | _ => throw (unsupported s!"attribute assignment {f}")
  | .tuple ts, v => do
    match v with
    | .tuple vs | .list vs =>
      if vs.length != ts.length then throw (.invalid "unpacking length mismatch")
      else (ts.zip vs).foldlM (fun env tv => assignTo P env tv.1 tv.2) env
    | _ => throw (.invalid "cannot unpack")
  | _, _ => throw (unsupported "assignment target")

partial def execBlock (P : Prog) (env : Env) : List Stmt → M (Ctl × Env)
  | [] => pure (.normal, env)
  | s :: rest => do
    let (c, env) ← execStmt P env s
    match c with
    | .normal => execBlock P env rest
    | c => pure (c, env)

partial def loopOver (P : Prog) (env : Env) (bindItem : Env → Val → M Env)
    (body : List Stmt) : List Val → M (Ctl × Env)
  | [] => pure (.normal, env)
  | v :: vs => do
    let env ← bindItem env v
    let (c, env) ← execBlock P env body
    match c with
    | .brk => pure (.normal, env)
    | .ret r => pure (.ret r, env)
    | _ => loopOver P env bindItem body vs

partial def execStmt (P : Prog) (env : Env) : Stmt → M (Ctl × Env)
  | .assign t e => do
    let (v, env) ← evalExpr P env e
    pure (.normal, ← assignTo P env t v)
  | .augAssign t op e => do
    let (cur, env) ← evalExpr P env t
    let (v, env) ← evalExpr P env e
    let r ← arith op cur v
    pure (.normal, ← assignTo P env t r)
  | .exprStmt e => do
    let (_, env) ← evalExpr P env e
    pure (.normal, env)
  | .if_ c t e => do
    let (v, env) ← evalExpr P env c
    if truthy v then execBlock P env t else execBlock P env e
  | .while_ c body => do
    let (v, env) ← evalExpr P env c
    if truthy v then
      let (ctl, env) ← execBlock P env body
      match ctl with
      | .brk => pure (.normal, env)
      | .ret r => pure (.ret r, env)
      | _ => execStmt P env (.while_ c body)
    else pure (.normal, env)
  | .forRange x args body => do
    let (vs, env) ← evalList P env args
    let ns ← vs.mapM asInt
    let (lo, hi, step) ← match ns with
      | [h] => pure ((0 : Int), h, (1 : Int))
      | [l, h] => pure (l, h, (1 : Int))
      | [l, h, s] => pure (l, h, s)
      | _ => throw (unsupported "range arity")
    if step == 0 then throw (.invalid "range step 0")
    let count : Nat := if step > 0 then (if hi > lo then ((hi - lo + step - 1) / step).toNat else 0)
                       else (if hi < lo then ((lo - hi + (-step) - 1) / (-step)).toNat else 0)
    let items := (List.range count).map fun (k : Nat) => Val.int (lo + step * (k : Int))
    loopOver P env (fun env v => pure (bind env x v)) body items
  | .forIn targets enumerate iter body => do
    let (it, env) ← evalExpr P env iter
    let items ← match it with
      | .list vs | .tuple vs => pure vs
      | .dict kv => pure (kv.map (·.1))
      | .str s => pure (s.toList.map fun c => Val.str (String.singleton c))
      | _ => throw (unsupported "cannot iterate")
    let items := if enumerate then (List.range items.length).zip items |>.map fun p => Val.tuple [.int p.1, p.2]
                 else items
    let bindItem := fun (env : Env) (v : Val) =>
      match targets, v with
      | [x], v => pure (bind env x v)
      | xs, .tuple vs =>
        if xs.length == vs.length then pure ((xs.zip vs).foldl (fun env p => bind env p.1 p.2) env)
        else throw (.invalid "loop unpacking")
      | _, _ => throw (.invalid "loop unpacking")
    loopOver P env bindItem body items
  | .ret none => pure (.ret .none, env)
  | .ret (some e) => do
    let (v, env) ← evalExpr P env e
    pure (.ret v, env)
  | .break_ => pure (.brk, env)
  | .continue_ => pure (.cont, env)
  | .pass => pure (.normal, env)

/-- call a function: returns its result and its final local environment -/
partial def callFnEnv (P : Prog) (fd : FnDef) (args : List Val) : M (Val × Env) := do
  if args.length > fd.params.length then throw (.invalid s!"too many arguments to {fd.name}")
  let bound := fd.params.zip args
  let missing := fd.params.drop args.length
  let dflt ← missing.mapM fun p =>
    match fd.defaults.find? (·.1 == p) with
    | some d => pure (p, d.2)
    | none => throw (.invalid s!"missing argument {p} of {fd.name}")
  let env : Env := bound ++ dflt ++ P.globals
  let (c, env) ← execBlock P env fd.body
  match c with
  | .ret v => pure (v, env)
  | _ => pure (.none, env)

end

def callFn (P : Prog) (name : String) (args : List Val) : M (Val × Env) :=
  match P.fns.find? (·.name == name) with
  | some fd => callFnEnv P fd args
  | none => .error (unsupported s!"unknown function {name}")

end VecModel.Py
