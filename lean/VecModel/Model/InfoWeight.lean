import VecModel.Model.Analytic
/-
  Model of vectorizers/transformers/info_weight.py (after the `fix:` commits: the CSC copy is
  private, duplicates are summed, the supervised kernel skips empty classes).

    canonCSC                — `data.tocsc(); sort_indices(); sum_duplicates()` (:168-175): per column the
                              stored entries, duplicates summed, row indices sorted, explicit zeros kept
    searchsorted            — `np.searchsorted(count_indices, i)` (leftmost), as a binary search with
                              checked reads
    klExact                 — column_kl_divergence_exact_prior :10-37, as written: set membership,
                              binary search, `observed_zero_constant` branch
    klApprox, klSupervised  — :40-95
    informationWeight       — information_weight :120-187 (row-mass baseline / class-mass baseline)
    postprocess, fitWeights — InformationWeightTransformer.fit :250-290 (mean-normalise, clamp at 0, power)
    transform               — X @ diag(w) :308 (definition; scipy's product itself is external)

  Generic over `Analytic α`: `Float` in the driver, `ℝ` in the theorems.
-/
namespace VecModel.IW

/-- leftmost insertion point, `lo, hi = 0, n; while lo < hi: mid = (lo+hi)//2; if a[mid] < v: lo = mid+1 else: hi = mid` -/
def ssLoop (a : List Nat) (v : Nat) : (fuel lo hi : Nat) → Except Err Nat
  | 0, lo, hi => if lo < hi then .error (.cap "fuel") else .ok lo
  | fuel + 1, lo, hi =>
    if lo < hi then do
      let mid := (lo + hi) / 2
      let x ← rd "count_indices" a mid
      if x < v then ssLoop a v fuel (mid + 1) hi else ssLoop a v fuel lo mid
    else .ok lo

def searchsorted (a : List Nat) (v : Nat) : Except Err Nat := ssLoop a v a.length 0 a.length

section
variable {α : Type}

/-- a stored entry `(row, col, value)`; a matrix is its shape and its stored entries in storage
order (dense input: the non-zero cells; COO: the triples, duplicates allowed; CSR/CSC: the stored
cells incl. explicit zeros, any index order) -/
abbrev Entry (α : Type) := Nat × Nat × α

def validEntries (nrows ncols : Nat) (es : List (Entry α)) : Bool :=
  es.all (fun e => decide (e.1 < nrows) && decide (e.2.1 < ncols))

variable [Add α]

/-- insert `(r, v)` into a row-sorted column, adding to an existing entry of the same row -/
def insertAdd (r : Nat) (v : α) : List (Nat × α) → List (Nat × α)
  | [] => [(r, v)]
  | p :: t =>
    if r < p.1 then (r, v) :: p :: t
    else if r = p.1 then (p.1, p.2 + v) :: t
    else p :: insertAdd r v t

def canonCol (es : List (Nat × α)) : List (Nat × α) :=
  es.foldl (fun acc e => insertAdd e.1 e.2 acc) []

def colEntries (j : Nat) (es : List (Entry α)) : List (Nat × α) :=
  (es.filter (fun e => e.2.1 = j)).map (fun e => (e.1, e.2.2))

def canonCSC (ncols : Nat) (es : List (Entry α)) : List (List (Nat × α)) :=
  (List.range ncols).map (fun j => canonCol (colEntries j es))

variable [OfNat α 0]

/-- `np.squeeze(np.array(data.sum(axis=1)))` -/
def rowSums (nrows : Nat) (es : List (Entry α)) : List α :=
  (List.range nrows).map (fun i => fsum ((es.filter (fun e => e.1 = i)).map (fun e => e.2.2)))

variable [Sub α] [Mul α] [OfNat α 1] [Analytic α]
open Analytic

/-- `v / v.sum()` -/
def normaliseA (v : List α) : Except Err (List α) :=
  let t := fsum v
  v.mapM (fun x => div x t)

/-- class masses `baseline_counts[target == c].sum()` for `c < nclasses` -/
def classSums (nclasses : Nat) (target : List Nat) (rs : List α) : List α :=
  (List.range nclasses).map (fun c =>
    fsum (((List.zip target rs).filter (fun p => p.1 = c)).map (·.2)))

/-! ### the three column kernels -/

/-- `observed_norm`, `observed_zero_constant` -/
def zeroConst (data : List α) (s : α) : Except Err (α × α) := do
  let norm := fsum data + s
  let q ← div s norm
  let lq ← log q
  pure (norm, q * lq)

/-- body of `for i in range(baseline_probabilities.shape[0])` of the exact-prior kernel -/
def exactStep (idx : List Nat) (data base : List α) (s norm zc : α) (result : α) (i : Nat) :
    Except Err α :=
  if idx.contains i then do
    let k ← searchsorted idx i
    let c ← rd "count_data" data k
    let b ← rd "baseline_probabilities" base i
    let op ← div (c + s * b) norm
    if ltb 0 op then do
      let r ← div op b
      let l ← log r
      pure (result + op * l)
    else pure result
  else do
    let b ← rd "baseline_probabilities" base i
    pure (result + b * zc)

def exactLoop (idx : List Nat) (data base : List α) (s norm zc : α) :
    List Nat → α → Except Err α
  | [], result => .ok result
  | i :: rest, result => do
    let r ← exactStep idx data base s norm zc result i
    exactLoop idx data base s norm zc rest r

/-- column_kl_divergence_exact_prior :10-37 -/
def klExact (idx : List Nat) (data base : List α) (s : α) : Except Err α := do
  let nz ← zeroConst data s
  exactLoop idx data base s nz.1 nz.2 (List.range base.length) 0

def approxLoop (idx : List Nat) (data base : List α) (s norm : α) : List Nat → α → Except Err α
  | [], result => .ok result
  | i :: rest, result => do
    let r ← rd "count_indices" idx i
    let c ← rd "count_data" data i
    let b ← rd "baseline_probabilities" base r
    let op ← div (c + s * b) norm
    if ltb 0 op && ltb 0 b then do
      let q ← div op b
      let l ← log q
      approxLoop idx data base s norm rest (result + op * l)
    else approxLoop idx data base s norm rest result

/-- column_kl_divergence_approx_prior :40-68 -/
def klApprox (idx : List Nat) (data base : List α) (s : α) : Except Err α := do
  let nz ← zeroConst data s
  let mean ← div (fsum base) (ofNat base.length)
  if base.length < idx.length then .error (.invalid "more entries than rows") else
  let z := mean * nz.2 * ofNat (base.length - idx.length)
  approxLoop idx data base s nz.1 (List.range idx.length) ((0 : α) + z)

def setAdd (name : String) (l : List α) (k : Nat) (v : α) : Except Err (List α) :=
  match l[k]? with
  | some x => .ok (l.set k (x + v))
  | none => .error (.oob name k l.length)

def supObserve (idx : List Nat) (data : List α) (target : List Nat) :
    List Nat → List α → Except Err (List α)
  | [], obs => .ok obs
  | i :: rest, obs => do
    let r ← rd "count_indices" idx i
    let c ← rd "count_data" data i
    let label ← rd "target" target r
    let obs' ← setAdd "observed" obs label c
    supObserve idx data target rest obs'

def supSum (obs base : List α) : List Nat → α → Except Err α
  | [], result => .ok result
  | i :: rest, result => do
    let o ← rd "observed" obs i
    if ltb 0 o then do
      let b ← rd "baseline_probabilities" base i
      let q ← div o b
      let l ← log q
      supSum obs base rest (result + o * l)
    else supSum obs base rest result

/-- supervised_column_kl :71-95 (after the fix: classes with `observed == 0` are skipped) -/
def klSupervised (idx : List Nat) (data base : List α) (s : α) (target : List Nat) :
    Except Err α := do
  let obs0 ← supObserve idx data target (List.range idx.length) (base.map (fun _ => (0 : α)))
  let obs1 := List.zipWith (fun o b => o + s * b) obs0 base
  let obs ← normaliseA obs1
  supSum obs base (List.range obs.length) 0

/-! ### information_weight -/

inductive Kernel where
  | exact | approx
  deriving DecidableEq, Repr

def columnWeights (cols : List (List (Nat × α))) (f : List Nat → List α → Except Err α) :
    Except Err (List α) :=
  cols.mapM (fun col => f (col.map (·.1)) (col.map (·.2)))

/-- `information_weight(data, prior_strength, approximate_prior, target)`; `target = none` is the
unsupervised call. -/
def informationWeight (nrows ncols : Nat) (es : List (Entry α)) (s : α) (k : Kernel)
    (target : Option (List Nat)) : Except Err (List α) :=
  if !validEntries nrows ncols es then .error (.invalid "entry outside the shape") else
  let rs := rowSums nrows es
  let cols := canonCSC ncols es
  match target with
  | none => do
    let base ← normaliseA rs
    match k with
    | .exact => columnWeights cols (fun idx data => klExact idx data base s)
    | .approx => columnWeights cols (fun idx data => klApprox idx data base s)
  | some t =>
    if t.length ≠ nrows then .error (.invalid "target length") else do
    let ncls := (t.foldl max 0) + 1
    let base ← normaliseA (classSums ncls t rs)
    columnWeights cols (fun idx data => klSupervised idx data base s t)

/-! ### InformationWeightTransformer -/

/-- `w /= np.mean(w); w = np.maximum(w, 0); w = np.power(w, p)` -/
def postprocess (w : List α) (p : α) : Except Err (List α) := do
  let mean ← div (fsum w) (ofNat w.length)
  let w1 ← w.mapM (fun x => div x mean)
  let w2 := w1.map (fun x => if ltb x 0 then (0 : α) else x)
  w2.mapM (fun x => pow x p)

/-- `fit(X, y)`: `target = none` ↔ `y is None`; `sw` = supervision_weight, `p` = weight_power -/
def fitWeights (nrows ncols : Nat) (es : List (Entry α)) (s : α) (k : Kernel) (p sw : α)
    (target : Option (List Nat)) : Except Err (List α) := do
  let w ← informationWeight nrows ncols es s k none
  match target with
  | none => postprocess w p
  | some t =>
    let wu ← postprocess w (((1 : α) - sw) * p)
    let ws0 ← informationWeight nrows ncols es s k (some t)
    let ws ← postprocess ws0 (sw * p)
    pure (List.zipWith (· * ·) wu ws)

/-- `X @ diags(w)` on a dense row-major matrix -/
def transform (X : List (List α)) (w : List α) : Except Err (List (List α)) :=
  if X.all (fun row => row.length = w.length) then
    .ok (X.map (fun row => List.zipWith (· * ·) row w))
  else .error (.invalid "shape")

end

end VecModel.IW
