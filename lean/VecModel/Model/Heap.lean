import VecModel.Model.Basic
/-
  C13 — object-identity heap, temp-file system and call histories: the *glue* of the estimators
  that decides whether a call has side effects.
  * Heap: objects with identity (Python dicts as insertion-ordered association lists, numeric
    arrays as lists); commands that allocate, copy and mutate; every command declares which
    existing object it writes.
  * FS: a set of paths with mkdtemp / create / remove / rmtree and a fault (exception) that may
    strike before any step of a blocked pipeline.
  * Histories: a stateful `step : S → I → S × O` (a fitted estimator answering `transform`).
-/
namespace VecModel.Heap

-- object identities are natural numbers (plain `Nat`: an abbreviation would hide them from `omega`)

inductive Obj where
  | dict (kv : List (String × Int))
  | arr (xs : List Rat)
  deriving Repr, DecidableEq

structure Heap where
  objs : List (Nat × Obj)       -- most recent binding first
  next : Nat                    -- allocation counter (fresh ids are ≥ next)
  deriving Repr

def Heap.get (h : Heap) (i : Nat) : Option Obj := (h.objs.find? (·.1 == i)).map (·.2)

def Heap.set (h : Heap) (i : Nat) (o : Obj) : Heap := { h with objs := (i, o) :: h.objs }

def Heap.alloc (h : Heap) (o : Obj) : Heap × Nat :=
  ({ objs := (h.next, o) :: h.objs, next := h.next + 1 }, h.next)

/-- commands; `dst` of `copy` receives a *fresh* object (the id is chosen by the heap) and is
returned in a register, so programs refer to registers, not raw ids -/
inductive Cmd where
  | copy (src : Nat) (dstReg : Nat)           -- dstReg := fresh copy of the object in register src
  | alias (src : Nat) (dstReg : Nat)          -- dstReg := the same object (no copy)
  | delKey (reg : Nat) (k : String)           -- del d[k]   (if present)
  | setKeyLen (reg : Nat) (k : String)        -- d[k] = len(d)
  | divAll (reg : Nat) (c : Rat)              -- a /= c     (in place)
  | sortInPlace (reg : Nat)                   -- a.sort()   (in place; sort_indices / eliminate_zeros-like)
  deriving Repr

structure St where
  heap : Heap
  regs : List (Nat × Nat)        -- register file
  deriving Repr

def St.reg (s : St) (r : Nat) : Option Nat := (s.regs.find? (·.1 == r)).map (·.2)

def delKeyObj (k : String) : Obj → Obj
  | .dict kv => .dict (kv.filter (·.1 != k))
  | o => o
def setKeyLenObj (k : String) : Obj → Obj
  | .dict kv => .dict (kv.filter (·.1 != k) ++ [(k, ((kv.filter (·.1 != k)).length : Int))])
  | o => o
def divAllObj (c : Rat) : Obj → Obj
  | .arr xs => .arr (xs.map (· / c))
  | o => o
def sortObj : Obj → Obj
  | .arr xs => .arr (xs.mergeSort (· ≤ ·))
  | o => o

/-- mutate the object held in register `r` with `f` (no-op when the register is unbound) -/
def mutate (s : St) (r : Nat) (f : Obj → Obj) : St :=
  match s.reg r with
  | none => s
  | some i =>
    match s.heap.get i with
    | none => s
    | some o => { s with heap := s.heap.set i (f o) }

def exec (s : St) : Cmd → St
  | .copy src dst =>
    match s.reg src with
    | none => s
    | some i =>
      match s.heap.get i with
      | none => s
      | some o =>
        let (h', j) := s.heap.alloc o
        { heap := h', regs := (dst, j) :: s.regs }
  | .alias src dst =>
    match s.reg src with
    | none => s
    | some i => { s with regs := (dst, i) :: s.regs }
  | .delKey r k => mutate s r (delKeyObj k)
  | .setKeyLen r k => mutate s r (setKeyLenObj k)
  | .divAll r c => mutate s r (divAllObj c)
  | .sortInPlace r => mutate s r sortObj

def run (s : St) (prog : List Cmd) : St := prog.foldl exec s

/-- the register a command mutates through, if any -/
def Cmd.target : Cmd → Option Nat
  | .delKey r _ | .setKeyLen r _ | .divAll r _ | .sortInPlace r => some r
  | _ => none

/-- Static discipline of the repaired glue: every mutation goes through a register that was
bound by `copy` (a private object), never through a caller register or an alias of one; sources
of `copy`/`alias` are bound. `bound` = registers known to be bound, `priv` = registers known to
hold private copies. -/
def disciplined : List Nat → List Nat → List Cmd → Bool
  | _, _, [] => true
  | bound, priv, .copy src dst :: rest =>
    bound.contains src && disciplined (dst :: bound) (dst :: priv) rest
  | bound, priv, .alias src dst :: rest =>
    bound.contains src &&
      disciplined (dst :: bound) (if priv.contains src then dst :: priv else priv.filter (· != dst)) rest
  | bound, priv, .delKey r _ :: rest => priv.contains r && disciplined bound priv rest
  | bound, priv, .setKeyLen r _ :: rest => priv.contains r && disciplined bound priv rest
  | bound, priv, .divAll r _ :: rest => priv.contains r && disciplined bound priv rest
  | bound, priv, .sortInPlace r :: rest => priv.contains r && disciplined bound priv rest

/-- initial state: the caller's objects are the `n0` objects already on the heap, register 0
holds the object passed to the call -/
def callerState (objs : List Obj) (arg : Nat) : St :=
  { heap := { objs := (List.range objs.length).zip objs |>.reverse, next := objs.length },
    regs := [(0, arg)] }

/-! ### The glue programs (register 0 = the caller's object) -/

/-- `preprocess_*` masking after the repair: work on a copy of the dictionary passed in. -/
def maskProgFixed (mask : String) : List Cmd :=
  [.copy 0 1, .delKey 1 mask, .setKeyLen 1 mask]
/-- before the repair: the caller's dictionary itself was edited -/
def maskProgOld (mask : String) : List Cmd :=
  [.alias 0 1, .delKey 1 mask, .setKeyLen 1 mask]
/-- LOT list input: normalise a copy of each distribution (`row_distribution / row_sum`) -/
def normaliseProgFixed (c : Rat) : List Cmd := [.copy 0 1, .divAll 1 c]
def normaliseProgOld (c : Rat) : List Cmd := [.alias 0 1, .divAll 1 c]
/-- information_weight: `tocsc()` may return the caller's matrix; sort a copy -/
def sortProgFixed : List Cmd := [.copy 0 1, .sortInPlace 1]
def sortProgOld : List Cmd := [.alias 0 1, .sortInPlace 1]

/-! ### Temp-file system with faults -/

structure FS where
  paths : List String
  deriving Repr, DecidableEq

inductive FsOp where
  | mkdtemp (d : String) | create (p : String) | remove (p : String) | rmtree (d : String)
  | work                                   -- a computation step that touches no path
  deriving Repr

def isUnder (d p : String) : Bool := p == d || p.startsWith (d ++ "/")

def fsExec (fs : FS) : FsOp → FS
  | .mkdtemp d => { paths := d :: fs.paths }
  | .create p => { paths := p :: fs.paths }
  | .remove p => { paths := fs.paths.filter (· != p) }
  | .rmtree d => { paths := fs.paths.filter (fun p => !isUnder d p) }
  | .work => fs

/-- `try: body finally: cleanup` with an exception raised *before* step `fault` of the body
(`none` = no exception): the executed prefix of the body, then the whole cleanup. -/
def runTryFinally (body cleanup : List FsOp) (fault : Option Nat) (fs : FS) : FS :=
  let done := match fault with
    | none => body
    | some k => body.take k
  (done ++ cleanup).foldl fsExec fs

/-- the blocked memmap pipeline after the repair: directory + file created, `n` blocks of work,
the file read back, and in `finally` the whole directory removed. -/
def blockedBody (d : String) (nBlocks : Nat) : List FsOp :=
  [.mkdtemp d, .create (d ++ "/lot_tmp_memmap.dat")] ++ List.replicate nBlocks .work ++ [.work]
def blockedCleanup (d : String) : List FsOp := [.rmtree d]
/-- before the repair: file removed only on the success path, directory never -/
def blockedOld (d : String) (nBlocks : Nat) (fault : Option Nat) (fs : FS) : FS :=
  let body := blockedBody d nBlocks ++ [.remove (d ++ "/lot_tmp_memmap.dat")]
  let done := match fault with
    | none => body
    | some k => body.take k
  done.foldl fsExec fs

/-! ### Call histories -/

/-- outputs of a history of inputs fed to a stateful estimator -/
def history (step : S → I → S × O) : S → List I → List O
  | _, [] => []
  | s, i :: rest => (step s i).2 :: history step (step s i).1 rest

end VecModel.Heap
