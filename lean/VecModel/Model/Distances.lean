import VecModel.Model.Analytic
/-
  Model of vectorizers/distances.py (after the two `fix:` commits: clamp in dense `hellinger`,
  tail loops of `sparse_sum` write `ind[i]`).

  Exact layer (`Rat`, executable; integer-valued data make the float kernels exact):
    arr_unique / arr_union / arr_intersect (:189-211), the merge loop shared by
    sparse_sum (:214-272), sparse_diff (:275-277), sparse_mul (:280-311),
    dense_union (:315-370) at index level with checked reads / writes (`Except Err`),
    total_variation (:114-130), kantorovich1d p = 1 (:28-68).
  Analytic layer (generic over `Analytic α`; `Float` in the driver, `ℝ` in the theorems):
    hellinger (:8-29) with an explicit rounding function `fl` applied after every operation,
    jensen_shannon_divergence (:137-158), symmetric_kl_divergence (:162-183).
  Indices are `Nat` (int64 ≥ 0 in the code).
-/
namespace VecModel.Dist

/-! ## Index sets -/

/-- `aux[flag]` in `arr_unique` on the sorted array: one representative of every run -/
def dedupAdj : List Nat → List Nat
  | [] => []
  | [a] => [a]
  | a :: b :: r => if a = b then dedupAdj (b :: r) else a :: dedupAdj (b :: r)

/-- `arr_union(ar1, ar2)` :197-204 (an empty argument returns the other one unchanged) -/
def arrUnion (a b : List Nat) : List Nat :=
  if a.isEmpty then b
  else if b.isEmpty then a
  else dedupAdj ((a ++ b).mergeSort)

/-- `aux[:-1][aux[1:] == aux[:-1]]` -/
def adjEq : List Nat → List Nat
  | a :: b :: r => if a = b then a :: adjEq (b :: r) else adjEq (b :: r)
  | _ => []

/-- `arr_intersect(ar1, ar2)` :207-211 -/
def arrIntersect (a b : List Nat) : List Nat := adjEq ((a ++ b).mergeSort)

/-! ## The merge loop of sparse_sum / sparse_mul / dense_union

The three kernels share one skeleton: a main `while i1 < n1 and i2 < n2` loop with the cases
`j1 == j2`, `j1 < j2`, `j1 > j2`, then (sum / dense_union only) two tail loops.  What is written
in each case is the configuration; `none` = nothing written (`val == 0`). -/

structure Cfg (β : Type) where
  both : Nat → Rat → Rat → Option β
  left : Nat → Rat → Option β
  right : Nat → Rat → Option β
  /-- whether the tail loops exist (`sparse_mul` has none) -/
  tails : Bool

/-- functional specification: merge of two (index, value) lists -/
def mergeF (c : Cfg β) : List (Nat × Rat) → List (Nat × Rat) → List β
  | [], ys => ys.filterMap (fun p => c.right p.1 p.2)
  | x :: xs, [] => (x :: xs).filterMap (fun p => c.left p.1 p.2)
  | x :: xs, y :: ys =>
    if x.1 = y.1 then (c.both x.1 x.2 y.2).toList ++ mergeF c xs ys
    else if x.1 < y.1 then (c.left x.1 x.2).toList ++ mergeF c xs (y :: ys)
    else (c.right y.1 y.2).toList ++ mergeF c (x :: xs) ys
termination_by a b => a.length + b.length

/-- `result[nnz] = v; nnz += 1` on a result buffer of length `cap`; `out` is the written prefix
`result[:nnz]`. -/
def push (cap : Nat) (out : List β) (v : Option β) : Except Err (List β) :=
  match v with
  | none => .ok out
  | some v => if out.length < cap then .ok (out ++ [v]) else .error (.oob "result" out.length cap)

/-- main loop, `fuel` iterations left; returns `(i1, i2, written prefix)` -/
def mainLoop (c : Cfg β) (ind1 : List Nat) (data1 : List Rat) (ind2 : List Nat) (data2 : List Rat)
    (cap : Nat) : (fuel i1 i2 : Nat) → (out : List β) → Except Err (Nat × Nat × List β)
  | 0, i1, i2, out =>
    if i1 < ind1.length ∧ i2 < ind2.length then .error (.cap "fuel") else .ok (i1, i2, out)
  | fuel + 1, i1, i2, out =>
    if i1 < ind1.length ∧ i2 < ind2.length then do
      let j1 ← rd "ind1" ind1 i1
      let j2 ← rd "ind2" ind2 i2
      if j1 = j2 then
        let a ← rd "data1" data1 i1
        let b ← rd "data2" data2 i2
        let out' ← push cap out (c.both j1 a b)
        mainLoop c ind1 data1 ind2 data2 cap fuel (i1 + 1) (i2 + 1) out'
      else if j1 < j2 then
        if c.tails then
          let a ← rd "data1" data1 i1
          let out' ← push cap out (c.left j1 a)
          mainLoop c ind1 data1 ind2 data2 cap fuel (i1 + 1) i2 out'
        else mainLoop c ind1 data1 ind2 data2 cap fuel (i1 + 1) i2 out
      else
        if c.tails then
          let b ← rd "data2" data2 i2
          let out' ← push cap out (c.right j2 b)
          mainLoop c ind1 data1 ind2 data2 cap fuel i1 (i2 + 1) out'
        else mainLoop c ind1 data1 ind2 data2 cap fuel i1 (i2 + 1) out
    else .ok (i1, i2, out)

/-- `while i < ind.shape[0]: val = data[i]; if val != 0: result[nnz] = …ind[i]…` -/
def tailLoop (name : String) (f : Nat → Rat → Option β) (ind : List Nat) (data : List Rat)
    (cap : Nat) : (fuel i : Nat) → (out : List β) → Except Err (List β)
  | 0, i, out => if i < ind.length then .error (.cap "fuel") else .ok out
  | fuel + 1, i, out =>
    if i < ind.length then do
      let v ← rd name data i
      let j ← rd name ind i
      let out' ← push cap out (f j v)
      tailLoop name f ind data cap fuel (i + 1) out'
    else .ok out

def mergeIdx (c : Cfg β) (ind1 : List Nat) (data1 : List Rat) (ind2 : List Nat) (data2 : List Rat)
    (cap : Nat) : Except Err (List β) := do
  let r ← mainLoop c ind1 data1 ind2 data2 cap (ind1.length + ind2.length) 0 0 []
  if c.tails then
    let o1 ← tailLoop "data1" c.left ind1 data1 cap (ind1.length - r.1) r.1 r.2.2
    tailLoop "data2" c.right ind2 data2 cap (ind2.length - r.2.1) r.2.1 o1
  else .ok r.2.2

def nz (j : Nat) (v : Rat) : Option (Nat × Rat) := if v ≠ 0 then some (j, v) else none

/-- sparse_sum: `val = data1[i1] + data2[i2]; if val != 0: result_ind[nnz] = j1; …` -/
def sumCfg : Cfg (Nat × Rat) :=
  { both := fun j a b => nz j (a + b), left := nz, right := nz, tails := true }

/-- sparse_mul: only the `j1 == j2` case writes; no tail loops -/
def mulCfg : Cfg (Nat × Rat) :=
  { both := fun j a b => nz j (a * b), left := fun _ _ => none, right := fun _ _ => none,
    tails := false }

/-- dense_union: the pair `(result_data1[nnz], result_data2[nnz])`; the buffers are zero
initialised, so the side that is not written stays `0`. -/
def duCfg : Cfg (Rat × Rat) :=
  { both := fun _ a b => if a + b ≠ 0 then some (a, b) else none,
    left := fun _ a => if a ≠ 0 then some (a, 0) else none,
    right := fun _ b => if b ≠ 0 then some (0, b) else none, tails := true }

def sparseSum (ind1 : List Nat) (data1 : List Rat) (ind2 : List Nat) (data2 : List Rat) :
    Except Err (List (Nat × Rat)) :=
  mergeIdx sumCfg ind1 data1 ind2 data2 (arrUnion ind1 ind2).length

/-- `sparse_sum(ind1, data1, ind2, -data2)` -/
def sparseDiff (ind1 : List Nat) (data1 : List Rat) (ind2 : List Nat) (data2 : List Rat) :
    Except Err (List (Nat × Rat)) :=
  sparseSum ind1 data1 ind2 (data2.map (fun v => -v))

def sparseMul (ind1 : List Nat) (data1 : List Rat) (ind2 : List Nat) (data2 : List Rat) :
    Except Err (List (Nat × Rat)) :=
  mergeIdx mulCfg ind1 data1 ind2 data2 (arrIntersect ind1 ind2).length

def denseUnion (ind1 : List Nat) (data1 : List Rat) (ind2 : List Nat) (data2 : List Rat) :
    Except Err (List (Rat × Rat)) :=
  mergeIdx duCfg ind1 data1 ind2 data2 (arrUnion ind1 ind2).length

/-- dense value of a sparse vector at coordinate `k` (sum over the stored entries with index `k`) -/
def valAt : List (Nat × Rat) → Nat → Rat
  | [], _ => 0
  | p :: r, k => (if p.1 = k then p.2 else 0) + valAt r k

/-! ## Exact distances -/

def rabs (q : Rat) : Rat := if q < 0 then -q else q

/-- `x / x_sum` -/
def normalise (x : List Rat) : List Rat := x.map (· / x.sum)

def checkMass (x y : List Rat) : Except Err Unit :=
  if x.length ≠ y.length then .error (.invalid "shape")
  else if x.sum = 0 ∨ y.sum = 0 then .error (.invalid "zero mass")
  else .ok ()

def tvCore (x y : List Rat) : Rat :=
  (List.zipWith (fun a b => (1 / 2 : Rat) * rabs (a - b)) (normalise x) (normalise y)).sum

/-- total_variation :118-134 (refuses zero mass, where numpy yields NaN) -/
def totalVariation (x y : List Rat) : Except Err Rat := do
  checkMass x y
  pure (tvCore x y)

/-- `for i in range(1, n): cdf[i] += cdf[i-1]` -/
def cumsum : Rat → List Rat → List Rat
  | _, [] => []
  | acc, a :: r => (acc + a) :: cumsum (acc + a) r

def l1dist (a b : List Rat) : Rat := (List.zipWith (fun u v => rabs (u - v)) a b).sum

def kantCore (x y : List Rat) : Rat :=
  l1dist (cumsum 0 (normalise x)) (cumsum 0 (normalise y))

/-- kantorovich1d with p = 1 :32-72 -/
def kantorovich1d (x y : List Rat) : Except Err Rat := do
  checkMass x y
  pure (kantCore x y)

/-- sparse_total_variation :403-411: normalise both data arrays, `sparse_diff`, half the ℓ¹ norm of
the stored differences -/
def sparseTotalVariation (ind1 : List Nat) (data1 : List Rat) (ind2 : List Nat) (data2 : List Rat) :
    Except Err Rat :=
  if data1.sum = 0 ∨ data2.sum = 0 then .error (.invalid "zero mass") else do
    let r ← sparseDiff ind1 (data1.map (· / data1.sum)) ind2 (data2.map (· / data2.sum))
    pure ((r.map (fun p => (1 / 2 : Rat) * rabs p.2)).sum)

/-! ## Analytic layer -/

section
variable {α : Type} [Add α] [Sub α] [Mul α] [OfNat α 0] [OfNat α 1] [Analytic α]
open Analytic

/-- the accumulation loop of `hellinger` :14-17; every operation is followed by the rounding
`fl`.  Returns `(result, l1_norm_x, l1_norm_y)`. -/
def hellAcc (fl : α → α) : List α → List α → α → α → α → Except Err (α × α × α)
  | [], [], r, lx, ly => .ok (r, lx, ly)
  | a :: x, b :: y, r, lx, ly => do
    let s ← sqrt (fl (a * b))
    hellAcc fl x y (fl (r + fl s)) (fl (lx + a)) (fl (ly + b))
  | _, _, _, _, _ => .error (.invalid "shape")

/-- dense `hellinger` :8-29 after the fix (`elif result > sqrt_norm_prod: return 0.0`). -/
def hellingerG (fl : α → α) (x y : List α) : Except Err α := do
  let acc ← hellAcc fl x y 0 0 0
  let r := acc.1
  let lx := acc.2.1
  let ly := acc.2.2
  let s0 ← sqrt (fl (lx * ly))
  let s := fl s0
  if isZero lx && isZero ly then .ok 0
  else if isZero lx || isZero ly then .ok 1
  else if ltb s r then .ok 0
  else do
    let q ← div r s
    let t ← sqrt (fl (1 - fl q))
    .ok (fl t)

/-- the same without the clamp (the code before the fix), kept to state why the clamp is needed -/
def hellingerNoClampG (fl : α → α) (x y : List α) : Except Err α := do
  let acc ← hellAcc fl x y 0 0 0
  let r := acc.1
  let lx := acc.2.1
  let ly := acc.2.2
  if isZero lx && isZero ly then .ok 0
  else if isZero lx || isZero ly then .ok 1
  else do
    let s0 ← sqrt (fl (lx * ly))
    let q ← div r (fl s0)
    let t ← sqrt (fl (1 - fl q))
    .ok (fl t)

/-- `pdf = (x + EPS) / (sum(x) + EPS * dim)` -/
def smoothPdf (eps : α) (x : List α) : Except Err (List α) :=
  let l1 := fsum x + eps * ofNat x.length
  x.mapM (fun a => div (a + eps) l1)

/-- one summand of jensen_shannon_divergence :155-157 -/
def jsTerm (p q : α) : Except Err α := do
  let m := half * (p + q)
  let a ← div p m
  let la ← log a
  let b ← div q m
  let lb ← log b
  pure (half * (p * la + q * lb))

/-- one summand of symmetric_kl_divergence :179-181 -/
def sklTerm (p q : α) : Except Err α := do
  let a ← div p q
  let la ← log a
  let b ← div q p
  let lb ← log b
  pure (p * la + q * lb)

def divergenceG (term : α → α → Except Err α) (eps : α) (x y : List α) : Except Err α :=
  if x.length ≠ y.length then .error (.invalid "shape") else do
    let px ← smoothPdf eps x
    let py ← smoothPdf eps y
    let ts ← (List.zip px py).mapM (fun pq => term pq.1 pq.2)
    pure (fsum ts)

def jensenShannonG (eps : α) (x y : List α) : Except Err α := divergenceG jsTerm eps x y
def symmetricKLG (eps : α) (x y : List α) : Except Err α := divergenceG sklTerm eps x y

end

end VecModel.Dist
