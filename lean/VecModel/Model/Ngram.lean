import VecModel.Model.Basic
import VecModel.Model.CountsBase
/-
  Model of vectorizers/ngram_vectorizer.py (property C06, shapes for C01):
    ngrams_of (:26-61)                       → `gramsLoop` / `ngramsOf` (index loops) and `gramsSpec`
    the counting loop of fit (:306-348) and of transform (:370-417; the same code twice)
                                             → `countDoc`, `countMatrix`, `transform`
    the token re-indexing of `preprocess_token_sequences(X, token_dictionary)` with
    masking=None (unknown tokens are deleted)   → `reindex`
    __add__ (:419-503) incl. the dictionary assignments (after the D14 repair)  → `add`
    the default vocabulary of a unigram model (`sorted(set(flatten(X)))`,
    preprocessing.py:93-95, no pruning)      → `learnDict`, `fitUnigram`
  Tokens are `Int` ids; column labels are raw tokens (`.tok`, what the code uses for a 1-gram)
  or tuples of tokens (`.tup`).  Not modelled: `nullify_mask`/`mask_string` (C14), the pruning
  that decides which tokens / n-grams are kept (C05) — the fitted dictionaries are inputs —
  and `_token_frequencies_`.
-/
namespace VecModel.Ngram
open VecModel.Counts

inductive Behaviour where
  | exact | subgrams
  deriving DecidableEq, Repr

inductive Label where
  | tok (t : Int)
  | tup (ts : List Int)
  deriving DecidableEq, Repr

/-- python `s[i:j]`, `0 ≤ i` -/
def slice (s : List α) (i j : Nat) : List α := (s.drop i).take (j - i)

/-! ### `ngrams_of` as written: two nested index loops appending to `result` -/

/-- `for j in range(1, ngram_size + 1): if i + j <= len(sequence): result.append(sequence[i:i+j])`;
`fuel` = remaining iterations, `j` the loop variable. -/
def subInner (s : List α) (i : Nat) : (fuel : Nat) → (j : Nat) → List (List α)
  | 0, _ => []
  | fuel + 1, j =>
    (if i + j ≤ s.length then [slice s i (i + j)] else []) ++ subInner s i fuel (j + 1)

/-- body of `for i in range(len(sequence))` -/
def gramsAt (s : List α) (n : Nat) (beh : Behaviour) (i : Nat) : List (List α) :=
  match beh with
  | .exact => if i + n ≤ s.length then [slice s i (i + n)] else []
  | .subgrams => subInner s i n 1

def gramsLoop (s : List α) (n : Nat) (beh : Behaviour) : (fuel : Nat) → (i : Nat) → List (List α)
  | 0, _ => []
  | fuel + 1, i => gramsAt s n beh i ++ gramsLoop s n beh fuel (i + 1)

/-- `ngrams_of(sequence, ngram_size, ngram_behaviour)` -/
def ngramsOf (s : List α) (n : Nat) (beh : Behaviour) : List (List α) :=
  gramsLoop s n beh s.length 0

/-- closed form: for every start `i` the run of length `n` (exact) resp. the runs of lengths
`1 … n` (subgrams) that fit into the sequence -/
def gramsSpec (s : List α) (n : Nat) : Behaviour → List (List α)
  | .exact => (List.range s.length).flatMap fun i =>
      if i + n ≤ s.length then [slice s i (i + n)] else []
  | .subgrams => (List.range s.length).flatMap fun i =>
      (List.range n).flatMap fun j =>
        if i + (j + 1) ≤ s.length then [slice s i (i + (j + 1))] else []

/-- number of positions `k` at which the run `g` starts in `s` — the property's count -/
def countOcc [DecidableEq α] (g s : List α) : Nat :=
  ((List.range s.length).filter fun k =>
    decide (k + g.length ≤ s.length) && decide (slice s k (k + g.length) = g)).length

/-- the run lengths `ngrams_of` produces: exactly `n`, resp. `1 … n` -/
def produced (n : Nat) : Behaviour → Nat → Bool
  | .exact, k => k == n
  | .subgrams, k => decide (1 ≤ k) && decide (k ≤ n)

/-! ### fitted model -/

/-- one CSR row while it is built: the python `counter` dict (column → count) -/
abbrev Counter := List (Nat × Nat)

structure CountMatrix where
  nRows : Nat
  nCols : Nat
  rows : List Counter
  deriving Repr

def cellOf (c : Counter) (j : Nat) : Nat :=
  match lookup c j with
  | some v => v
  | none => 0

/-- cell `(i, j)`; rows beyond the matrix read as 0 only through `Option` -/
def CountMatrix.get? (M : CountMatrix) (i j : Nat) : Option Nat :=
  (M.rows[i]?).map (cellOf · j)

structure Fitted where
  n : Nat
  beh : Behaviour
  tokDict : List (Int × Nat)        -- _token_dictionary_
  invDict : List (Nat × Int)        -- _inverse_token_dictionary_
  colLabel : List (Label × Nat)     -- column_label_dictionary_
  colIndex : List (Nat × Label)     -- column_index_dictionary_
  train : CountMatrix               -- _train_matrix
  deriving Repr

/-- :313-319 / :381-387 — the label looked up for an index gram; `none` = KeyError -/
def gramLabel (inv : List (Nat × Int)) (g : List Nat) : Option Label :=
  match g with
  | [i] => (lookup inv i).map Label.tok
  | _ => (g.mapM (lookup inv)).map Label.tup

/-- the label the code uses for a gram of tokens: a raw token for a 1-gram, else a tuple -/
def labelOfGram (g : List Int) : Label :=
  match g with
  | [t] => .tok t
  | _ => .tup g

/-- column of an index gram; `none` = KeyError caught by `except KeyError: continue` -/
def colOf (inv : List (Nat × Int)) (col : List (Label × Nat)) (g : List Nat) : Option Nat :=
  (gramLabel inv g).bind (lookup col)

/-- `counter[col] += 1` / `counter[col] = 1` -/
def counterAdd (c : Counter) (j : Nat) : Counter :=
  match lookup c j with
  | some v => dictSet c j (v + 1)
  | none => dictSet c j 1

/-- the inner loop over one document's n-grams -/
def countGrams (inv : List (Nat × Int)) (col : List (Label × Nat)) (grams : List (List Nat))
    (c : Counter) : Counter :=
  match grams with
  | [] => c
  | g :: rest =>
    match colOf inv col g with
    | some j => countGrams inv col rest (counterAdd c j)
    | none => countGrams inv col rest c

def countDoc (m : Fitted) (seq : List Nat) : Counter :=
  countGrams m.invDict m.colLabel (ngramsOf seq m.n m.beh) []

/-- CSR assembly with the explicit shape `(len(indptr) - 1, len(column_label_dictionary_))`;
a column index outside that width is refused by the model (scipy does not check it). -/
def countMatrix (m : Fitted) (seqs : List (List Nat)) : Except Err CountMatrix :=
  let rows := seqs.map (countDoc m)
  let w := m.colLabel.length
  match (rows.flatMap id).find? (fun p => decide (w ≤ p.1)) with
  | some p => .error (.oob "column index" p.1 w)
  | none => .ok ⟨seqs.length, w, rows⟩

/-- `transform(X)` (:356-417) -/
def transform (m : Fitted) (X : List (List Int)) : Except Err CountMatrix :=
  countMatrix m (X.map (reindex m.tokDict))

/-- what the theorems assume of a fitted model: the inverse token dictionary inverts the token
dictionary, distinct labels have distinct columns, column indices are below the width -/
structure WF (m : Fitted) : Prop where
  tokInv : ∀ t i, lookup m.tokDict t = some i → lookup m.invDict i = some t
  colInj : ∀ L L' j, lookup m.colLabel L = some j → lookup m.colLabel L' = some j → L = L'
  colBound : ∀ L j, lookup m.colLabel L = some j → j < m.colLabel.length

/-! ### `__add__` (:419-503), ngram_size = 1 -/

/-- `checkEnum`: the parameter `enum` stands for the iteration order of the python set
`disjoint_vocab = set(other.column_index_dictionary_.values()) - set(self.…values())`;
it must list exactly those labels, once each. -/
def isEnumOf (a b : Fitted) (enum : List Label) : Bool :=
  enum.Nodup &&
  enum.all (fun l => b.colIndex.any (fun p => p.2 == l) && !a.colIndex.any (fun p => p.2 == l)) &&
  b.colIndex.all (fun p => a.colIndex.any (fun q => q.2 == p.2) || enum.contains p.2)

/-- `for i, x in enumerate(disjoint_vocab, start=left_vocab_size): joint[i] = x` -/
def enumInto (d : List (Nat × Label)) (start : Nat) : List Label → List (Nat × Label)
  | [] => d
  | x :: rest => enumInto (dictSet d start x) (start + 1) rest

/-- `bottom_joint_matrix.col = [right_to_joint_index_map[x] for x in col]`; `none` = KeyError -/
def remapRow (r2j : List (Nat × Nat)) (row : Counter) : Option Counter :=
  row.mapM fun p => (lookup r2j p.1).map fun j => (j, p.2)

def tokOfLabel : Label → Option Int
  | .tok t => some t
  | .tup _ => none

/-- `_token_dictionary_ = column_label_dictionary_` (:490): unigram labels are raw tokens -/
def tokDictOf (jl : List (Label × Nat)) : Option (List (Int × Nat)) :=
  jl.mapM fun p => (tokOfLabel p.1).map fun t => (t, p.2)

/-- `_inverse_token_dictionary_ = column_index_dictionary_` (:500-502 after the D14 repair;
the original assigned `column_label_dictionary_`, a token → index map) -/
def invDictOf (ji : List (Nat × Label)) : Option (List (Nat × Int)) :=
  ji.mapM fun p => (tokOfLabel p.2).map fun t => (p.1, t)

/-- :466-469 `right_to_joint_index_map`; `none` = KeyError -/
def rightToJoint (jointLabel : List (Label × Nat)) (bcol : List (Label × Nat)) :
    Option (List (Nat × Nat)) :=
  (bcol.mapM fun p => (lookup jointLabel p.1).map fun j => (p.2, j)).map fromPairs

def add (a b : Fitted) (enum : List Label) : Except Err Fitted :=
  if a.n ≠ b.n ∨ a.beh ≠ b.beh then .error (.invalid "NotImplementedError: parameter sets differ")
  else if a.n > 1 then .error (.invalid "NotImplementedError: ngram size > 1")
  else if !isEnumOf a b enum then .error (.invalid "enum is not an enumeration of disjoint_vocab")
  else
    let jointIndex := enumInto a.colIndex a.colIndex.length enum   -- :459-462
    let jointLabel := invert jointIndex                            -- :463-465
    match rightToJoint jointLabel b.colLabel with
    | none => .error (.invalid "KeyError: right_to_joint_index_map")
    | some r2j =>
      match b.train.rows.mapM (remapRow r2j) with                  -- :475-479
      | none => .error (.invalid "KeyError: bottom matrix column")
      | some bottom =>
        match tokDictOf jointLabel with
        | none => .error (.invalid "merged unigram model with tuple labels")
        | some tokDict =>
          match invDictOf jointIndex with
          | none => .error (.invalid "merged unigram model with tuple labels")
          | some invDict =>
            .ok { n := a.n, beh := a.beh, tokDict := tokDict, invDict := invDict,
                  colLabel := jointLabel, colIndex := jointIndex,
                  -- :471-483, :489: resize to `len(joint)` columns, vstack
                  train := ⟨a.train.nRows + b.train.nRows, jointIndex.length,
                            a.train.rows ++ bottom⟩ }

/-! ### well-formed unigram models, the joint dictionary, cells by label (used by the `+` theorems) -/

/-- well-formed *unigram* model (what `NgramVectorizer().fit` produces, and what `+` preserves):
the index dictionary enumerates the columns `0 … k-1`, labels are distinct raw tokens, the other
three dictionaries say the same as the index dictionary, the stored training matrix fits the
column space -/
structure UWF (m : Fitted) : Prop where
  n1 : m.n = 1
  keys : m.colIndex.map (·.1) = List.range m.colIndex.length
  labelsNodup : (m.colIndex.map (·.2)).Nodup
  colLabelEq : m.colLabel = m.colIndex.map fun p => (p.2, p.1)
  tokDictEq : m.tokDict.map (fun p => (p.2, Label.tok p.1)) = m.colIndex
  invDictEq : m.invDict.map (fun p => (p.1, Label.tok p.2)) = m.colIndex
  trainRows : m.train.rows.length = m.train.nRows
  trainBound : ∀ row ∈ m.train.rows, ∀ p ∈ row, p.1 < m.colIndex.length

/-- `[(s, x₀), (s+1, x₁), …]` -/
def idxList (s : Nat) : List Label → List (Nat × Label)
  | [] => []
  | x :: rest => (s, x) :: idxList (s + 1) rest

/-- the joint index dictionary: the left model's entries, then the new labels numbered on -/
def jointIndex (a : Fitted) (enum : List Label) : List (Nat × Label) :=
  a.colIndex ++ idxList a.colIndex.length enum

/-- entry of a row in the column labelled `L` (0 when the model has no such column) -/
def cellByLabel (col : List (Label × Nat)) (row : Counter) (L : Label) : Nat :=
  match lookup col L with
  | some j => cellOf row j
  | none => 0

/-- the count a unigram column labelled `L` stands for: occurrences of the token in the document -/
def labelCount (doc : List Int) : Label → Nat
  | .tok t => doc.count t
  | .tup _ => 0

def hasColumn (m : Fitted) (L : Label) : Prop := ∃ j, lookup m.colLabel L = some j

/-! ### default unigram fit (no pruning, no fixed dictionaries) -/

/-- `dict(zip(unique_tokens, range(len(unique_tokens))))` -/
def learnDict (X : List (List Int)) : List (Int × Nat) :=
  enumFrom 0 (sortedUnique X.flatten)

def unigramOf (beh : Behaviour) (d : List (Int × Nat)) : Fitted :=
  { n := 1, beh := beh, tokDict := d, invDict := d.map (fun p => (p.2, p.1)),
    colLabel := d.map (fun p => (Label.tok p.1, p.2)),
    colIndex := d.map (fun p => (p.2, Label.tok p.1)),
    train := ⟨0, d.length, []⟩ }

/-- `NgramVectorizer().fit(X)` with default parameters -/
def fitUnigram (X : List (List Int)) : Except Err Fitted :=
  let m := unigramOf .exact (learnDict X)
  (transform m X).map fun M => { m with train := M }

end VecModel.Ngram
