import VecModel.Model.Basic
/-
  Model of the Lempel-Ziv vectorizer of vectorizers/mixed_gram_vectorizer.py:
    murmurhash (:36-75), make_hash (:78-85), lempel_ziv_based_encode (:96-112),
    counts_to_csr_data (:115-151), LZCompressionVectorizer.fit_transform (:655-719) and
    .transform (:741-804, after the fix that advances the row pointer by the entries emitted).
  Strings are lists of code points (`Nat`).  A phrase key is either the phrase itself
  (`identity_hash`, key type `List Nat`) or its hash (`Nat`); the model is generic in the key
  type `κ` and the hash function `h : List Nat → κ`.
  Python / numba dictionaries are insertion-ordered association lists (DESIGN §2.4).
  Counts and codes are unbounded `Nat` (int64 / intc / float32 in the code; overflow and float32
  exactness above 2^24 are outside the claim).
-/
namespace VecModel.LZ

/-! ### insertion-ordered dictionaries -/

abbrev Dict (κ : Type) := List (κ × Nat)

variable {κ : Type} [DecidableEq κ]

/-- `d[k]` / `k in d` -/
def lookup (k : κ) : Dict κ → Option Nat
  | [] => none
  | (k', v) :: rest => if k' = k then some v else lookup k rest

/-- `d[k] += 1` for a key that is present (absent: unchanged; never used that way) -/
def incr (k : κ) : Dict κ → Dict κ
  | [] => []
  | (k', v) :: rest => if k' = k then (k', v + 1) :: rest else (k', v) :: incr k rest

def keys (d : Dict κ) : List κ := d.map (·.1)

/-- sum of the values -/
def total : Dict κ → Nat
  | [] => 0
  | (_, v) :: rest => v + total rest

/-! ### `lempel_ziv_based_encode` (:96-112), the loop as written -/

/-- Python `string[a:b]` -/
def slice (s : List Nat) (a b : Nat) : List Nat := (s.drop a).take (b - a)

/-- loop state: the dictionary, `current_size`, `start` -/
structure St (κ : Type) where
  dict : Dict κ
  size : Nat
  start : Nat

/-- one iteration `end = e` of `for end in range(len(string))` -/
def step (h : List Nat → κ) (cap : Nat) (s : List Nat) (st : St κ) (e : Nat) : St κ :=
  let g := h (slice s st.start e)                     -- :102 ngram = hash_function(string[start:end])
  if (lookup g st.dict).isSome then                   -- :103
    { st with dict := incr g st.dict }                -- :104
  else if st.size ≥ cap then                          -- :105 current_size >= max_size
    { st with start := e }                            -- :106
  else
    { dict := st.dict ++ [(g, 1)], size := st.size + 1, start := e }   -- :108-110

/-- iterations `e, e+1, …` (`fuel` of them) -/
def loop (h : List Nat → κ) (cap : Nat) (s : List Nat) : (fuel e : Nat) → St κ → St κ
  | 0, _, st => st
  | fuel + 1, e, st => loop h cap s fuel (e + 1) (step h cap s st e)

/-- `lempel_ziv_based_encode(string, dictionary, hash_function, max_size)`; `base` is the
dictionary on entry (the per-string copy of `base_dictionary`, :683-691). -/
def encode (h : List Nat → κ) (cap : Nat) (base : Dict κ) (s : List Nat) : Dict κ :=
  (loop h cap s s.length 0 { dict := base, size := base.length, start := 0 }).dict

/-! ### The parse as a specification: one dictionary use per character

The current phrase (initially empty) is looked up *before* the character is read: a known phrase
is used once more and extended by the character; an unknown one becomes a dictionary phrase (when
there is room) and the next phrase starts with the character.  `skipped` (iterations lost to the
cap) and `seen` (phrases examined, in order) are ghost fields used by the theorems. -/

structure PSt (κ : Type) where
  dict : Dict κ
  size : Nat
  cur : List Nat
  skipped : Nat
  seen : List (List Nat)

def pstep (h : List Nat → κ) (cap : Nat) (st : PSt κ) (c : Nat) : PSt κ :=
  let g := h st.cur
  if (lookup g st.dict).isSome then
    { st with dict := incr g st.dict, cur := st.cur ++ [c], seen := st.seen ++ [st.cur] }
  else if st.size ≥ cap then
    { st with cur := [c], skipped := st.skipped + 1, seen := st.seen ++ [st.cur] }
  else
    { st with dict := st.dict ++ [(g, 1)], size := st.size + 1, cur := [c], seen := st.seen ++ [st.cur] }

def pinit (base : Dict κ) : PSt κ :=
  { dict := base, size := base.length, cur := [], skipped := 0, seen := [] }

def prun (h : List Nat → κ) (cap : Nat) (base : Dict κ) (s : List Nat) : PSt κ :=
  s.foldl (pstep h cap) (pinit base)

def parse (h : List Nat → κ) (cap : Nat) (base : Dict κ) (s : List Nat) : Dict κ :=
  (prun h cap base s).dict

/-- number of iterations lost because the dictionary was full -/
def skipped (h : List Nat → κ) (cap : Nat) (base : Dict κ) (s : List Nat) : Nat :=
  (prun h cap base s).skipped

/-- the phrases examined by the parse, one per character -/
def examined (h : List Nat → κ) (cap : Nat) (base : Dict κ) (s : List Nat) : List (List Nat) :=
  (prun h cap base s).seen

/-! ### `counts_to_csr_data` (:115-151) -/

/-- `column_dict`, `col_dict_size`, and the row emitted so far (`indices`/`data` zipped) -/
structure Csr (κ : Type) where
  cols : Dict κ
  n : Nat
  row : List (Nat × Nat)

def csrStep (st : Csr κ) (kv : κ × Nat) : Csr κ :=
  match lookup kv.1 st.cols with
  | some c => { st with row := st.row ++ [(c, kv.2)] }                         -- :140-141
  | none => { cols := st.cols ++ [(kv.1, st.n)], n := st.n + 1,                -- :143-145
              row := st.row ++ [(st.n, kv.2)] }

def countsToCsr (cols : Dict κ) (counts : Dict κ) : Csr κ :=
  counts.foldl csrStep { cols := cols, n := cols.length, row := [] }

/-! ### CSR assembly

`indptr` is kept as `init ++ [last]` (it starts as `[0]`, so `indptr[-1]` always exists). -/

structure Asm (κ : Type) where
  cols : Dict κ
  ptrInit : List Nat
  ptrLast : Nat
  entries : List (Nat × Nat)

def Asm.indptr (a : Asm κ) : List Nat := a.ptrInit ++ [a.ptrLast]

/-- one pass of the `for string in X` loop of `fit_transform` (:679-698) -/
def fitStep (h : List Nat → κ) (cap : Nat) (base : Dict κ) (a : Asm κ) (s : List Nat) : Asm κ :=
  let enc := encode h cap base s
  let r := countsToCsr a.cols enc
  { cols := r.cols, ptrInit := a.ptrInit ++ [a.ptrLast],
    ptrLast := a.ptrLast + enc.length,                  -- :698 indptr[-1] + len(encoding_dict)
    entries := a.entries ++ r.row }

def fitAsm (h : List Nat → κ) (cap : Nat) (base : Dict κ) (X : List (List Nat)) : Asm κ :=
  X.foldl (fitStep h cap base) { cols := [], ptrInit := [], ptrLast := 0, entries := [] }

/-- the entries `transform` emits for one string (:780-786): phrases without a fitted column are
dropped -/
def emit (cols : Dict κ) (enc : Dict κ) : List (Nat × Nat) :=
  enc.filterMap fun kv => (lookup kv.1 cols).map fun c => (c, kv.2)

/-- one pass of the loop of `transform` (:766-788) -/
def transStep (h : List Nat → κ) (cap : Nat) (base : Dict κ) (a : Asm κ) (s : List Nat) : Asm κ :=
  let entries := a.entries ++ emit a.cols (encode h cap base s)
  { a with ptrInit := a.ptrInit ++ [a.ptrLast], ptrLast := entries.length,   -- :788 len(indices)
           entries := entries }

def transAsm (h : List Nat → κ) (cap : Nat) (base : Dict κ) (cols : Dict κ) (X : List (List Nat)) :
    Asm κ :=
  X.foldl (transStep h cap base) { cols := cols, ptrInit := [], ptrLast := 0, entries := [] }

/-- what `scipy.sparse.csr_matrix((data, indices, indptr), shape=(len(indptr)-1, width))` accepts
(`check_format(full_check=False)`) and how it is read: row `i` is
`entries[indptr[i]:indptr[i+1]]`.  The last pointer may not exceed the number of entries. -/
def rowsFrom (entries : List (Nat × Nat)) : List Nat → List (List (Nat × Nat))
  | a :: b :: rest => ((entries.drop a).take (b - a)) :: rowsFrom entries (b :: rest)
  | _ => []

def csrRows (indptr : List Nat) (entries : List (Nat × Nat)) : Except Err (List (List (Nat × Nat))) :=
  match indptr.getLast? with
  | none => .error (.invalid "empty indptr")
  | some l =>
    if l > entries.length then .error (.invalid "indptr[-1] > len(indices)")
    else .ok (rowsFrom entries indptr)

/-- `fit_transform(X)`: rows (as `(column, count)` lists), the fitted column dictionary -/
def fitTransform (h : List Nat → κ) (cap : Nat) (base : Dict κ) (X : List (List Nat)) :
    Except Err (List (List (Nat × Nat)) × Dict κ) :=
  let a := fitAsm h cap base X
  (csrRows a.indptr a.entries).map fun rows => (rows, a.cols)

/-- `transform(X)` with fitted columns `cols`; the width of the result is `cols.length` -/
def transform (h : List Nat → κ) (cap : Nat) (base : Dict κ) (cols : Dict κ) (X : List (List Nat)) :
    Except Err (List (List (Nat × Nat))) :=
  let a := transAsm h cap base cols X
  csrRows a.indptr a.entries

/-! ### murmurhash3-32 as written in the file (:36-75), over `Nat`

The code computes in int64; every product is masked with `0xFFFFFFFF` before its high bits are
used, so the low 32 bits agree with unbounded arithmetic.  `key` holds code points (not bytes!),
`seed` is the non-negative int32 drawn in `fit_transform`. -/

def M32 : Nat := 0xFFFFFFFF
def c1 : Nat := 0xcc9e2d51
def c2 : Nat := 0x1b873593

def rotl32 (x r : Nat) : Nat := ((x <<< r) ||| (x >>> (32 - r))) &&& M32

/-- one whole block (:47-53) -/
def mixBlock (h a b c d : Nat) : Nat :=
  let k1 := (a <<< 24) + (b <<< 16) + (c <<< 8) + d
  let k1 := (k1 * c1) &&& M32
  let k1 := rotl32 k1 15
  let h := h ^^^ ((k1 * c2) &&& M32)
  let h := rotl32 h 13
  (h * 5 + 0xe6546b64) &&& M32

/-- tail of 1-3 entries (:56-65): `k1` before the multiplications -/
def mixTail (h k1 : Nat) : Nat :=
  let k1 := (k1 * c1) &&& M32
  let k1 := rotl32 k1 15
  let k1 := (k1 * c2) &&& M32
  h ^^^ k1

/-- blocks of four (`for i in range(n)`), then the tail (`t = length % 4` entries) -/
def murmurBody : List Nat → Nat → Nat
  | a :: b :: c :: d :: rest, h => murmurBody rest (mixBlock h a b c d)
  | [a, b, c], h => mixTail h ((a <<< 16) + (b <<< 8) + c)
  | [a, b], h => mixTail h ((a <<< 16) + (b <<< 8))
  | [a], h => mixTail h (a <<< 16)
  | [], h => h

/-- finalisation (:67-75) -/
def fmix (h len : Nat) : Nat :=
  let x := h ^^^ len
  let x := x ^^^ (x >>> 16)
  let x := (x * 0x85ebca6b) &&& M32
  let x := x ^^^ (x >>> 13)
  let x := (x * 0xc2b2ae35) &&& M32
  x ^^^ (x >>> 16)

def murmur (key : List Nat) (seed : Nat) : Nat := fmix (murmurBody key seed) key.length

/-- `make_hash(size, seed)` (:78-85): `murmurhash(code points, seed) % size` -/
def hashOf (seed size : Nat) (phrase : List Nat) : Nat := murmur phrase seed % size

/-- relabelling of a dictionary's keys -/
def relabel {κ' : Type} (f : κ → κ') (d : Dict κ) : Dict κ' := d.map fun kv => (f kv.1, kv.2)

end VecModel.LZ
