import VecModel.Model.Basic
/-
  Small numeric interface for the formulas that use `sqrt` / `log` / `/` / `**`
  (C17 information weights, C18 distances).  The models are written once over this interface;
  the driver runs them on `Float` (IEEE double, like the numba kernels), the theorems are
  proved for the `ℝ` instance (Lemmas/RealAnalytic.lean, Mathlib).

  Partial operations are *not* totalised: where IEEE arithmetic would produce NaN / ±inf
  (square root of a negative number, logarithm of a non-positive number, division by zero,
  0 ** negative) the model refuses with `Err.invalid`.  "finite, never NaN" is therefore the
  theorem `∃ v, f … = .ok v`.
-/
namespace VecModel

class Analytic (α : Type) where
  sqrt : α → Except Err α
  log : α → Except Err α
  div : α → α → Except Err α
  pow : α → α → Except Err α
  ltb : α → α → Bool
  isZero : α → Bool
  half : α
  ofNat : Nat → α

namespace Analytic

instance : Analytic Float where
  sqrt x := if x.isNaN || x < 0 then .error (.invalid "sqrt<0") else .ok x.sqrt
  log x := if x > 0 && x.isFinite then .ok x.log else .error (.invalid "log<=0")
  div a b := if b == 0 || b.isNaN || a.isNaN then .error (.invalid "div0") else .ok (a / b)
  pow a b :=
    let r := Float.pow a b
    if r.isFinite then .ok r else .error (.invalid "pow")
  ltb a b := a < b
  isZero a := a == 0
  half := 0.5
  ofNat n := Float.ofNat n

end Analytic

section
variable {α : Type} [Add α] [OfNat α 0]

/-- `result = 0.0; for v in l: result += v` — left-to-right accumulation as the kernels do it
(the order matters on `Float`; over `ℝ` it is `List.sum`). -/
def fsum (l : List α) : α := l.foldl (· + ·) 0

end

end VecModel
