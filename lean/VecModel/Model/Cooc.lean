import VecModel.Model.Window
import VecModel.Model.Preprocess
/-
  Model of the event generators of the co-occurrence family (no EM iterations):
    token_cooccurrence_vectorizer.py      numba_build_skip_grams (:87-120)
    timed_token_cooccurrence_vectorizer.py numba_build_skip_grams (:91-130)
    multi_token_cooccurence_vectorizer.py  numba_build_multi_skip_grams (:88-136)
    ngram_token_cooccurence_vectorizer.py  numba_build_skip_grams (:108-143)
  and of the column layout of base_cooccurrence_vectorizer.py (_set_column_dicts :364-418,
  orientation expansion :239-263, `_build_coo` shape :502-518).

  `events`  = the code's loops, emitting `(row, col + w·n, val)` with the `val > 0` filter and
              `if total <= 0: total = 1`;
  `cellSum` = the matrix cell (COO duplicates summed — `coo_utils` is Model/Coo, C04);
  `spec`    = the declarative, position-based definition of the property text (token / timed);
  `specNgram`, `specMulti` = the same for n-gram rows and for multisets
              (`*_events_eq_spec` in Props/C03.lean prove each generator equal to its definition).
  Radii are an input (`Block.radius`, a row of `_window_len_array`).
  Token and timed sequences share one definition: a sequence is a list of (token, time stamp);
  the base weight of the `k`-th window entry with time difference `dt` is `Block.w k dt`
  (token kernels ignore `dt`: `w k _ = Kernel.base k`; timed kernels ignore `k`:
  `w _ dt = power ^ (dt / delta)` or `1`).
-/
namespace VecModel.Cooc
open VecModel.Window

abbrev Event := Nat × Nat × Rat
abbrev TSeq := List (Nat × Rat)

def absR (x : Rat) : Rat := if x < 0 then -x else x

/-- one (window, orientation) pair = one column block -/
structure Block where
  rev : Bool                 -- `window_reversals[i]` ('before')
  mix : Rat                  -- `mix_weights[i]`
  args : KArgs               -- mask_index, normalize, offset
  radius : Nat → Nat         -- `window_size_array[i, ·]`
  w : Nat → Rat → Rat        -- base kernel weight of window entry `k` with time difference `dt`

structure Cfg where
  n : Nat                    -- `n_unique_tokens = len(token_label_dictionary_)`
  blocks : List Block
  normWin : Bool             -- `normalize_windows`

/-- what the inner loops see for one target occurrence: the row and, per block, the window
tokens with their mix-weighted kernel values. -/
structure Occ where
  row : Nat
  wins : List (List Nat × List Rat)

/-- `total = 0; if normalize_windows: total = sum of all kernel sums; if total <= 0: total = 1` -/
def Occ.total (nw : Bool) (o : Occ) : Rat :=
  let t : Rat := if nw then (o.wins.map fun w => w.2.sum).sum else 0
  if t ≤ 0 then 1 else t

/-- `for i, window in enumerate(windows): for j, context in enumerate(window):
      val = this_ker[j] / total; if val > 0: append (row, context + i * n_unique_tokens, val)` -/
def Occ.events (n : Nat) (nw : Bool) (o : Occ) : List Event :=
  o.wins.zipIdx.flatMap fun wb =>
    (wb.1.1.zip wb.1.2).filterMap fun cv =>
      if cv.2 / o.total nw > 0 then some (o.row, cv.1 + wb.2 * n, cv.2 / o.total nw) else none

/-- the matrix cell: sum of the values of the events with that (row, col) -/
def cellSum (es : List Event) (r c : Nat) : Rat :=
  ((es.filter fun e => e.1 == r && e.2.1 == c).map fun e => e.2.2).sum

/-! ### token and timed sequences -/

/-- window and weighted kernel of block `b` for the target `tgt` at position `i` of `s` -/
def blockWin (b : Block) (s : TSeq) (i : Nat) (tgt : Nat × Rat) : List Nat × List Rat :=
  let win := windowAt s (b.radius tgt.1) i b.rev
  let toks := win.map (·.1)
  let bw := win.mapIdx fun k p => b.w k (absR (p.2 - tgt.2))
  (toks, (applyKernel b.args toks bw).map (b.mix * ·))

def seqOcc (cfg : Cfg) (s : TSeq) (i : Nat) (tgt : Nat × Rat) : Occ :=
  { row := tgt.1, wins := cfg.blocks.map fun b => blockWin b s i tgt }

/-- `for seq in token_sequences: for w_i, target in enumerate(seq): …` -/
def seqOccs (cfg : Cfg) (S : List TSeq) : List Occ :=
  S.flatMap fun s => s.zipIdx.map fun ti => seqOcc cfg s ti.2 ti.1

def seqEvents (cfg : Cfg) (S : List TSeq) : List Event :=
  (seqOccs cfg S).flatMap (Occ.events cfg.n cfg.normWin)

/-- token sequences are timed sequences whose time stamps are never looked at -/
def untimed (S : List (List Nat)) : List TSeq := S.map (·.map fun t => (t, (0 : Rat)))

/-! ### declarative definition (position based) -/

/-- `Σ_{k<n} f k` -/
def sumTo : Nat → (Nat → Rat) → Rat
  | 0, _ => 0
  | n + 1, f => sumTo n f + f n

/-- `Σ_{x∈l} f x` -/
def sumOver (l : List α) (f : α → Rat) : Rat := (l.map f).sum

/-- position `j` lies in the window of radius `ρ` before (`rev`) / after position `i` -/
def inWin (rev : Bool) (ρ i j : Nat) : Bool :=
  if rev then decide (j < i) && decide (i ≤ j + ρ) else decide (i < j) && decide (j ≤ i + ρ)

/-- kernel position of context `j` for target `i`: `|j - i| - 1` (0 = adjacent) -/
def gap (i j : Nat) : Nat := (if i ≤ j then j - i else i - j) - 1

/-- weight of context position `j` for the target at `i` before any normalisation: 0 outside the
window, 0 for the mask token, 0 within `offset` of the target, else the base kernel weight. -/
def posRaw (b : Block) (s : TSeq) (i j : Nat) : Rat :=
  match s[i]?, s[j]? with
  | some tgt, some ctx =>
    if inWin b.rev (b.radius tgt.1) i j then
      if b.args.mask = some ctx.1 then 0
      else if gap i j < b.args.offset then 0
      else b.w (gap i j) (absR (ctx.2 - tgt.2))
    else 0
  | _, _ => 0

/-- kernel-level L1 normalisation constant -/
def posZ (b : Block) (s : TSeq) (i : Nat) : Rat := sumTo s.length fun j => posRaw b s i j

/-- mix-weighted kernel value of context position `j` -/
def posKer (b : Block) (s : TSeq) (i j : Nat) : Rat :=
  b.mix * (if b.args.normalize then
      (if posZ b s i > 0 then posRaw b s i j / posZ b s i else posRaw b s i j)
    else posRaw b s i j)

/-- window total of the target at `i` (1 when window normalisation is off or the total is not
positive) -/
def posTotal (cfg : Cfg) (s : TSeq) (i : Nat) : Rat :=
  let t : Rat :=
    if cfg.normWin then sumOver cfg.blocks fun b => sumTo s.length fun j => posKer b s i j else 0
  if t ≤ 0 then 1 else t

/-- only positive contributions are recorded (`if val > 0`) -/
def pos (x : Rat) : Rat := if x > 0 then x else 0

/-- **the definition**: entry `(r, c)` = sum over every occurrence `i` of row item `r`, every
block `w` and every context position `j` whose token `x` satisfies `x + w·n = c`, of
`mix · kernel / window total`. -/
def spec (cfg : Cfg) (S : List TSeq) (r c : Nat) : Rat :=
  sumOver S fun s => sumTo s.length fun i =>
    match s[i]? with
    | some tgt =>
      if tgt.1 = r then
        sumOver cfg.blocks.zipIdx fun bw => sumTo s.length fun j =>
          match s[j]? with
          | some ctx =>
            if ctx.1 + bw.2 * cfg.n = c then pos (posKer bw.1 s i j / posTotal cfg s i) else 0
          | none => 0
      else 0
    | none => 0

/-- the definition without the `val > 0` filter: what the property text literally says; equal to
`spec` whenever mix weights and base kernel weights are non-negative (`spec_eq_specPlain`). -/
def specPlain (cfg : Cfg) (S : List TSeq) (r c : Nat) : Rat :=
  sumOver S fun s => sumTo s.length fun i =>
    match s[i]? with
    | some tgt =>
      if tgt.1 = r then
        sumOver cfg.blocks.zipIdx fun bw => sumTo s.length fun j =>
          match s[j]? with
          | some ctx => if ctx.1 + bw.2 * cfg.n = c then posKer bw.1 s i j / posTotal cfg s i else 0
          | none => 0
      else 0
    | none => 0


/-! ### n-gram rows (ngram_token_cooccurence_vectorizer.py:108-143)

`for w_i in range(ngram_size - 1, len(seq))`: the n-gram ending at `w_i` is looked up in the
n-gram dictionary; its windows are anchored at `w_i` ('after') or at the first token of the n-gram
`w_i - (ngram_size - 1)` ('before'); radii are per n-gram index. -/

abbrev NgramDict := List (List Nat × Nat)

def ngramOcc (cfg : Cfg) (s : List Nat) (wi g nsize : Nat) : Occ :=
  { row := g, wins := cfg.blocks.map fun b =>
      let win := windowAt s (b.radius g) (if b.rev then wi - (nsize - 1) else wi) b.rev
      (win, (kernelW (fun k => b.w k 0) b.args win).map (b.mix * ·)) }

def ngramOccs (cfg : Cfg) (nd : NgramDict) (nsize : Nat) (S : List (List Nat)) : List Occ :=
  S.flatMap fun s =>
    (List.range (s.length + 1 - nsize)).filterMap fun k =>
      -- w_i = k + nsize - 1, n-gram = s[k : k + nsize]
      (nd.lookup ((s.drop k).take nsize)).map fun g => ngramOcc cfg s (k + nsize - 1) g nsize

def ngramEvents (cfg : Cfg) (nd : NgramDict) (nsize : Nat) (S : List (List Nat)) : List Event :=
  (ngramOccs cfg nd nsize S).flatMap (Occ.events cfg.n cfg.normWin)

/-! #### n-gram rows: the declarative, position-based definition

Row `g` collects every position `k` of every sequence at which a *complete* n-gram starts
(`k + n ≤ len`) that the n-gram dictionary maps to `g`. The window of block `w` is anchored at the
n-gram's first token `k` ('before': the positions `< k`) or at its last token `k + n - 1` ('after':
the positions `> k + n - 1`), has the radius of row `g`, and position `j` in it has kernel position
`gap anchor j` (0 = adjacent to the n-gram). Nothing here mentions `window_at_index`, kernels on
arrays or COO events. -/

/-- anchor of the windows of the n-gram starting at `k`: first token for 'before', last for 'after' -/
def ngAnchor (rev : Bool) (k nsize : Nat) : Nat := if rev then k else k + (nsize - 1)

/-- weight of context position `j` for the n-gram row `g` anchored at `a`, before normalisation:
0 outside the window, 0 for the mask token, 0 within `offset` of the anchor, else the base weight -/
def ngRaw (b : Block) (s : List Nat) (g a j : Nat) : Rat :=
  match s[j]? with
  | some ctx =>
    if inWin b.rev (b.radius g) a j then
      if b.args.mask = some ctx then 0
      else if gap a j < b.args.offset then 0
      else b.w (gap a j) 0
    else 0
  | none => 0

/-- kernel-level L1 normalisation constant -/
def ngZ (b : Block) (s : List Nat) (g a : Nat) : Rat := sumTo s.length fun j => ngRaw b s g a j

/-- mix-weighted kernel value of context position `j` -/
def ngKer (b : Block) (s : List Nat) (g a j : Nat) : Rat :=
  b.mix * (if b.args.normalize then
      (if ngZ b s g a > 0 then ngRaw b s g a j / ngZ b s g a else ngRaw b s g a j)
    else ngRaw b s g a j)

/-- window total of the n-gram `g` starting at `k` (1 when window normalisation is off or the total
is not positive) -/
def ngTotal (cfg : Cfg) (s : List Nat) (nsize g k : Nat) : Rat :=
  let t : Rat :=
    if cfg.normWin then
      sumOver cfg.blocks fun b => sumTo s.length fun j => ngKer b s g (ngAnchor b.rev k nsize) j
    else 0
  if t ≤ 0 then 1 else t

/-- **the definition (n-gram rows)**: entry `(g, c)` = sum over every sequence, every start position
`k` of a complete n-gram that is the kept n-gram `g`, every block `w` and every context position `j`
whose token `x` satisfies `x + w·n = c`, of `mix · kernel / window total`. -/
def specNgram (cfg : Cfg) (nd : NgramDict) (nsize : Nat) (S : List (List Nat)) (g c : Nat) : Rat :=
  sumOver S fun s => sumTo s.length fun k =>
    if k + nsize ≤ s.length ∧ nd.lookup ((s.drop k).take nsize) = some g then
      sumOver cfg.blocks.zipIdx fun bw => sumTo s.length fun j =>
        match s[j]? with
        | some ctx =>
          if ctx + bw.2 * cfg.n = c then
            pos (ngKer bw.1 s g (ngAnchor bw.1.rev k nsize) j / ngTotal cfg s nsize g k)
          else 0
        | none => 0
    else 0

/-- the same without the `val > 0` filter (what the property text literally says); equal to
`specNgram` for non-negative mix and base weights -/
def specNgramPlain (cfg : Cfg) (nd : NgramDict) (nsize : Nat) (S : List (List Nat)) (g c : Nat) : Rat :=
  sumOver S fun s => sumTo s.length fun k =>
    if k + nsize ≤ s.length ∧ nd.lookup ((s.drop k).take nsize) = some g then
      sumOver cfg.blocks.zipIdx fun bw => sumTo s.length fun j =>
        match s[j]? with
        | some ctx =>
          if ctx + bw.2 * cfg.n = c then
            ngKer bw.1 s g (ngAnchor bw.1.rev k nsize) j / ngTotal cfg s nsize g k
          else 0
        | none => 0
    else 0

/-! ### multisets (multi_token_cooccurence_vectorizer.py:88-136)

One call handles one document = a list of multisets. For the target at position `w` of multiset
`d` the window of block `b` is the concatenation of multisets `d … d+ρ` ('after') or
`d, d-1, … d-ρ` ('before') with `ρ = window_size_array[i, target]` (after the fix; the code used
the radius of token 0 for every target); the kernel zeroes position `w`
(the target itself, inside its own multiset which comes first). -/

def multiWin (b : Block) (doc : List (List Nat)) (d tgt : Nat) : List (List Nat) :=
  if b.rev then ((doc.take (d + 1)).drop (d - b.radius tgt)).reverse
  else (doc.drop d).take (b.radius tgt + 1)

def multiOcc (cfg : Cfg) (doc : List (List Nat)) (d w tgt : Nat) : Except Err Occ := do
  let wins ← cfg.blocks.mapM fun b => do
    let msets := multiWin b doc d tgt
    let ker ← multiKernelW (fun k => b.w k 0) b.args msets w
    pure (msets.flatten, ker.map (b.mix * ·))
  pure { row := tgt, wins := wins }

def multiOccs (cfg : Cfg) (docs : List (List (List Nat))) : Except Err (List Occ) :=
  (docs.flatMap fun doc =>
    doc.zipIdx.flatMap fun md => md.1.zipIdx.map fun tw => (doc, md.2, tw.2, tw.1)).mapM
    fun q => multiOcc cfg q.1 q.2.1 q.2.2.1 q.2.2.2

/-- `MultiSetCooccurrenceVectorizer._build_coo` (after the fix): with nullify_mask the row of
`_mask_index` is cleared — the mask's own multiset is part of each of its windows, so a zero
radius alone would not silence it. -/
def clearRow (mask : Option Nat) (es : List Event) : List Event :=
  es.filter fun e => mask != some e.1

def multiEvents (cfg : Cfg) (mask : Option Nat) (docs : List (List (List Nat))) :
    Except Err (List Event) := do
  let occs ← multiOccs cfg docs
  pure (clearRow mask (occs.flatMap (Occ.events cfg.n cfg.normWin)))

/-! #### multisets: the declarative, position-based definition

A document is a list of multisets; a *position* is a pair `(e, v)`: entry `v` of multiset `e`.
For a target occurrence at `(d, w)` with token `tgt` the window of a block consists of every
position of the multisets `d, d+1, …, d+ρ` ('after') resp. `d, d-1, …, d-ρ` ('before'),
`ρ = radius tgt`, **except the target position itself**; a multiset at distance `m = |e - d|` has
weight 0 when `m < offset` and base weight `w (m - offset)` otherwise (the first `offset` multisets
of the window, the target's own first, are skipped and the remaining ones are counted from 0 — the
offset semantics of `multi_flat_kernel` / `multi_geometric_kernel` after the alignment fix); mask
tokens have weight 0. Nothing here mentions windows as lists, flattening or COO events. -/

/-- distance in multisets between the target's multiset `d` and multiset `e` -/
def mdist (d e : Nat) : Nat := if d ≤ e then e - d else d - e

/-- multiset `e` belongs to the window of radius `ρ` of a target in multiset `d`: the target's own
multiset and the `ρ` multisets before (`rev`) / after it -/
def inMWin (rev : Bool) (ρ d e : Nat) : Bool :=
  if rev then decide (e ≤ d) && decide (d ≤ e + ρ) else decide (d ≤ e) && decide (e ≤ d + ρ)

/-- weight, before normalisation, of the context position `(e, v)` holding token `ctx` for the
target `tgt` at position `(d, w)` -/
def mRaw (b : Block) (tgt d w ctx e v : Nat) : Rat :=
  if inMWin b.rev (b.radius tgt) d e then
    if e = d ∧ v = w then 0
    else if mdist d e < b.args.offset then 0
    else if b.args.mask = some ctx then 0
    else b.w (mdist d e - b.args.offset) 0
  else 0

/-- `Σ` over all positions `(e, v)` of a document, with the token `ctx` at that position:
`sumDoc doc f = Σ_e Σ_v f doc[e][v] e v` -/
def sumDoc (doc : List (List Nat)) (f : Nat → Nat → Nat → Rat) : Rat :=
  sumOver doc.zipIdx fun me => sumOver me.1.zipIdx fun cv => f cv.1 me.2 cv.2

/-- kernel-level L1 normalisation constant -/
def mZ (b : Block) (doc : List (List Nat)) (tgt d w : Nat) : Rat :=
  sumDoc doc fun ctx e v => mRaw b tgt d w ctx e v

/-- mix-weighted kernel value of the context position `(e, v)` -/
def mKer (b : Block) (doc : List (List Nat)) (tgt d w ctx e v : Nat) : Rat :=
  b.mix * (if b.args.normalize then
      (if mZ b doc tgt d w > 0 then mRaw b tgt d w ctx e v / mZ b doc tgt d w
       else mRaw b tgt d w ctx e v)
    else mRaw b tgt d w ctx e v)

/-- window total of the target at `(d, w)` (1 when window normalisation is off or the total is not
positive) -/
def mTotal (cfg : Cfg) (doc : List (List Nat)) (tgt d w : Nat) : Rat :=
  let t : Rat :=
    if cfg.normWin then
      sumOver cfg.blocks fun b => sumDoc doc fun ctx e v => mKer b doc tgt d w ctx e v
    else 0
  if t ≤ 0 then 1 else t

/-- **the definition (multisets)**: entry `(r, c)` = sum over every document, every position
`(d, w)` holding the row token `r`, every block `k` and every position `(e, v)` of the same document
whose token `x` satisfies `x + k·n = c`, of `mix · kernel / window total`; the row of the nullified
mask token (`mask = some r`, `_build_coo` after the fix) is empty. -/
def specMulti (cfg : Cfg) (mask : Option Nat) (docs : List (List (List Nat))) (r c : Nat) : Rat :=
  if mask = some r then 0 else
  sumOver docs fun doc => sumDoc doc fun tgt d w =>
    if tgt = r then
      sumOver cfg.blocks.zipIdx fun bw => sumDoc doc fun ctx e v =>
        if ctx + bw.2 * cfg.n = c then
          pos (mKer bw.1 doc tgt d w ctx e v / mTotal cfg doc tgt d w)
        else 0
    else 0

/-- the same without the `val > 0` filter; equal to `specMulti` for non-negative mix and base weights -/
def specMultiPlain (cfg : Cfg) (mask : Option Nat) (docs : List (List (List Nat))) (r c : Nat) : Rat :=
  if mask = some r then 0 else
  sumOver docs fun doc => sumDoc doc fun tgt d w =>
    if tgt = r then
      sumOver cfg.blocks.zipIdx fun bw => sumDoc doc fun ctx e v =>
        if ctx + bw.2 * cfg.n = c then mKer bw.1 doc tgt d w ctx e v / mTotal cfg doc tgt d w else 0
    else 0

/-! ### checked table reads

`window_size_array[i, target]` is a checked read: every row index that can occur must lie inside
every radius table, otherwise the Python-level semantics is an IndexError (numba reads past the
end silently). `radiusOf` is only used after `tablesCover` succeeded. -/

def tablesCover (tables : List (List Nat)) (rows : List Nat) : Except Err Unit :=
  tables.forM fun tb => rows.forM fun t =>
    if t < tb.length then pure () else throw (.oob "window_size_array" t tb.length)

def radiusOf (tb : List Nat) (t : Nat) : Nat :=
  match tb[t]? with
  | some r => r
  | none => 0

/-! ### column layout (`_set_column_dicts`, orientation expansion) -/

inductive Orient where
  | before | after | directional
  deriving DecidableEq, Repr

/-- `_window_reversals`: 'directional' expands to (before, after) -/
def expand : List Orient → List Bool
  | [] => []
  | .before :: r => true :: expand r
  | .after :: r => false :: expand r
  | .directional :: r => true :: false :: expand r

/-- the column blocks in matrix order: `(isPre, i)` for the `i`-th declared orientation
(`colonnade` runs over this list) -/
def blockOrigin : List Orient → Nat → List (Bool × Nat)
  | [], _ => []
  | .before :: r, i => (true, i) :: blockOrigin r (i + 1)
  | .after :: r, i => (false, i) :: blockOrigin r (i + 1)
  | .directional :: r, i => (true, i) :: (false, i) :: blockOrigin r (i + 1)

/-- column labels in matrix order: block `k` lists `pre_i_<token>` / `post_i_<token>` for the
tokens in index order (`index + colonnade * len(token_label_dictionary_)`). `(isPre, i, token)` -/
def columnLabels (os : List Orient) (n : Nat) : List (Bool × Nat × Nat) :=
  (blockOrigin os 0).flatMap fun pi => (List.range n).map fun t => (pi.1, pi.2, t)

/-- the shift of all time stamps of a corpus by `a` -/
def shiftTimes (a : Rat) (S : List TSeq) : List TSeq := S.map (·.map fun p => (p.1, p.2 + a))

/-- time stamps stored through a rounding `q` (float32 packing before the fix: `q = rn24`) -/
def storeTimes (q : Rat → Rat) (S : List TSeq) : List TSeq := S.map (·.map fun p => (p.1, q p.2))

/-! ### nullify_mask

`_set_mask_indices` hands `mask_index = m` to every kernel (`_set_full_kernel_args`) and to the
window functions, which set `radii[m] = 0` (`fixed_window_radii` / `variable_window_radii`). -/

def nullifyBlock (m : Nat) (b : Block) : Block :=
  { b with args := { b.args with mask := some m }, radius := fun t => if t = m then 0 else b.radius t }

def nullifyCfg (m : Nat) (cfg : Cfg) : Cfg := { cfg with blocks := cfg.blocks.map (nullifyBlock m) }

/-! ### tree vectorizer: the mask projector (tree_token_cooccurrence.py:130-136)

`M = eye(n); M[mask, mask] = 0; G := M·G·M` on the label-by-label count matrix `G` (before the
orientation is applied): row and column `mask` are cleared, every other entry is kept. On a list of
(row, col, value) entries that is a filter. -/
def treeProject (m : Nat) (es : List Event) : List Event :=
  es.filter fun e => e.1 != m && e.2.1 != m

end VecModel.Cooc
