import VecModel.Model.Basic
import VecModel.Model.CountsBase
/-
  Model of vectorizers/edge_list_vectorizer.py (C06, shapes for C01):
    fit (:71-154): label → index dictionaries (learned with np.unique, supplied, joint_space),
      validity filter, pivot into a COO matrix with the explicit shape
      `(max row index + 1, max column index + 1)`, duplicates summed
    transform (:160-190, after the D1 repair: the fitted shape is passed)
  Labels are `Int` ids (order-preserving images of the python labels), values are `Rat`.
-/
namespace VecModel.EdgeList
open VecModel.Counts

abbrev Edge := Int × Int × Rat       -- (row label, column label, value)

structure Fitted where
  rowDict : List (Int × Nat)          -- row_label_dictionary_
  colDict : List (Int × Nat)          -- column_label_dictionary_
  train : Matrix
  deriving Repr

/-- `{token: index for index, token in enumerate(np.unique(labels))}` -/
def learn (labels : List Int) : List (Int × Nat) := enumFrom 0 (sortedUnique labels)

def rowLabels (E : List Edge) : List Int := E.map fun e => e.1
def colLabels (E : List Edge) : List Int := E.map fun e => e.2.1

/-- the dictionaries chosen by fit (:75-111); `checkRows` / `checkCols` = whether the validity
filter is applied to that side (:124-137 after the joint_space repair). -/
def fitDicts (joint : Bool) (rowD colD : Option (List (Int × Nat))) (E : List Edge) :
    Except Err (List (Int × Nat) × List (Int × Nat) × Bool × Bool) :=
  if joint then
    match colD with
    | none =>
      match rowD with
      | none =>
        let d := learn (rowLabels E ++ colLabels E)
        .ok (d, d, false, false)
      | some r => .ok (r, r, true, true)
    | some c =>
      match rowD with
      | none => .ok (c, c, true, true)
      | some _ => .error (.invalid "ValueError: joint_space with two dictionaries")
  else
    let r := match rowD with
      | none => (learn (rowLabels E), false)
      | some r => (r, true)
    let c := match colD with
      | none => (learn (colLabels E), false)
      | some c => (c, true)
    .ok (r.1, c.1, r.2, c.2)

/-- `np.max(list(index_dictionary.keys())) + 1`; np.max of an empty list raises -/
def dimOf (d : List (Int × Nat)) : Except Err Nat :=
  match d with
  | [] => .error (.invalid "ValueError: max of an empty dictionary")
  | _ => .ok (maxPlus1 (d.map (·.2)))

/-- validity filter + index lookup of the pivot: an edge is used iff both labels pass the
filter; an unfiltered label that is missing from its dictionary is a KeyError. -/
def pivot (rowDict colDict : List (Int × Nat)) (checkRows checkCols : Bool) :
    List Edge → Except Err (List Entry)
  | [] => .ok []
  | e :: rest =>
    let vr := !checkRows || (lookup rowDict e.1).isSome
    let vc := !checkCols || (lookup colDict e.2.1).isSome
    match pivot rowDict colDict checkRows checkCols rest with
    | .error err => .error err
    | .ok more =>
      if vr && vc then
        match lookup rowDict e.1 with
        | none => .error (.invalid "KeyError: row label")
        | some r =>
          match lookup colDict e.2.1 with
          | none => .error (.invalid "KeyError: column label")
          | some c => .ok ((r, c, e.2.2) :: more)
      else .ok more

def assembleWith (rowDict colDict : List (Int × Nat)) (es : List Entry) : Except Err Matrix :=
  match dimOf rowDict with
  | .error e => .error e
  | .ok nr =>
    match dimOf colDict with
    | .error e => .error e
    | .ok nc => assemble (some (nr, nc)) es

def fit (joint : Bool) (rowD colD : Option (List (Int × Nat))) (E : List Edge) : Except Err Fitted :=
  match fitDicts joint rowD colD E with
  | .error e => .error e
  | .ok (rd, cd, chkR, chkC) =>
    match pivot rd cd chkR chkC E with
    | .error e => .error e
    | .ok es =>
      match assembleWith rd cd es with
      | .error e => .error e
      | .ok M => .ok { rowDict := rd, colDict := cd, train := M }

/-- `transform(X)`: both sides filtered (:176-180), fitted shape -/
def transform (m : Fitted) (E : List Edge) : Except Err Matrix :=
  match pivot m.rowDict m.colDict true true E with
  | .error e => .error e
  | .ok es => assembleWith m.rowDict m.colDict es

/-- the property's value: the sum of the values of all edges labelled `(r, c)` -/
def edgeSum : List Edge → Int → Int → Rat
  | [], _, _ => 0
  | e :: es, r, c => (if e.1 = r ∧ e.2.1 = c then e.2.2 else 0) + edgeSum es r c

end VecModel.EdgeList
