import VecModel.Lemmas.OT
/-
  C07 — the exact transport plan is a feasible, optimal coupling.

  What is proved here is (i) the glue vectorizers/linear_optimal_transport.py owns around the
  network simplex — the arc ↔ cell map of `get_transport_plan`, its agreement with the map used to
  initialise the costs, the orientation of the cost handed to `transport_plan` — and (ii) the
  soundness of the executable certificate checker `OT.check` with which the correspondence run
  validates every plan the implementation returns.  The network simplex itself (pynndescent) is
  NOT modelled: optimality of its output is certified per input through `check_sound`, never
  proved for the solver (DESIGN.md §5 C07, "partial").
  Helper lemmas: Lemmas/OT.lean.
-/
namespace VecModel.OT

/-- `(i, j) ↦ arc_id(i*m + j)` is a bijection `[0,n) × [0,m) → [0, n*m)`: every cell reads its own
flow entry, inside the first `n*m` entries of the flow array, and every such entry is read. -/
theorem arc_bijective (n m : Nat) :
    (∀ i j, i < n → j < m → 0 ≤ arcOf n m i j ∧ arcOf n m i j < (n * m : Nat)) ∧
    (∀ i j i' j', i < n → j < m → i' < n → j' < m →
      arcOf n m i j = arcOf n m i' j' → i = i' ∧ j = j') ∧
    (∀ k : Nat, k < n * m → ∃ i j, i < n ∧ j < m ∧ arcOf n m i j = (k : Int)) :=
  ⟨fun _ _ hi hj => arcOf_range hi hj,
   fun _ _ _ _ hi hj hi' hj' h => arcOf_inj hi hj hi' hj' h,
   fun _ hk => arcOf_surj hk⟩

/-- The cost array written by `initialize_cost` and the plan read by `get_transport_plan` use the
same arc for cell (i, j): for a cost matrix of the shape of the problem (n = |p|, m = |q|) the
initialisation never writes out of bounds, and reading the cost array back through the plan map
returns the cost matrix itself.  (Both hypotheses matter: the cost side takes its stride from
the cost matrix, the plan side from the graph.) -/
theorem plan_cost_consistent (n m : Nat) (C : Mat) (hC : Shape n m C) :
    ∃ arr, costArray n m C = .ok arr ∧ planOf n m arr = .ok C := by
  obtain ⟨hn, hm⟩ := hC
  cases hCe : C with
  | nil =>
    subst hCe
    simp at hn
    subst hn
    refine ⟨_, by simp [costArray, costWrites]; rfl, ?_⟩
    simp [planOf]
    rfl
  | cons r0 rest =>
    have hr0 : r0.length = m := hm r0 (by rw [hCe]; exact List.mem_cons_self)
    -- every write is the arc of a cell of the n×m grid
    have hws : ∀ k v, (k, v) ∈ costWrites n m C ↔
        ∃ i j row, C[i]? = some row ∧ row[j]? = some v ∧ k = arcOf n m i j := by
      intro k v
      rw [mem_costWrites hCe, hr0]
      rfl
    have hcell : ∀ i j row v, C[i]? = some row → row[j]? = some v → i < n ∧ j < m := by
      intro i j row v h1 h2
      obtain ⟨hi, rfl⟩ := List.getElem?_eq_some_iff.mp h1
      obtain ⟨hj, _⟩ := List.getElem?_eq_some_iff.mp h2
      exact ⟨by omega, by rw [← hm _ (List.getElem_mem hi)]; exact hj⟩
    have hfind : (costWrites n m C).find?
        (fun w => decide (w.1 < 0) || decide (((n * m + 2 * (n + m) : Nat) : Int) ≤ w.1)) = none := by
      rw [List.find?_eq_none]
      intro w hw
      obtain ⟨i, j, row, h1, h2, hk⟩ := (hws w.1 w.2).mp hw
      obtain ⟨hi, hj⟩ := hcell i j row w.2 h1 h2
      have := arcOf_range hi hj
      simp only [Bool.or_eq_true, decide_eq_true_eq, not_or, not_lt, not_le]
      omega
    rw [← hCe]
    have hcost : costArray n m C = .ok (cellArr (n * m + 2 * (n + m)) (costWrites n m C)) := by
      simp only [costArray, hfind]; rfl
    refine ⟨_, hcost, ?_⟩
    unfold planOf
    -- the value read for cell (i, j)
    have hread : ∀ i j (hi : i < C.length) (hj : j < C[i].length),
        rdI "flow" (cellArr (n * m + 2 * (n + m)) (costWrites n m C)) (arcOf n m i j) = .ok C[i][j] := by
      intro i j hi hj
      have hi' : i < n := by omega
      have hj' : j < m := by rw [← hm _ (List.getElem_mem hi)]; exact hj
      have hc := cell_lt hi' hj'
      have harc : arcOf n m i j = ((n * m - 1 - (i * m + j) : Nat) : Int) := by
        unfold arcOf; omega
      have hlast : lastWrite (costWrites n m C) (arcOf n m i j) = some C[i][j] := by
        apply lastWrite_of_functional
        · exact (hws _ _).mpr ⟨i, j, C[i], by simp [hi], by simp [hj], rfl⟩
        · intro v' hv'
          obtain ⟨i2, j2, row, h1, h2, hk⟩ := (hws _ _).mp hv'
          obtain ⟨hi2, hj2⟩ := hcell i2 j2 row v' h1 h2
          obtain ⟨rfl, rfl⟩ := arcOf_inj hi' hj' hi2 hj2 hk
          obtain ⟨_, rfl⟩ := List.getElem?_eq_some_iff.mp h1
          obtain ⟨_, rfl⟩ := List.getElem?_eq_some_iff.mp h2
          rfl
      have hlt : n * m - 1 - (i * m + j) < n * m + 2 * (n + m) := by omega
      rw [harc, rdI_ok (by rw [cellArr_length]; exact hlt), cellArr_get hlt (by rw [← harc]; exact hlast)]
    have hrow : ∀ i ∈ List.range n,
        ((List.range m).mapM fun j =>
          rdI "flow" (cellArr (n * m + 2 * (n + m)) (costWrites n m C)) (arcOf n m i j)) =
        .ok ((List.range m).map fun j => (C[i]?.bind (·[j]?)).getD 0) := by
      intro i hi
      have hi' : i < C.length := by simpa [hn] using hi
      apply mapM_ok_of_forall
      intro j hj
      have hj' : j < C[i].length := by
        rw [hm _ (List.getElem_mem hi')]; simpa using hj
      rw [hread i j hi' hj']
      simp [hi', hj']
    rw [mapM_ok_of_forall _ _ _ hrow]
    congr 1
    apply mat_eq_table hn hm
    intro i j hi hj
    simp [hi, hj]

/-- **Orientation**, general metric: the cost handed to `transport_plan` always has one row per
sample point and one column per reference point; in the branch taken when the sample is not
larger than the reference its (i, j) entry is `d r_j x_i` (the arguments of `d` swapped). -/
theorem orientation_general {α β : Type} (d : α → α → β) (X R : List α) :
    costOriented d X R =
      some (if X.length > R.length then pairwise d X R else pairwise (fun a b => d b a) X R) := by
  unfold costOriented
  split
  · rfl
  · exact transpose_pairwise d X R

/-- **Orientation** for a symmetric `d` (every named metric): in both branches the cost has shape
(|sample|, |reference|) and its (i, j) entry is `d x_i r_j`. -/
theorem orientation {α β : Type} (d : α → α → β) (hsym : ∀ a b, d a b = d b a) (X R : List α) :
    ∃ M, costOriented d X R = some M ∧ M.length = X.length ∧ (∀ row ∈ M, row.length = R.length) ∧
      ∀ i j (hi : i < X.length) (hj : j < R.length), (M[i]?.bind (·[j]?)) = some (d X[i] R[j]) := by
  refine ⟨pairwise d X R, ?_, by simp [pairwise], by simp [pairwise], ?_⟩
  · rw [orientation_general]
    split
    · rfl
    · have : (fun a b => d b a) = d := by funext a b; exact hsym b a
      rw [this]
  · intro i j hi hj
    simp [pairwise, hi, hj]

/-- **Weak duality**: for every coupling `Q` of `p` and `q` and all `δ`-feasible potentials
(`u_i + v_j ≤ C_ij + δ`), `Σ u·p + Σ v·q − δ·Σp ≤ ⟨Q, C⟩` — for all sizes and all costs. -/
theorem weak_duality (p q u v : Vec) (C Q : Mat) (δ : Rat)
    (hQ : Feasible p q Q) (hC : Shape p.length q.length C)
    (hu : u.length = p.length) (hv : v.length = q.length) (hd : DualFeasible δ u v C) :
    dot u p + dot v q - δ * p.sum ≤ inner Q C := by
  obtain ⟨⟨hQn, hQm⟩, hnn, hrows, hcols⟩ := hQ
  have := weak_duality_core δ q.length v hv Q C u (by rw [hQn, hC.1]) (by rw [hQn, hu]) hQm hC.2 hnn hd
  rw [hrows, hcols] at this
  linarith

/-- **Soundness of the certificate checker.**  If `check` accepts `(P, u, v)` then `P` is
approximately feasible (entries `≥ −eps`, both marginals within `eps`) and its cost is within
`eta p δ gap = gap + δ·Σp` of the optimum over **all** couplings `Q` of `p` and `q` — whatever the
sizes, the costs and the origin of the hints `u`, `v`. -/
theorem check_sound (p q : Vec) (C P : Mat) (u v : Vec) (eps δ gap : Rat)
    (h : check p q C P u v eps δ gap = true) :
    (∀ r ∈ P, ∀ x ∈ r, -eps ≤ x) ∧
    (∀ xy ∈ List.zip (rowSums P) p, xy.1 - xy.2 ≤ eps ∧ xy.2 - xy.1 ≤ eps) ∧
    (∀ xy ∈ List.zip (colSums q.length P) q, xy.1 - xy.2 ≤ eps ∧ xy.2 - xy.1 ≤ eps) ∧
    (rowSums P).length = p.length ∧ (colSums q.length P).length = q.length ∧
    ∀ Q, Feasible p q Q → inner P C ≤ inner Q C + eta p δ gap := by
  simp only [check, Bool.and_eq_true, decide_eq_true_eq, beq_iff_eq] at h
  obtain ⟨⟨⟨⟨⟨⟨⟨⟨hC, _hP⟩, hu⟩, hv⟩, hge⟩, hrow⟩, hcol⟩, hdual⟩, hgap⟩ := h
  rw [within_iff] at hrow hcol
  refine ⟨allGE_iff.mp hge, hrow.2, hcol.2, hrow.1, hcol.1, ?_⟩
  intro Q hQ
  have := weak_duality p q u v C Q δ hQ (shapeOK_iff.mp hC) hu hv (dualFeas_iff.mp hdual)
  unfold dualValue at hgap
  unfold eta
  linarith

/-- the zipped form of dual feasibility used above is the index form `u_i + v_j ≤ C_ij + δ` -/
theorem dualFeasible_cells (δ : Rat) (u v : Vec) (C : Mat) (h : DualFeasible δ u v C)
    (i j : Nat) (hi : i < u.length) (hi' : i < C.length) (hj : j < v.length) (hj' : j < C[i].length) :
    u[i] + v[j] ≤ C[i][j] + δ :=
  dualFeasible_index h i j hi hi' hj hj'

/-- entrywise agreement within tolerance 0 is equality -/
theorem eq_of_within_zero : ∀ (a b : Vec), a.length = b.length →
    (∀ xy ∈ List.zip a b, xy.1 - xy.2 ≤ 0 ∧ xy.2 - xy.1 ≤ 0) → a = b
  | [], [], _, _ => rfl
  | [], _ :: _, h, _ => by simp at h
  | _ :: _, [], h, _ => by simp at h
  | x :: a, y :: b, h, hz => by
    have h1 := hz (x, y) (by simp)
    have hxy : x = y := le_antisymm (by linarith [h1.1]) (by linarith [h1.2])
    subst hxy
    rw [eq_of_within_zero a b (by simpa using h) (fun xy hm => hz xy (by simp [hm]))]

/-- **Exact mode of the certificate checker.**  With all three tolerances 0 an accepted `(P, u, v)`
makes `P` an exact coupling of `p` and `q` (`Feasible`) that no coupling beats (`Optimal`) — the
statement of the property itself, for all sizes and costs.  (The correspondence run uses non-zero
tolerances only because the implementation computes in float64; `check_sound` is that case.) -/
theorem check_exact_optimal (p q : Vec) (C P : Mat) (u v : Vec)
    (h : check p q C P u v 0 0 0 = true) : Optimal p q C P := by
  have hs := check_sound p q C P u v 0 0 0 h
  simp only [check, Bool.and_eq_true, decide_eq_true_eq, beq_iff_eq] at h
  obtain ⟨⟨⟨⟨⟨⟨⟨⟨_hC, hP⟩, _hu⟩, _hv⟩, _hge⟩, _hrow⟩, _hcol⟩, _hdual⟩, _hgap⟩ := h
  obtain ⟨hge, hrow, hcol, hrl, hcl, hopt⟩ := hs
  refine ⟨⟨shapeOK_iff.mp hP, ?_, eq_of_within_zero _ _ hrl hrow, eq_of_within_zero _ _ hcl hcol⟩, ?_⟩
  · intro r hr x hx
    simpa using hge r hr x hx
  · intro Q hQ
    have := hopt Q hQ
    simpa [eta] using this

/-- A coupling exists only between measures of equal total mass: `Σp = ΣQ = Σq`.  (This is why
`lot_vectors_*` normalise both the item and the reference distribution before `transport_plan`;
with unequal masses the quantifier "every coupling Q" in `check_sound` would be empty.) -/
theorem feasible_mass_balance (p q : Vec) (Q : Mat) (h : Feasible p q Q) : p.sum = q.sum := by
  obtain ⟨⟨_, hm⟩, _, hr, hc⟩ := h
  have := sum_colSums hm
  rw [hc, hr] at this
  exact this.symm

/-- The optimal cost is a function of `(p, q, C)` alone: two optimal plans (e.g. the two vertices
of a tie, or the plans of two solver runs) have the same cost. -/
theorem optimal_cost_unique (p q : Vec) (C P P' : Mat) (h : Optimal p q C P) (h' : Optimal p q C P') :
    inner P C = inner P' C :=
  le_antisymm (h.2 P' h'.1) (h'.2 P h.1)

/-- Two certified plans for the same problem differ in cost by at most the certified slack: if
`P'` is an exact coupling and `(P, u, v)` is accepted, then `⟨P,C⟩ − ⟨P',C⟩ ≤ eta`; with `P` exact
and `P'` accepted too (any hints `u'`, `v'`), `|⟨P,C⟩ − ⟨P',C⟩| ≤ max eta eta'`. -/
theorem certified_costs_close (p q : Vec) (C P P' : Mat) (u v u' v' : Vec) (eps δ gap eps' δ' gap' : Rat)
    (h : check p q C P u v eps δ gap = true) (h' : check p q C P' u' v' eps' δ' gap' = true)
    (hP : Feasible p q P) (hP' : Feasible p q P') :
    inner P C - inner P' C ≤ eta p δ gap ∧ inner P' C - inner P C ≤ eta p δ' gap' := by
  have a := (check_sound p q C P u v eps δ gap h).2.2.2.2.2 P' hP'
  have b := (check_sound p q C P' u' v' eps' δ' gap' h').2.2.2.2.2 P hP
  constructor <;> linarith

/-! ### Non-vacuity: a 2×3 instance with a tie (every coupling costs 3/2) and a zero-mass entry -/

def exP : Vec := [1/2, 1/2]
def exQ : Vec := [1/2, 1/2, 0]
def exC : Mat := [[1, 2, 3], [1, 2, 3]]
def exPlan : Mat := [[1/2, 0, 0], [0, 1/2, 0]]
def exPlan2 : Mat := [[0, 1/2, 0], [1/2, 0, 0]]

/-- the checker accepts an optimal vertex with exact duals and zero tolerances, the hypotheses of
`weak_duality` are satisfiable (two different couplings: a tie), a non-optimal-looking certificate
and a mis-indexed plan (transposed arc formula `i*n + j` on a 2×3 problem) are rejected. -/
example :
    check exP exQ exC exPlan [0, 0] [1, 2, 3] 0 0 0 = true ∧
    Feasible exP exQ exPlan ∧ Feasible exP exQ exPlan2 ∧
    DualFeasible 0 [0, 0] [1, 2, 3] exC ∧
    inner exPlan exC = 3/2 ∧ inner exPlan2 exC = 3/2 ∧
    check exP exQ exC exPlan [0, 0] [0, 0, 0] 0 0 0 = false ∧
    check exP exQ exC [[1/2, 0, 1/2], [0, 0, 0]] [0, 0] [1, 2, 3] (1/1000000000) 0 1 = false ∧
    (planOf 2 3 [0, 0, 1/2, 0, 0, 1/2, 9, 9]).toOption = some [[1/2, 0, 0], [1/2, 0, 0]] ∧
    (costArray 2 3 exC).toOption = some [3, 2, 1, 3, 2, 1, 1, 1, 1, 1, 1, 1, 1, 1, 1, 1] := by
  refine ⟨by decide +kernel, ⟨⟨rfl, by decide⟩, ?_, by decide +kernel, by decide +kernel⟩,
    ⟨⟨rfl, by decide⟩, ?_, by decide +kernel, by decide +kernel⟩, ?_,
    by decide +kernel, by decide +kernel, by decide +kernel, by decide +kernel, by decide +kernel,
    by decide +kernel⟩
  · unfold NonNeg; decide +kernel
  · unfold NonNeg; decide +kernel
  · unfold DualFeasible; decide +kernel

/-- the exact-mode theorem applies to the tie instance: both vertices are optimal, with equal cost,
and masses balance -/
example : Optimal exP exQ exC exPlan ∧ Optimal exP exQ exC exPlan2 ∧ exP.sum = exQ.sum ∧
    inner exPlan exC = inner exPlan2 exC := by
  have h1 : Optimal exP exQ exC exPlan :=
    check_exact_optimal _ _ _ _ [0, 0] [1, 2, 3] (by decide +kernel)
  have h2 : Optimal exP exQ exC exPlan2 :=
    check_exact_optimal _ _ _ _ [0, 0] [1, 2, 3] (by decide +kernel)
  exact ⟨h1, h2, feasible_mass_balance _ _ _ h1.1, optimal_cost_unique _ _ _ _ _ h1 h2⟩

end VecModel.OT
