import VecModel.Lemmas.Tree
import VecModel.Lemmas.TreeRemove
import VecModel.Lemmas.TreePath
import VecModel.Lemmas.TreeOk
import VecModel.Lemmas.TreeCooc
/-
  C15 — Labelled-tree co-occurrence counts kernel-weighted walks between labels.
  Property theorems (helper lemmas in Lemmas/Tree.lean); see DESIGN.md §5 C15.

  Vocabulary: `walks n A k u v` = number of directed walks with `k` steps from node `u` to node `v`
  (recursion on the first step); `walkSum n A ws 1 u v = Σ_{k=1..r} ws[k-1] · walks k u v`;
  `treeTerm ws la lb t` = `Σ_{u,v<n, label u = la, label v = lb} walkSum … u v`;
  `forestTerm` = its sum over the trees.  `dict` is the label dictionary in index order.
-/
namespace VecModel.Tree

/-- the matrix powers computed by `build_tree_skip_grams` (right multiplications) count walks:
cell `(u,v)` of the count matrix is `Σ_{k=1..r} w_k · walks k u v`, for every radius ≥ 1 -/
theorem build_counts_walks {n : Nat} {A : Mat} {ws : List Rat} {C : Mat} (h : build n A ws = .ok C)
    {u v : Nat} (hu : u < n) (hv : v < n) :
    ent C u v = walkSum n A ws 1 u v :=
  build_spec h hu hv

/-- `sparse_collapse`'s indicator matrix is the one-hot encoding of the labels also in
LabelBinarizer's one-class and two-class special cases -/
theorem collapse_indicator {labels : List Nat} {u a l c : Nat}
    (hu : labels[u]? = some l) (ha : (classesOf labels)[a]? = some c) :
    ent (transMat (classesOf labels) labels) u a = if l = c then 1 else 0 :=
  transMat_spec (classesOf_nodup labels) (fun _ h => mem_classesOf.mpr h) hu ha

/-- **Entry formula** (`window_orientation='after'`, no nullified mask): entry `(a, b)` of the
result is the sum over all trees and all ordered node pairs (`u` labelled `a`, `v` labelled `b`)
of `Σ_{k ≤ radius} w_k · (number of directed walks of k steps from u to v)`. -/
theorem entry_formula {ws : List Rat} {dict : List Nat} {trees : List TreeIn} {G : Mat}
    (h : cooc ws dict none .after trees = .ok G) (hd : dict.Nodup) {p q la lb : Nat}
    (hp : dict[p]? = some la) (hq : dict[q]? = some lb) :
    ent G p q = forestTerm ws la lb trees := by
  unfold cooc at h
  cases h1 : sumTrees ws dict trees with
  | error e => rw [h1] at h; cases h
  | ok G1 =>
    rw [h1] at h
    simp only [Except.bind, orientMat, Except.ok.injEq] at h
    subst h
    exact sumTrees_entry h1 hd hp hq

/-- with `nullify_mask` the mask's row and column are zero and every other entry is unchanged -/
theorem nullify_entries {ws : List Rat} {dict : List Nat} {trees : List TreeIn} {G : Mat} {m : Nat}
    (h : cooc ws dict (some m) .after trees = .ok G) (hd : dict.Nodup) {p q la lb : Nat}
    (hp : dict[p]? = some la) (hq : dict[q]? = some lb) :
    ent G p q = if p = m ∨ q = m then 0 else forestTerm ws la lb trees := by
  have hp' := (List.getElem?_eq_some_iff.mp hp).1
  have hq' := (List.getElem?_eq_some_iff.mp hq).1
  unfold cooc at h
  cases h1 : sumTrees ws dict trees with
  | error e => rw [h1] at h; cases h
  | ok G1 =>
    rw [h1] at h
    simp only [Except.bind, orientMat, Except.ok.injEq] at h
    subst h
    unfold nullify
    rw [ent_ofFn hp' hq', sumTrees_entry h1 hd hp hq]

/-- `'before'` is the transpose of `'after'` -/
theorem before_transpose (ws : List Rat) (dict : List Nat) (mi : Option Nat) (trees : List TreeIn) :
    cooc ws dict mi .before trees =
      (cooc ws dict mi .after trees).map (transpose dict.length dict.length) := by
  unfold cooc
  cases sumTrees ws dict trees <;> rfl

theorem before_transpose_entry {ws : List Rat} {dict : List Nat} {mi : Option Nat}
    {trees : List TreeIn} {Ga Gb : Mat}
    (ha : cooc ws dict mi .after trees = .ok Ga) (hb : cooc ws dict mi .before trees = .ok Gb)
    {p q : Nat} (hp : p < dict.length) (hq : q < dict.length) : ent Gb p q = ent Ga q p := by
  rw [before_transpose, ha] at hb
  simp only [Except.map, Except.ok.injEq] at hb
  subst hb
  exact ent_transpose hp hq

/-- `'symmetric'` is the sum of `'after'` and `'before'` -/
theorem symmetric_sum (ws : List Rat) (dict : List Nat) (mi : Option Nat) (trees : List TreeIn) :
    cooc ws dict mi .symmetric trees =
      (cooc ws dict mi .after trees).map
        (fun G => add dict.length dict.length G (transpose dict.length dict.length G)) := by
  unfold cooc
  cases sumTrees ws dict trees <;> rfl

theorem symmetric_sum_entry {ws : List Rat} {dict : List Nat} {mi : Option Nat}
    {trees : List TreeIn} {Ga Gs : Mat}
    (ha : cooc ws dict mi .after trees = .ok Ga) (hs : cooc ws dict mi .symmetric trees = .ok Gs)
    {p q : Nat} (hp : p < dict.length) (hq : q < dict.length) :
    ent Gs p q = ent Ga p q + ent Ga q p := by
  rw [symmetric_sum, ha] at hs
  simp only [Except.map, Except.ok.injEq] at hs
  subst hs
  rw [ent_add hp hq, ent_transpose hp hq]

/-- `'directional'` is `[before | after]` side by side: columns `0..N-1` hold `'before'`
(`pre_` labels), columns `N..2N-1` hold `'after'` (`post_` labels) -/
theorem directional_concat (ws : List Rat) (dict : List Nat) (mi : Option Nat) (trees : List TreeIn) :
    cooc ws dict mi .directional trees =
      (cooc ws dict mi .after trees).map
        (fun G => hstack (transpose dict.length dict.length G) G) := by
  unfold cooc
  cases sumTrees ws dict trees <;> rfl

theorem directional_concat_entry {ws : List Rat} {dict : List Nat} {mi : Option Nat}
    {trees : List TreeIn} {Ga Gd : Mat}
    (ha : cooc ws dict mi .after trees = .ok Ga) (hdir : cooc ws dict mi .directional trees = .ok Gd)
    {p q : Nat} (hp : p < dict.length) (hq : q < dict.length) :
    ent Gd p q = ent Ga q p ∧ ent Gd p (dict.length + q) = ent Ga p q := by
  rw [directional_concat, ha] at hdir
  simp only [Except.map, Except.ok.injEq] at hdir
  subst hdir
  have hlen : Ga.length = dict.length := by
    unfold cooc at ha
    cases h1 : sumTrees ws dict trees with
    | error e => rw [h1] at ha; cases ha
    | ok G1 =>
      rw [h1] at ha
      simp only [Except.bind, orientMat, Except.ok.injEq] at ha
      subst ha
      cases mi with
      | none => exact (sumTrees_shape h1).1
      | some m => exact (ofFn_shape _ _ _).1
  have hT : IsShape dict.length dict.length (transpose dict.length dict.length Ga) :=
    ofFn_shape _ _ _
  constructor
  · rw [ent_hstack hT hlen hp]
    simp only [hq, if_true]
    exact ent_transpose hp hq
  · rw [ent_hstack hT hlen hp]
    have : ¬ dict.length + q < dict.length := by omega
    simp [this]

/-- the estimator (`mask_string=None`): the entry formula holds on the *pruned* trees, i.e. on the
forests in which every node whose label is outside the vocabulary has been removed by `remove_node` -/
theorem vectorize_entry {ws : List Rat} {dict : List Nat} {trees : List TreeIn} {G : Mat}
    (h : vectorize ws dict none false .after trees = .ok G) (hd : dict.Nodup) {p q la lb : Nat}
    (hp : dict[p]? = some la) (hq : dict[q]? = some lb) :
    ∃ ts, trees.mapM (preprocess dict none) = .ok ts ∧ ent G p q = forestTerm ws la lb ts := by
  unfold vectorize at h
  cases h1 : trees.mapM (preprocess dict none) with
  | error e => rw [h1] at h; cases h
  | ok ts =>
    rw [h1] at h
    simp only [Except.bind] at h
    exact ⟨ts, rfl, entry_formula h hd hp hq⟩

/-- **The estimator is total on well-formed forests and the entry formula holds for its result**
(`mask_string=None`, any radius ≥ 1, any weights, any vocabulary): no IndexError in `remove_node`,
no KeyError in the alignment (removed nodes are isolated, so no stored cell carries a pruned label),
and entry `(a,b)` is the kernel-weighted walk count over the pruned trees. -/
theorem vectorize_total_entry {ws : List Rat} {dict : List Nat} {trees : List TreeIn}
    (hws : ws ≠ []) (hwf : ∀ t ∈ trees, WellFormed t) (hd : dict.Nodup) :
    ∃ ts G, trees.mapM (preprocess dict none) = .ok ts ∧
      vectorize ws dict none false .after trees = .ok G ∧
      ∀ p q la lb, dict[p]? = some la → dict[q]? = some lb → ent G p q = forestTerm ws la lb ts := by
  obtain ⟨ts, G, hts, _, hG⟩ := vectorize_total (dict := dict) .after hws hwf
  refine ⟨ts, G, hts, hG, ?_⟩
  intro p q la lb hp hq
  obtain ⟨ts', hts', e⟩ := vectorize_entry hG hd hp hq
  rw [hts] at hts'
  cases hts'
  exact e

/-! ### node removal -/

/-- **Edge set after `remove_node(adj, x)`** (rows without repeated columns):
`E' = (E minus the edges at x) ∪ {(p,c) | (p,x) ∈ E, (x,c) ∈ E, c ≠ x}` — every parent of the
removed node is reconnected to every child of it. -/
theorem removeNode_edges {L L' : Lil} {x : Nat} (hnd : NoDupCols L)
    (h : removeNode L x = .ok L') (u v : Nat) :
    HasEdge L' u v ↔
      (u ≠ x ∧ v ≠ x ∧ HasEdge L u v) ∨ (u ≠ x ∧ v ≠ x ∧ HasEdge L u x ∧ HasEdge L x v) :=
  removeNode_hasEdge hnd h u v

/-- `remove_node` succeeds exactly when the node index is a row of the matrix -/
theorem removeNode_ok {L : Lil} {x : Nat} (hx : x < L.length) : ∃ L', removeNode L x = .ok L' := by
  unfold removeNode
  rw [List.getElem?_eq_getElem hx]
  exact ⟨_, rfl⟩

/-- **Reachability through a removed node is preserved**: for `u, v ≠ x`, `v` is reachable from `u`
after the removal iff it was before (any graph whose rows have no repeated columns). -/
theorem removeNode_reach {L L' : Lil} {x : Nat} (hnd : NoDupCols L)
    (h : removeNode L x = .ok L') {u v : Nat} (hu : u ≠ x) (hv : v ≠ x) :
    Reach L' u v ↔ Reach L u v :=
  removeNode_reach_iff hnd h hu hv

/-- … lifted to **any set of removed nodes** on a rooted forest (edges parent → child: every node has
at most one predecessor), by induction over the removals; removed nodes end up isolated, so they
contribute nothing to any walk count. -/
theorem removeNodes_reach {L L' : Lil} {xs : List Nat} (hnd : NoDupCols L) (hin : InDeg1 L)
    (h : removeNodes L xs = .ok L') :
    (∀ u v, u ∉ xs → v ∉ xs → (Reach L' u v ↔ Reach L u v)) ∧
    (∀ x ∈ xs, ∀ w, ¬ HasEdge L' x w ∧ ¬ HasEdge L' w x) :=
  ⟨fun _ _ hu hv => (removeNodes_reach_iff hnd hin h hu hv).1,
   fun _ hx w => removeNodes_isolated hnd hin h hx w⟩

/-- the same for forests whose edges point child → parent (every row stores at most one entry) -/
theorem removeNodes_reach_intree {L L' : Lil} {xs : List Nat} (hout : OutDeg1 L)
    (h : removeNodes L xs = .ok L') (u v : Nat) (hu : u ∉ xs) (hv : v ∉ xs) :
    Reach L' u v ↔ Reach L u v :=
  (removeNodes_reach_iff_out hout h hu hv).1

/-! ### path graphs = token sequences -/

/- `tokenAfter ws la lb seq` (Lemmas/TreePath.lean) is the token co-occurrence definition for
`window_orientation='after'`, fixed radius `r = ws.length`, no window normalisation:
`Σ_i [seq_i = la] Σ_{d=1..r} w_d [seq_{i+d} = lb]`. -/

/-- on the path `0 → 1 → … → n-1` there is exactly one walk of `k` steps from `u`, ending at `u+k` -/
theorem path_walks {n : Nat} (k : Nat) {u v : Nat} (hu : u < n) (hv : v < n) :
    walks n (adjMat n (pathLil n)) k u v = if u + k = v then 1 else 0 :=
  walks_path k hu hv

/-- **On path graphs the tree vectorizer coincides with the token co-occurrence definition** -/
theorem path_eq_token (ws : List Rat) (la lb : Nat) (seq : List Nat) :
    treeTerm ws la lb (pathTree seq) = tokenAfter ws la lb seq := by
  unfold treeTerm tokenAfter
  show (sumTo seq.length fun u => sumTo seq.length fun v =>
    if seq[u]? = some la ∧ seq[v]? = some lb
    then walkSum seq.length (adjMat seq.length (pathLil seq.length)) ws 1 u v else 0) = _
  apply sumTo_congr
  intro u hu
  by_cases e : seq[u]? = some la
  · simp only [e, true_and, if_true]
    exact path_row seq lb ws 1 hu
  · simp [e, sumTo_zero]

/-- … for whole corpora of sequences, at the level of the output matrix -/
theorem path_corpus_eq_token {ws : List Rat} {dict : List Nat} {seqs : List (List Nat)} {G : Mat}
    (h : cooc ws dict none .after (seqs.map pathTree) = .ok G) (hd : dict.Nodup) {p q la lb : Nat}
    (hp : dict[p]? = some la) (hq : dict[q]? = some lb) :
    ent G p q = seqs.foldr (fun s acc => tokenAfter ws la lb s + acc) 0 := by
  rw [entry_formula h hd hp hq]
  unfold forestTerm
  clear h
  induction seqs with
  | nil => rfl
  | cons s ss ih => simp only [List.map_cons, List.foldr_cons, path_eq_token, ih]

/-! ### path graphs = C03's definition

`path_eq_token` above compares the tree model with `tokenAfter`, an expression private to this model.
The theorems below tie it to **C03's declarative definition** `Cooc.spec` / `Cooc.specPlain`
(Model/Cooc.lean — the right-hand side of C03's `events_eq_spec`, which the token vectorizer's event
loop is proved equal to) for the configuration `afterCfg n r w`: a single block, orientation
'after', fixed radius `r`, mix weight 1, no mask, offset 0, no kernel normalisation, no window
normalisation, positional base weights `w` (Lemmas/TreeCooc.lean).  Label codes are used as token
ids on the C03 side; `n` (the C03 vocabulary size) is arbitrary because there is one column block. -/

/-- **On path graphs the tree vectorizer is C03's `Cooc.spec`**: for every radius `r`, every
non-negative positional weight function `w`, every sequence and every label pair, the walk-count
term of the path tree equals the cell `(la, lb)` of C03's definition on the one-sequence corpus. -/
theorem path_eq_cooc_spec (n r : Nat) (w : Nat → Rat) (hw : ∀ k, 0 ≤ w k) (la lb : Nat)
    (seq : List Nat) :
    treeTerm ((List.range r).map w) la lb (pathTree seq) =
      Cooc.spec (afterCfg n r w) (Cooc.untimed [seq]) la lb := by
  rw [path_eq_token, tokenAfter_eq_cooc_spec n r w hw]

/-- … for every weight list `ws` (radius `ws.length`, any signs) against the unfiltered definition -/
theorem path_eq_cooc_specPlain (n : Nat) (ws : List Rat) (la lb : Nat) (seq : List Nat) :
    treeTerm ws la lb (pathTree seq) =
      Cooc.specPlain
        (afterCfg n ws.length fun k => (match ws[k]? with | some x => x | none => 0))
        (Cooc.untimed [seq]) la lb := by
  rw [path_eq_token]
  conv => lhs; rw [weights_as_fn ws]
  exact tokenAfter_eq_cooc_specPlain n ws.length _ la lb seq

/-- … for the kernels of the library: with the weight vector `kernel_function(-ones(r))` of the
flat, harmonic or geometric (power ≥ 0) kernel the tree model on a path is C03's definition with that
kernel's base weights (`Window.Kernel.base`, the weights `Driver/Cooc` hands to `Cooc.spec`). -/
theorem path_eq_cooc_spec_kernel (kern : Window.Kernel) (hp : ∀ p, kern = .geometric p → 0 ≤ p)
    (n r : Nat) (la lb : Nat) (seq : List Nat) :
    treeTerm (kernelWeights kern r) la lb (pathTree seq) =
      Cooc.spec (afterCfg n r kern.base) (Cooc.untimed [seq]) la lb :=
  path_eq_cooc_spec n r kern.base (kernel_base_nonneg kern hp) la lb seq

/-- … for whole corpora, at the level of the output matrix: entry `(p, q)` of the tree vectorizer on
the path forest of `seqs` is the cell of C03's definition on the corpus `seqs` for the labels with
dictionary indices `p`, `q`. -/
theorem path_corpus_eq_cooc_spec {n r : Nat} {w : Nat → Rat} (hw : ∀ k, 0 ≤ w k) {dict : List Nat}
    {seqs : List (List Nat)} {G : Mat}
    (h : cooc ((List.range r).map w) dict none .after (seqs.map pathTree) = .ok G) (hd : dict.Nodup)
    {p q la lb : Nat} (hp : dict[p]? = some la) (hq : dict[q]? = some lb) :
    ent G p q = Cooc.spec (afterCfg n r w) (Cooc.untimed seqs) la lb := by
  rw [path_corpus_eq_token h hd hp hq, tokenAfter_corpus_eq_cooc_spec n r w hw]

/-! ### Non-vacuity

A branching 5-node tree `0→1, 1→2, 1→3, 3→4` labelled `a x b c d` (codes `0 4 1 2 3`), vocabulary
`a b c d`: the internal node `1` (label `x`) is removed; its parent `0` is reconnected to its
children `2` and `3`.  Radius 3, flat kernel. -/

def exTree : TreeIn :=
  { n := 5, lil := [[(1, 1)], [(2, 1), (3, 1)], [], [(4, 1)], []], labels := [0, 4, 1, 2, 3] }

example :
    nodesToRemove [0, 1, 2, 3] exTree.labels = [1] ∧
    (removeNodes exTree.lil [1]).toOption = some [[(2, 1), (3, 1)], [], [], [(4, 1)], []] ∧
    (removeNodes exTree.lil [1, 3]).toOption = some [[(2, 1), (4, 1)], [], [], [], []] := by
  decide

example : NoDupCols exTree.lil ∧ InDeg1 exTree.lil := by
  constructor
  · intro row hrow
    simp only [exTree, List.mem_cons, List.not_mem_nil, or_false] at hrow
    rcases hrow with rfl | rfl | rfl | rfl | rfl <;> decide
  · intro i j c ⟨ri, hi, ci⟩ ⟨rj, hj, cj⟩
    simp only [exTree] at hi hj
    match i, j with
    | 0, 0 | 1, 1 | 2, 2 | 3, 3 | 4, 4 => rfl
    | 0, 1 | 0, 3 | 1, 0 | 1, 3 | 3, 0 | 3, 1 =>
      simp at hi hj; subst hi hj; simp [cols] at ci cj; omega
    | 2, _ | 4, _ => simp at hi; subst hi; simp [cols] at ci
    | 0, 2 | 0, 4 | 1, 2 | 1, 4 | 3, 2 | 3, 4 => simp at hj; subst hj; simp [cols] at cj
    | i + 5, _ => simp at hi
    | 0, j + 5 | 1, j + 5 | 3, j + 5 => simp at hj

example :
    (vectorize [1, 1, 1] [0, 1, 2, 3] none false .after [exTree]).toOption =
      some [[0, 1, 1, 1], [0, 0, 0, 0], [0, 0, 0, 1], [0, 0, 0, 0]] := by
  decide +kernel

/-- the path `a b a c` (codes `0 1 0 2`), radius 2, harmonic kernel: the tree model, the token-side
expression and C03's definition give the same non-zero cells; the hypotheses of
`path_eq_cooc_spec_kernel` hold (harmonic: no power), and the output matrix of the tree vectorizer
on the two-path forest is C03's definition on the two-sequence corpus -/
example :
    treeTerm (kernelWeights .harmonic 2) 0 1 (pathTree [0, 1, 0, 2]) = 1 ∧
    treeTerm (kernelWeights .harmonic 2) 0 2 (pathTree [0, 1, 0, 2]) = 1 ∧
    treeTerm (kernelWeights .harmonic 2) 1 2 (pathTree [0, 1, 0, 2]) = 1 / 2 ∧
    Cooc.spec (afterCfg 3 2 (Window.Kernel.base .harmonic)) (Cooc.untimed [[0, 1, 0, 2]]) 0 1 = 1 ∧
    Cooc.spec (afterCfg 3 2 (Window.Kernel.base .harmonic)) (Cooc.untimed [[0, 1, 0, 2]]) 1 2 = 1 / 2 ∧
    (cooc (kernelWeights .harmonic 2) [0, 1, 2] none .after ([[0, 1, 0, 2], [2, 0]].map pathTree)).toOption =
      some [[1 / 2, 1, 1], [1, 0, 1 / 2], [1, 0, 0]] ∧
    Cooc.spec (afterCfg 3 2 (Window.Kernel.base .harmonic)) (Cooc.untimed [[0, 1, 0, 2], [2, 0]]) 2 0 = 1 := by
  refine ⟨by decide +kernel, by decide +kernel, by decide +kernel, by decide +kernel,
    by decide +kernel, by decide +kernel, by decide +kernel⟩

example : ∀ p, Window.Kernel.harmonic = .geometric p → 0 ≤ p := by
  intro p h; cases h

end VecModel.Tree
